"""C11 - seeding creates every selected tile, nothing else, and survives interruption.

spec/Seeder.tla models TileWalker.walk/_walk/_filter_subtiles, SeedProgress, ProgressLog/ProgressStore and the
restart in seed() as a state machine (explicit stack; one action per decision of the code).  The pyramid
relation of a "world" (grid x meta size x coverage x levels x skip_geoms_for_last_levels) is measured on the
REAL grid and coverage objects and given to TLC as constants; the sets the property speaks about (must /
must-not be requested) are computed independently of grid walk and walker by brute force over all meta tiles
of the seeded levels with an exact rectangle test (lattice worlds) or shapely with a don't-care band (real
float grids).

(M)  TLC explores, for every lattice world, all interruption points x all save/no-save decisions of the
     progress throttle x the continued runs and checks CompleteRunExact, NoOutside, ResumeCovers, ...
(R)  spec -> code: TLC behaviours (simulation with planned interruption points) are executed on the real
     seed()/TileWalker/SeedProgress/ProgressLog/ProgressStore with a stub worker pool, a virtual clock that makes
     the throttle take the spec's decision and a real progress file; after EVERY action level_progresses,
     the identifier read back from the file and the handed list are compared with the spec state.
(T)  code -> spec: seeded random real grids (mercator, geodetic, sqrt2, custom lists, ul origin) and coverages
     (bbox, polygons, multi coverages, other SRS) are seeded with random interruptions; one event per spec
     action is recorded by interposition and the batch is validated by TLC against spec/trace/Trace_Seeder.tla
     with all invariants evaluated on the recorded states.
"""
import contextlib
import io
import json
import math
import os
import re

from engine import tlc, tla

SPEC = os.path.join(tlc.SPEC_DIR, 'Seeder.tla')
TRACE_SPEC = os.path.join(tlc.SPEC_DIR, 'trace', 'Trace_Seeder.tla')

NOTILE = (-1, -1, -1)
NONEP = [[-1, -1]]


def tkey(t):
    return '<<%d, %d, %d>>' % tuple(t)


def akey(level, box):
    return '<<%d, %d, %d, %d, %d>>' % ((level,) + tuple(box))


# ------------------------------------------------------------------------------------------------
# worlds: real objects
# ------------------------------------------------------------------------------------------------
class StubTileManager(object):
    """What TileWalker needs of a tile manager; nothing is cached, nothing is created."""

    def __init__(self, grid, meta_size):
        from mapproxy.grid import MetaGrid
        self.grid = grid
        self.meta_grid = MetaGrid(grid, meta_size=meta_size, meta_buffer=0) if meta_size else None
        self.rescale_tiles = 0
        self.minimize_meta_requests = False
        self._expire_timestamp = None

    def is_cached(self, tile):
        return False

    def is_stale(self, tile):
        return False

    def cleanup(self):
        pass

    @contextlib.contextmanager
    def session(self):
        yield


class WorldDef(object):
    """A seeding configuration with real objects.

    cov_rects: for lattice worlds the coverage as a list of integer rectangles (exact oracle)
    cov_geom:  for float worlds the coverage as a shapely geometry in the grid SRS (oracle with a band)
    """

    def __init__(self, name, grid, meta_size, coverage, levels, skip=0, cov_rects=None, cov_geom=None, desc=None):
        self.name = name
        self.grid = grid
        self.meta_size = tuple(meta_size)
        self.coverage = coverage
        self.levels = list(levels)
        self.skip = skip
        self.cov_rects = cov_rects
        self.cov_geom = cov_geom
        self.desc = desc or {}
        self.lattice = cov_rects is not None

    def task(self):
        from mapproxy.seed.seeder import SeedTask
        tm = StubTileManager(self.grid, self.meta_size)
        md = dict(name='t_' + self.name, cache_name='c', grid_name='g')
        return SeedTask(md, tm, list(self.levels), None, False, self.coverage)


# --- independent geometry of a tile grid (not grid.py's tile_bbox / get_affected_level_tiles) -------
def level_meta_size(wd, z):
    gs = wd.grid.grid_sizes[z]
    return min(wd.meta_size[0], gs[0]), min(wd.meta_size[1], gs[1])


def meta_tiles_of_level(wd, z):
    gs = wd.grid.grid_sizes[z]
    mx, my = level_meta_size(wd, z)
    return [(x, y, z) for y in range(0, gs[1], my) for x in range(0, gs[0], mx)]


def meta_rect(wd, t):
    """bbox of the meta tile with main tile t, from the grid definition (bbox, origin, res, tile size)."""
    g = wd.grid
    x, y, z = t
    mx, my = level_meta_size(wd, z)
    res = g.resolutions[z]
    sx, sy = res * g.tile_size[0], res * g.tile_size[1]
    x0 = g.bbox[0] + x * sx
    x1 = g.bbox[0] + (x + mx) * sx
    if g.origin == 'ul':
        y1 = g.bbox[3] - y * sy
        y0 = g.bbox[3] - (y + my) * sy
    else:
        y0 = g.bbox[1] + y * sy
        y1 = g.bbox[1] + (y + my) * sy
    return (x0, y0, x1, y1)


def _overlap_open(a, b):
    return a[0] < b[2] and b[0] < a[2] and a[1] < b[3] and b[1] < a[3]


def _overlap_closed(a, b):
    return a[0] <= b[2] and b[0] <= a[2] and a[1] <= b[3] and b[1] <= a[3]


def _inset(r, d):
    return (r[0] + d, r[1] + d, r[2] - d, r[3] - d)


class Oracle(object):
    """must / mustcoarse / mustnot by brute force over all meta tiles of the seeded levels."""

    def __init__(self, wd):
        self.wd = wd
        if not wd.lattice:
            import shapely.geometry
            self._sg = shapely.geometry
            self.geom = wd.cov_geom

    # positive-area overlap of the rectangle inset by d with the coverage
    def overlaps(self, rect, d):
        r = _inset(rect, d)
        if r[0] >= r[2] or r[1] >= r[3]:
            return False
        if self.wd.lattice:
            return any(_overlap_open(r, c) for c in self.wd.cov_rects)
        span = max(rect[2] - rect[0], rect[3] - rect[1])
        return self.geom.intersection(self._sg.box(*r)).area > 1e-9 * span * span

    def away(self, rect):
        """rect and coverage do not even touch"""
        if self.wd.lattice:
            return not any(_overlap_closed(rect, c) for c in self.wd.cov_rects)
        span = max(rect[2] - rect[0], rect[3] - rect[1])
        return self.geom.distance(self._sg.box(*rect)) > 1e-6 * span

    def sets(self):
        wd = self.wd
        g = wd.grid
        levels = wd.levels
        # float worlds: a don't-care band between 1/10 and 2/10 pixel (ties of float arithmetic)
        f = 1.0 if wd.lattice else 2.0
        d0 = g.resolutions[0] / 10.0
        # deepest level whose tiles are tested against the geometry: len(levels remaining) >= skip
        tested = [z for z in range(0, levels[-1] + 1) if len([l for l in levels if l >= z]) >= wd.skip]
        deepest = max(tested) if tested else None
        root = tuple(wd.coverage.extent.bbox_for(g.srs))
        must, coarse, mustnot = [], [], []
        anc_cache = {}
        for z in levels:
            d = g.resolutions[z] / 10.0
            for t in meta_tiles_of_level(wd, z):
                r = meta_rect(wd, t)
                if self.overlaps(r, f * d):
                    must.append(t)
                    if self.overlaps(r, f * d0):
                        coarse.append(t)
                    continue
                if deepest is not None and z <= deepest:
                    if self.away(r):
                        mustnot.append(t)
                elif deepest is None:
                    if not _overlap_closed(r, root):
                        mustnot.append(t)
                else:
                    # geometry is not tested at this level: the tile may be requested if some tested
                    # ancestor candidate (a meta tile of level `deepest` that overlaps it) is not away
                    if deepest not in anc_cache:
                        anc_cache[deepest] = [(a, meta_rect(wd, a)) for a in meta_tiles_of_level(wd, deepest)]
                    ok = False
                    for a, ar in anc_cache[deepest]:
                        if _overlap_closed(ar, r) and not self.away(ar):
                            ok = True
                            break
                    if not ok:
                        mustnot.append(t)
        return must, coarse, mustnot


# --- the pyramid relation measured on the real grid and coverage ----------------------------------
class Ranker(object):
    """order preserving map float coordinate -> integer (identity for lattice worlds)"""

    def __init__(self, lattice):
        self.lattice = lattice
        self.xs = set()
        self.ys = set()
        self.rx = self.ry = None

    def add(self, box):
        self.xs.update((box[0], box[2]))
        self.ys.update((box[1], box[3]))

    def freeze(self):
        if not self.lattice:
            self.rx = {v: i for i, v in enumerate(sorted(self.xs))}
            self.ry = {v: i for i, v in enumerate(sorted(self.ys))}

    def box(self, b):
        if self.lattice:
            for v in b:
                if v != int(v):
                    raise tlc.MachineryError('lattice world with a non-integer coordinate: %r' % (b,))
            return [int(v) for v in b]
        try:
            return [self.rx[b[0]], self.ry[b[1]], self.rx[b[2]], self.ry[b[3]]]
        except KeyError:
            return None


def limit(b, s):
    return (max(b[0], s[0]), max(b[1], s[1]), min(b[2], s[2]), min(b[3], s[3]))


def measure(wd, max_nodes=6000):
    """Explore every (level, box) the spec can ask for; returns the raw (float) relation."""
    from mapproxy.grid import MetaGrid
    g = wd.grid
    mg = MetaGrid(g, meta_size=wd.meta_size, meta_buffer=0)
    cov = wd.coverage
    root = tuple(cov.extent.bbox_for(g.srs))
    aff = {}
    tiles = {}
    last = wd.levels[-1]
    todo = [(0, root, False)]
    seen = set()
    while todo:
        level, box, forced = todo.pop()
        if (level, box, forced) in seen:
            continue
        seen.add((level, box, forced))
        if len(seen) > max_nodes:
            return None
        if (level, box) not in aff:
            _, (nx, ny), it = mg.get_affected_level_tiles(box, level)
            lst = list(it)
            if len(lst) != nx * ny:
                raise tlc.MachineryError('get_affected_level_tiles: %d tiles for grid %dx%d' % (len(lst), nx, ny))
            aff[(level, box)] = (nx * ny, lst)
        remaining = len([l for l in wd.levels if l >= level])
        forced2 = forced or remaining < wd.skip
        for t in aff[(level, box)][1]:
            if t is None:
                continue
            if t not in tiles:
                mb = tuple(mg.meta_tile(t).bbox)
                tiles[t] = (mb, bool(cov.contains(mb, g.srs)), bool(cov.intersects(mb, g.srs)))
            mb, con, inter = tiles[t]
            if level < last and (forced2 or con or inter):
                todo.append((level + 1, limit(box, mb), forced2 or con))
    return root, aff, tiles


def build_world(wd, max_nodes=6000, plans=None):
    """-> (world record for TLC, ranker) or None if the walk would be too big"""
    m = measure(wd, max_nodes)
    if m is None:
        return None
    root, aff, tiles = m
    boxes = [root] + [box for (level, box) in aff] + [mb for (mb, con, inter) in tiles.values()]
    # integer coordinates are used as they are; otherwise (float grids; a MultiCoverage extent goes through
    # EPSG:4326 and back) coordinates are replaced by their ranks
    rk = Ranker(wd.lattice and all(v == int(v) for b in boxes for v in b))
    for b in boxes:
        rk.add(b)
    rk.freeze()
    must, coarse, mustnot = Oracle(wd).sets()
    w = {
        'name': wd.name,
        'levels': list(wd.levels),
        'skip': wd.skip,
        'root': rk.box(root),
        'aff': {akey(level, rk.box(box)): {'total': n, 'tiles': [list(t) if t is not None else list(NOTILE) for t in lst]}
                for (level, box), (n, lst) in aff.items()},
        'tile': {tkey(t): {'box': rk.box(mb), 'con': con, 'int': inter} for t, (mb, con, inter) in tiles.items()},
        'must': [list(t) for t in must],
        'mustcoarse': [list(t) for t in coarse],
        'mustnot': [list(t) for t in mustnot],
        'plans': [list(p) for p in (plans or [[]])],
    }
    return w, rk


# ------------------------------------------------------------------------------------------------
# running the real seeder under observation
# ------------------------------------------------------------------------------------------------
def enc_id(p):
    if p is None:
        return [list(x) for x in NONEP]
    return [[int(a), int(b)] for a, b in p]


class _FakeTime(object):
    def __init__(self, sess):
        self.sess = sess

    def time(self):
        return self.sess.clock

    def sleep(self, s):
        pass


class Session(object):
    """One seeding task on the real code: seed() is called (again after every interruption) with

      * mapproxy.seed.seeder.MetaGrid        -> recording subclass (get_affected_level_tiles = spec action Enter)
      * mapproxy.seed.seeder.SeedProgress    -> recording subclass (step_down / step_forward / leaving step_down)
      * mapproxy.seed.seeder.TileWorkerPool  -> stub pool that records hand-overs
      * mapproxy.seed.util.time              -> virtual clock (the throttle takes the decision of `decide_save`)
      * a ProgressLog subclass that reads the real progress file back after every report

    `decide_save()` -> bool and `after_event(ev)` -> True to interrupt right after this event are supplied by
    the driver (TLC behaviour follower or random driver).
    """

    def __init__(self, wd, rk, workdir, decide_save, after_event, interrupt_exc=KeyboardInterrupt):
        self.wd = wd
        self.rk = rk
        self.file = os.path.join(workdir, 'progress_%s' % re.sub(r'\W', '_', wd.name))
        if os.path.exists(self.file):
            os.remove(self.file)
        self.decide_save = decide_save
        self.after_event = after_event
        self.interrupt_exc = interrupt_exc
        self.clock = 0.0
        self.events = []
        self.handed = []          # this run
        self.handed_runs = []     # finished/interrupted runs
        self.task = wd.task()
        self.progress = None
        self.runs = 0
        self.anomalies = []

    # -- observation ---------------------------------------------------------------------------
    def read_saved(self):
        from mapproxy.seed.util import ProgressStore
        if not os.path.exists(self.file):
            return None
        return ProgressStore(self.file, continue_seed=True).get(self.task.id)

    def obs(self):
        p = self.progress
        return {'lp': enc_id(p.level_progresses) if p is not None else enc_id(None),
                'lpl': p.level_progresses_level if p is not None else 0,
                'saved': enc_id(self.read_saved()),
                'nh': len(self.handed)}

    def emit(self, ev):
        ev.update(self.obs())
        self.events.append(ev)
        if self.after_event(ev):
            raise self.interrupt_exc()

    # -- one run of seed() -----------------------------------------------------------------------
    def run_once(self):
        import mapproxy.seed.seeder as S
        import mapproxy.seed.util as U
        sess = self

        class RecMetaGrid(S_MetaGrid):
            def get_affected_level_tiles(self, bbox, level):
                res = S_MetaGrid.get_affected_level_tiles(self, bbox, level)
                abbox, (nx, ny), it = res
                box = sess.rk.box(tuple(bbox))
                sess.emit({'ev': 'enter', 'level': level, 'box': box if box is not None else [-9, -9, -9, -9],
                           'n': nx * ny})
                return res

        class RecProgress(S_SeedProgress):
            def __init__(self, old_progress_identifier=None):
                S_SeedProgress.__init__(self, old_progress_identifier=old_progress_identifier)
                sess.progress = self
                if sess.runs == 1:
                    if old_progress_identifier is not None:
                        sess.anomalies.append('first run starts with progress %r' % (old_progress_identifier,))
                else:
                    sess.emit({'ev': 'continue', 'old': enc_id(old_progress_identifier)})

            def step_forward(self, subtiles=1):
                S_SeedProgress.step_forward(self, subtiles)
                sess.emit({'ev': 'step_forward', 'n': subtiles})

            @contextlib.contextmanager
            def step_down(self, i, subtiles):
                with S_SeedProgress.step_down(self, i, subtiles):
                    sess.emit({'ev': 'step_down', 'i': i, 'n': subtiles})
                    yield
                sess.emit({'ev': 'step_up'})

        class StubPool(object):
            def __init__(self, task, worker_class, size=2, dry_run=False, progress_logger=None):
                pass

            def process(self, tiles, progress):
                tiles = list(tiles)
                if len(tiles) != 1:
                    sess.anomalies.append('hand-over of %d tiles' % len(tiles))
                t = tuple(tiles[0])
                sess.handed.append(t)
                sess.emit({'ev': 'process', 't': list(t)})

            def stop(self, force=False):
                pass

        class RecLog(U.ProgressLog):
            def log_progress(self, progress, level, bbox, tiles):
                want = bool(sess.decide_save())
                if want:
                    sess.clock += 10.0
                ino = os.stat(sess.file).st_ino if os.path.exists(sess.file) else None
                U.ProgressLog.log_progress(self, progress, level, bbox, tiles)
                ino2 = os.stat(sess.file).st_ino if os.path.exists(sess.file) else None
                sess.emit({'ev': 'report', 'want': want, 'wrote': ino2 != ino, 'one': progress.progress == 1.0,
                           'level': level})

        self.runs += 1
        self.handed = []
        self.progress = None
        saved_names = (S.MetaGrid, S.SeedProgress, S.TileWorkerPool, U.time)
        S.MetaGrid, S.SeedProgress, S.TileWorkerPool, U.time = RecMetaGrid, RecProgress, StubPool, _FakeTime(self)
        out = io.StringIO()
        try:
            store = U.ProgressStore(self.file, continue_seed=True)
            logger = RecLog(out=out, silent=True, verbose=True, progress_store=store)
            with contextlib.redirect_stdout(out):
                S.seed([self.task], concurrency=1, dry_run=False, skip_geoms_for_last_levels=self.wd.skip,
                       progress_logger=logger)
            result = 'done'
        except self.interrupt_exc:
            result = 'interrupted'
        finally:
            S.MetaGrid, S.SeedProgress, S.TileWorkerPool, U.time = saved_names
        self.handed_runs.append(list(self.handed))
        if result == 'interrupted':
            self.progress = None
            self.handed = []
            self.events.append(dict({'ev': 'interrupt'}, **self.obs()))
        return result

    def cleanup(self):
        for f in (self.file,):
            if os.path.exists(f):
                os.remove(f)


def _bind_real_classes():
    global S_MetaGrid, S_SeedProgress
    import mapproxy.seed.seeder as S
    S_MetaGrid, S_SeedProgress = S.MetaGrid, S.SeedProgress


S_MetaGrid = S_SeedProgress = None


# ------------------------------------------------------------------------------------------------
# the lattice catalogue (all coordinates are integers that doubles represent exactly; every resolution is
# a multiple of 10 so that the code's 1/10 pixel is an integer too)
# ------------------------------------------------------------------------------------------------
GRIDS = {
    'G2':    dict(bbox=(0, 0, 640, 640), res=[80, 40, 20], tile_size=(4, 4), origin='ll'),      # factor 2
    'G2ul':  dict(bbox=(0, 0, 640, 640), res=[80, 40, 20], tile_size=(4, 4), origin='ul'),
    'G15':   dict(bbox=(0, 0, 720, 720), res=[90, 60, 40], tile_size=(4, 4), origin='ll'),      # factor 3/2
    'Grect': dict(bbox=(0, 0, 960, 320), res=[160, 80, 40, 20], tile_size=(3, 2), origin='ll'),  # 4 levels
    'Gcust': dict(bbox=(0, 0, 840, 600), res=[140, 60, 40, 20], tile_size=(4, 4), origin='ll'),  # arbitrary list
    'Gpart': dict(bbox=(0, 0, 640, 400), res=[80, 40, 20], tile_size=(4, 4), origin='ul'),      # rows overshoot
    'G5':    dict(bbox=(0, 0, 1280, 1280), res=[320, 160, 80, 40, 20], tile_size=(4, 4), origin='ll'),
}


def lattice_world(name, grid, cov, levels, meta=(1, 1), skip=0, srs='EPSG:3857'):
    """cov: list of rectangles; one -> BBOXCoverage, 'poly:' prefix -> GeomCoverage of the union,
    several -> MultiCoverage of bbox coverages"""
    from mapproxy.grid import TileGrid
    from mapproxy.srs import SRS
    from mapproxy.util.coverage import BBOXCoverage, GeomCoverage, MultiCoverage
    gd = GRIDS[grid]
    g = TileGrid(SRS(3857), bbox=tuple(float(v) for v in gd['bbox']), res=[float(r) for r in gd['res']],
                 tile_size=gd['tile_size'], origin=gd['origin'])
    kind, rects = cov
    rects = [tuple(r) for r in rects]
    if kind == 'bbox':
        c = BBOXCoverage(tuple(float(v) for v in rects[0]), SRS(srs))
    elif kind == 'poly':
        import shapely.geometry
        import shapely.ops
        c = GeomCoverage(shapely.ops.unary_union([shapely.geometry.box(*r) for r in rects]), SRS(srs))
    elif kind == 'multi':
        c = MultiCoverage([BBOXCoverage(tuple(float(v) for v in r), SRS(srs)) for r in rects])
    else:
        raise ValueError(kind)
    return WorldDef(name, g, meta, c, levels, skip=skip, cov_rects=rects,
                    desc=dict(grid=grid, cov=[kind, [list(r) for r in rects]], levels=list(levels), meta=list(meta),
                              skip=skip, srs=srs))


def catalogue(tier):
    """[(name, grid, cov, levels, meta, skip, srs)]"""
    c = [
        ('g2-bbox',      'G2',    ('bbox', [(90, 50, 410, 330)]), [0, 1, 2], (1, 1), 0, 'EPSG:3857'),
        ('g2-aligned',   'G2',    ('bbox', [(160, 160, 480, 320)]), [1, 2], (1, 1), 0, 'EPSG:3857'),
        ('g2-poly',      'G2',    ('poly', [(30, 30, 130, 350), (130, 250, 350, 350)]), [0, 1, 2], (1, 1), 0, 'EPSG:3857'),
        ('g2-multi',     'G2',    ('multi', [(10, 10, 150, 150), (410, 330, 630, 470)]), [0, 2], (1, 1), 0, 'EPSG:3857'),
        ('g2-meta2',     'G2',    ('bbox', [(90, 50, 410, 330)]), [1, 2], (2, 2), 0, 'EPSG:3857'),
        ('g2-leaf',      'G2',    ('bbox', [(250, 250, 390, 390)]), [2], (1, 1), 0, 'EPSG:3857'),
        ('g2-skip2',     'G2',    ('poly', [(30, 30, 130, 350), (130, 250, 350, 350)]), [0, 1, 2], (1, 1), 2, 'EPSG:3857'),
        ('g2ul-alias',   'G2ul',  ('bbox', [(90, 50, 410, 330)]), [0, 1, 2], (1, 1), 0, 'EPSG:900913'),
        ('g15-bbox',     'G15',   ('bbox', [(100, 100, 380, 300)]), [0, 1, 2], (1, 1), 0, 'EPSG:3857'),
        ('g15-poly',     'G15',   ('poly', [(200, 40, 300, 500), (300, 400, 520, 500)]), [1, 2], (1, 1), 0, 'EPSG:3857'),
        ('g15-meta2',    'G15',   ('bbox', [(100, 100, 380, 300)]), [0, 2], (2, 2), 0, 'EPSG:3857'),
        ('grect-4lev',   'Grect', ('bbox', [(100, 30, 500, 200)]), [0, 1, 2, 3], (1, 1), 0, 'EPSG:3857'),
        ('gcust-bbox',   'Gcust', ('bbox', [(130, 110, 470, 290)]), [1, 2, 3], (1, 1), 0, 'EPSG:3857'),
        ('gpart-ul',     'Gpart', ('bbox', [(50, 150, 300, 390)]), [0, 1, 2], (2, 1), 0, 'EPSG:3857'),
        # coverage edge closer than 1/10 pixel of a coarse level to a tile border of that level
        ('g2-thin',      'G2',    ('bbox', [(314, 10, 630, 310)]), [0, 1, 2], (1, 1), 0, 'EPSG:3857'),
        ('g15-thin',     'G15',   ('bbox', [(475, 100, 700, 300)]), [1, 2], (1, 1), 0, 'EPSG:3857'),
    ]
    if tier == 'thorough':
        c += [
            ('g2-full',     'G2',    ('bbox', [(0, 0, 640, 640)]), [0, 1, 2], (1, 1), 0, 'EPSG:3857'),
            ('g2-skip3',    'G2',    ('poly', [(30, 30, 130, 350), (130, 250, 350, 350)]), [0, 1, 2], (1, 1), 3, 'EPSG:3857'),
            ('g2-skip4',    'G2',    ('bbox', [(90, 50, 410, 330)]), [1, 2], (1, 1), 4, 'EPSG:3857'),
            ('g15-full',    'G15',   ('bbox', [(0, 0, 720, 720)]), [0, 1, 2], (1, 1), 0, 'EPSG:3857'),
            ('g15-multi',   'G15',   ('multi', [(50, 50, 250, 250), (330, 330, 700, 460)]), [0, 1, 2], (2, 1), 0, 'EPSG:3857'),
            ('grect-poly',  'Grect', ('poly', [(100, 30, 300, 300), (300, 30, 900, 100)]), [1, 2, 3], (2, 2), 0, 'EPSG:3857'),
            ('grect-skip2', 'Grect', ('bbox', [(100, 30, 500, 200)]), [0, 1, 2, 3], (1, 1), 2, 'EPSG:3857'),
            ('gcust-poly',  'Gcust', ('poly', [(10, 10, 200, 590), (200, 300, 830, 420)]), [0, 1, 2, 3], (1, 1), 0, 'EPSG:3857'),
            ('gcust-meta',  'Gcust', ('bbox', [(130, 110, 470, 290)]), [0, 3], (3, 2), 0, 'EPSG:3857'),
            ('g5-5lev',     'G5',    ('bbox', [(500, 500, 900, 800)]), [0, 1, 2, 3, 4], (1, 1), 0, 'EPSG:3857'),
            ('g5-sub',      'G5',    ('poly', [(300, 300, 500, 700), (500, 300, 800, 420)]), [1, 3, 4], (2, 2), 0, 'EPSG:3857'),
            ('g2ul-thin',   'G2ul',  ('bbox', [(10, 10, 326, 300)]), [2], (1, 1), 0, 'EPSG:3857'),
            ('g5-thin',     'G5',    ('bbox', [(615, 100, 900, 500)]), [3, 4], (1, 1), 0, 'EPSG:3857'),
        ]
    return c


# ------------------------------------------------------------------------------------------------
# TLC drivers
# ------------------------------------------------------------------------------------------------
ACTIONS = ['EnterRoot', 'Enter', 'Report', 'NoIntersect', 'StepDown', 'SkipProcessed', 'StepUp', 'Dedup', 'Process',
           'LeafForward', 'FinalReport', 'Interrupt', 'Continue']
INVARIANTS = ['TypeOK', 'NoOutside', 'CompleteRunExact', 'CompleteRunCoarse', 'WalkIsFull', 'ResumeCovers',
              'ResumeNoExtra', 'ReportedPathExact', 'SavedShape']


def write_worlds(d, worlds, name='worlds.json'):
    p = os.path.join(d, name)
    with open(p, 'w') as f:
        json.dump(worlds, f)
    return p


def run_model(ctx, name, worlds, max_interrupts, invariants, excused=(), last_run_saves='yes', timeout=900,
              need=()):
    d = ctx.sub('mc-' + name)
    wf = write_worlds(d, worlds)
    mp, cp = tlc.write_mc(d, 'Seeder', 'MC_' + re.sub(r'\W', '_', name),
                          dict(MaxInterrupts=max_interrupts, LastRunSaves=last_run_saves,
                               Excused=set(excused), Planned=False),
                          invariants=invariants)
    r = tlc.run(mp, cp, d, timeout=timeout, env={'WORLD_FILE': wf})
    if r.error:
        raise tlc.MachineryError('Seeder.tla (%s): %s\n%s' % (name, r.error, r.out[-1500:]))
    if r.ok:
        for a in need:
            if r.coverage.get(a, (0, 0))[0] == 0:
                raise tlc.MachineryError('Seeder.tla (%s): action %s was never taken (vacuous run)' % (name, a))
    return r
