"""C11 - seeding creates every selected tile, nothing else, and survives interruption.

spec/Seeder.tla models TileWalker.walk/_walk/_filter_subtiles, SeedProgress, ProgressLog/ProgressStore and the
restart in seed() as a state machine (explicit stack; one action per decision of the code).  The pyramid
relation of a "world" (grid x meta size x coverage x levels x skip_geoms_for_last_levels) is measured on the
REAL grid and coverage objects and given to TLC as constants; the sets the property speaks about (must /
must-not be requested) are computed independently of grid walk and walker by brute force over all meta tiles
of the seeded levels with an exact rectangle test (lattice worlds) or shapely with a don't-care band (real
float grids).

(M)  TLC explores, for every lattice world, all interruption points x all save/no-save decisions of the
     progress throttle x the continued runs and checks CompleteRunExact, NoOutside, ResumeCovers, ...
(R)  spec -> code: TLC behaviours (simulation with planned interruption points) are executed on the real
     seed()/TileWalker/SeedProgress/ProgressLog/ProgressStore with a stub worker pool, a virtual clock that makes
     the throttle take the spec's decision and a real progress file; after EVERY action level_progresses,
     the identifier read back from the file and the handed list are compared with the spec state.
(T)  code -> spec: seeded random real grids (mercator, geodetic, sqrt2, custom lists, ul origin) and coverages
     (bbox, polygons, multi coverages, other SRS) are seeded with random interruptions; one event per spec
     action is recorded by interposition and the batch is validated by TLC against spec/trace/Trace_Seeder.tla
     with all invariants evaluated on the recorded states.

Two genuine violations of CompleteRunExact are known on the pinned tree; both are detected on the real code first
(property statement on observed hand-overs), agree with the model (TLC lists the same missed tiles) and are
reported with their own signature (classify_miss), every other miss is {'cause': 'other'}:
  coarse-level-inset                     get_affected_level_tiles drops 1/10 pixel of the QUERIED level at every step
                                         of the descent: an overlap thinner than that in a coarse level loses all its
                                         descendants (many pixels / whole tile rows of the seeded level)
  coarser-level-matrix-does-not-cover    _calc_grids floors a partial pixel: a coarse level's tile matrix can end
                                         before the grid bbox, tiles of finer levels beyond it have no ancestor
The harness measures which bbox the walker under test hands to the grid per node (detect_policy) so that the model
stays the model of the code with and without the candidate repair of the first one.
"""
import contextlib
import io
import json
import math
import os
import re

from engine import tlc, tla

SPEC = os.path.join(tlc.SPEC_DIR, 'Seeder.tla')
TRACE_SPEC = os.path.join(tlc.SPEC_DIR, 'trace', 'Trace_Seeder.tla')

NOTILE = (-1, -1, -1)
NONEP = [[-1, -1]]


def tkey(t):
    return '<<%d, %d, %d>>' % tuple(t)


def akey(level, box):
    return '<<%d, %d, %d, %d, %d>>' % ((level,) + tuple(box))


# ------------------------------------------------------------------------------------------------
# worlds: real objects
# ------------------------------------------------------------------------------------------------
class StubTileManager(object):
    """What TileWalker needs of a tile manager; nothing is cached, nothing is created."""

    def __init__(self, grid, meta_size):
        from mapproxy.grid import MetaGrid
        self.grid = grid
        # (the meta grid of a real tile manager carries the buffer used for rendering - 80 pixels by default for WMS sources;
        # the walk has to go by the unbuffered meta tiles)
        self.meta_grid = MetaGrid(grid, meta_size=meta_size, meta_buffer=2) if meta_size else None
        self.rescale_tiles = 0
        self.minimize_meta_requests = False
        self._expire_timestamp = None

    def is_cached(self, tile):
        return False

    def is_stale(self, tile):
        return False

    def cleanup(self):
        pass

    @contextlib.contextmanager
    def session(self):
        yield


class WorldDef(object):
    """A seeding configuration with real objects.

    cov_rects: for lattice worlds the coverage as a list of integer rectangles (exact oracle)
    cov_geom:  for float worlds the coverage as a shapely geometry in the grid SRS (oracle with a band)
    """

    def __init__(self, name, grid, meta_size, coverage, levels, skip=0, cov_rects=None, cov_geom=None, desc=None):
        self.name = name
        self.grid = grid
        self.meta_size = tuple(meta_size)
        self.coverage = coverage
        self.levels = list(levels)
        self.skip = skip
        self.cov_rects = cov_rects
        self.cov_geom = cov_geom
        self.desc = desc or {}
        self.lattice = cov_rects is not None

    def task(self):
        from mapproxy.seed.seeder import SeedTask
        tm = StubTileManager(self.grid, self.meta_size)
        md = dict(name='t_' + self.name, cache_name='c', grid_name='g')
        return SeedTask(md, tm, list(self.levels), None, False, self.coverage)


# --- independent geometry of a tile grid (not grid.py's tile_bbox / get_affected_level_tiles) -------
def level_meta_size(wd, z):
    gs = wd.grid.grid_sizes[z]
    return min(wd.meta_size[0], gs[0]), min(wd.meta_size[1], gs[1])


def meta_tiles_of_level(wd, z):
    gs = wd.grid.grid_sizes[z]
    mx, my = level_meta_size(wd, z)
    return [(x, y, z) for y in range(0, gs[1], my) for x in range(0, gs[0], mx)]


def meta_rect(wd, t):
    """bbox of the meta tile with main tile t, from the grid definition (bbox, origin, res, tile size)."""
    g = wd.grid
    x, y, z = t
    mx, my = level_meta_size(wd, z)
    res = g.resolutions[z]
    sx, sy = res * g.tile_size[0], res * g.tile_size[1]
    x0 = g.bbox[0] + x * sx
    x1 = g.bbox[0] + (x + mx) * sx
    if g.origin == 'ul':
        y1 = g.bbox[3] - y * sy
        y0 = g.bbox[3] - (y + my) * sy
    else:
        y0 = g.bbox[1] + y * sy
        y1 = g.bbox[1] + (y + my) * sy
    return (x0, y0, x1, y1)


def _overlap_open(a, b):
    return a[0] < b[2] and b[0] < a[2] and a[1] < b[3] and b[1] < a[3]


def _overlap_closed(a, b):
    return a[0] <= b[2] and b[0] <= a[2] and a[1] <= b[3] and b[1] <= a[3]


def _inset(r, d):
    return (r[0] + d, r[1] + d, r[2] - d, r[3] - d)


class TooBig(Exception):
    pass


class Oracle(object):
    max_window = 40000

    """must / mustcoarse / mustnot by brute force over all meta tiles of the seeded levels."""

    def __init__(self, wd):
        self.wd = wd
        if not wd.lattice:
            import shapely.geometry
            self._sg = shapely.geometry
            self.geom = wd.cov_geom

    def matrix_extent(self, z):
        """the area covered by the existing (meta) tiles of level z: _calc_grids drops a partial pixel row/column, so
        a level's tile matrix can end before the grid bbox does"""
        wd = self.wd
        g = wd.grid
        gs = g.grid_sizes[z]
        mx, my = level_meta_size(wd, z)
        nmx = (gs[0] + mx - 1) // mx
        nmy = (gs[1] + my - 1) // my
        w = nmx * mx * g.resolutions[z] * g.tile_size[0]
        h = nmy * my * g.resolutions[z] * g.tile_size[1]
        if g.origin == 'ul':
            return (g.bbox[0], g.bbox[3] - h, g.bbox[0] + w, g.bbox[3])
        return (g.bbox[0], g.bbox[1], g.bbox[0] + w, g.bbox[1] + h)

    def coarser_cover(self, z, d):
        """intersection of the tile matrices of the levels above z, shrunk by d (None: no restriction)"""
        m = None
        for k in range(0, z):
            e = _inset(self.matrix_extent(k), d)
            m = e if m is None else limit(m, e)
        return m

    # positive-area overlap of the rectangle inset by d (and clipped) with the coverage
    def overlaps(self, rect, d, clip=None):
        r = _inset(rect, d)
        if clip is not None:
            r = limit(r, clip)
        if r[0] >= r[2] or r[1] >= r[3]:
            return False
        if self.wd.lattice:
            return any(_overlap_open(r, c) for c in self.wd.cov_rects)
        span = max(rect[2] - rect[0], rect[3] - rect[1])
        return self.geom.intersection(self._sg.box(*r)).area > 1e-9 * span * span

    def away(self, rect):
        """rect and coverage do not even touch"""
        if self.wd.lattice:
            return not any(_overlap_closed(rect, c) for c in self.wd.cov_rects)
        span = max(rect[2] - rect[0], rect[3] - rect[1])
        return self.geom.distance(self._sg.box(*rect)) > 1e-6 * span

    def window(self, z, region):
        """main tiles of level z whose meta tile can come near `region` (one meta tile of margin); every other
        tile of the level is farther than a whole meta tile away from it"""
        wd = self.wd
        g = wd.grid
        gs = g.grid_sizes[z]
        mx, my = level_meta_size(wd, z)
        sx = g.resolutions[z] * g.tile_size[0] * mx
        sy = g.resolutions[z] * g.tile_size[1] * my
        nmx = (gs[0] + mx - 1) // mx
        nmy = (gs[1] + my - 1) // my
        i0 = int(math.floor((region[0] - g.bbox[0]) / sx)) - 1
        i1 = int(math.floor((region[2] - g.bbox[0]) / sx)) + 1
        if g.origin == 'ul':
            j0 = int(math.floor((g.bbox[3] - region[3]) / sy)) - 1
            j1 = int(math.floor((g.bbox[3] - region[1]) / sy)) + 1
        else:
            j0 = int(math.floor((region[1] - g.bbox[1]) / sy)) - 1
            j1 = int(math.floor((region[3] - g.bbox[1]) / sy)) + 1
        ni = min(i1, nmx - 1) - max(i0, 0) + 1
        nj = min(j1, nmy - 1) - max(j0, 0) + 1
        if ni > 0 and nj > 0 and ni * nj > self.max_window:
            raise TooBig()
        return [(i * mx, j * my, z) for j in range(max(j0, 0), min(j1, nmy - 1) + 1)
                for i in range(max(i0, 0), min(i1, nmx - 1) + 1)]

    def sets(self):
        """-> must, mustcoarse, allowed (lists of main tiles).
        must:       the meta tile inset by 1/10 pixel of its level overlaps the coverage (positive area)
        mustcoarse: ... inset by 1/10 pixel of level 0, and that overlap lies inside the tile matrix of every level
                    above it (the part of `must` that neither of the two known defects of the descent touches)
        A tile that is not `allowed` must not be requested:
        its meta tile does not even touch the coverage (with skip_geoms_for_last_levels: no meta tile of the deepest
        geometry-tested level that overlaps it touches the coverage)."""
        wd = self.wd
        g = wd.grid
        levels = wd.levels
        # float worlds: a don't-care band between 1/10 and 2/10 pixel (ties of float arithmetic)
        f = 1.0 if wd.lattice else 2.0
        d0 = g.resolutions[0] / 10.0
        # deepest level whose tiles are tested against the geometry: len(levels remaining) >= skip
        tested = [z for z in range(0, levels[-1] + 1) if len([l for l in levels if l >= z]) >= wd.skip]
        deepest = max(tested) if tested else None
        root = tuple(wd.coverage.extent.bbox_for(g.srs))
        anc = None
        if deepest is not None and deepest < levels[-1]:
            anc = [meta_rect(wd, a) for a in self.window(deepest, root)]
            anc = [r for r in anc if not self.away(r)]
        must, coarse, allowed = [], [], []
        for z in levels:
            d = g.resolutions[z] / 10.0
            cover = self.coarser_cover(z, f * d0)
            if deepest is not None and z > deepest:
                if not anc:
                    continue
                region = (min(r[0] for r in anc), min(r[1] for r in anc), max(r[2] for r in anc), max(r[3] for r in anc))
            else:
                region = root
            for t in self.window(z, region):
                r = meta_rect(wd, t)
                if self.overlaps(r, f * d):
                    must.append(t)
                    allowed.append(t)
                    if self.overlaps(r, f * d0, cover):
                        coarse.append(t)
                    continue
                if deepest is None:
                    ok = _overlap_closed(r, root)
                elif z <= deepest:
                    ok = not self.away(r)
                else:
                    ok = any(_overlap_closed(ar, r) for ar in anc)
                if ok:
                    allowed.append(t)
        return must, coarse, allowed


# --- the pyramid relation measured on the real grid and coverage ----------------------------------
class Ranker(object):
    """order preserving map float coordinate -> integer (identity for lattice worlds)"""

    def __init__(self, lattice):
        self.lattice = lattice
        self.xs = set()
        self.ys = set()
        self.rx = self.ry = None
        self.queries = {}
        self.res = None

    def add(self, box):
        self.xs.update((box[0], box[2]))
        self.ys.update((box[1], box[3]))

    def freeze(self):
        if not self.lattice:
            self.rx = {v: i for i, v in enumerate(sorted(self.xs))}
            self.ry = {v: i for i, v in enumerate(sorted(self.ys))}

    def lookup(self, level, bbox):
        """the node box for which the walker queried get_affected_level_tiles(bbox, level); None if unknown"""
        b = self.queries.get((level, tuple(bbox)))
        if b is None:
            # not bit-identical (another but equivalent float expression in the code): nearest known query
            res = self.res[level]
            cands = [(max(abs(q[i] - bbox[i]) for i in range(4)), bx) for (lv, q), bx in self.queries.items() if lv == level]
            cands = [c for c in cands if c[0] < 1e-6 * res]
            if len(cands) == 1:
                b = cands[0][1]
        return self.box(b) if b is not None else None

    def box(self, b):
        if self.lattice:
            for v in b:
                if v != int(v):
                    raise tlc.MachineryError('lattice world with a non-integer coordinate: %r' % (b,))
            return [int(v) for v in b]
        try:
            return [self.rx[b[0]], self.ry[b[1]], self.rx[b[2]], self.ry[b[3]]]
        except KeyError:
            return None


def limit(b, s):
    return (max(b[0], s[0]), max(b[1], s[1]), min(b[2], s[2]), min(b[3], s[3]))


POLICY = {'value': None}


def query_pad(wd, level, policy):
    """how much the walker grows cur_bbox before it asks the grid for the affected tiles of `level`:
    'level' - not at all (the grid's own inset of 1/10 pixel of `level` applies),
    'last'  - so that 1/10 pixel of the LAST seeded level remains"""
    if policy == 'level':
        return 0.0
    return max(0, (wd.grid.resolution(level) - wd.grid.resolution(wd.levels[-1])) / 10.0)


def padded(box, pad):
    return (box[0] - pad, box[1] - pad, box[2] + pad, box[3] + pad)


def detect_policy():
    """Which bbox does the walker under test hand to MetaGrid.get_affected_level_tiles for a node?  Observed on a
    lattice probe (exact arithmetic); anything but the two known policies is a machinery error, not a verdict."""
    if POLICY['value'] is not None:
        return POLICY['value']
    _bind_real_classes()
    wd = lattice_world('probe', 'G2', ('bbox', [(90, 50, 410, 330)]), [0, 1, 2])
    import mapproxy.seed.seeder as S
    seen = []

    class Probe(S_MetaGrid):
        def get_affected_level_tiles(self, bbox, level):
            seen.append((level, tuple(bbox)))
            raise _Runaway()        # the first query is all the probe needs

    class Pool(object):
        def process(self, tiles, progress):
            pass

    keep = S.MetaGrid
    S.MetaGrid = Probe
    task = wd.task()
    if task.tile_manager.meta_grid is not None:
        task.tile_manager.meta_grid.__class__ = Probe
    try:
        S.TileWalker(task, Pool(), handle_uncached=True).walk()
    except _Runaway:
        pass
    finally:
        S.MetaGrid = keep
    root = (90.0, 50.0, 410.0, 330.0)
    # (the root query only: it does not depend on limit_sub_bbox or anything else of the walk)
    for policy in ('level', 'last'):
        if seen and seen[0] == (0, padded(root, query_pad(wd, 0, policy))):
            POLICY['value'] = policy
            return policy
    raise tlc.MachineryError('the walker queries the grid with an unknown bbox policy: %r' % (seen[:3],))


def measure(wd, max_nodes=6000, policy=None):
    """Explore every (level, box) the spec can ask for; returns the raw (float) relation."""
    policy = policy or detect_policy()
    from mapproxy.grid import MetaGrid
    g = wd.grid
    mg = MetaGrid(g, meta_size=wd.meta_size, meta_buffer=0)
    cov = wd.coverage
    root = tuple(cov.extent.bbox_for(g.srs))
    aff = {}
    tiles = {}
    queries = {}
    last = wd.levels[-1]
    todo = [(0, root, False)]
    seen = set()
    while todo:
        level, box, forced = todo.pop()
        if (level, box, forced) in seen:
            continue
        seen.add((level, box, forced))
        if len(seen) > max_nodes:
            return None
        if (level, box) not in aff:
            q = padded(box, query_pad(wd, level, policy))
            queries[(level, q)] = box
            _, (nx, ny), it = mg.get_affected_level_tiles(q, level)
            lst = list(it)
            if len(lst) != nx * ny:
                raise tlc.MachineryError('get_affected_level_tiles: %d tiles for grid %dx%d' % (len(lst), nx, ny))
            aff[(level, box)] = (nx * ny, lst)
        remaining = len([l for l in wd.levels if l >= level])
        forced2 = forced or remaining < wd.skip
        for t in aff[(level, box)][1]:
            if t is None:
                continue
            if t not in tiles:
                mb = tuple(mg.meta_tile(t).bbox)
                tiles[t] = (mb, bool(cov.contains(mb, g.srs)), bool(cov.intersects(mb, g.srs)))
            mb, con, inter = tiles[t]
            if level < last and (forced2 or con or inter):
                todo.append((level + 1, limit(box, mb), forced2 or con))
    return root, aff, tiles, queries


def build_world(wd, max_nodes=6000, plans=None, max_events=None):
    """-> (world record for TLC, ranker) or None if the walk would be too big"""
    m = measure(wd, max_nodes)
    if m is None:
        return None
    root, aff, tiles, queries = m
    bound = 3 * sum(2 + 4 * len(lst) for (n, lst) in aff.values()) + 100
    if max_events is not None and bound > 3 * max_events + 100:
        return None
    try:
        must, coarse, allowed = Oracle(wd).sets()
    except TooBig:
        if wd.lattice:
            raise
        return None
    boxes = [root] + [box for (level, box) in aff] + [mb for (mb, con, inter) in tiles.values()]
    # integer coordinates are used as they are; otherwise (float grids; a MultiCoverage extent goes through
    # EPSG:4326 and back) coordinates are replaced by their ranks
    rk = Ranker(wd.lattice and all(v == int(v) for b in boxes for v in b))
    for b in boxes:
        rk.add(b)
    rk.freeze()
    rk.queries = queries
    rk.res = list(wd.grid.resolutions)
    # no run of the modelled walk has more events than this (every node: enter, report, per subtile at most
    # step_down, step_up, process, step_forward); three times that stops a walk that left the model
    rk.bound = bound
    w = {
        'name': wd.name,
        'levels': list(wd.levels),
        'skip': wd.skip,
        'root': rk.box(root),
        'aff': {akey(level, rk.box(box)): {'total': n, 'tiles': [list(t) if t is not None else list(NOTILE) for t in lst]}
                for (level, box), (n, lst) in aff.items()},
        'tile': {tkey(t): {'box': rk.box(mb), 'con': con, 'int': inter} for t, (mb, con, inter) in tiles.items()},
        'must': [list(t) for t in must],
        'mustcoarse': [list(t) for t in coarse],
        'allowed': [list(t) for t in allowed],
        'plans': [list(p) for p in (plans or [[]])],
    }
    return w, rk


# ------------------------------------------------------------------------------------------------
# running the real seeder under observation
# ------------------------------------------------------------------------------------------------
def enc_id(p):
    if p is None:
        return [list(x) for x in NONEP]
    return [[int(a), int(b)] for a, b in p]


class _FakeTime(object):
    def __init__(self, sess):
        self.sess = sess

    def time(self):
        return self.sess.clock

    def sleep(self, s):
        pass


class _Runaway(BaseException):
    pass


class Session(object):
    """One seeding task on the real code: seed() is called (again after every interruption) with

      * mapproxy.seed.seeder.MetaGrid        -> recording subclass (get_affected_level_tiles = spec action Enter)
      * mapproxy.seed.seeder.SeedProgress    -> recording subclass (step_down / step_forward / leaving step_down)
      * mapproxy.seed.seeder.TileWorkerPool  -> stub pool that records hand-overs
      * mapproxy.seed.util.time              -> virtual clock (the throttle takes the decision of `decide_save`)
      * a ProgressLog subclass that reads the real progress file back after every report

    `decide_save()` -> bool and `after_event(ev)` -> True to interrupt right after this event are supplied by
    the driver (TLC behaviour follower or random driver).
    """

    def __init__(self, wd, rk, workdir, decide_save, after_event, interrupt_exc=KeyboardInterrupt):
        self.wd = wd
        self.rk = rk
        self.file = os.path.join(workdir, 'progress_%s' % re.sub(r'\W', '_', wd.name))
        if os.path.exists(self.file):
            os.remove(self.file)
        self.decide_save = decide_save
        self.after_event = after_event
        self.interrupt_exc = interrupt_exc
        self.clock = 0.0
        self.events = []
        self.handed = []          # this run
        self.handed_runs = []     # finished/interrupted runs
        self.task = wd.task()
        self.progress = None
        self.runs = 0
        self.run_events = 0
        self.anomalies = []
        self.crash = None
        self.stop_requested = False      # interrupt_exc == 'stop': SeedProgress.running() answers False from now on
        self.stop_seen = False           # ... and the walker has asked

    # -- observation ---------------------------------------------------------------------------
    def read_saved(self):
        from mapproxy.seed.util import ProgressStore
        if not os.path.exists(self.file):
            return None
        return ProgressStore(self.file, continue_seed=True).get(self.task.id)

    def obs(self):
        p = self.progress
        return {'lp': enc_id(p.level_progresses) if p is not None else enc_id(None),
                'lpl': p.level_progresses_level if p is not None else 0,
                'saved': enc_id(self.read_saved()),
                'nh': len(self.handed)}

    def emit(self, ev):
        ev.update(self.obs())
        self.events.append(ev)
        self.run_events += 1
        if self.run_events > self.rk.bound:
            raise _Runaway()
        if self.interrupt_exc == 'stop':
            if not self.stop_requested and self.after_event(ev):
                self.stop_requested = True
        elif self.after_event(ev):
            raise self.interrupt_exc()

    # -- one run of seed() -----------------------------------------------------------------------
    def run_once(self):
        import mapproxy.seed.seeder as S
        import mapproxy.seed.util as U
        sess = self

        class RecMetaGrid(S_MetaGrid):
            def get_affected_level_tiles(self, bbox, level):
                res = S_MetaGrid.get_affected_level_tiles(self, bbox, level)
                abbox, (nx, ny), it = res
                box = sess.rk.lookup(level, tuple(bbox))
                sess.emit({'ev': 'enter', 'level': level, 'box': box if box is not None else [-9, -9, -9, -9],
                           'n': nx * ny})
                return res

        class RecProgress(S_SeedProgress):
            def __init__(self, old_progress_identifier=None):
                S_SeedProgress.__init__(self, old_progress_identifier=old_progress_identifier)
                sess.progress = self
                if sess.runs == 1:
                    if old_progress_identifier is not None:
                        sess.anomalies.append('first run starts with progress %r' % (old_progress_identifier,))
                else:
                    sess.emit({'ev': 'continue', 'old': enc_id(old_progress_identifier)})

            def running(self):
                if sess.stop_requested:
                    sess.stop_seen = True
                    return False
                return True

            def step_forward(self, subtiles=1):
                S_SeedProgress.step_forward(self, subtiles)
                sess.emit({'ev': 'step_forward', 'n': subtiles})

            @contextlib.contextmanager
            def step_down(self, i, subtiles):
                with S_SeedProgress.step_down(self, i, subtiles):
                    sess.emit({'ev': 'step_down', 'i': i, 'n': subtiles})
                    yield
                sess.emit({'ev': 'step_up'})

        class StubPool(object):
            def __init__(self, task, worker_class, size=2, dry_run=False, progress_logger=None):
                self.progress_logger = progress_logger

            def process(self, tiles, progress):
                tiles = list(tiles)
                if len(tiles) != 1:
                    sess.anomalies.append('hand-over of %d tiles' % len(tiles))
                t = tuple(tiles[0])
                sess.handed.append(t)
                # what TileWorkerPool.process does after the hand-over (a hand-over writes no progress: the observed
                # `saved` of the process event must be unchanged)
                if self.progress_logger:
                    self.progress_logger.log_step(progress)
                sess.emit({'ev': 'process', 't': list(t)})

            def stop(self, force=False):
                pass

        class RecLog(U.ProgressLog):
            def log_progress(self, progress, level, bbox, tiles):
                want = bool(sess.decide_save())
                if want:
                    sess.clock += 10.0
                ino = os.stat(sess.file).st_ino if os.path.exists(sess.file) else None
                U.ProgressLog.log_progress(self, progress, level, bbox, tiles)
                ino2 = os.stat(sess.file).st_ino if os.path.exists(sess.file) else None
                sess.emit({'ev': 'report', 'want': want, 'wrote': ino2 != ino, 'one': progress.progress == 1.0,
                           'level': level, 'stopping': bool(sess.stop_seen)})

        self.runs += 1
        self.run_events = 0
        self.handed = []
        self.progress = None
        self.clock = 0.0          # a new process: ProgressLog starts with _lastprogress = 0
        self.stop_requested = self.stop_seen = False
        saved_names = (S.MetaGrid, S.SeedProgress, S.TileWorkerPool, U.time)
        S.MetaGrid, S.SeedProgress, S.TileWorkerPool, U.time = RecMetaGrid, RecProgress, StubPool, _FakeTime(self)
        if self.task.tile_manager.meta_grid is not None:
            # (a walker that goes by the meta grid of the tile manager instead of one of its own is recorded as well)
            self.task.tile_manager.meta_grid.__class__ = RecMetaGrid
        out = io.StringIO()
        try:
            store = U.ProgressStore(self.file, continue_seed=True)
            logger = RecLog(out=out, silent=True, verbose=True, progress_store=store)
            with contextlib.redirect_stdout(out):
                S.seed([self.task], concurrency=1, dry_run=False, skip_geoms_for_last_levels=self.wd.skip,
                       progress_logger=logger)
            result = 'interrupted' if self.stop_seen else 'done'     # stopped gracefully: the process ends, to be continued
        except (self.interrupt_exc if self.interrupt_exc != 'stop' else KeyboardInterrupt):
            result = 'interrupted'
        except _Runaway:
            self.crash = 'Runaway: more than %d events in one run; the model needs less than a third of that' % self.rk.bound
            result = 'crashed'
        except Exception as ex:      # the real seeder raised: that is a finding, not a harness failure
            self.crash = '%s: %s' % (type(ex).__name__, ex)
            result = 'crashed'
        finally:
            S.MetaGrid, S.SeedProgress, S.TileWorkerPool, U.time = saved_names
        self.handed_runs.append(list(self.handed))
        if result == 'interrupted':
            self.progress = None
            self.handed = []
            self.events.append(dict({'ev': 'interrupt'}, **self.obs()))
        return result

    def cleanup(self):
        for f in (self.file,):
            if os.path.exists(f):
                os.remove(f)


def _bind_real_classes():
    global S_MetaGrid, S_SeedProgress
    import mapproxy.seed.seeder as S
    S_MetaGrid, S_SeedProgress = S.MetaGrid, S.SeedProgress


S_MetaGrid = S_SeedProgress = None


# ------------------------------------------------------------------------------------------------
# the lattice catalogue (all coordinates are integers that doubles represent exactly; every resolution is
# a multiple of 10 so that the code's 1/10 pixel is an integer too)
# ------------------------------------------------------------------------------------------------
GRIDS = {
    'G2':    dict(bbox=(0, 0, 640, 640), res=[80, 40, 20], tile_size=(4, 4), origin='ll'),      # factor 2
    'G2ul':  dict(bbox=(0, 0, 640, 640), res=[80, 40, 20], tile_size=(4, 4), origin='ul'),
    'G15':   dict(bbox=(0, 0, 720, 720), res=[90, 60, 40], tile_size=(4, 4), origin='ll'),      # factor 3/2
    'Grect': dict(bbox=(0, 0, 960, 320), res=[160, 80, 40, 20], tile_size=(3, 2), origin='ll'),  # 4 levels
    'Gcust': dict(bbox=(0, 0, 840, 600), res=[140, 60, 40, 20], tile_size=(4, 4), origin='ll'),  # arbitrary list
    'Gpart': dict(bbox=(0, 0, 640, 400), res=[80, 40, 20], tile_size=(4, 4), origin='ul'),      # rows overshoot
    'G5':    dict(bbox=(0, 0, 1280, 1280), res=[320, 160, 80, 40, 20], tile_size=(4, 4), origin='ll'),
}


def lattice_world(name, grid, cov, levels, meta=(1, 1), skip=0, srs='EPSG:3857'):
    """cov: list of rectangles; one -> BBOXCoverage, 'poly:' prefix -> GeomCoverage of the union,
    several -> MultiCoverage of bbox coverages"""
    from mapproxy.grid import TileGrid
    from mapproxy.srs import SRS
    from mapproxy.util.coverage import BBOXCoverage, GeomCoverage, MultiCoverage
    gd = GRIDS[grid]
    g = TileGrid(SRS(3857), bbox=tuple(float(v) for v in gd['bbox']), res=[float(r) for r in gd['res']],
                 tile_size=gd['tile_size'], origin=gd['origin'])
    kind, rects = cov
    rects = [tuple(r) for r in rects]
    if kind == 'bbox':
        c = BBOXCoverage(tuple(float(v) for v in rects[0]), SRS(srs))
    elif kind == 'poly':
        import shapely.geometry
        import shapely.ops
        c = GeomCoverage(shapely.ops.unary_union([shapely.geometry.box(*r) for r in rects]), SRS(srs))
    elif kind == 'multi':
        c = MultiCoverage([BBOXCoverage(tuple(float(v) for v in r), SRS(srs)) for r in rects])
    else:
        raise ValueError(kind)
    return WorldDef(name, g, meta, c, levels, skip=skip, cov_rects=rects,
                    desc=dict(grid=grid, cov=[kind, [list(r) for r in rects]], levels=list(levels), meta=list(meta),
                              skip=skip, srs=srs, lattice=[name, grid, [kind, [list(r) for r in rects]], list(levels),
                                                           list(meta), skip, srs]))


def catalogue(tier):
    """[(name, grid, cov, levels, meta, skip, srs)]"""
    c = [
        ('g2-bbox',      'G2',    ('bbox', [(90, 50, 410, 330)]), [0, 1, 2], (1, 1), 0, 'EPSG:3857'),
        ('g2-aligned',   'G2',    ('bbox', [(160, 160, 480, 320)]), [1, 2], (1, 1), 0, 'EPSG:3857'),
        ('g2-poly',      'G2',    ('poly', [(30, 30, 130, 350), (130, 250, 350, 350)]), [0, 1, 2], (1, 1), 0, 'EPSG:3857'),
        ('g2-multi',     'G2',    ('multi', [(10, 10, 150, 150), (410, 330, 630, 470)]), [0, 2], (1, 1), 0, 'EPSG:3857'),
        ('g2-meta2',     'G2',    ('bbox', [(90, 50, 410, 330)]), [1, 2], (2, 2), 0, 'EPSG:3857'),
        ('g2-leaf',      'G2',    ('bbox', [(250, 250, 390, 390)]), [2], (1, 1), 0, 'EPSG:3857'),
        ('g2-skip2',     'G2',    ('poly', [(30, 30, 130, 350), (130, 250, 350, 350)]), [0, 1, 2], (1, 1), 2, 'EPSG:3857'),
        ('g2ul-alias',   'G2ul',  ('bbox', [(90, 50, 410, 330)]), [0, 1, 2], (1, 1), 0, 'EPSG:900913'),
        ('g15-bbox',     'G15',   ('bbox', [(100, 100, 380, 300)]), [0, 1, 2], (1, 1), 0, 'EPSG:3857'),
        ('g15-poly',     'G15',   ('poly', [(200, 40, 300, 500), (300, 400, 520, 500)]), [1, 2], (1, 1), 0, 'EPSG:3857'),
        ('g15-meta2',    'G15',   ('bbox', [(100, 100, 380, 300)]), [0, 2], (2, 2), 0, 'EPSG:3857'),
        ('grect-4lev',   'Grect', ('bbox', [(100, 30, 500, 200)]), [0, 1, 2, 3], (1, 1), 0, 'EPSG:3857'),
        ('gcust-bbox',   'Gcust', ('bbox', [(130, 110, 470, 290)]), [1, 2, 3], (1, 1), 0, 'EPSG:3857'),
        ('gpart-ul',     'Gpart', ('bbox', [(50, 150, 300, 390)]), [0, 1, 2], (2, 1), 0, 'EPSG:3857'),
        # coverage edge closer than 1/10 pixel of a coarse level to a tile border of that level
        ('g2-thin',      'G2',    ('bbox', [(314, 10, 630, 310)]), [0, 1, 2], (1, 1), 0, 'EPSG:3857'),
        ('g15-thin',     'G15',   ('bbox', [(475, 100, 700, 300)]), [1, 2], (1, 1), 0, 'EPSG:3857'),
        # the single tile row of level 0 (600 // 140 = 4 pixels) ends at y = 560: rows of level 3 above it have no ancestor
        ('gcust-top',    'Gcust', ('bbox', [(100, 450, 400, 595)]), [0, 3], (1, 1), 0, 'EPSG:3857'),
        # a fat part that contains whole tiles of a coarse level next to a thin arm: a contained sub-tile and a partially
        # covered sibling under one parent, in both walk orders, with levels below the sibling
        ('g2-fat-arm-e', 'G2',    ('poly', [(0, 0, 330, 330), (330, 0, 630, 50)]), [0, 1, 2], (1, 1), 0, 'EPSG:3857'),
        ('g2-fat-arm-w', 'G2',    ('poly', [(310, 310, 640, 640), (10, 590, 310, 640)]), [0, 1, 2], (1, 1), 0, 'EPSG:3857'),
        ('g2-fat-arm-n', 'G2',    ('poly', [(0, 0, 330, 330), (0, 330, 50, 630)]), [1, 2], (1, 1), 0, 'EPSG:3857'),
    ]
    if tier == 'thorough':
        c += [
            ('g2-full',     'G2',    ('bbox', [(0, 0, 640, 640)]), [0, 1, 2], (1, 1), 0, 'EPSG:3857'),
            ('g2-skip3',    'G2',    ('poly', [(30, 30, 130, 350), (130, 250, 350, 350)]), [0, 1, 2], (1, 1), 3, 'EPSG:3857'),
            ('g2-skip4',    'G2',    ('bbox', [(90, 50, 410, 330)]), [1, 2], (1, 1), 4, 'EPSG:3857'),
            ('g15-full',    'G15',   ('bbox', [(0, 0, 720, 720)]), [0, 1, 2], (1, 1), 0, 'EPSG:3857'),
            ('g15-multi',   'G15',   ('multi', [(50, 50, 250, 250), (330, 330, 700, 460)]), [0, 1, 2], (2, 1), 0, 'EPSG:3857'),
            ('grect-poly',  'Grect', ('poly', [(100, 30, 300, 300), (300, 30, 900, 100)]), [1, 2, 3], (2, 2), 0, 'EPSG:3857'),
            ('grect-skip2', 'Grect', ('bbox', [(100, 30, 500, 200)]), [0, 1, 2, 3], (1, 1), 2, 'EPSG:3857'),
            ('gcust-poly',  'Gcust', ('poly', [(10, 10, 200, 590), (200, 300, 830, 420)]), [0, 1, 2, 3], (1, 1), 0, 'EPSG:3857'),
            ('gcust-meta',  'Gcust', ('bbox', [(130, 110, 470, 290)]), [0, 3], (3, 2), 0, 'EPSG:3857'),
            ('g5-5lev',     'G5',    ('bbox', [(500, 500, 900, 800)]), [0, 1, 2, 3, 4], (1, 1), 0, 'EPSG:3857'),
            ('g5-sub',      'G5',    ('poly', [(300, 300, 500, 700), (500, 300, 800, 420)]), [1, 3, 4], (2, 2), 0, 'EPSG:3857'),
            ('g2ul-thin',   'G2ul',  ('bbox', [(10, 10, 326, 300)]), [2], (1, 1), 0, 'EPSG:3857'),
            ('g5-thin',     'G5',    ('bbox', [(615, 100, 900, 500)]), [3, 4], (1, 1), 0, 'EPSG:3857'),
        ]
    return c


# ------------------------------------------------------------------------------------------------
# TLC drivers
# ------------------------------------------------------------------------------------------------
ACTIONS = ['EnterRoot', 'Enter', 'Report', 'NoIntersect', 'StepDown', 'SkipProcessed', 'StepUp', 'Dedup', 'Process',
           'LeafForward', 'FinalReport', 'Interrupt', 'Continue', 'StopReport', 'StoppedExit']
INVARIANTS = ['TypeOK', 'NoOutside', 'CompleteRunExact', 'CompleteRunCoarse', 'WalkIsFull', 'ResumeCovers',
              'ResumeNoExtra', 'ReportedPathExact', 'SavedShape']


def write_worlds(d, worlds, name='worlds.json'):
    p = os.path.join(d, name)
    with open(p, 'w') as f:
        json.dump(worlds, f)
    return p


def run_model(ctx, name, worlds, max_interrupts, invariants, excused=(), last_run_saves='yes', timeout=900,
              need=()):
    d = ctx.sub('mc-' + name)
    wf = write_worlds(d, worlds)
    mp, cp = tlc.write_mc(d, 'Seeder', 'MC_' + re.sub(r'\W', '_', name),
                          dict(MaxInterrupts=max_interrupts, LastRunSaves=last_run_saves,
                               Excused=set(excused), Planned=False),
                          invariants=invariants)
    r = tlc.run(mp, cp, d, timeout=timeout, env={'WORLD_FILE': wf})
    if r.error:
        raise tlc.MachineryError('Seeder.tla (%s): %s\n%s' % (name, r.error, r.out[-1500:]))
    if r.ok:
        for a in need:
            if r.coverage.get(a, (0, 0))[0] == 0:
                raise tlc.MachineryError('Seeder.tla (%s): action %s was never taken (vacuous run)' % (name, a))
    return r


def action_coverage(r):
    """coverage per action name, including the two parameterised disjuncts of Next (Report, FinalReport)"""
    cov = dict(r.coverage)
    extra = []
    for line in r.out.splitlines():
        m = re.match(r'^<Next line \d+, col \d+ to line \d+, col \d+ of module Seeder \((\d+) \d+ \d+ \d+\)>: (\d+):(\d+)', line)
        if m:
            extra.append((int(m.group(1)), (int(m.group(2)), int(m.group(3)))))
    extra.sort()
    for name, (ln, c) in zip(['Report', 'FinalReport', 'StopReport'], extra):
        cov[name] = c
    cov.pop('Next', None)
    return cov


# ------------------------------------------------------------------------------------------------
# TLC behaviours -> real code
# ------------------------------------------------------------------------------------------------
_WANT = ('lp', 'lpl', 'saved', 'handed', 'phase', 'old', 'nint', 'wid', 'before')
EVENT_OF = {'EnterRoot': 'enter', 'Enter': 'enter', 'Report': 'report', 'FinalReport': 'report',
            'NoIntersect': 'step_forward', 'SkipProcessed': 'step_forward', 'LeafForward': 'step_forward',
            'StepDown': 'step_down', 'StepUp': 'step_up', 'Process': 'process', 'Continue': 'continue'}


def parse_sim_light(path):
    """[(action name, args tuple, {var: raw text})] from a -simulate trace file; values are parsed on demand"""
    beh = []
    act = None
    cur = None
    var = None
    with open(path) as f:
        for line in f:
            line = line.rstrip('\n')
            if line.startswith('\\* <') or line.startswith('\\*<'):
                act = line[line.index('<') + 1:].split(' line ')[0].rstrip('>').strip()
            elif re.match(r'^STATE_\d+ ==', line):
                cur = {}
                var = None
            elif cur is not None:
                if line.strip() == '':
                    if cur:
                        beh.append((act, cur))
                    cur = None
                    continue
                m = re.match(r'^/\\ (\w+) = (.*)$', line)
                if m:
                    var = m.group(1)
                    cur[var] = m.group(2)
                elif var is not None:
                    cur[var] += '\n' + line
    if cur:
        beh.append((act, cur))
    out = []
    for act, raw in beh:
        m = re.match(r'^(\w+)(?:\((.*)\))?$', act or 'Init')
        args = tla.parse_value('<<' + m.group(2) + '>>') if m.group(2) else ()
        out.append((m.group(1), args, raw))
    return out


def beh_from_error_trace(trace):
    out = []
    for act, st in trace:
        m = re.match(r'^(\w+)(?:\((.*)\))?$', act.strip())
        name = m.group(1) if m else act
        out.append((name, None, st))
    return out


def _val(raw, var):
    v = raw[var]
    return tla.parse_value(v) if isinstance(v, str) else v


def _ids(v):
    return [[int(a), int(b)] for a, b in v]


class Follower(object):
    """Executes one spec behaviour on the real code, comparing after every action."""

    def __init__(self, beh, wd, rk, workdir):
        self.beh = beh
        self.p = 1                      # beh[0] is the initial state
        self.div = None                 # (index, text)
        self.steps = 0
        self.sess = Session(wd, rk, workdir, self.decide_save, self.after_event)

    def _skip_silent(self):
        while self.p < len(self.beh) and self.beh[self.p][0] == 'Dedup':
            self.p += 1
            self.steps += 1

    def _diverge(self, text):
        if self.div is None:
            self.div = (self.p, text)

    def decide_save(self):
        self._skip_silent()
        if self.p >= len(self.beh):
            return False
        name, args, raw = self.beh[self.p]
        if name not in ('Report', 'FinalReport'):
            self._diverge('the code reports progress where the model does %s' % name)
            return False
        if args:
            return bool(args[0])
        # error traces carry no arguments: the decision is visible in the state only if it changes `saved`;
        # take "save" iff the state after the action differs from the one before
        prev = self.beh[self.p - 1][2]
        return _val(raw, 'saved') != _val(prev, 'saved')

    def _compare(self, ev, raw):
        o = self.sess.obs() if ev is None else ev
        exp = {'lp': _ids(_val(raw, 'lp')), 'lpl': _val(raw, 'lpl'), 'saved': _ids(_val(raw, 'saved'))}
        got = {k: o[k] for k in exp}
        if got != exp:
            return 'progress/saved state differs: code %s, model %s' % (json.dumps(got), json.dumps(exp))
        eh = [tuple(t) for t in _val(raw, 'handed')]
        if eh != self.sess.handed:
            return 'handed list differs: code %s, model %s' % (self.sess.handed[-3:], eh[-3:])
        return None

    def after_event(self, ev):
        """called by the session after every real event; True = interrupt now"""
        if self.div is not None:
            return True
        self._skip_silent()
        if self.p >= len(self.beh):
            return True
        name, args, raw = self.beh[self.p]
        want = EVENT_OF.get(name)
        if want != ev['ev']:
            self._diverge('the code does %s where the model does %s' % (ev['ev'], name))
            return True
        if name == 'NoIntersect' or name == 'LeafForward':
            pass
        if name == 'SkipProcessed' and ev.get('n') != 1:
            self._diverge('step_forward(%r) where the model skips a processed subtree' % ev.get('n'))
            return True
        if name in ('Report', 'FinalReport') and args:
            forced = ev['one'] and not args[0]
            if not forced and bool(ev['wrote']) != bool(args[0]):
                self._diverge('progress file %s, the model says save=%s' % ('written' if ev['wrote'] else 'not written', args[0]))
                return True
            if forced:
                # progress == 1.0 makes the code save regardless of the throttle: follow the code
                self.steps += 1
                self.p = len(self.beh)
                return True
        if name in ('Enter', 'EnterRoot'):
            st = _val(raw, 'stack')
            top = st[-1]
            if (top['lvl'], list(top['box']), top['total']) != (ev['level'], list(ev['box']), ev['n']):
                self._diverge('get_affected_level_tiles(level %s, box %s) -> %s tiles; the model enters level %s box %s '
                              'with %s tiles' % (ev['level'], ev['box'], ev['n'], top['lvl'], list(top['box']), top['total']))
                return True
        if name == 'Continue':
            if ev['old'] != _ids(_val(raw, 'old')):
                self._diverge('continued with progress %s, the model with %s' % (ev['old'], _ids(_val(raw, 'old'))))
                return True
        bad = self._compare(ev, raw)
        if bad:
            self._diverge('after %s: %s' % (name, bad))
            return True
        self.p += 1
        self.steps += 1
        self._skip_silent()
        if self.p >= len(self.beh):
            return True
        return self.beh[self.p][0] == 'Interrupt'

    def run(self):
        """-> None (conforms) or (index, text)"""
        sess = self.sess
        try:
            guard = 0
            while self.p < len(self.beh) and self.div is None:
                guard += 1
                if guard > 50:
                    raise tlc.MachineryError('follower does not terminate')
                if self.beh[self.p][0] == 'Interrupt' and sess.runs == 0:
                    # killed before the walk started: nothing happened
                    sess.runs += 1
                    sess.handed_runs.append([])
                    res = 'interrupted'
                else:
                    res = sess.run_once()
                if res == 'crashed':
                    self._diverge('the seeder raised %s' % sess.crash)
                if self.div is not None:
                    break
                if res == 'interrupted':
                    if self.p >= len(self.beh):
                        break
                    name, args, raw = self.beh[self.p]
                    if name != 'Interrupt':
                        self._diverge('the code was interrupted where the model does %s' % name)
                        break
                    o = sess.obs()
                    if o['saved'] != _ids(_val(raw, 'saved')):
                        self._diverge('after Interrupt: saved progress %s, model %s' % (o['saved'], _ids(_val(raw, 'saved'))))
                        break
                    before = set(tuple(t) for t in _val(raw, 'before'))
                    real_before = set(t for run in sess.handed_runs for t in run)
                    if before != real_before:
                        self._diverge('after Interrupt: work done so far differs from the model')
                        break
                    self.p += 1
                    self.steps += 1
                else:
                    self._skip_silent()
                    if self.p < len(self.beh):
                        self._diverge('seed() returned where the model continues with %s' % self.beh[self.p][0])
                    break
            return self.div
        finally:
            sess.cleanup()


# ------------------------------------------------------------------------------------------------
# random driving of the real code (code -> spec)
# ------------------------------------------------------------------------------------------------
class RandomDriver(object):
    def __init__(self, rng, cuts, p_save, saves=None):
        self.rng = rng
        self.cuts = list(cuts)      # interrupt the k-th run after cuts[k] events (None/absent: run to the end)
        self.p_save = p_save
        self.script = list(saves) if saves is not None else None     # replay: the recorded throttle decisions
        self.saves = []
        self.sess = None
        self.count = 0

    def decide_save(self):
        if self.script is not None:
            v = self.script[len(self.saves)] if len(self.saves) < len(self.script) else False
        else:
            v = self.rng.random() < self.p_save
        self.saves.append(bool(v))
        return v

    def after_event(self, ev):
        self.count += 1
        k = self.sess.runs - 1
        return k < len(self.cuts) and self.cuts[k] is not None and self.count >= self.cuts[k]

    def drive(self, wd, rk, workdir):
        sess = self.sess = Session(wd, rk, workdir, self.decide_save, self.after_event,
                                   interrupt_exc=[KeyboardInterrupt, _seed_interrupted(), 'stop'][sum(c or 0 for c in self.cuts) % 3])
        try:
            for _ in range(len(self.cuts) + 2):
                self.count = 0
                k = sess.runs
                if k < len(self.cuts) and self.cuts[k] == 0 and k == 0:
                    sess.runs += 1
                    sess.handed_runs.append([])
                    sess.events.append(dict({'ev': 'interrupt'}, **sess.obs()))
                    continue
                if sess.run_once() in ('done', 'crashed'):
                    return sess
            raise tlc.MachineryError('random driver: seeding does not finish')
        finally:
            sess.cleanup()


def _seed_interrupted():
    from mapproxy.seed.seeder import SeedInterrupted
    return SeedInterrupted


def ideal_reach(wd, per_level_inset=False):
    """Meta tiles of the seeded levels reached by a reference descent computed with the oracle's geometry only:
    children of a node are the meta tiles that overlap its box (per_level_inset: its box shrunk by 1/10 pixel of the
    child level, as the grid query does).  Used to tell WHY a tile was missed: a must-tile that the descent without
    inset reaches and the descent with the per-level inset does not was lost to the inset of a coarser level."""
    orc = Oracle(wd)
    g = wd.grid
    last = wd.levels[-1]
    root = tuple(wd.coverage.extent.bbox_for(g.srs))
    reached = set()
    seen = set()
    todo = [(0, root)]
    while todo:
        z, box = todo.pop()
        if (z, box) in seen or len(seen) > 20000:
            continue
        seen.add((z, box))
        if box[0] >= box[2] or box[1] >= box[3]:
            continue
        tested = len([l for l in wd.levels if l >= z]) >= wd.skip
        qbox = _inset(box, g.resolutions[z] / 10.0) if per_level_inset else box
        for t in orc.window(z, box):
            rect = meta_rect(wd, t)
            if not _overlap_open(rect, qbox):
                continue
            if tested and orc.away(rect):
                continue
            if z in wd.levels:
                reached.add(t)
            if z < last:
                todo.append((z + 1, limit(box, rect)))
    return reached


_REACH = {}


def classify_miss(wd, t):
    """a must-tile that was not requested: lost to the 1/10 pixel inset of a coarser level, or something else"""
    orc = Oracle(wd)
    f = 1.0 if wd.lattice else 2.0
    g = wd.grid
    cover = orc.coarser_cover(t[2], f * g.resolutions[0] / 10.0)
    if cover is not None and not orc.overlaps(meta_rect(wd, t), f * g.resolutions[t[2]] / 10.0, cover):
        return 'coarser-level-matrix-does-not-cover'
    if POLICY['value'] != 'level':
        return 'other'
    if wd.name not in _REACH:
        _REACH.clear()
        try:
            _REACH[wd.name] = (ideal_reach(wd), ideal_reach(wd, per_level_inset=True))
        except TooBig:
            return 'other'
    free, inset = _REACH[wd.name]
    return 'coarse-level-inset' if tuple(t) in free and tuple(t) not in inset else 'other'


def check_observed(ctx, wd, w, full, sess, what):
    """the property statement on the values observed on the real code; returns set of excusable miss causes"""
    must = set(tuple(t) for t in w['must'])
    allowed = set(tuple(t) for t in w['allowed'])
    fullset = set(full)
    res = set()
    if sess is not None and sess.crash:
        ctx.violation({'clause': 'exception', 'type': sess.crash.split(':')[0]},
                      '%s: seeding raised %s (%s)' % (wd.name, sess.crash, what), {'kind': 'miss', 'world': wd.desc})
        return res
    for t in sorted(must - fullset):
        cause = classify_miss(wd, t)
        res.add(cause)
        ctx.violation({'clause': 'CompleteRunExact', 'cause': cause},
                      '%s: an uninterrupted seed run never requests meta tile %s although it overlaps the coverage by more '
                      'than 1/10 pixel of level %d (%s)' % (wd.name, t, t[2], json.dumps(wd.desc)),
                      {'kind': 'miss', 'world': wd.desc, 'tile': list(t)})
    for run in (sess.handed_runs if sess is not None else [full]):
        for t in run:
            if t not in allowed:
                ctx.violation({'clause': 'NoOutside', 'lattice': wd.lattice},
                              '%s: meta tile %s is requested although it lies outside the coverage (%s)' % (
                                  wd.name, t, json.dumps(wd.desc)), {'kind': 'outside', 'world': wd.desc, 'tile': list(t)})
                break
    if sess is not None and len(sess.handed_runs) > 1:
        union = set(t for run in sess.handed_runs for t in run)
        lost = sorted(fullset - union)
        if lost:
            ctx.violation({'clause': 'ResumeCovers'},
                          '%s: interrupted %d time(s) and continued from the saved progress: %d tile(s) of the uninterrupted run '
                          'are never requested, e.g. %s (%s)' % (wd.name, len(sess.handed_runs) - 1, len(lost), lost[0], what),
                          {'kind': 'resume', 'world': wd.desc, 'events': sess.events})
    return res


def validate_traces(ctx, name, worlds, traces, excused=(), timeout=1800):
    d = ctx.sub('trace-' + name)
    wf = write_worlds(d, worlds)
    tf = os.path.join(d, 'traces.json')
    with open(tf, 'w') as f:
        json.dump(traces, f)
    mp, cp = tlc.write_mc(d, 'Trace_Seeder', 'MC_Trace',
                          dict(MaxInterrupts=99, LastRunSaves='both', Excused=set(excused), Planned=False),
                          spec='TraceSpec', post='TraceAccepted', invariants=INVARIANTS)
    r = tlc.run(mp, cp, d, workers=1, coverage=False, env={'WORLD_FILE': wf, 'TRACE_FILE': tf}, timeout=timeout)
    pr = tlc.find_prints(r.out, 'matched')
    if r.violated and r.violated != 'postcondition':
        return r, None
    if not pr:
        raise tlc.MachineryError('trace validation: no verdict from TLC\n' + r.out[-2000:])
    mv = pr[-1][1]
    matched = list(mv) if isinstance(mv, tuple) else [mv[k] for k in sorted(mv)]
    rejected = [(i, matched[i]) for i in range(len(traces)) if matched[i] < len(traces[i]['ev'])]
    return r, rejected


# ------------------------------------------------------------------------------------------------
# random real grids and coverages
# ------------------------------------------------------------------------------------------------
def _random_grid(rng):
    from mapproxy.grid import TileGrid
    from mapproxy.srs import SRS
    k = rng.choice(['mercator', 'mercator', 'geodetic', 'sqrt2', 'factor', 'custom', 'custom', 'custom-ul'])
    if k == 'mercator':
        return k, TileGrid(SRS(3857), origin=rng.choice(['ll', 'ul'])), dict(kind=k)
    if k == 'geodetic':
        return k, TileGrid(SRS(4326), bbox=(-180.0, -90.0, 180.0, 90.0), is_geodetic=True), dict(kind=k)
    if k == 'sqrt2':
        return k, TileGrid(SRS(3857), res='sqrt2'), dict(kind=k)
    if k == 'factor':
        f = rng.choice([1.5, 1.7, 2.5, 3.0])
        return k, TileGrid(SRS(3857), res=f, levels=14), dict(kind=k, factor=f)
    # custom resolution list on a non-square extent
    x0 = rng.uniform(-5e5, 5e5)
    y0 = rng.uniform(-5e5, 5e5)
    w = rng.uniform(2e5, 9e5)
    h = w * rng.uniform(0.35, 1.8)
    ts = rng.choice([(256, 256), (512, 512), (128, 256), (100, 100), (256, 200)])
    res = [max(w / ts[0], h / ts[1]) * rng.uniform(0.7, 1.6)]
    for _ in range(rng.randint(3, 8)):
        res.append(res[-1] / rng.choice([1.2, 1.5, 2.0, 2.0, 2.5, 3.0, rng.uniform(1.1, 3.5)]))
    origin = 'ul' if k == 'custom-ul' else 'll'
    bbox = (x0, y0, x0 + w, y0 + h)
    return k, TileGrid(SRS(3857), bbox=bbox, res=res, tile_size=ts, origin=origin), dict(
        kind=k, bbox=list(bbox), res=res, tile_size=list(ts), origin=origin)


def _random_polygon(rng, box):
    import shapely.geometry
    x0, y0, x1, y1 = box
    cx, cy = (x0 + x1) / 2, (y0 + y1) / 2
    n = rng.randint(3, 9)
    pts = []
    for i in range(n):
        a = 2 * math.pi * (i + rng.uniform(-0.3, 0.3)) / n
        r = rng.uniform(0.25, 1.0)
        pts.append((cx + math.cos(a) * r * (x1 - x0) / 2, cy + math.sin(a) * r * (y1 - y0) / 2))
    p = shapely.geometry.Polygon(pts)
    if not p.is_valid or p.area <= 0:
        p = shapely.geometry.box(*box)
    return p


def random_world(seed, idx, near_border=False):
    """-> WorldDef (real float grid), a function of (seed, idx, near_border) only"""
    import random
    import shapely.geometry
    rng = random.Random('c11-world-%s-%d' % (seed, idx))
    import shapely.ops
    from mapproxy.srs import SRS
    from mapproxy.util.coverage import BBOXCoverage, GeomCoverage, MultiCoverage
    kind, g, gdesc = _random_grid(rng)
    last = rng.randint(1, min(g.levels - 1, 11))
    sx = g.resolutions[last] * g.tile_size[0]
    sy = g.resolutions[last] * g.tile_size[1]
    gb = g.bbox
    meta = rng.choice([(1, 1), (1, 1), (2, 2), (3, 2), (4, 4)])

    def rbox(scale=1.0):
        w = sx * meta[0] * rng.uniform(0.6, 3.2) * scale
        h = sy * meta[1] * rng.uniform(0.6, 3.2) * scale
        w = min(w, (gb[2] - gb[0]) * 0.9)
        h = min(h, (gb[3] - gb[1]) * 0.9)
        x = rng.uniform(gb[0], gb[2] - w)
        y = rng.uniform(gb[1], gb[3] - h)
        if near_border:
            # one edge closer than 1/10 pixel of a coarser level to a tile border of that level
            k = rng.randint(0, max(0, last - 3))
            span = g.resolutions[k] * g.tile_size[0]
            d = g.resolutions[k] / 10.0 * rng.uniform(0.15, 0.85)
            n = int((x - gb[0]) / span)
            border = gb[0] + (n + 1) * span
            if border + w < gb[2]:
                x = border - d
        return (x, y, x + w, y + h)

    ck = rng.choice(['bbox', 'bbox', 'poly', 'poly', 'multi', 'srs-bbox', 'srs-poly', 'srs-raw'])
    if g.srs != SRS(3857) and ck.startswith('srs'):
        ck = 'poly'
    desc = dict(grid=gdesc, cov=ck)
    if ck == 'bbox':
        b = rbox()
        cov = BBOXCoverage(b, g.srs)
        geom = shapely.geometry.box(*b)
        desc['bbox'] = list(b)
    elif ck == 'poly':
        poly = _random_polygon(rng, rbox(1.3))
        cov = GeomCoverage(poly, g.srs)
        geom = poly
        desc['wkt'] = poly.wkt
    elif ck == 'multi':
        b1, b2 = rbox(), rbox()
        p2 = _random_polygon(rng, b2)
        cov = MultiCoverage([BBOXCoverage(b1, g.srs), GeomCoverage(p2, g.srs)])
        geom = shapely.ops.unary_union([shapely.geometry.box(*b1), p2])
        desc['bbox'] = list(b1)
        desc['wkt'] = p2.wkt
    else:
        # coverage given in EPSG:4326 and transformed to the grid SRS as mapproxy-seed does
        b = rbox(1.3)
        ll = g.srs.transform_bbox_to(SRS(4326), b)
        if ck == 'srs-raw':
            # the coverage stays in EPSG:4326: the walker's bbox and every tile test go through the SRS
            # transformation (mercator <-> lat/long maps axis parallel rectangles to axis parallel rectangles)
            cov = BBOXCoverage(tuple(ll), SRS(4326))
            geom = shapely.geometry.box(*SRS(4326).transform_bbox_to(g.srs, ll))
            desc['llbbox'] = list(ll)
        elif ck == 'srs-bbox':
            cov = BBOXCoverage(tuple(ll), SRS(4326)).transform_to(g.srs)
            geom = shapely.geometry.box(*cov.bbox)
            desc['llbbox'] = list(ll)
        else:
            poly = _random_polygon(rng, ll)
            cov = GeomCoverage(poly, SRS(4326)).transform_to(g.srs)
            geom = cov.geom
            desc['llwkt'] = poly.wkt
    nlev = rng.randint(1, min(4, last + 1))
    levels = sorted(set(rng.sample(range(0, last + 1), nlev - 1) + [last]))
    if rng.random() < 0.3:
        levels = list(range(max(0, last - rng.randint(0, 5)), last + 1))
    skip = rng.choice([0, 0, 0, 1, 2, 3])
    desc.update(levels=levels, meta=list(meta), skip=skip, near_border=near_border)
    desc['random'] = [seed, idx, near_border]
    return WorldDef('r%d-%s-%s' % (idx, kind, ck), g, meta, cov, levels, skip=skip, cov_geom=geom, desc=desc)


# ------------------------------------------------------------------------------------------------
# the check
# ------------------------------------------------------------------------------------------------
def fixed_worlds():
    """float worlds chosen by hand (random worlds meet their kind rarely)"""
    import shapely.geometry
    from mapproxy.grid import TileGrid
    from mapproxy.srs import SRS
    from mapproxy.util.coverage import GeomCoverage
    out = []
    # a pyramid with a resolution factor of 2.5 (a tile of one level sticks out of its parent and is reached again from the
    # neighbouring parent), a triangle across the world: one of the two parents lies inside the triangle, the other one
    # on its edge
    for name, nlev, tri in (('factor2.5-triangle', 5, [(-137.2, -16.0), (30.1, -47.0), (-15.6, 1.8)]),
                            ('factor2.5-triangle-b', 5, [(-24.6, -35.9), (-130.3, -27.7), (107.1, 39.2)])):
        g = TileGrid(SRS(4326), bbox=(-180.0, -90.0, 180.0, 90.0), res=[0.46875 / 2.5 ** i for i in range(nlev)])
        poly = shapely.geometry.Polygon(tri)
        out.append(WorldDef('fixed-' + name, g, (1, 1), GeomCoverage(poly, g.srs), list(range(nlev)), skip=0, cov_geom=poly,
                            desc={'fixed': name}))
    return out


def world_from_desc(desc):
    if 'fixed' in desc:
        return [w for w in fixed_worlds() if w.desc['fixed'] == desc['fixed']][0]
    if 'lattice' in desc:
        name, grid, cov, levels, meta, skip, srs = desc['lattice']
        return lattice_world(name, grid, (cov[0], [tuple(r) for r in cov[1]]), levels, tuple(meta), skip, srs)
    seed, idx, near = desc['random']
    return random_world(seed, idx, near)


class Item(object):
    """a world with everything measured on it"""

    def __init__(self, wd, w, rk):
        self.wd, self.w, self.rk = wd, w, rk
        self.full = None        # hand-overs of the uninterrupted real run
        self.nev = 0            # its number of events
        self.excused = False    # a CompleteRunExact violation of this world has been reported
        self.crashed = False    # the real seeder raised on it


def observe_full(ctx, it, workdir, traces, meta):
    """uninterrupted real run: the property statement on it + its trace"""
    drv = RandomDriver(ctx.rng, [], 0.5)
    s0 = drv.drive(it.wd, it.rk, workdir)
    it.full = list(s0.handed_runs[-1])
    it.nev = len(s0.events)
    if s0.crash:
        ctx.violation({'clause': 'exception', 'type': s0.crash.split(':')[0]},
                      '%s: seeding raised %s' % (it.wd.name, s0.crash), {'kind': 'miss', 'world': it.wd.desc})
        it.crashed = True
    if s0.anomalies:
        ctx.violation({'clause': 'hand-over-shape'}, '%s: %s' % (it.wd.name, s0.anomalies[0]), {'world': it.wd.desc})
    if check_observed(ctx, it.wd, it.w, it.full, None, ''):
        it.excused = True
    traces.append(s0.events)
    meta.append((it, [], drv.saves))
    ctx.count(('full', it.wd.name, len(it.full)))


def observe_interrupted(ctx, it, workdir, traces, meta, nmax=3):
    n = ctx.rng.randint(1, nmax)
    cuts = [ctx.rng.randint(0, it.nev + 1) for _ in range(n)]
    drv = RandomDriver(ctx.rng, cuts, ctx.rng.choice([0.2, 0.5, 0.9]))
    s = drv.drive(it.wd, it.rk, workdir)
    check_observed(ctx, it.wd, it.w, it.full, s, 'interrupted after %s events of the successive runs; throttle decisions %s' % (
        cuts, ''.join('S' if x else '-' for x in drv.saves)))
    traces.append(s.events)
    meta.append((it, cuts, drv.saves))
    ctx.count(('interrupted', it.wd.name, tuple(cuts), tuple(drv.saves)))
    return s


def report_rejections(ctx, r, rejected, traces, meta, what):
    if rejected is None:
        # an invariant failed on a recorded execution
        lab = [a for a, _ in r.trace]
        st = r.trace[-1][1] if r.trace else {}
        tid = st.get('tid')
        it, cuts, saves = meta[tid - 1] if tid else (None, None, None)
        ctx.violation({'clause': r.violated, 'where': 'recorded-execution'},
                      '%s: invariant %s fails on an execution recorded from the real code (%s, interrupted after %s events)' % (
                          what, r.violated, it.wd.name if it else '?', cuts),
                      {'kind': 'scripted', 'world': it.wd.desc if it else None, 'cuts': cuts, 'saves': saves})
        return
    for i, upto in rejected:
        it, cuts, saves = meta[i]
        e = traces[i][upto]
        ctx.violation({'clause': 'trace-rejected', 'event': e['ev']},
                      '%s: the execution recorded from %s (interrupted after %s events) is not a behaviour of Seeder.tla at '
                      'event %d: %s' % (what, it.wd.name, cuts, upto, json.dumps(e)[:300]),
                      {'kind': 'scripted', 'world': it.wd.desc, 'cuts': cuts, 'saves': saves})


def model_checking(ctx, items, thorough):
    worlds = [it.w for it in items]
    # pass 1: uninterrupted runs of every world; the model lists the worlds where a selected tile is never requested
    r = run_model(ctx, 'complete', worlds, 0, ['TypeOK', 'MissReport', 'NoOutside', 'CompleteRunCoarse', 'WalkIsFull',
                                               'ReportedPathExact', 'SavedShape'], last_run_saves='both')
    if r.violated:
        confirm_counterexample(ctx, items, r, 'complete')
    else:
        ctx.add_tlc('Seeder/uninterrupted', r)
    missed = {}
    for rec in tlc.find_prints(r.out, 'missed'):
        missed.setdefault(rec[1], set()).update(tuple(t) for t in rec[2])
    for k, it in enumerate(items):
        real = set(tuple(t) for t in it.w['must']) - set(it.full)
        model = missed.get(k + 1, set())
        if real != model:
            ctx.violation({'clause': 'model-vs-code', 'what': 'missed tiles'},
                          '%s: the model misses %s, the real walker misses %s' % (it.wd.name, sorted(model), sorted(real)),
                          {'kind': 'miss', 'world': it.wd.desc})
        if model:
            it.excused = True
            ctx.log('model and code agree: %s never requests %s' % (it.wd.name, sorted(model)))
    excused = [k + 1 for k, it in enumerate(items) if it.excused]
    # pass 2: every interruption point x every throttle decision x continued runs
    runs = [('interrupt1', list(range(len(items))), 1)]
    order = sorted(range(len(items)), key=lambda k: items[k].nev)
    if thorough:
        runs.append(('interrupt2', order[:max(6, 2 * len(items) // 3)], 2))
        runs.append(('interrupt3', order[:12], 3))
    else:
        runs.append(('interrupt2', order[:7], 2))
    for name, idxs, mi in runs:
        sub = [items[k].w for k in idxs]
        exc = [j + 1 for j, k in enumerate(idxs) if items[k].excused]
        r = run_model(ctx, name, sub, mi, INVARIANTS, excused=exc, last_run_saves='yes', timeout=3000)
        ctx.log('Seeder.tla %s: %r' % (name, r))
        if r.violated:
            confirm_counterexample(ctx, [items[k] for k in idxs], r, name)
            continue
        cov = action_coverage(r)
        for a in (ACTIONS if name == 'interrupt1' else ['Enter', 'Report', 'StepDown', 'SkipProcessed', 'StepUp', 'Process',
                                                        'FinalReport', 'Interrupt', 'Continue']):
            if cov.get(a, (0, 0))[0] == 0:
                raise tlc.MachineryError('Seeder.tla (%s): action %s was never taken (vacuous run)' % (name, a))
        r.coverage = cov
        ctx.add_tlc('Seeder/' + name, r)
    return excused


def confirm_counterexample(ctx, items, r, name):
    """a property fails on the model: execute the counterexample on the real code before reporting anything"""
    beh = beh_from_error_trace(r.trace)
    wid = beh[0][2]['wid']
    it = items[wid - 1]
    d = ctx.sub('cex-' + name)
    fo = Follower(beh, it.wd, it.rk, d)
    div = fo.run()
    cuts, saves = cuts_of(beh)
    if div is None:
        ctx.violation({'clause': r.violated, 'where': 'model-counterexample-reproduced'},
                      '%s: TLC counterexample to %s (%d steps, world %s) was reproduced step by step on the real seeder' % (
                          name, r.violated, len(beh), it.wd.name),
                      {'kind': 'scripted', 'world': it.wd.desc, 'cuts': cuts, 'saves': saves,
                       'actions': [a for a, _, _ in beh]})
    else:
        ctx.violation({'clause': 'replay', 'action': beh[div[0]][0] if div[0] < len(beh) else 'end'},
                      '%s: model and code diverge while reproducing a counterexample to %s on %s at step %d: %s' % (
                          name, r.violated, it.wd.name, div[0], div[1]),
                      {'kind': 'scripted', 'world': it.wd.desc, 'cuts': cuts, 'saves': saves})


def cuts_of(beh):
    """events before each interruption / throttle decisions of a behaviour (for --replay)"""
    cuts, saves = [], []
    n = 0
    prev = None
    for name, args, raw in beh[1:]:
        if name == 'Interrupt':
            cuts.append(n)
            n = 0
        elif name == 'Continue':
            n = 1
        elif name != 'Dedup':
            n += 1
        if name in ('Report', 'FinalReport'):
            if args:
                saves.append(bool(args[0]))
            else:
                saves.append(prev is not None and _val(raw, 'saved') != _val(prev, 'saved'))
        prev = raw
    return cuts, saves


def spec_to_code(ctx, items, thorough):
    """TLC simulation behaviours with planned interruptions, executed on the real code"""
    rng = ctx.rng
    for it in items:
        n = it.nev + 2
        plans = [[]] + [[rng.randint(0, n)] for _ in range(3)] + [[rng.randint(0, n), rng.randint(0, n)] for _ in range(3)]
        if thorough:
            plans += [[rng.randint(0, n), rng.randint(0, n), rng.randint(0, n)] for _ in range(3)]
        it.w['plans'] = plans
    d = ctx.sub('sim')
    wf = write_worlds(d, [it.w for it in items])
    mp, cp = tlc.write_mc(d, 'Seeder', 'MC_Sim', dict(MaxInterrupts=3, LastRunSaves='both', Excused=set(), Planned=True))
    prefix = os.path.join(d, 'beh')
    num = len(items) * (12 if thorough else 5)
    r = tlc.run(mp, cp, d, workers=1, simulate='file=%s,num=%d' % (prefix, num), depth=6000, seed=ctx.seed + 7,
                coverage=False, timeout=1500, env={'WORLD_FILE': wf})
    files = [f for f, _ in _sim_files(prefix)]
    if not files:
        raise tlc.MachineryError('no Seeder behaviours from TLC: ' + r.out[-1500:])
    seen = set()
    acts = set()
    for f in files:
        beh = parse_sim_light(f)
        if len(beh) < 2:
            continue
        key = (beh[0][2]['wid'], beh[0][2]['plan'], tuple(str(a) for n_, a, _ in beh if n_ in ('Report', 'FinalReport')))
        if key in seen:
            continue
        seen.add(key)
        it = items[_val(beh[0][2], 'wid') - 1]
        fo = Follower(beh, it.wd, it.rk, d)
        div = fo.run()
        ctx.cov['replayed_behaviours'] += 1
        ctx.cov['replayed_steps'] += fo.steps
        ctx.count(('replay', it.wd.name, key[1], key[2]))
        acts.update(a for a, _, _ in beh)
        if len(seen) == 1:
            ctx.sample({'kind': 'TLC behaviour of Seeder replayed on the real seeder', 'world': it.wd.name,
                        'plan': key[1], 'actions': [a + (str(tuple(x)) if x else '') for a, x, _ in beh[1:14]]})
        if div is not None:
            cuts, saves = cuts_of(beh)
            ctx.violation({'clause': 'replay', 'action': beh[div[0]][0] if div[0] < len(beh) else 'end'},
                          'world %s, interruption plan %s: model and code diverge at step %d: %s' % (
                              it.wd.name, key[1], div[0], div[1]),
                          {'kind': 'scripted', 'world': it.wd.desc, 'cuts': cuts, 'saves': saves})
    for a in ACTIONS:
        # (the graceful stop is not part of the planned behaviours: it is explored by the model checker and recorded
        # from the real code, see code -> spec)
        if a not in acts and a not in ('StopReport', 'StoppedExit'):
            raise tlc.MachineryError('no replayed behaviour contains action %s' % a)
    ctx.log('replayed %d distinct TLC behaviours (%d steps) on the real seeder' % (len(seen), ctx.cov['replayed_steps']))


def _sim_files(prefix):
    import glob
    files = sorted(glob.glob(prefix + '*'), key=lambda p: [int(x) for x in re.findall(r'\d+', os.path.basename(p))])
    return [(f, None) for f in files if os.path.isfile(f)]


def code_to_spec(ctx, items, name, per_world, nmax=3):
    d = ctx.sub('rec-' + name)
    traces, meta = [], []
    for it in items:
        if it.full is None:
            observe_full(ctx, it, d, traces, meta)
        else:
            # the uninterrupted run was observed before; record it again as a trace
            drv = RandomDriver(ctx.rng, [], 0.5)
            s0 = drv.drive(it.wd, it.rk, d)
            traces.append(s0.events)
            meta.append((it, [], drv.saves))
        for _ in range(per_world):
            observe_interrupted(ctx, it, d, traces, meta, nmax)
    idx = {id(it): k + 1 for k, it in enumerate(items)}
    batch = [{'w': idx[id(m[0])], 'ev': ev} for ev, m in zip(traces, meta)]
    exc = [k + 1 for k, it in enumerate(items) if it.excused]
    r, rejected = validate_traces(ctx, name, [it.w for it in items], batch, excused=exc)
    report_rejections(ctx, r, rejected, traces, meta, name)
    if rejected is not None:
        ctx.cov['traces_validated_against_impl'] += len(traces) - len(rejected)
        ctx.cov['states'] += r.distinct
        ctx.cov['transitions'] += r.generated
    nstop = sum(1 for t in traces if any(e.get('ev') == 'report' and e.get('stopping') for e in t))
    ctx.cov['graceful_stops_recorded'] = ctx.cov.get('graceful_stops_recorded', 0) + nstop
    ctx.log('%s: %d recorded executions of %d worlds validated by TLC (%s rejected), %d events, %d with a graceful stop' % (
        name, len(traces), len(items), 'invariant failed' if rejected is None else len(rejected), sum(len(t) for t in traces), nstop))
    if traces:
        ctx.sample({'kind': 'execution recorded from the real seeder, validated by Trace_Seeder', 'world': meta[-1][0].wd.name,
                    'interrupted_after_events': meta[-1][1], 'events': [{k: v for k, v in e.items()} for e in traces[-1][:4]]})


def random_items(ctx, n, max_nodes, max_events):
    items = []
    for wd in fixed_worlds():
        bw = build_world(wd, max_nodes=20000, max_events=None)
        if bw is None:
            raise tlc.MachineryError('fixed world %s could not be measured' % wd.name)
        items.append(Item(wd, bw[0], bw[1]))
    idx = 0
    tries = 0
    while len(items) < n and tries < 20 * n:
        tries += 1
        idx += 1
        wd = random_world(ctx.seed, idx, near_border=(idx % 6 == 0))
        try:
            bw = build_world(wd, max_nodes=max_nodes, max_events=max_events)
        except tlc.MachineryError:
            raise
        if bw is None:
            continue
        w, rk = bw
        # (long walks make TLC's trace validation slow: the handed list is part of every state)
        if len(json.dumps(w)) > 150000:
            continue
        items.append(Item(wd, w, rk))
    return items


def run(ctx):
    thorough = ctx.tier == 'thorough'
    tlc.sany(SPEC)
    import shutil
    sd = ctx.sub('sany')
    for f in (SPEC, TRACE_SPEC):
        shutil.copy(f, sd)
    tlc.sany(os.path.join(sd, 'Trace_Seeder.tla'))
    _bind_real_classes()
    policy = detect_policy()
    ctx.log('walker queries the grid per node with the inset of the %s level' % ('queried' if policy == 'level' else 'last seeded'))

    empty_levels_case(ctx)
    several_tasks_case(ctx)
    # lattice worlds
    items = []
    for row in catalogue(ctx.tier):
        wd = lattice_world(*row)
        w, rk = build_world(wd)
        items.append(Item(wd, w, rk))
    d = ctx.sub('lattice')
    traces, meta = [], []
    for it in items:
        observe_full(ctx, it, d, traces, meta)
    ctx.sample({'kind': 'lattice world', 'world': items[0].wd.desc, 'must': len(items[0].w['must']),
                'allowed': len(items[0].w['allowed']), 'nodes': len(items[0].w['aff'])})

    # (M)
    model_checking(ctx, items, thorough)
    # (R)
    spec_to_code(ctx, items, thorough)
    # (T) lattice worlds and random real grids
    code_to_spec(ctx, items, 'lattice', 4 if thorough else 2)
    ritems = random_items(ctx, 800 if thorough else 80, 1500 if thorough else 600, 2500 if thorough else 1000)
    code_to_spec(ctx, ritems, 'random', 4 if thorough else 2)

    if not ctx.cov.get('graceful_stops_recorded'):
        raise tlc.MachineryError('vacuity: no recorded execution was stopped through SeedProgress.running()')
    ctx.assumptions += [
        'interruptions: KeyboardInterrupt, SeedInterrupted (anywhere) and the graceful stop through SeedProgress.running() '
        '(noticed at the head of _walk; its two progress reports are spec actions StopReport / FinalReport)',
        'work done = (meta) tiles handed to the worker pool (the observation point the property names); tiles lost inside the '
        'worker queue of a killed process are outside the statement',
        'every tile is uncached (handle_uncached with an empty cache), work_on_metatiles=True, levels ascending as '
        'mapproxy.seed.config produces them; rescale_tiles tasks (single level, single tiles) are not covered',
        'a meta tile whose overlap with the coverage is thinner than 1/10 pixel of its own level may or may not be requested '
        '(2/10 pixel for float grids); a meta tile that only touches the coverage may be requested',
        'the progress throttle is a free boolean per report; progress == 1.0 (forced save of the final report) is followed, '
        'not predicted',
        'geometry (get_affected_level_tiles, meta tile bbox, coverage.contains/intersects) enters the model as constants '
        'measured on the real objects; the expected sets are computed without them',
    ]
    return ctx.finish('model_checking',
                      'TLC: Seeder.tla exhaustively over the lattice catalogue x all interruption points x all throttle '
                      'decisions; distinct = distinct (world, interruption plan, throttle decisions) replays and recorded executions')


def empty_levels_case(ctx):
    """A task whose levels all lie beyond the levels of its grid (LevelsList.for_grid / LevelsRange.for_grid drop them, e.g.
    one seed for grids of different depth): the selected tile set is empty - the run has to end without creating anything and
    the tasks after it have to be seeded (CompleteRunExact for Levels = {})."""
    import contextlib
    import io
    import mapproxy.seed.seeder as S
    handed = []

    class Pool(object):
        def __init__(self, task, worker_class, size=2, dry_run=False, progress_logger=None):
            pass

        def process(self, tiles, progress):
            handed.append([tuple(t) for t in tiles])

        def stop(self, force=False):
            pass

    empty = lattice_world('g2-nolevels', 'G2', ('bbox', [(90, 50, 410, 330)]), [], (1, 1), 0, 'EPSG:3857')
    after = lattice_world('g2-leaf', 'G2', ('bbox', [(250, 250, 390, 390)]), [2], (1, 1), 0, 'EPSG:3857')
    tasks = [empty.task(), after.task()]
    saved = S.TileWorkerPool
    S.TileWorkerPool = Pool
    out = io.StringIO()
    try:
        with contextlib.redirect_stdout(out):
            S.seed(tasks, concurrency=1, dry_run=False, skip_geoms_for_last_levels=0, progress_logger=None)
        err = None
    except Exception as ex:
        err = '%s: %s' % (type(ex).__name__, ex)
    finally:
        S.TileWorkerPool = saved
    ctx.count(('empty-levels', err, len(handed)))
    if err:
        ctx.violation({'kind': 'seed-raises', 'cause': 'task-without-levels'},
                      'a seed task whose levels all lie beyond the levels of its grid makes seed() raise %s; the tasks after it are not '
                      'seeded (%d hand-overs)' % (err, len(handed)), {'levels': [], 'grid': 'G2'})
    elif not handed:
        raise tlc.MachineryError('vacuity: the task after the empty one handed nothing over')


def several_tasks_case(ctx):
    """One seed entry with several caches and grids is several tasks (SeedConfiguration.seed_tasks); a run with a progress
    store (mapproxy-seed always has one) works on them one after the other.  The tasks are independent: per task, the run
    hands over exactly what a run of that task alone hands over (Seeder.tla describes one task; this is the composition),
    and every task has a progress identity of its own."""
    import contextlib
    import io
    import shutil
    import tempfile
    import mapproxy.seed.seeder as S
    from mapproxy.config.loader import ProxyConfiguration
    from mapproxy.seed.config import SeedingConfiguration
    from mapproxy.seed.util import ProgressStore, ProgressLog
    d = tempfile.mkdtemp(prefix='verif-c11-tasks-')
    handed = {}

    class Pool(object):
        def __init__(self, task, worker_class, size=2, dry_run=False, progress_logger=None):
            self.key = (task.md['cache_name'], task.md['grid_name'], id(task.tile_manager))

        def process(self, tiles, progress):
            handed.setdefault(self.cur, {}).setdefault(self.key, []).extend(tuple(t) for t in tiles)

        def stop(self, force=False):
            pass

    def build():
        conf = {'services': {'tms': {}},
                'grids': {'ga': {'srs': 'EPSG:3857', 'bbox': [0, 0, 640, 640], 'res': [40, 20, 10, 5], 'tile_size': [8, 8], 'origin': 'nw'},
                          'gb': {'srs': 'EPSG:3857', 'bbox': [-300, -300, 900, 660], 'res': [60, 30, 15], 'tile_size': [8, 8], 'origin': 'sw'}},
                'sources': {'s': {'type': 'tile', 'url': 'http://up.invalid/%(z)s/%(x)s/%(y)s.png', 'grid': 'ga'}},
                'caches': {n: {'grids': ['ga', 'gb'], 'sources': ['s'], 'meta_size': [2, 2],
                               'cache': {'type': 'file'}} for n in ('ca', 'cb', 'cc')},
                'layers': [{'name': n, 'title': n, 'sources': [n]} for n in ('ca', 'cb', 'cc')],
                'globals': {'cache': {'base_dir': os.path.join(d, 'cd'), 'lock_dir': os.path.join(d, 'l'), 'tile_lock_dir': os.path.join(d, 'tl')}}}
        seeds = {'seeds': {'several': {'caches': ['ca', 'cb', 'cc'], 'grids': ['ga', 'gb'], 'levels': {'to': 2}, 'coverages': ['cov']},
                           'single': {'caches': ['ca'], 'grids': ['ga'], 'levels': [1, 3], 'coverages': ['cov']}},
                 'coverages': {'cov': {'bbox': [90, 50, 410, 330], 'srs': 'EPSG:3857'}}}
        pc = ProxyConfiguration(conf, conf_base_dir=d, seed=True, renderd=False)
        return SeedingConfiguration(seeds, mapproxy_conf=pc).seeds()

    def run(tasks, tag):
        Pool.cur = tag
        store = ProgressStore(os.path.join(d, 'progress-' + tag), continue_seed=False)
        logger = ProgressLog(out=io.StringIO(), silent=True, verbose=False, progress_store=store)
        with contextlib.redirect_stdout(io.StringIO()):
            S.seed(tasks, concurrency=1, dry_run=False, skip_geoms_for_last_levels=0, progress_logger=logger)

    saved = S.TileWorkerPool
    S.TileWorkerPool = Pool
    try:
        tasks = build()
        if len(tasks) != 7:
            raise tlc.MachineryError('expected 7 tasks from the seed configuration, got %d' % len(tasks))
        ids = [t.id for t in tasks]
        names = [(t.md['name'], t.md['cache_name'], t.md['grid_name']) for t in tasks]
        run(tasks, 'together')
        together = {(k[0], k[1]): sorted(v) for k, v in handed.get('together', {}).items()}
        alone = {}
        for i in range(len(tasks)):
            one = build()[i]                      # a fresh configuration: nothing shared with the run above
            run([one], 'alone-%d' % i)
            for k, v in handed.get('alone-%d' % i, {}).items():
                alone[(k[0], k[1])] = sorted(alone.get((k[0], k[1]), []) + v)
    finally:
        S.TileWorkerPool = saved
        shutil.rmtree(d, ignore_errors=True)
    ctx.count(('several-tasks', json.dumps(sorted((list(k), len(v)) for k, v in together.items()))))
    if not alone or not all(alone.values()):
        raise tlc.MachineryError('vacuity: a task alone handed nothing over: %r' % {k: len(v) for k, v in alone.items()})
    if len(set(ids)) != len(ids) or len(set(names)) != len(names):
        ctx.violation({'kind': 'tasks-of-one-run-share-an-identity'},
                      'the tasks built from one seed configuration do not have identities of their own (progress of one task counts '
                      'for another): ids %s, names %s' % (ids, names), {'ids': ids, 'names': [list(n) for n in names]})
    bad = sorted(k for k in alone if together.get(k, []) != alone[k])
    if bad:
        k = bad[0]
        ctx.violation({'kind': 'tasks-not-independent', 'cause': 'several-tasks-in-one-run'},
                      'a run over several tasks (one seed entry with three caches and two grids, and a second entry) does not do, per '
                      'task, what a run of that task alone does: cache %s grid %s got %d meta tiles instead of %d (%d of %d tasks differ)' % (
                          k[0], k[1], len(together.get(k, [])), len(alone[k]), len(bad), len(alone)),
                      {'together': {'%s/%s' % kk: len(v) for kk, v in together.items()}, 'alone': {'%s/%s' % kk: len(v) for kk, v in alone.items()}})


def replay(ctx, data):
    case = data.get('case') or {}
    _bind_real_classes()
    detect_policy()
    if not case.get('world'):
        print('nothing to replay')
        return 0
    wd = world_from_desc(case['world'])
    w, rk = build_world(wd)
    it = Item(wd, w, rk)
    d = ctx.sub('replay')
    traces, meta = [], []
    observe_full(ctx, it, d, traces, meta)
    if case.get('kind') == 'scripted' or case.get('cuts'):
        drv = RandomDriver(ctx.rng, case.get('cuts') or [], 0.5, saves=case.get('saves') or [])
        s = drv.drive(wd, rk, d)
        check_observed(ctx, wd, w, it.full, s, 'replay')
        traces.append(s.events)
        meta.append((it, case.get('cuts'), drv.saves))
    batch = [{'w': 1, 'ev': ev} for ev in traces]
    r, rejected = validate_traces(ctx, 'replay', [w], batch, excused=[1] if it.excused else [])
    report_rejections(ctx, r, rejected, traces, meta, 'replay')
    print('replay: %d violation(s), %d known-finding hit(s)' % (len(ctx.violations), sum(ctx.known_hits.values())))
    import shutil
    shutil.rmtree(ctx.workdir, ignore_errors=True)
    return 1 if ctx.violations else 0
