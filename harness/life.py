"""LIFE - the composition over time spec/MapProxyLife.tla (not one of the listed properties; extends coverage).

One cache of a real MapProxy instance lives through a random history of tile requests (all flavours, invalid
addresses, conditional requests with the validators the client got earlier), contained WMS GetMap requests, seed
tasks and clean-up tasks with thresholds of their own (the real seed_task / cleanup on the same cache directory,
built by SeedingConfiguration from dictionaries), restarts with another refresh_before, and idle time - under the
virtual clock of harness/c13.  After every operation the complete cache (address, time stamp, content version of
every stored tile, read from the files), the upstream requests and the reply are recorded; TLC validates the
history against spec/trace/Trace_MapProxyLife.tla with every invariant and action property of MapProxyLife.tla
evaluated on every step.  TLC also checks the composition exhaustively for a small instance.
"""
import io
import json
import os
import shutil
import sys

from engine import tlc
from engine import lattice as L
from harness import c13

SPEC = os.path.join(tlc.SPEC_DIR, 'MapProxyLife.tla')
INVS = ['StoredInsideGrid', 'MetaUniform', 'StampsSane', 'VersionStamp', 'HeldSane', 'NoDoubleFetch']
PROPS = ['ServedFresh', 'FetchOnlyOutdatedRule', 'ChangesAreFetches', 'OnlyCleanupRemoves', 'NotModifiedSound',
         'RefusedNoEffect', 'SeedComplete', 'CleanupBounded', 'CountsAgree']
MAXOPS = 36            # the content version (a clock value) is encoded in the blue channel: 100 + level + 4 * k


class LifeApp(object):
    """a LatticeApp whose upstream paints the virtual time into the content, rebuilt on restart, with seed / cleanup"""

    def __init__(self, g, ms, buf, backend='file'):
        import mapproxy.client.http as http
        self.backend = backend
        assert len(g['res']) <= 4
        c13.install()
        self.g = g
        self.clock = 1
        c13._Env.tick = 2
        c13._Env.up = True
        self.la = L.LatticeApp(g, meta_size=ms, meta_buffer=buf)
        self.dir = self.la.dir
        self.conf = self.la.conf
        self.conf['caches']['c']['concurrent_tile_creators'] = 1      # one upstream request after the other
        if backend == 'sqlite':
            self.conf['caches']['c']['cache'] = {'type': 'sqlite', 'directory': os.path.join(self.dir, 'cache')}
        self.logf = os.path.join(self.dir, 'upstream.log')
        open(self.logf, 'w').close()
        self.pos = 0
        self._http = http
        world = self

        def fake_open(client, url, data=None, method=None):
            return world._upstream(url)
        http.HTTPClient.open = fake_open
        self.rule = None
        self.build()

    def close(self):
        self.la.close()
        c13.uninstall()

    def dt(self, th):
        return c13._FakeDateTime.fromtimestamp(c13.BASE + th)

    def build(self, seed=False):
        from mapproxy.config.loader import ProxyConfiguration
        from mapproxy.wsgiapp import MapProxyApp
        from webtest import TestApp
        c = self.conf['caches']['c']
        c.pop('refresh_before', None)
        if self.rule is not None:
            c['refresh_before'] = {'time': self.dt(self.rule)}
        pc = ProxyConfiguration(self.conf, conf_base_dir=self.dir, seed=seed, renderd=False)
        if not seed:
            self.app = TestApp(MapProxyApp(pc.configured_services(), pc.base_config))
        return pc

    def _upstream(self, url):
        from urllib.parse import urlparse, parse_qs
        from PIL import Image
        q = {k.upper(): v[0] for k, v in parse_qs(urlparse(url).query).items()}
        bbox = [float(v) for v in q['BBOX'].split(',')]
        size = (int(q['WIDTH']), int(q['HEIGHT']))
        clock = int(round(c13.now() - c13.BASE))
        with open(self.logf, 'a') as f:
            f.write(json.dumps({'bbox': bbox, 'size': size, 'clock': clock}) + '\n')
        img = L.paint_cells(self.g, bbox, size)
        k = (clock - 1) // 2
        r, gg, b = img.split()
        img = Image.merge('RGB', (r, gg, b.point(lambda v: v + 4 * k)))
        buf = io.BytesIO()
        img.save(buf, 'PNG')
        buf.seek(0)
        buf.headers = {'Content-type': 'image/png'}
        buf.code = 200
        return buf

    def upstream_delta(self):
        with open(self.logf) as f:
            f.seek(self.pos)
            lines = f.read().splitlines()
            self.pos = f.tell()
        out = []
        for ln in lines:
            e = json.loads(ln)
            bb = [int(round(v)) for v in e['bbox']]
            res = (bb[2] - bb[0]) // e['size'][0]
            out.append({'l': self.g['res'].index(res) if res in self.g['res'] else -1, 'bbox': bb})
        return out

    def advance(self):
        self.clock += 2
        c13._Env.tick = 2 * self.clock

    # ---- observation --------------------------------------------------------------------------------------------
    def decode_version(self, img):
        """(level, version, cells) of a tile image; None if the pixels disagree"""
        img = img.convert('RGBA')
        vals = set()
        cells = {}
        for j in range(img.size[1]):
            for i in range(img.size[0]):
                r, gg, b, a = img.getpixel((i, j))
                if a == 0 or (r, gg, b) == L.BGCOL:
                    continue                     # part of a border tile beyond the grid bbox
                vals.add(b)
                cells[(i, j)] = (r - 20, gg - 20)
        if len(vals) != 1:
            return None
        b = vals.pop() - 100
        if b < 0:
            return None
        return b % 4, 2 * (b // 4) + 1, cells

    def store_listing(self):
        from PIL import Image
        if self.backend == 'sqlite':
            return self._sqlite_listing()
        base = os.path.join(self.dir, 'cache')
        out = []
        for root, ds, fs in os.walk(base):
            for f in fs:
                if not f.endswith('.png') or 'tile_locks' in root:
                    continue
                p = os.path.join(root, f)
                parts = os.path.relpath(p, base).split(os.sep)[-7:]
                z = int(parts[0])
                x = int(parts[1]) * 1000000 + int(parts[2]) * 1000 + int(parts[3])
                y = int(parts[4]) * 1000000 + int(parts[5]) * 1000 + int(parts[6][:-4])
                mt = os.path.getmtime(p) - c13.BASE
                d = self.decode_version(Image.open(p))
                ver = d[1] if d and d[0] == z else -2
                stamp = int(round(mt)) if abs(mt - round(mt)) < 1e-3 else -2
                out.append([x, y, z, stamp, ver])
        return sorted(out)

    def _sqlite_listing(self):
        """every tile of the grid asked from a fresh cache object on the directory of level databases"""
        from mapproxy.cache.mbtiles import MBTilesLevelCache
        from mapproxy.cache.tile import Tile
        from harness.c02 import grid_size
        out = []
        base = os.path.join(self.dir, 'cache', 'g')          # (the loader appends the grid name)
        if not os.path.isdir(base):
            return out
        cache = MBTilesLevelCache(base)
        try:
            for z in range(len(self.g['res'])):
                if not os.path.exists(os.path.join(base, '%s.mbtile' % z)):
                    continue
                gx, gy = grid_size(self.g, z)
                for y in range(gy):
                    for x in range(gx):
                        t = Tile((x, y, z))
                        if not cache.load_tile(t, with_metadata=True) or t.source is None:
                            continue
                        mt = t.timestamp - c13.BASE
                        d = self.decode_version(t.source.as_image())
                        out.append([x, y, z, int(round(mt)) if abs(mt - round(mt)) < 1e-3 else -2,
                                    d[1] if d and d[0] == z else -2])
        finally:
            cache.cleanup()
        return sorted(out)

    def internal_of(self, lvl, cells):
        g = self.g
        rect = L.cells_rect(g, lvl, cells)
        r = g['res'][lvl]
        x = int(round((rect[0] - g['bbox'][0]) / (g['tw'] * r)))
        if g['ul']:
            y = int(round((g['bbox'][3] - rect[3]) / (g['th'] * r)))
        else:
            y = int(round((rect[1] - g['bbox'][1]) / (g['th'] * r)))
        return (x, y, lvl)

    # ---- operations -----------------------------------------------------------------------------------------------
    def tile(self, f, a, k, headers):
        x, y, z = a
        code = 'EPSG3857'
        if f == 'tms':
            url = '/tms/1.0.0/lay/%s/%d/%d/%d.png' % (code, z, x, y)
        elif f == 'tms_nw':
            url = '/tiles/lay/%s/%d/%d/%d.png?origin=nw' % (code, z, x, y)
        elif f == 'kml':
            url = '/kml/lay/%s/%d/%d/%d.png' % (code, z, x, y)
        elif k % 2:
            url = '/wmts/lay/g/%02d/%d/%d.png' % (z, x, y)
        else:
            url = ('/service?SERVICE=WMTS&REQUEST=GetTile&VERSION=1.0.0&LAYER=lay&STYLE=default&TILEMATRIXSET=g'
                   '&TILEMATRIX=%02d&TILEROW=%d&TILECOL=%d&FORMAT=image/png' % (z, y, x))
        return self.app.get(url, headers=headers or {}, status='*')

    def seed(self, level, th):
        from mapproxy.seed.config import SeedingConfiguration
        from mapproxy.seed.seeder import seed_task
        pc = self.build(seed=True)
        s = {'caches': ['c'], 'grids': ['g'], 'levels': [level]}
        if th is not None:
            s['refresh_before'] = {'time': self.dt(th)}
        tasks = SeedingConfiguration({'seeds': {'s': s}}, mapproxy_conf=pc).seeds(['s'])
        old = sys.stderr
        sys.stderr = io.StringIO()
        try:
            for task in tasks:
                seed_task(task, concurrency=1, dry_run=False, skip_geoms_for_last_levels=0, progress_logger=None)
                task.tile_manager.cleanup()
        finally:
            sys.stderr = old

    def cleanup(self, level, th):
        from mapproxy.seed.config import SeedingConfiguration
        from mapproxy.seed.cleanup import cleanup
        pc = self.build(seed=True)
        c = {'caches': ['c'], 'grids': ['g'], 'levels': [level]}
        if th is None:
            c['remove_all'] = True
        else:
            c['remove_before'] = {'time': self.dt(th)}
        tasks = SeedingConfiguration({'cleanups': {'k': c}}, mapproxy_conf=pc).cleanups(['k'])
        old = sys.stdout
        sys.stdout = io.StringIO()
        try:
            cleanup(tasks, concurrency=1, skip_geoms_for_last_levels=0, verbose=False, dry_run=False)
        finally:
            sys.stdout = old
        for t in tasks:
            t.tile_manager.cleanup()


def history(ctx, g, ms, buf, n, backend='file'):
    from harness.c02 import grid_size
    app = LifeApp(g, ms, buf, backend)
    rng = ctx.rng
    ev = []
    known = {}            # (f, a) -> internal tile, learned from 200 responses
    held = {}             # internal tile -> validators of the client's copy
    bx0, by0, bx1, by1 = g['bbox']
    nl = len(g['res'])
    try:
        for k in range(n):
            p = rng.random()
            th_choices = [t for t in range(0, app.clock, 2)]           # even, in the past
            if p < 0.45:
                cond = False
                if known and rng.random() < 0.5:
                    (f, a) = rng.choice(sorted(known))
                    cond = known[(f, a)] in held and rng.random() < 0.7
                else:
                    f = rng.choice(['tms', 'tms_nw', 'kml', 'wmts'])
                    z = rng.choice(list(range(nl)) * 3 + [-1, nl])
                    gx, gy = grid_size(g, min(max(z, 0), nl - 1))
                    a = (rng.randint(-1, gx), rng.randint(-1, gy), z)
                headers = dict(held[known[(f, a)]]) if cond else None
                resp = app.tile(f, a, k, headers)
                e = {'op': 'tile', 'f': f, 'a': list(a), 'cond': bool(cond), 'status': resp.status_int, 'ver': -1}
                if resp.status_int == 200 and resp.content_type.startswith('image/'):
                    d = app.decode_version(app.la.image(resp))
                    if d is None:
                        e['ver'] = -2
                    else:
                        lvl, ver, cells = d
                        e['ver'] = ver
                        t = app.internal_of(lvl, cells)
                        known[(f, tuple(a))] = t
                        hd = {}
                        if resp.headers.get('ETag'):
                            hd['If-None-Match'] = resp.headers['ETag']
                        if resp.headers.get('Last-modified'):
                            hd['If-Modified-Since'] = resp.headers['Last-modified']
                        held[t] = hd
                elif resp.status_int not in (200, 304):
                    # refused (the error code and document are C18's matter: the RESTful WMTS route answers an
                    # address like /-1/0/2.png with 500 'invalid request', the KVP form with 400)
                    e['status'] = 404
                    e['http'] = resp.status_int
            elif p < 0.65:
                r = rng.choice(list(g['res']) + [g['res'][0] * 8, 30, 50])
                w, h = rng.randint(1, 6), rng.randint(1, 6)
                if w * r > bx1 - bx0 or h * r > by1 - by0:
                    w = h = 1
                    r = min(r, bx1 - bx0, by1 - by0)
                x0 = rng.randrange(bx0, bx1 - w * r + 1, 5)
                y0 = rng.randrange(by0, by1 - h * r + 1, 5)
                q = [x0, y0, x0 + w * r, y0 + h * r, w, h]
                resp = app.app.get('/service?SERVICE=WMS&VERSION=1.1.1&REQUEST=GetMap&LAYERS=lay&STYLES=&SRS=EPSG:3857&BBOX=%d,%d,%d,%d'
                                   '&WIDTH=%d&HEIGHT=%d&FORMAT=image/png&TRANSPARENT=TRUE' % tuple(q), status='*')
                ok = resp.status_int == 200 and resp.content_type.startswith('image/') and any(
                    px[3] > 0 and px[:3] != L.BGCOL for px in app.la.image(resp).convert('RGBA').getdata())
                e = {'op': 'map', 'q': q, 'status': 200 if ok else 500, 'ver': -1}
            elif p < 0.77:
                th = rng.choice(th_choices + [None])
                lvl = rng.randrange(nl)
                app.seed(lvl, th)
                e = {'op': 'seed', 'level': lvl, 'th': -1 if th is None else th, 'status': 0, 'ver': -1}
            elif p < 0.87:
                th = rng.choice(th_choices + [None])
                lvl = rng.randrange(nl)
                app.cleanup(lvl, th)
                e = {'op': 'cleanup', 'level': lvl, 'th': -1 if th is None else th, 'status': 0, 'ver': -1}
            elif p < 0.95:
                th = rng.choice(th_choices + [None, None])
                app.rule = th
                app.build()
                e = {'op': 'restart', 'th': -1 if th is None else th, 'status': 0, 'ver': -1}
            else:
                e = {'op': 'tick', 'status': 0, 'ver': -1}
            e['up'] = app.upstream_delta()
            e['store'] = app.store_listing()
            e['clock'] = app.clock
            ev.append(e)
            app.advance()
    finally:
        app.close()
    return ev


def model_check(ctx, thorough):
    gsmall = dict(ul=False, bbox=(0, 0, 320, 240), tw=4, th=4, res=(80, 40), sn=5, sd=4, ms=4, thr=())
    reqs = {(40, 40, 200, 120, 4, 2), (0, 0, 320, 240, 1, 1)}
    addrs = {(0, 0, 0), (0, 0, 1), (1, 1, 1), (-1, 0, 1), (0, 0, 2)}
    for ms, buf, maxclock in (((2, 2), 0, 9), ((2, 1), 1, 11 if thorough else 7)):
        d = ctx.sub('mc')
        mp, cp = tlc.write_mc(d, 'MapProxyLife', 'MC_L', dict(G=gsmall, MS=ms, Buf=buf, Reqs=reqs, Addrs=addrs, Thr={2, 6},
                                                            MaxClock=maxclock), spec='LSpec', invariants=INVS,
                              properties=PROPS, constraint='Bounded')
        r = tlc.run(mp, cp, d, timeout=3000)
        ctx.log('MapProxyLife.tla meta %s buffer %s clock <= %d: %r' % (ms, buf, maxclock, r))
        if r.violated:
            ctx.violation({'kind': 'model', 'property': r.violated}, 'MapProxyLife.tla violates %s' % r.violated,
                          {'trace': [a for a, _ in r.trace]})
        elif not r.ok:
            raise tlc.MachineryError('MapProxyLife.tla: %r %s' % (r, r.out[-800:]))
        else:
            ctx.add_tlc('MapProxyLife/%sx%s/buf%s' % (ms[0], ms[1], buf), r)


def validate(ctx, gname, g, ms, buf, traces):
    d = ctx.sub('tr-' + gname)
    tf = os.path.join(d, 'batch.json')
    with open(tf, 'w') as f:
        json.dump(traces, f)
    gq = {k: g[k] for k in ('ul', 'bbox', 'tw', 'th', 'res', 'sn', 'sd', 'ms', 'thr')}
    mp, cp = tlc.write_mc(d, 'Trace_MapProxyLife', 'MC_TL', dict(G=gq, MS=ms, Buf=buf, Reqs=set(), Addrs=set(), Thr=set(), MaxClock=0),
                          spec='TraceSpec', invariants=INVS, properties=PROPS, post='TraceAccepted')
    r = tlc.run(mp, cp, d, workers=1, coverage=False, env={'TRACE_FILE': tf, 'LIFE_DEBUG_AT': os.environ.get('LIFE_DEBUG_AT', '0')}, timeout=3000)
    ctx.cov['traces_validated_against_impl'] += len(traces)
    ctx.cov['states'] += r.distinct
    ctx.cov['transitions'] += r.generated
    if r.violated and r.violated != 'postcondition':
        st = r.trace[-1][1] if r.trace else {}
        i, upto = st.get('tid', 1) - 1, st.get('l', 1) - 1
        e = traces[i][min(max(upto - 1, 0), len(traces[i]) - 1)]
        ctx.violation({'kind': 'life-invariant', 'grid': gname, 'invariant': r.violated, 'op': e['op']},
                      '%s: %s violated in a recorded history at event %s: %s' % (
                          gname, r.violated, upto, json.dumps({k: e[k] for k in e if k != 'store'})[:300]),
                      {'grid': g, 'ms': ms, 'buf': buf, 'events': traces[i][:upto + 1]})
        return 1
    pr = tlc.find_prints(r.out, 'matched')
    if not pr:
        raise tlc.MachineryError('Trace_MapProxyLife: no verdict: %s' % r.out[-1500:])
    mv = pr[-1][1]
    matched = list(mv) if isinstance(mv, tuple) else [mv[k] for k in sorted(mv)]
    nrej = 0
    for i, t in enumerate(traces):
        if matched[i] < len(t):
            nrej += 1
            e = t[matched[i]]
            ctx.violation({'kind': 'life-trace-rejected', 'grid': gname, 'op': e['op']},
                          '%s: recorded history is not a behaviour of MapProxyLife.tla at event %d: %s' % (
                              gname, matched[i], json.dumps({k: e[k] for k in e if k != 'store'})[:400]),
                          {'grid': g, 'ms': ms, 'buf': buf, 'events': t[:matched[i] + 1]})
    return nrej


def run(ctx):
    thorough = ctx.tier == 'thorough'
    tlc.sany(SPEC)
    model_check(ctx, thorough)
    ops = {}
    for gname, ms, buf, backend in (('G2', (2, 2), 0, 'file'), ('G2ul', (2, 1), 1, 'sqlite'), ('Gneg', (3, 2), 2, 'file')) + (
            (('Grect', (2, 3), 1, 'sqlite'), ('G15', (2, 2), 0, 'file'), ('Gpartul', (2, 2), 0, 'file'), ('G2', (2, 2), 1, 'sqlite'))
            if thorough else ()):
        g = L.spec_grid(gname)
        traces = [history(ctx, g, ms, buf, MAXOPS, backend) for _ in range(8 if thorough else 3)]
        for t in traces:
            ctx.count((gname, json.dumps([[e['op'], e.get('a') or e.get('q') or e.get('level'), e.get('th')] for e in t])))
            for e in t:
                key = e['op'] + (':%s' % e['status'] if e['op'] == 'tile' else '')
                ops[key] = ops.get(key, 0) + 1
        nrej = validate(ctx, gname + '-' + backend, g, ms, buf, traces)
        if gname == 'G2':
            ctx.sample({'grid': gname, 'events': [{k: e[k] for k in e if k != 'store'} for e in traces[0][:8]]})
        ctx.log('%s: %d histories validated (%d rejected)' % (gname, len(traces), nrej))
    for need in ('tile:200', 'tile:304', 'tile:404', 'map', 'seed', 'cleanup', 'restart'):
        if not ops.get(need):
            raise tlc.MachineryError('vacuity: no %s operation in the recorded histories (%r)' % (need, ops))
    ctx.assumptions += ['sequential operations; file cache (tc layout) and sqlite cache (one database per level); WMS requests contained in the grid bbox; thresholds in '
                        'the past and never equal to a time stamp (even / odd seconds); one operation per two seconds']
    return ctx.finish('model_checking', 'composition over time MapProxyLife.tla: exhaustive for a small instance; recorded '
                      'histories (%s) validated by TLC' % ', '.join('%s x%d' % kv for kv in sorted(ops.items())))


def replay(ctx, data):
    """re-validate the recorded prefix; LIFE_DEBUG_AT=<n> prints the model's expectation for event n"""
    case = data.get('case') or {}
    if 'events' not in case:
        return 0
    g = case['grid']
    nrej = validate(ctx, 'replay', g, tuple(case['ms']), case['buf'], [case['events']])
    return 1 if nrej else 0
