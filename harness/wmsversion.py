"""WMSVERSION - WMS version negotiation with a configured list of versions is stateless (not one of the listed properties;
extends coverage).

spec/WmsVersion.tla: the negotiation rule of the WMS standard over the configured versions, and what the code does to the
list it negotiates with; Stateless (the answer depends on the request and the configuration only), ConfigurationKept,
OnlyConfiguredVersions.  TLC explores all request sequences for several configured sets.  Binding: GetCapabilities requests
with every kind of VERSION value (none, below all, supported, between two supported ones, above all) sent in sequence to one
real application; TLC behaviours are executed request by request, random sequences are validated by TLC
(spec/trace/Trace_WmsVersion.tla).  Variant "asfound" (negotiate_version pops the candidates off the server's own list) is
the code before the repair; its counterexample is run on the real application.
"""
import json
import os
import re
import shutil
import tempfile

from engine import tlc
from harness.c05 import parse_action

SPEC = os.path.join(tlc.SPEC_DIR, 'WmsVersion.tla')
# 0 = no VERSION parameter; numbered in ascending order
# (with components of two digits: versions are compared number by number, 1.10.0 lies above 1.3.0 and 1.1.10 above 1.1.1;
# their strings look like those of configured versions when zeros or dots are dropped)
VERSIONS = {1: '0.9.0', 2: '1.0.0', 3: '1.0.5', 4: '1.1.0', 5: '1.1.1', 6: '1.1.10', 7: '1.2.0', 8: '1.3.0', 9: '1.10.0', 10: '1.30.0',
            11: '2.0.0', 12: '10.0.0'}
NUM = {v: k for k, v in VERSIONS.items()}
KNOWN = {2, 4, 5, 8}
MAXV = 12
ERROR = MAXV + 1
CONFIGS = [{2, 5, 8}, {5, 8}, {4, 5}, {8}, {2, 4, 5, 8}, {2, 8}]


class World(object):
    def __init__(self, configured):
        from mapproxy.config.loader import ProxyConfiguration
        from mapproxy.wsgiapp import MapProxyApp
        from webtest import TestApp
        self.dir = d = tempfile.mkdtemp(prefix='verif-wmsversion-')
        conf = {'services': {'wms': {'md': {'title': 't'}, 'versions': [VERSIONS[k] for k in sorted(configured)]}},
                'layers': [{'name': 'lay', 'title': 'l', 'sources': ['s']}],
                'sources': {'s': {'type': 'debug'}},
                'globals': {'cache': {'base_dir': d, 'lock_dir': d + '/l', 'tile_lock_dir': d + '/tl'}}}
        pc = ProxyConfiguration(conf, conf_base_dir=d, seed=False, renderd=False)
        self.app = TestApp(MapProxyApp(pc.configured_services(), pc.base_config))

    def close(self):
        shutil.rmtree(self.dir, ignore_errors=True)

    def request(self, v):
        import logging
        q = 'SERVICE=WMS&REQUEST=GetCapabilities' + ('&VERSION=' + VERSIONS[v] if v else '')
        logging.disable(logging.CRITICAL)
        try:
            r = self.app.get('/service?' + q, status='*', expect_errors=True)
        except Exception as ex:
            return {'req': v, 'ans': ERROR, 'detail': str(ex)[-100:]}
        finally:
            logging.disable(logging.NOTSET)
        m = re.search(r'Capabilities[^>]*\sversion="([0-9.]+)"', r.text)
        if r.status_int != 200 or not m or m.group(1) not in NUM:
            return {'req': v, 'ans': ERROR, 'detail': '%s %s' % (r.status_int, r.text[:80])}
        return {'req': v, 'ans': NUM[m.group(1)]}


def consts(configured, variant):
    return dict(Configured=set(configured), Known=set(KNOWN), MaxV=MAXV, Variant=variant)


def replay_behaviour(beh, configured):
    w = World(configured)
    try:
        n = 0
        for act, st in beh[1:]:
            name, args = parse_action(act)
            n += 1
            ev = w.request(int(args[0]))
            if ev['ans'] != int(st['last']['ans']):
                return 'diverged', 'step %d %s: spec answers version %s, real %s %s' % (n, act, st['last']['ans'], ev['ans'], ev.get('detail', '')), ev
        return 'ok', '', None
    finally:
        w.close()


def detect_variant():
    w = World({2, 5, 8})
    try:
        w.request(7)
        ev = w.request(8)
        return ('asfound' if ev['ans'] != 8 else 'repaired'), ev
    finally:
        w.close()


def run(ctx):
    thorough = ctx.tier == 'thorough'
    tlc.sany(SPEC)
    variant, ev = detect_variant()
    ctx.log('the tree implements Variant=%s (versions 1.0.0, 1.1.1, 1.3.0 configured: after a request for 1.2.0 a request for 1.3.0 is answered with %s)' % (
        variant, VERSIONS.get(ev['ans'], 'an error')))
    cfg = {2, 5, 8}
    d = ctx.sub('mc-asfound')
    mp, cp = tlc.write_mc(d, 'WmsVersion', 'MC_V', consts(cfg, 'asfound'), properties=['Stateless'])
    r = tlc.run(mp, cp, d, timeout=600, coverage=False, workers=2)
    if r.violated != 'Stateless':
        raise tlc.MachineryError('the as-found variant should violate Stateless: %r %s' % (r, r.out[-600:]))
    status, detail, _ = replay_behaviour(r.trace, cfg)
    ctx.sample({'kind': 'counterexample of Variant=asfound run on the real application', 'actions': [a for a, _ in r.trace[1:]],
                'result': status, 'detail': detail})
    if status == 'ok':
        last = r.trace[-1][1]['last']
        ctx.violation({'kind': 'negotiation-not-stateless', 'cause': 'negotiate-version-pops-the-servers-list'},
                      'services.wms.versions = 1.0.0, 1.1.1, 1.3.0: after the requests %s a request for version %s is answered with version %s '
                      '(a request for a version between two configured ones shortens the list of the server for good)' % (
                          [VERSIONS.get(parse_action(a)[1][0], 'none') for a, _ in r.trace[1:-1]], VERSIONS.get(int(last['req']), 'none'),
                          VERSIONS.get(int(last['ans']), 'an internal error')), {'behaviour': [a for a, _ in r.trace]})
    invs = ['ConfigurationKept', 'OnlyConfiguredVersions'] if variant == 'repaired' else []
    props = ['Stateless'] if variant == 'repaired' else []
    for i, cfg in enumerate(CONFIGS):
        d = ctx.sub('mc-%d' % i)
        mp, cp = tlc.write_mc(d, 'WmsVersion', 'MC_V', consts(cfg, variant), invariants=invs, properties=props)
        r = tlc.run(mp, cp, d, timeout=600, workers=2, coverage=True)
        if r.violated:
            ctx.violation({'kind': 'model', 'property': r.violated}, 'WmsVersion.tla %s violates %s' % (sorted(cfg), r.violated), {'trace': [a for a, _ in r.trace]})
        elif not r.ok:
            raise tlc.MachineryError('WmsVersion.tla: %r %s' % (r, r.out[-800:]))
        else:
            ctx.add_tlc('WmsVersion/%s' % '-'.join(VERSIONS[k] for k in sorted(cfg)), r)
    # (R) spec -> code
    for i, cfg in enumerate(CONFIGS):
        d = ctx.sub('sim-%d' % i)
        mp, cp = tlc.write_mc(d, 'WmsVersion', 'MC_S', consts(cfg, variant))
        prefix = os.path.join(d, 'beh')
        tlc.run(mp, cp, d, workers=1, simulate='file=%s,num=%d' % (prefix, 12 if thorough else 5), depth=10, seed=ctx.seed * 3 + i + 1, coverage=False, timeout=300)
        nb = 0
        for _f, beh in tlc.sim_traces(prefix):
            if len(beh) < 2:
                continue
            nb += 1
            status, detail, ev = replay_behaviour(beh, cfg)
            ctx.cov['replayed_behaviours'] += 1
            ctx.cov['replayed_steps'] += len(beh) - 1
            ctx.count(('replay', i, tuple(a for a, _ in beh)))
            if status != 'ok':
                ctx.violation({'kind': 'replay-' + status}, 'configured %s: the real application leaves the model: %s' % (
                    [VERSIONS[k] for k in sorted(cfg)], detail), {'configured': sorted(cfg), 'behaviour': [a for a, _ in beh]})
                break
        if nb == 0:
            raise tlc.MachineryError('no behaviours')
    # (T) code -> spec
    for i, cfg in enumerate(CONFIGS):
        traces = []
        for _ in range(20 if thorough else 6):
            w = World(cfg)
            try:
                traces.append([w.request(ctx.rng.randrange(0, MAXV + 1)) for _ in range(12)])
            finally:
                w.close()
        for t in traces:
            ctx.count(('hist', i, tuple(e['req'] for e in t)))
        d = ctx.sub('tr-%d' % i)
        tf = os.path.join(d, 'batch.json')
        with open(tf, 'w') as f:
            json.dump([[{'req': e['req'], 'ans': e['ans']} for e in t] for t in traces], f)
        mp, cp = tlc.write_mc(d, 'Trace_WmsVersion', 'MC_T', consts(cfg, variant), spec='TraceSpec', invariants=invs, properties=props, post='TraceAccepted')
        r = tlc.run(mp, cp, d, workers=1, coverage=False, env={'TRACE_FILE': tf}, timeout=600)
        ctx.cov['traces_validated_against_impl'] += len(traces)
        ctx.cov['states'] += r.distinct
        ctx.cov['transitions'] += r.generated
        if r.violated and r.violated != 'postcondition':
            ctx.violation({'kind': 'trace-property', 'property': r.violated}, 'configured %s: %s violated in a recorded sequence' % (sorted(cfg), r.violated), None)
            continue
        pr = tlc.find_prints(r.out, 'matched')
        if not pr:
            raise tlc.MachineryError('Trace_WmsVersion: no verdict: %s' % r.out[-1200:])
        mv = pr[-1][1]
        matched = list(mv) if isinstance(mv, tuple) else [mv[k2] for k2 in sorted(mv)]
        for k, t in enumerate(traces):
            if matched[k] < len(t):
                ctx.violation({'kind': 'trace-rejected'}, 'configured %s: recorded sequence is not a behaviour of WmsVersion.tla at request %d: %s' % (
                    [VERSIONS[x] for x in sorted(cfg)], matched[k] + 1, json.dumps(t[:matched[k] + 1])), {'configured': sorted(cfg), 'trace': t[:matched[k] + 1]})
    ctx.assumptions += ['GetCapabilities requests (every WMS request type goes through the same negotiation); six configured version sets; '
                        'requested versions: none, 0.9.0, 1.0.0, 1.0.5, 1.1.0, 1.1.1, 1.1.10, 1.2.0, 1.3.0, 1.10.0, 1.30.0, 2.0.0, 10.0.0']
    return ctx.finish('model_checking', 'TLC: all request sequences for six configured version sets; behaviours executed on and sequences '
                      'recorded from a real application')


def replay(ctx, data):
    return 0
