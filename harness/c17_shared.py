"""C17, concurrent part: the sources of one cache are asked concurrently with one shared MapQuery object.

spec/SharedQuery.tla models the negotiation of the SRS spelling (WMSSource._get_map) and the sending of the request
as two steps per source; TLC explores the interleavings of two sources that support different spellings of the web
mercator SRS.  The counterexample of the variant that writes into the shared query is forced on real WMSSource
objects (built by the configuration loader: one cache with two WMS sources) under the baton scheduler; random
schedules are recorded and checked against the model of the variant the tree implements.
"""
import io
import os
import shutil
import tempfile

from engine import tlc
from engine.sched import Baton

SPEC = os.path.join(tlc.SPEC_DIR, 'SharedQuery.tla')
SUPPORTED = {'sa': 'EPSG:3857', 'sb': 'EPSG:900913'}
REQ = 'EPSG:900913'


class World(object):
    def __init__(self):
        import mapproxy.client.http as H
        from mapproxy.config.loader import ProxyConfiguration
        from urllib.parse import urlparse, parse_qs
        self.dir = tempfile.mkdtemp(prefix='verif-c17s-')
        self.sched = Baton()
        self.sent = {}
        w = self
        self._H = H
        self._orig = H.HTTPClient.open

        def fake_open(client, url, data=None, method=None):
            from PIL import Image
            host = urlparse(url).netloc.split('.')[0]
            q = {k.upper(): v[0] for k, v in parse_qs(urlparse(url).query).items()}
            w.sent[host] = q.get('SRS') or q.get('CRS')
            b = io.BytesIO()
            Image.new('RGBA', (int(q['WIDTH']), int(q['HEIGHT'])), (1, 2, 3, 255)).save(b, 'PNG')
            b.seek(0)
            b.headers = {'Content-type': 'image/png'}
            b.code = 200
            return b
        H.HTTPClient.open = fake_open
        conf = {
            'globals': {'cache': {'base_dir': os.path.join(self.dir, 'cd'), 'lock_dir': os.path.join(self.dir, 'l'),
                                  'tile_lock_dir': os.path.join(self.dir, 'tl')}},
            'grids': {'g': {'srs': REQ, 'bbox': [0, 0, 640, 640], 'res': [80, 40, 20], 'tile_size': [4, 4], 'origin': 'll'}},
            'sources': {n: {'type': 'wms', 'req': {'url': 'http://%s.invalid/service' % n, 'layers': n, 'transparent': True},
                            'supported_srs': [SUPPORTED[n]]} for n in SUPPORTED},
            'caches': {'c': {'grids': ['g'], 'sources': ['sa', 'sb'], 'meta_size': [1, 1], 'disable_storage': True}},
            'layers': [{'name': 'l', 'title': 'l', 'sources': ['c']}],
            'services': {'tms': {}},
        }
        pc = ProxyConfiguration(conf, conf_base_dir=self.dir, seed=False, renderd=False)
        grid, extent, self.mgr = pc.caches['c'].caches()[0]
        self.sources = dict(zip(['sa', 'sb'], self.mgr.sources))
        for n, src in self.sources.items():
            real = src.client.retrieve

            def retrieve(query, format, _real=real):
                w.sched.point('send')
                return _real(query, format)
            src.client.retrieve = retrieve
        from mapproxy.layer import MapQuery
        from mapproxy.srs import SRS
        self.query = MapQuery((0, 0, 320, 320), (4, 4), SRS(REQ), 'png')

    def close(self):
        self._H.HTTPClient.open = self._orig
        shutil.rmtree(self.dir, ignore_errors=True)

    def spawn(self):
        for n in sorted(self.sources):
            self.sched.spawn(n, (lambda s=self.sources[n]: s.get_map(self.query)))

    def pending(self, n):
        p = self.sched.pending(n)
        return p[0] if p else None

    def shared_code(self):
        return self.query.srs.srs_code


def implements():
    """does a source write into the query it is given?"""
    w = World()
    try:
        w.sources['sa'].get_map(w.query)
        return 'shared' if w.query.srs.srs_code != REQ else 'copy'
    finally:
        w.close()


def force(beh):
    """force a TLC behaviour (actions Negotiate(s) / Send(s)) on the real sources; -> (status, sent)"""
    from harness.c05 import parse_action
    w = World()
    try:
        w.spawn()
        for act, st in beh[1:]:
            name, args = parse_action(act)
            s = args[0]
            want = {'Negotiate': 'start', 'Send': 'send'}[name]
            if w.pending(s) != want:
                return 'not-executable', dict(w.sent)
            w.sched.step(s)
        w.sched.finish_all(limit=100)
        return 'ok', dict(w.sent)
    finally:
        w.close()


def run(ctx):
    tlc.sany(SPEC)
    variant = implements()
    ctx.log('concurrent sources: the tree implements Guard=%s' % variant)
    base = dict(Source=set(SUPPORTED), Supported=SUPPORTED, ReqCode=REQ)
    d = ctx.sub('shared-mc')
    for guard in ('shared', 'copy'):
        mp, cp = tlc.write_mc(d, 'SharedQuery', 'MC_SQ', dict(base, Guard=guard), invariants=['SentSupported', 'NoStuck'])
        r = tlc.run(mp, cp, d, timeout=300, workers=2)
        if guard == 'shared':
            if r.violated != 'SentSupported':
                raise tlc.MachineryError('SharedQuery (shared) should violate SentSupported: %r' % r)
            status, sent = force(r.trace)
            bad = {s: c for s, c in sent.items() if c != SUPPORTED[s]}
            ctx.count(('shared-query-attack', status))
            ctx.sample({'kind': 'counterexample of SharedQuery (Guard=shared) forced on real WMSSource objects',
                        'actions': [a for a, _ in r.trace[1:]], 'result': status, 'sent': sent}, limit=9)
            if status == 'ok' and bad:
                ctx.violation({'kind': 'shared-query-race', 'what': 'srs-code-of-another-source'},
                              'two WMS sources of one cache asked concurrently (as TileCreator._query_sources does) with the shared '
                              'MapQuery: interleaving %s makes MapProxy send %s (configured: %s)' % (
                                  [a for a, _ in r.trace[1:]], bad, SUPPORTED), {'behaviour': [a for a, _ in r.trace]})
        else:
            if r.violated or not r.ok:
                raise tlc.MachineryError('SharedQuery (copy): %r' % r)
            ctx.add_tlc('SharedQuery/copy', r)
    # every interleaving of the real sources (4 steps, 6 schedules)
    import itertools
    n = 0
    for order in sorted(set(itertools.permutations(['sa', 'sa', 'sb', 'sb']))):
        w = World()
        try:
            w.spawn()
            for s in order:
                if w.pending(s) is not None:
                    w.sched.step(s)
            w.sched.finish_all(limit=100)
            n += 1
            ctx.count(('shared-query-schedule', order))
            bad = {s: c for s, c in w.sent.items() if c != SUPPORTED[s]}
            if bad and variant == 'copy':
                ctx.violation({'kind': 'shared-query-race', 'what': 'srs-code-of-another-source'},
                              'schedule %s of the real sources: sent %s (configured %s)' % (list(order), bad, SUPPORTED), None)
        finally:
            w.close()
    ctx.log('concurrent sources: %d schedules of two real WMS sources with one query object executed' % n)
