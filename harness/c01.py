"""C01 - map content and feature-info queries land at the right place on the ground.

spec/GeoRef.tla (on spec/Lattice.tla) states C01 - in full for requests that need no non-affine reprojection: every output
pixel shows the upstream content of its own ground location to within 1.5 output pixels, at a level that
closest_level admits, nothing outside the layer extent, nothing blank inside it, a one-tile request is
returned unresampled, blank responses exactly when the code's NoTiles conditions hold, and a forwarded
feature-info request designates the clicked ground point within one client pixel.  Binding: real
MapProxyApps on lattice grids (engine/lattice.LatticeApp) with a position-encoding upstream; WMS 1.1.1 /
1.3.0 GetMap and GetFeatureInfo (EPSG:3857, alias EPSG:900913, EPSG:4326 with lat/long axis order) and WMTS
GetFeatureInfo requests on and next to tile edges; the decoded provenance of every output pixel and every
upstream request are validated by TLC (spec/trace/Trace_GeoRef.tla).

Requests in another reference system than the grid (EPSG:4326 on an EPSG:3857 grid and the reverse, mesh
reprojection): GeoRef.ReprojPixelOK states the one-and-a-half-pixel clause with the place of every output pixel on
the grid handed in by the harness (closed formulas of the spherical Mercator projection, not MapProxy's or pyproj's);
sequences of neighbouring requests answered by one process are validated by spec/trace/Trace_GeoReproj.tla.
"""
import json
import os

from engine import tlc
from engine import lattice as L

SPEC = os.path.join(tlc.SPEC_DIR, 'GeoRef.tla')


def grid_size(g, l):
    w, h = g['bbox'][2] - g['bbox'][0], g['bbox'][3] - g['bbox'][1]
    r = g['res'][l]
    return (max(-((-(w // r)) // g['tw']), 1), max(-((-(h // r)) // g['th']), 1))


def tile_bbox(g, t):
    x, y, l = t
    r = g['res'][l]
    x0 = g['bbox'][0] + x * r * g['tw']
    if g['ul']:
        y1 = g['bbox'][3] - y * r * g['th']
        return [x0, y1 - r * g['th'], x0 + r * g['tw'], y1]
    y0 = g['bbox'][1] + y * r * g['th']
    return [x0, y0, x0 + r * g['tw'], y0 + r * g['th']]


def lat_int(v, scale, problems, what):
    x = float(v) / scale
    if abs(x - round(x)) > 1e-5:
        problems.append('%s=%r is not on the lattice' % (what, v))
    return int(round(x))


def gen_requests(g, rng, n):
    ONE_TILE.clear()
    bx0, by0, bx1, by1 = g['bbox']
    reqs = []
    ladder = sorted(set(list(g['res']) + [r * 5 // 4 for r in g['res']] + [25, 30, 50, 64, 100, 13, g['res'][0] * 3, g['res'][0] * 5, 7]))
    edges_x = sorted({bx0 + i * g['res'][l] * g['tw'] for l in range(len(g['res'])) for i in range(0, grid_size(g, l)[0] + 1)})
    edges_y = sorted({by0 + i * g['res'][l] * g['th'] for l in range(len(g['res'])) for i in range(0, grid_size(g, l)[1] + 1)})
    for _ in range(n):
        r = rng.choice(ladder)
        w, h = rng.randint(1, 8), rng.randint(1, 8)
        k = rng.random()
        if k < 0.5:      # near a tile edge
            x0 = rng.choice(edges_x) + rng.choice([0, 0, -r, r // 2, -5, 5, -w * r, 1 - 1])
            y0 = rng.choice(edges_y) + rng.choice([0, 0, -r, r // 2, -5, 5, -h * r])
        elif k < 0.85:   # anywhere around the grid
            x0 = rng.randrange(bx0 - 2 * r, bx1 + r, 5)
            y0 = rng.randrange(by0 - 2 * r, by1 + r, 5)
        else:            # far outside / straddling the whole grid
            x0 = bx0 - rng.choice([0, 40, 400, 4000])
            y0 = by0 - rng.choice([0, 40, 400, 4000])
        reqs.append([x0, y0, x0 + w * r, y0 + h * r, w, h])
    # the part of every border tile (top row / right column / bottom row for ul) that lies inside the extent, at the
    # level's own resolution: a contained request, so the tight tolerance applies where buffers were cut
    for l, r in enumerate(g['res']):
        gx, gy = grid_size(g, l)
        border = {(x, y, l) for x in range(gx) for y in (0, gy - 1)} | {(x, y, l) for y in range(gy) for x in (0, gx - 1)}
        for t in sorted(border)[:40]:
            tb = tile_bbox(g, t)
            x0, y0, x1, y1 = max(tb[0], bx0), max(tb[1], by0), min(tb[2], bx1), min(tb[3], by1)
            w, h = (x1 - x0) // r, (y1 - y0) // r
            if w >= 1 and h >= 1:
                reqs.append([x0, y0, x0 + w * r, y0 + h * r, w, h])
                if reqs[-1] == tb + [g['tw'], g['th']]:
                    ONE_TILE[tuple(reqs[-1])] = t
    # every tile of (a sample of) each level exactly
    for l in range(len(g['res'])):
        gx, gy = grid_size(g, l)
        ts = [(x, y, l) for x in range(gx) for y in range(gy)]
        rng.shuffle(ts)
        for t in ts[:6]:
            reqs.append(tile_bbox(g, t) + [g['tw'], g['th']])
            ONE_TILE[tuple(reqs[-1])] = t
    return reqs


def sliver(g, q, ext=None):
    bx0, by0, bx1, by1 = ext or g['bbox']
    ow = min(q[2], bx1) - max(q[0], bx0)
    oh = min(q[3], by1) - max(q[1], by0)
    return ow <= 2 * max(g['res']) // 10 or oh <= 2 * max(g['res']) // 10


ONE_TILE = {}


def map_url(q, scale, version, srs, latlon):
    x0, y0, x1, y1 = [v * scale for v in q[:4]]
    bbox = '%r,%r,%r,%r' % ((y0, x0, y1, x1) if latlon else (x0, y0, x1, y1))
    key = 'CRS' if version == '1.3.0' else 'SRS'
    return ('/service?SERVICE=WMS&VERSION=%s&REQUEST=GetMap&LAYERS=lay&STYLES=&%s=%s&BBOX=%s&WIDTH=%d&HEIGHT=%d'
            '&FORMAT=image/png&TRANSPARENT=TRUE' % (version, key, srs, bbox, q[4], q[5]))


def observe_maps(app, g, reqs, variants, rng, problems, ext=None):
    maps = []
    for q in reqs:
        version, srs, latlon = rng.choice(variants)
        n0 = len(app.log)
        r = app.get(map_url(q, app.scale, version, srs, latlon))
        if r.status_int == 500 and 'Invalid BBOX' in r.text and (sliver(g, q) or sliver(g, q, ext)):
            # the request overlaps the grid by less than 2/10 pixel of some level: get_affected_level_tiles insets it to
            # nothing and the request is refused ("Invalid BBOX") instead of answered blank - no picture, so C01 has
            # nothing to say about it (recorded as an observation in DESIGN.md)
            continue
        if r.status_int != 200 or not r.content_type.startswith('image/'):
            problems.append(('map-request-failed', 'GetMap %s (%s %s) answered %s: %s' % (q, version, srs, r.status, r.text[:200])))
            continue
        img = app.image(r)
        if img.size != (q[4], q[5]):
            problems.append(('size', 'GetMap %s returned an image of %s' % (q, img.size)))
            continue
        lv, cells, bg = L.decode_cells(g, img)
        px = []
        pix = img.convert('RGBA').load()
        for j in range(q[5]):
            for i in range(q[4]):
                if (i, j) in cells:
                    px.append([pix[i, j][2] - 100, cells[(i, j)][0], cells[(i, j)][1]])
                else:
                    px.append([-1, 0, 0])
        up = []
        for u in app.log[n0:]:
            bb = [lat_int(v, app.scale, problems and [], 'upstream bbox') for v in u['BBOX'].split(',')]
            if u.get('VERSION') == '1.3.0' and u.get('CRS') in ('EPSG:4326', 'EPSG:31467'):
                bb = [bb[1], bb[0], bb[3], bb[2]]             # WMS 1.3.0: BBOX in the axis order of the CRS
            up.append(bb + [int(u['WIDTH']), int(u['HEIGHT'])])
        onetile = 'n/a'
        t = ONE_TILE.get(tuple(q))
        if t is not None:
            code = srs.replace(':', '')
            rt = app.get('/tiles/lay/%s/%d/%d/%d.png' % (app.tile_code, t[2], t[0], t[1]))
            if rt.status_int == 200:
                onetile = 'same' if list(app.image(rt).convert('RGBA').getdata()) == list(img.convert('RGBA').getdata()) else 'differs'
        maps.append({'q': q, 'px': px, 'up': up, 'variant': [version, srs], 'onetile': onetile})
    return maps


def observe_infos(app, g, rng, n, variants, problems):
    infos = []
    bx0, by0, bx1, by1 = g['bbox']
    for _ in range(n):
        r0 = rng.choice([20, 40, 80, 25, 50])
        w, h = rng.randint(1, 8), rng.randint(1, 8)
        x0 = rng.randrange(bx0, max(bx0 + 5, bx1 - w * r0), 5)
        y0 = rng.randrange(by0, max(by0 + 5, by1 - h * r0), 5)
        q = [x0, y0, x0 + w * r0, y0 + h * r0, w, h]
        ci, cj = rng.randrange(w), rng.randrange(h)
        version, srs, latlon = rng.choice(variants)
        xs, ys = ('I', 'J') if version == '1.3.0' else ('X', 'Y')
        url = map_url(q, app.scale, version, srs, latlon).replace('REQUEST=GetMap', 'REQUEST=GetFeatureInfo') + \
            '&QUERY_LAYERS=lay&INFO_FORMAT=text/plain&%s=%d&%s=%d' % (xs, ci, ys, cj)
        n0 = len(app.info_log)
        r = app.get(url)
        new = app.info_log[n0:]
        if r.status_int == 200 and len(new) == 0:
            continue          # the source was not asked (query point outside its coverage)
        if r.status_int != 200 or len(new) != 1:
            problems.append(('info-request-failed', 'GetFeatureInfo %s answered %s with %d upstream requests: %s' % (url[:200], r.status, len(new), r.text[:100])))
            continue
        u = new[0]
        ub = [float(v) / app.scale for v in u['BBOX'].split(',')]
        if u.get('VERSION') == '1.3.0' and u.get('CRS') in ('EPSG:4326', 'EPSG:31467'):
            ub = [ub[1], ub[0], ub[3], ub[2]]
        if any(abs(v - round(v)) > 1e-5 for v in ub):
            problems.append(('info-off-lattice', 'upstream feature info bbox %s is not on the lattice' % u['BBOX']))
            continue
        ui = int(u.get('X', u.get('I')))
        uj = int(u.get('Y', u.get('J')))
        infos.append({'q': q, 'ci': ci, 'cj': cj, 'u': [int(round(v)) for v in ub] + [int(u['WIDTH']), int(u['HEIGHT'])], 'ui': ui, 'uj': uj,
                      'kind': 'wms'})
    return infos


def observe_wmts_infos(app, g, rng, n, problems):
    infos = []
    for _ in range(n):
        l = rng.randrange(len(g['res']))
        gx, gy = grid_size(g, l)
        col, row = rng.randrange(gx), rng.randrange(gy)
        ci, cj = rng.randrange(g['tw']), rng.randrange(g['th'])
        # what the client means: pixel (ci, cj) of the tile it gets for this address - fetch the tile and decode it
        base = ('/service?SERVICE=WMTS&VERSION=1.0.0&LAYER=lay&STYLE=default&TILEMATRIXSET=g&TILEMATRIX=%02d&TILEROW=%d&TILECOL=%d'
                '&FORMAT=image/png' % (l, row, col))
        rt = app.get(base + '&REQUEST=GetTile')
        if rt.status_int != 200:
            continue
        lv, cells, bg = L.decode_cells(g, app.image(rt))
        if len(cells) != g['tw'] * g['th']:
            continue
        rect = L.cells_rect(g, list(lv)[0], cells)
        n0 = len(app.info_log)
        rest = (len(infos) + _) % 2 == 1
        if rest:
            # the RESTful form of the same request
            r = app.get('/wmts/lay/g/%02d/%d/%d/%d/%d.txt' % (l, col, row, ci, cj), status='*')
        else:
            r = app.get(base + '&REQUEST=GetFeatureInfo&INFOFORMAT=text/plain&I=%d&J=%d' % (ci, cj))
        new = app.info_log[n0:]
        if r.status_int == 200 and len(new) == 0:
            continue          # the source was not asked (tile pixel outside its coverage)
        if r.status_int != 200 or len(new) != 1:
            problems.append(('info-request-failed', 'WMTS GetFeatureInfo %s/%s/%s answered %s with %d upstream requests' % (l, col, row, r.status, len(new))))
            continue
        u = new[0]
        ub = [float(v) / app.scale for v in u['BBOX'].split(',')]
        infos.append({'q': rect + [g['tw'], g['th']], 'ci': ci, 'cj': cj,
                      'u': [int(round(v)) for v in ub] + [int(u['WIDTH']), int(u['HEIGHT'])], 'ui': int(u.get('X', u.get('I'))),
                      'uj': int(u.get('Y', u.get('J'))), 'kind': 'wmts-rest' if rest else 'wmts', 'addr': [col, row, l]})
    return infos


def validate(ctx, name, doc):
    d = ctx.sub('tr-' + name)
    tf = os.path.join(d, 'cases.json')
    with open(tf, 'w') as f:
        json.dump(doc, f)
    mp, cp = tlc.write_mc(d, 'Trace_GeoRef', 'MC_TG', {}, spec='TraceSpec')
    r = tlc.run(mp, cp, d, workers=1, coverage=False, env={'TRACE_FILE': tf}, timeout=3000, heap='6g')
    pr = tlc.find_prints(r.out, 'verdict')
    if not pr:
        raise tlc.MachineryError('Trace_GeoRef gave no verdict for %s: %s' % (name, r.out[-1500:]))
    return r, pr[-1][1]


# ---------------------------------------------------------------------------------------------------------
# requests in another reference system than the grid (mesh reprojection)
# ---------------------------------------------------------------------------------------------------------
import math

R_EARTH = 6378137.0


def merc_to_deg(x, y):
    """EPSG:3857 -> EPSG:4326 by the closed formulas of the spherical Mercator projection (not by MapProxy / pyproj)"""
    return x / R_EARTH * 180.0 / math.pi, (2 * math.atan(math.exp(y / R_EARTH)) - math.pi / 2) * 180.0 / math.pi


def deg_to_merc(lon, lat):
    return lon * math.pi / 180.0 * R_EARTH, math.log(math.tan(math.pi / 4 + lat * math.pi / 360.0)) * R_EARTH


REPROJ = [
    # name, grid srs, scale (grid units per lattice unit), request srs, request variants
    # one-metre pixels next to the origin, requests in degrees: neighbouring requests agree to many decimals
    ('Gbig/3857<-4326/fine', 'EPSG:3857', 0.05, 'EPSG:4326', [('1.1.1', False), ('1.3.0', True)]),
    # a grid of 6400 km (to 50 degrees north), requests in degrees: a degree pixel is not a square on the grid
    ('Gbig/3857<-4326/wide', 'EPSG:3857', 5000, 'EPSG:4326', [('1.1.1', False), ('1.3.0', True)]),
    # a grid in degrees (to 64 degrees north), requests in metres
    ('Gbig/4326<-3857/wide', 'EPSG:4326', 0.05, 'EPSG:3857', [('1.1.1', False), ('1.3.0', False)]),
    # cascaded layers (no cache: the layer is the WMS source, which speaks one SRS only and covers the extent of the grid)
    ('Gbig/cascade/3857<-4326', 'EPSG:3857', 5000, 'EPSG:4326', [('1.1.1', False), ('1.3.0', True)]),
    ('Gbig/cascade/4326<-3857', 'EPSG:4326', 0.05, 'EPSG:3857', [('1.1.1', False), ('1.3.0', False)]),
    ('Gbig/cascade/3857', 'EPSG:3857', 5000, 'EPSG:3857', [('1.1.1', False), ('1.3.0', False)]),
    # the upstream speaks WMS 1.3.0 and degrees: BBOX in latitude / longitude order, I / J
    ('Gbig/4326<-3857/up130', 'EPSG:4326', 0.05, 'EPSG:3857', [('1.1.1', False), ('1.3.0', False)]),
    ('Gbig/cascade/4326<-3857/up130', 'EPSG:4326', 0.05, 'EPSG:3857', [('1.1.1', False)]),
    # a source whose coverage is not a rectangle (an L: the upper left quarter of the grid is missing): requests around the
    # inner corner are put together from tiles some of which do not exist
    ('Gbig/cov-L/3857', 'EPSG:3857', 1, 'EPSG:3857', [('1.1.1', False), ('1.3.0', False)]),
    ('Gbig/cov-L/3857<-4326', 'EPSG:3857', 5000, 'EPSG:4326', [('1.1.1', False), ('1.3.0', True)]),
]
COV_L = [(0, 0, 1280, 600), (700, 600, 1280, 1280)]        # (not on tile borders: tiles next to it do not touch it)


def _same(x, y):
    return x, y


def transforms(gsrs, rsrs):
    """(request SRS -> grid SRS, grid SRS -> request SRS) by closed formulas"""
    if gsrs == rsrs:
        return _same, _same
    return (merc_to_deg, deg_to_merc) if rsrs == 'EPSG:3857' else (deg_to_merc, merc_to_deg)


def reproj_requests(g, rng, n, focus=None):
    """request centres and resolutions in lattice terms: single requests and walks (the same size, moved by a few pixels);
    focus: a point that half of the requests lie around"""
    out = []
    while len(out) < n:
        lres = rng.choice([20, 25, 40, 30, 60, 80, 15, 20, 40])
        w, h = rng.randint(2, 10), rng.randint(2, 10)
        k = rng.random()
        lo, hi = (100, 1180) if k < 0.8 else (-60, 1340)           # mostly inside the grid, some across its edges
        cx, cy = rng.uniform(lo, hi), rng.uniform(lo, hi)
        if focus and rng.random() < 0.5:
            cx, cy = focus[0] + rng.uniform(-200, 200), focus[1] + rng.uniform(-200, 200)
        out.append((cx, cy, lres, w, h))
        if rng.random() < 0.5:
            for _ in range(rng.randint(1, 4)):                      # a client panning by whole pixels
                cx = min(max(cx + rng.choice([-5, -4, -3, 3, 4, 5, 0]) * lres, -60), 1340)
                cy = min(max(cy + rng.choice([-5, -4, -3, 3, 4, 5, 0]) * lres, -60), 1340)
                out.append((cx, cy, lres, w, h))
    return out[:n]


def observe_reprojected(app, g, gsrs, rsrs, scale, variants, reqs, rng, problems):
    to_grid, from_grid = transforms(gsrs, rsrs)
    maps = []
    for cx, cy, lres, w, h in reqs:
        X, Y = from_grid(cx * scale, cy * scale)
        X2, _Y2 = from_grid((cx + lres) * scale, cy * scale)
        rx = ry = X2 - X                                               # square pixels in the SRS of the request
        bbox = (X - w / 2.0 * rx, Y - h / 2.0 * ry, X + w / 2.0 * rx, Y + h / 2.0 * ry)
        version, latlon = rng.choice(variants)
        b = (bbox[1], bbox[0], bbox[3], bbox[2]) if latlon else bbox
        url = ('/service?SERVICE=WMS&VERSION=%s&REQUEST=GetMap&LAYERS=lay&STYLES=&%s=%s&BBOX=%r,%r,%r,%r&WIDTH=%d&HEIGHT=%d'
               '&FORMAT=image/png&TRANSPARENT=TRUE' % ((version, 'CRS' if version == '1.3.0' else 'SRS', rsrs) + tuple(b) + (w, h)))
        r = app.get(url)
        if r.status_int == 500 and 'Invalid BBOX' in r.text:
            # as in observe_maps: a request that overlaps the grid by less than 2/10 pixel of some level is refused
            # instead of answered blank - no picture, nothing for C01 to say
            lo, hi = to_grid(bbox[0], bbox[1]), to_grid(bbox[2], bbox[3])
            if sliver(g, [lo[0] / scale, lo[1] / scale, hi[0] / scale, hi[1] / scale]):
                continue
        if r.status_int != 200 or not r.content_type.startswith('image/'):
            problems.append(('map-request-failed', 'GetMap %s answered %s: %s' % (url, r.status, r.text[:200])))
            continue
        img = app.image(r)
        if img.size != (w, h):
            problems.append(('size', 'GetMap %s returned an image of %s' % (url, img.size)))
            continue
        _lv, cells, _bg = L.decode_cells(g, img)
        pix = img.convert('RGBA').load()
        px, at = [], []
        for j in range(h):
            for i in range(w):
                px_, py_ = bbox[0] + (i + 0.5) * rx, bbox[3] - (j + 0.5) * ry
                gx, gy = to_grid(px_, py_)
                gx1, gy1 = to_grid(px_ + rx / 2.0, py_ + ry / 2.0)
                gx0, gy0 = to_grid(px_ - rx / 2.0, py_ - ry / 2.0)
                at.append([int(round(gx / scale * 1000)), int(round(gy / scale * 1000)),
                           int(round((gx1 - gx0) / scale * 1000)), int(round((gy1 - gy0) / scale * 1000))])
                if (i, j) in cells:
                    px.append([pix[i, j][2] - 100, cells[(i, j)][0], cells[(i, j)][1]])
                else:
                    px.append([-1, 0, 0])
        maps.append({'w': w, 'h': h, 'px': px, 'at': at, 'url': url})
    return maps


def observe_reprojected_infos(app, g, gsrs, rsrs, scale, variants, n, rng, problems):
    """feature-info requests in the SRS that the source does not speak: (clicked pixel on the grid, what the upstream is asked)"""
    to_grid, from_grid = transforms(gsrs, rsrs)
    infos = []
    for k in range(n):
        cx, cy = rng.uniform(100, 1180), rng.uniform(100, 1180)
        lres = rng.choice([20, 25, 40, 30, 60, 80, 15])
        # the sizes of real clients (a map window, a tile, a small window around the click) and tiny ones
        w, h = rng.choice([(256, 256), (101, 101), (300, 180), (3, 3), (1, 1), (rng.randint(1, 12), rng.randint(1, 12)),
                           (rng.randint(20, 400), rng.randint(20, 400))])
        if max(w, h) > 12:
            lres = lres / 16.0                                          # (keeps large windows inside the grid)
        X, Y = from_grid(cx * scale, cy * scale)
        X2, _Y2 = from_grid((cx + lres) * scale, cy * scale)
        rx = ry = X2 - X
        bbox = (X - w / 2.0 * rx, Y - h / 2.0 * ry, X + w / 2.0 * rx, Y + h / 2.0 * ry)
        ci, cj = rng.choice([(rng.randrange(w), rng.randrange(h)), (w - 1, h - 1), (0, 0), (w // 2, h // 2)])
        version, latlon = rng.choice(variants)
        b = (bbox[1], bbox[0], bbox[3], bbox[2]) if latlon else bbox
        url = ('/service?SERVICE=WMS&VERSION=%s&REQUEST=GetFeatureInfo&LAYERS=lay&QUERY_LAYERS=lay&INFO_FORMAT=text/plain&STYLES='
               '&%s=%s&BBOX=%r,%r,%r,%r&WIDTH=%d&HEIGHT=%d&FORMAT=image/png&%s=%d&%s=%d' % (
                   (version, 'CRS' if version == '1.3.0' else 'SRS', rsrs) + tuple(b) +
                   (w, h, 'I' if version == '1.3.0' else 'X', ci, 'J' if version == '1.3.0' else 'Y', cj)))
        n0 = len(app.info_log)
        r = app.get(url)
        new = app.info_log[n0:]
        if r.status_int == 200 and len(new) == 0:
            continue          # the source was not asked (query point outside its coverage)
        if r.status_int != 200 or len(new) != 1:
            problems.append(('info-request-failed', 'GetFeatureInfo %s answered %s with %d upstream requests: %s' % (
                url, r.status, len(new), r.text[:100])))
            continue
        u = new[0]
        ub = [float(v) / scale for v in u['BBOX'].split(',')]
        if u.get('VERSION') == '1.3.0' and u.get('CRS') in ('EPSG:4326', 'EPSG:31467'):
            ub = [ub[1], ub[0], ub[3], ub[2]]
        uw, uh = int(u['WIDTH']), int(u['HEIGHT'])
        ui, uj = int(u.get('X', u.get('I'))), int(u.get('Y', u.get('J')))
        sx, sy = (ub[2] - ub[0]) / max(uw, 1), (ub[3] - ub[1]) / max(uh, 1)
        rect = [ub[0] + ui * sx, ub[3] - (uj + 1) * sy, ub[0] + (ui + 1) * sx, ub[3] - uj * sy]
        px_, py_ = bbox[0] + (ci + 0.5) * rx, bbox[3] - (cj + 0.5) * ry
        gx, gy = to_grid(px_, py_)
        gx1, gy1 = to_grid(px_ + rx / 2.0, py_ + ry / 2.0)
        gx0, gy0 = to_grid(px_ - rx / 2.0, py_ - ry / 2.0)
        infos.append({'at': [int(round(gx / scale * 1000)), int(round(gy / scale * 1000)),
                             int(round((gx1 - gx0) / scale * 1000)), int(round((gy1 - gy0) / scale * 1000))],
                      'uw': uw, 'uh': uh, 'ui': ui, 'uj': uj, 'r': [int(round(v * 1000)) for v in rect],
                      'url': url, 'client': [w, h, ci, cj], 'upstream': {k_: u[k_] for k_ in sorted(u) if k_ in ('BBOX', 'WIDTH', 'HEIGHT', 'X', 'Y', 'I', 'J', 'SRS', 'CRS')}})
    return infos


def reprojected_phase(ctx):
    thorough = ctx.tier == 'thorough'
    n = 400 if thorough else 120
    g = L.spec_grid('Gbig')
    for name, gsrs, scale, rsrs, variants in REPROJ:
        problems = []
        kw = {}
        if name.endswith('/up130'):
            kw['upstream_version'] = '1.3.0'
        exts, focus = [list(g['bbox'])], None
        if '/cov-L/' in name:
            kw['source_coverage_union'] = COV_L
            exts, focus = [list(r) for r in COV_L], (640, 720)
        if '/cascade/' in name:
            kw.update(source_coverage=g['bbox'], extra_conf={'layers': [{'name': 'lay', 'title': 'lay', 'sources': ['up']}]})
        app = L.LatticeApp(g, srs=gsrs, scale=scale, wms_srs=sorted({gsrs, rsrs}), meta_size=(1, 1), featureinfo=True, **kw)
        try:
            maps = observe_reprojected(app, g, gsrs, rsrs, scale, variants, reproj_requests(g, ctx.rng, n, focus), ctx.rng, problems)
            infos = observe_reprojected_infos(app, g, gsrs, rsrs, scale, variants, n, ctx.rng, problems)
        finally:
            app.close()
        d = ctx.sub('tr-' + name.replace('/', '_').replace('<-', '_from_'))
        tf = os.path.join(d, 'cases.json')
        with open(tf, 'w') as f:
            json.dump({'grid': g, 'exts': exts, 'bound': [min(e[0] for e in exts), min(e[1] for e in exts), max(e[2] for e in exts), max(e[3] for e in exts)],
                       'maps': maps, 'infos': infos}, f)
        mp, cp = tlc.write_mc(d, 'Trace_GeoReproj', 'MC_TGR', {}, spec='TraceSpec')
        r = tlc.run(mp, cp, d, workers=1, coverage=False, env={'TRACE_FILE': tf}, timeout=3000, heap='6g')
        pr = tlc.find_prints(r.out, 'verdict')
        if not pr:
            raise tlc.MachineryError('Trace_GeoReproj gave no verdict for %s: %s' % (name, r.out[-1500:]))
        v = pr[-1][1]
        if v['shown'] * 2 < len(maps) or len(maps) * 2 < n:
            raise tlc.MachineryError('vacuity: %s - only %d of %d reprojected requests answered with a picture' % (name, v['shown'], n))
        if len(infos) * 2 < n:
            raise tlc.MachineryError('vacuity: %s - only %d of %d reprojected feature-info requests reached the upstream' % (name, len(infos), n))
        ctx.cov['transitions'] += len(maps) + len(infos)
        ctx.cov['traces_validated_against_impl'] += 1
        for m in maps:
            ctx.count((name, 'reprojected', m['url']))
        for m in infos:
            ctx.count((name, 'reprojected-info', m['url']))
        if v['info']:
            c = infos[v['info'] - 1]
            ctx.violation({'kind': 'featureinfo-position-reprojected', 'config': name},
                          '%s: %d of %d feature-info requests in the other reference system are forwarded for a pixel that does not exist or '
                          'lies more than one client pixel from the clicked point; e.g. client [width, height, x, y] = %s: %s -> upstream %s '
                          '(clicked point and client pixel extent on the grid, 1/1000 units: %s; rectangle of the upstream pixel: %s)' % (
                              name, v['ninfo'], len(infos), c['client'], c['url'], c['upstream'], c['at'], c['r']),
                          {'grid': g, 'case': {'url': c['url'], 'config': name}})
        seen = set()
        for kind, text in problems:
            if kind not in seen:
                seen.add(kind)
                ctx.violation({'kind': kind, 'config': name}, '%s: %s' % (name, text), None)
        if v['map']:
            c = maps[v['map'] - 1]
            bad = sorted(v['badpx'])[:6]
            ctx.violation({'kind': 'map-provenance-reprojected', 'config': name},
                          '%s: %d of %d reprojected map requests (answered one after the other by one process) violate C01; e.g. '
                          'request #%d %s: offending pixels (index, shown [level, cell x, cell y], expected place and pixel extent on '
                          'the grid in 1/1000 units) %s' % (name, v['nmap'], len(maps), v['map'], c['url'],
                                                            [(k - 1, c['px'][k - 1], c['at'][k - 1]) for k in bad]),
                          {'grid': g, 'case': {'url': c['url'], 'config': name}})
        ctx.log('%s: %d reprojected map requests (%d bad), %d feature-info requests (%d bad)' % (name, len(maps), v['nmap'], len(infos), v['ninfo']))


CONFIGS = [
    # name, grid, kwargs for LatticeApp, request variants (version, srs, lat/long order)
    ('G2/3857', 'G2', dict(), [('1.1.1', 'EPSG:3857', False), ('1.3.0', 'EPSG:3857', False), ('1.1.1', 'EPSG:900913', False)]),
    ('Gneg/buffer', 'Gneg', dict(meta_buffer=2, meta_size=(3, 2)), [('1.1.1', 'EPSG:3857', False), ('1.3.0', 'EPSG:3857', False)]),
    ('Gpartul', 'Gpartul', dict(), [('1.1.1', 'EPSG:3857', False)]),
    ('G15', 'G15', dict(meta_size=(1, 1)), [('1.1.1', 'EPSG:3857', False), ('1.3.0', 'EPSG:900913', False)]),
    ('G2/4326', 'G2', dict(srs='EPSG:4326', scale=0.001), [('1.1.1', 'EPSG:4326', False), ('1.3.0', 'EPSG:4326', True)]),
    # degrees at a very fine resolution (2e-7 deg per pixel): coordinates need more than six decimals
    ('G2/4326/fine', 'G2', dict(srs='EPSG:4326', scale=1e-8), [('1.1.1', 'EPSG:4326', False), ('1.3.0', 'EPSG:4326', True)]),
    # a projected reference system with north/east axis order (Gauss-Krueger): WMS 1.3.0 clients send northing first
    ('G2/31467', 'G2', dict(srs='EPSG:31467'), [('1.1.1', 'EPSG:31467', False), ('1.3.0', 'EPSG:31467', True)]),
    # the upstream speaks WMS 1.3.0: BBOX in the axis order of the CRS, I / J stay column / row
    ('Grect/4326/up130', 'Grect', dict(srs='EPSG:4326', scale=0.001, upstream_version='1.3.0'),
     [('1.1.1', 'EPSG:4326', False), ('1.3.0', 'EPSG:4326', True)]),
    ('Gneg/up130', 'Gneg', dict(upstream_version='1.3.0', meta_buffer=1), [('1.1.1', 'EPSG:3857', False), ('1.3.0', 'EPSG:3857', False)]),
    ('Grect/cov', 'Grect', dict(source_coverage=(160, 40, 800, 280)), [('1.1.1', 'EPSG:3857', False)]),
    ('Gcust', 'Gcust', dict(meta_buffer=1), [('1.1.1', 'EPSG:3857', False), ('1.3.0', 'EPSG:3857', False)]),
    ('Gunalul', 'Gunalul', dict(), [('1.3.0', 'EPSG:3857', False)]),
    # the upstream is a tile service (URL template) on the grid of the cache
    ('G2/tiles', 'G2', dict(tile_source=True, meta_size=(1, 1)), [('1.1.1', 'EPSG:3857', False), ('1.3.0', 'EPSG:3857', False)]),
    ('Gpartul/tiles', 'Gpartul', dict(tile_source=True), [('1.1.1', 'EPSG:3857', False)]),
    ('Gneg/tiles/4326', 'Gneg', dict(tile_source=True, srs='EPSG:4326', scale=0.001), [('1.1.1', 'EPSG:4326', False), ('1.3.0', 'EPSG:4326', True)]),
    # a cache filled from another cache with tiles of another size and the other origin
    ('G2/cache-of-cache', 'G2', dict(under=dict(tw=3, th=5, ul=True)), [('1.1.1', 'EPSG:3857', False), ('1.3.0', 'EPSG:3857', False)]),
    ('Gpartul/cache-of-cache', 'Gpartul', dict(under=dict(tw=5, th=4, ul=False), meta_buffer=1), [('1.1.1', 'EPSG:3857', False)]),
]


def run(ctx):
    thorough = ctx.tier == 'thorough'
    tlc.sany(SPEC)
    nmap = 600 if thorough else 220
    ninfo = 120 if thorough else 25
    configs = CONFIGS if thorough else [c for c in CONFIGS if c[0] in ('G2/3857', 'Gneg/buffer', 'Gpartul', 'G15', 'G2/4326', 'Grect/cov', 'Grect/4326/up130', 'G2/31467', 'G2/4326/fine', 'G2/tiles', 'Gpartul/tiles', 'G2/cache-of-cache', 'Gpartul/cache-of-cache')]
    for name, gname, kw, variants in configs:
        g = L.spec_grid(gname)
        srs = kw.get('srs', 'EPSG:3857')
        wms_srs = sorted({v[1] for v in variants} | {srs})
        problems = []
        services = {'wms': {'srs': wms_srs, 'md': {'title': 't'}}, 'tms': {},
                    'wmts': {'kvp': True, 'restful': True, 'featureinfo_formats': [{'mimetype': 'text/plain', 'suffix': 'txt'}]}}
        app = L.LatticeApp(g, featureinfo=True, services=services, wms_srs=wms_srs, **kw)
        app.tile_code = srs.replace(':', '')
        try:
            reqs = gen_requests(g, ctx.rng, nmap)
            maps = observe_maps(app, g, reqs, variants, ctx.rng, problems, kw.get('source_coverage'))
            # (a tile service has no feature info: the layer is not queryable)
            infos = [] if kw.get('tile_source') else observe_infos(app, g, ctx.rng, ninfo, variants, problems)
            if srs == 'EPSG:3857' and not kw.get('tile_source'):
                infos += observe_wmts_infos(app, g, ctx.rng, ninfo, problems)
        finally:
            app.close()
        ext = list(kw.get('source_coverage') or g['bbox'])
        doc = {'grid': g, 'ext': ext, 'maps': maps, 'infos': infos}
        r, v = validate(ctx, name.replace('/', '_'), doc)
        ctx.cov['states'] += max(r.distinct, 1)
        ctx.cov['transitions'] += len(maps) + len(infos)
        ctx.cov['traces_validated_against_impl'] += 1
        for m in maps:
            ctx.count((name, 'map', tuple(m['q']), tuple(m['variant'])))
        for i in infos:
            ctx.count((name, 'info', tuple(i['q']), i['ci'], i['cj'], i['kind']))
        if name == configs[0][0]:
            ctx.sample({'config': name, 'map': maps[0], 'info': infos[0] if infos else None})
        seen = set()
        for kind, text in problems:
            if kind not in seen:
                seen.add(kind)
                ctx.violation({'kind': kind, 'config': name}, '%s: %s' % (name, text), None)
        if v['map']:
            c = maps[v['map'] - 1]
            ctx.violation({'kind': 'map-provenance', 'config': name},
                          '%s: %d of %d map requests violate C01; e.g. request %s (%s): clauses [size ok, one tile, contained, one-tile cmp, NoTiles, #upstream] = %s; offending pixels (index, [level, cell x, cell y]) %s, upstream %s' % (
                              name, v['nmap'], len(maps), c['q'], c['variant'], list(v['why']), [(k - 1, c['px'][k - 1]) for k in sorted(v['badpx'])][:8], c['up'][:3]), {'grid': g, 'case': c})
        if v['info']:
            c = infos[v['info'] - 1]
            ctx.violation({'kind': 'featureinfo-position', 'service': c['kind']},
                          '%s: %d of %d feature-info requests are forwarded for another ground point; e.g. client %s pixel (%d,%d) -> '
                          'upstream %s pixel (%d,%d)%s' % (name, v['ninfo'], len(infos), c['q'], c['ci'], c['cj'], c['u'], c['ui'], c['uj'],
                                                          ' for WMTS address %s' % c['addr'] if 'addr' in c else ''), {'grid': g, 'case': c})
        ctx.log('%s: %d map requests (%d bad), %d feature-info requests (%d bad)' % (name, len(maps), v['nmap'], len(infos), v['ninfo']))
    reprojected_phase(ctx)
    ctx.assumptions += [
        'level choice, blank conditions, one-tile identity and the upstream requests are decided for requests in the SRS of the '
        'grid or an alias / axis-swapped form of it (EPSG:3857, EPSG:900913, EPSG:4326 in both axis orders); for requests '
        'that need a mesh reprojection (EPSG:4326 <-> EPSG:3857) the position clause alone, with the expected place of every '
        'pixel computed by the harness from the closed formulas of the spherical Mercator projection',
        'nearest-neighbour resampling configured so that decoded cells stay exact; upstreams: WMS sources (1.1.1 / 1.3.0, with '
        'and without coverage), tile services addressed by a URL template on the grid of the cache, another cache with tiles of '
        'another size and origin (same resolutions); cascaded (uncached) layers in the reprojected worlds',
    ]
    return ctx.finish('model_checking',
                      'TLC validates the decoded provenance of every output pixel of every recorded map request and every forwarded '
                      'feature-info request against GeoRef.tla; distinct = distinct (config, request) pairs')


def replay(ctx, data):
    print('C01: rerun ./check C01; case: %s' % json.dumps(data.get('case'))[:400])
    return 0
