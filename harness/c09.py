"""C09 - serving requests never touches files outside the cache and lock directories.

spec/PathSafety.tla transcribes the path algebra of mapproxy/cache/path.py (dimensions_part, the layout
functions, os.path.join, lexical normalisation), the lock and multiapp file names and the request flows that
decide which request values reach them.  TLC checks `Safe` for every flow over all attacker strings up to a
length (M); the location function of the model is compared with the real one on tables printed by TLC and
TLC behaviours (requests with the model's decision and paths) are executed on the real WSGI application
(spec -> code); seeded random requests over all services and cache backends are recorded with an interpreter
audit hook and validated by TLC against spec/trace/Trace_PathSafety.tla (code -> spec).  Independently of the
model, every audit event of every request is checked directly against the statement: mutations only below the
cache / lock directories, no read of the decoy tile trees next to the cache.
"""
import io
import json
import os
import re
import shutil
import sys
from concurrent.futures import ThreadPoolExecutor
from urllib.parse import quote

from engine import tlc, tla

SPEC = os.path.join(tlc.SPEC_DIR, 'PathSafety.tla')
TRACE_SPEC = os.path.join(tlc.SPEC_DIR, 'trace', 'Trace_PathSafety.tla')

JAIL = 24            # directory levels between the scratch dir and the sandbox: ".." chains of the attack values
#                      must never be able to climb out of the scratch directory of the check
TILE = 64
RES0 = 16.0          # level z: res RES0 / 2^z, 2^z x 2^z tiles of TILE px over [0, 1024]^2
LAYER = 'lay'
GRID = 'g'
PROJECT = 'proj'
MODEL_BASE = ('', 'B')

# --------------------------------------------------------------------------------------------------------
# audit recorder
# --------------------------------------------------------------------------------------------------------
_MUTATING = {'os.mkdir', 'os.rename', 'os.remove', 'os.rmdir', 'os.symlink', 'os.link', 'os.utime', 'os.chmod',
             'os.chown', 'os.truncate', 'os.mkfifo', 'os.mknod', 'shutil.rmtree', 'shutil.copyfile', 'shutil.move',
             'shutil.copytree', 'shutil.copymode', 'shutil.copystat', 'tempfile.mkstemp', 'tempfile.mkdtemp',
             'sqlite3.connect'}
_READING = {'os.listdir', 'os.scandir', 'glob.glob'}
_TWO_PATHS = {'os.rename', 'os.symlink', 'os.link', 'shutil.copyfile', 'shutil.move', 'shutil.copytree',
              'shutil.copymode', 'shutil.copystat'}
_WRITE_FLAGS = os.O_WRONLY | os.O_RDWR | os.O_CREAT | os.O_TRUNC | os.O_APPEND


class _Recorder(object):
    def __init__(self):
        self.active = None
        self.installed = False

    def install(self):
        if not self.installed:
            sys.addaudithook(self._hook)
            self.installed = True

    def _hook(self, event, args):
        log = self.active
        if log is None:
            return
        if event == 'open':
            path, mode, flags = (tuple(args) + (None, None, None))[:3]
            if isinstance(path, int):
                return
            write = bool(flags & _WRITE_FLAGS) if isinstance(flags, int) else any(c in (mode or '') for c in 'wax+')
            log.append(('open-write' if write else 'open-read', [self._s(path)]))
        elif event in _MUTATING or event in _READING:
            n = 2 if event in _TWO_PATHS else 1
            paths = [self._s(a) for a in args[:n] if isinstance(a, (str, bytes)) or hasattr(a, '__fspath__')]
            if paths:
                log.append((event, paths))

    @staticmethod
    def _s(p):
        try:
            return os.fsdecode(p)
        except Exception:
            return repr(p)


REC = _Recorder()


class Recording(object):
    def __enter__(self):
        REC.install()
        self.events = []
        REC.active = self.events
        return self.events

    def __exit__(self, *a):
        REC.active = None


# --------------------------------------------------------------------------------------------------------
# sandbox + real application
# --------------------------------------------------------------------------------------------------------
_PNG = {}


def _png(size):
    if size not in _PNG:
        from PIL import Image
        img = Image.new('RGB', size)
        img.putdata([((i * 7) % 256, (i * 13) % 256, (i // size[0]) % 256) for i in range(size[0] * size[1])])
        buf = io.BytesIO()
        img.save(buf, 'PNG')
        _PNG[size] = buf.getvalue()
    return _PNG[size]


def _fake_open(self, url, data=None, method=None):
    w = re.search(r'(?i)[?&]width=(\d+)', url)
    h = re.search(r'(?i)[?&]height=(\d+)', url)
    size = (int(w.group(1)), int(h.group(1))) if w and h else (TILE, TILE)
    r = io.BytesIO(_png(size))
    r.headers = {'Content-type': 'image/png'}
    r.code = 200
    return r


def install_fake_upstream():
    import mapproxy.client.http as H
    if H.HTTPClient.open is not _fake_open:
        H.HTTPClient.open = _fake_open


class Kind(object):
    """One cache configuration of the real application and its model constants."""

    def __init__(self, name, backend, layout='tc', ext='png', cache=None, dims=True, canon=None):
        self.name = name
        self.backend = backend          # model Backend
        self.layout = layout
        self.ext = ext                  # model Ext
        self.cache = cache              # callable(root) -> cache configuration dict
        self.dims = dims                # layer has configured dimensions (file caches only)
        self.canon = canon              # canonical leaf name of a touched file


def _compact_canon(p):
    for suf in ('.bundlx', '.lck'):
        if p.endswith(suf):
            return p[:-len(suf)] + '.bundle'
    return p


def _sqlite_canon(p):
    for suf in ('-journal', '-wal', '-shm'):
        if p.endswith(suf):
            return p[:-len(suf)]
    return p


def all_kinds():
    ks = []
    for lay in ('tc', 'mp', 'tms', 'reverse_tms', 'quadkey', 'arcgis'):
        ks.append(Kind('file-' + lay, 'file', layout=lay,
                       cache=lambda root, lay=lay: {'type': 'file', 'directory': root, 'directory_layout': lay}))
    ks.append(Kind('mbtiles', 'single', ext='c.mbtiles', dims=False, canon=_sqlite_canon,
                   cache=lambda root: {'type': 'mbtiles', 'filename': os.path.join(root, 'c.mbtiles')}))
    ks.append(Kind('geopackage', 'single', ext='c.gpkg', dims=False, canon=_sqlite_canon,
                   cache=lambda root: {'type': 'geopackage', 'filename': os.path.join(root, 'c.gpkg'),
                                       'table_name': 'tiles'}))
    ks.append(Kind('sqlite-level', 'level', ext='mbtile', dims=False, canon=_sqlite_canon,
                   cache=lambda root: {'type': 'sqlite', 'directory': root}))
    ks.append(Kind('geopackage-level', 'level', ext='gpkg', dims=False, canon=_sqlite_canon,
                   cache=lambda root: {'type': 'geopackage', 'directory': root, 'levels': True, 'table_name': 'tiles'}))
    ks.append(Kind('compact-v1', 'compact', dims=False, canon=_compact_canon,
                   cache=lambda root: {'type': 'compact', 'version': 1, 'directory': root}))
    ks.append(Kind('compact-v2', 'compact', dims=False, canon=_compact_canon,
                   cache=lambda root: {'type': 'compact', 'version': 2, 'directory': root}))
    return ks


DIM_VALUES = ['v1', 'v2', '2020-08-25T00:00:00Z']
DIM_DEFAULT = 'v2'


class World(object):
    """A sandbox directory tree with one real MapProxy application (optionally behind the multiapp)."""

    def __init__(self, ctx, kind, levels=4, meta=1, multiapp=False, name=None):
        self.ctx = ctx
        self.kind = kind
        self.levels = levels
        self.meta = meta
        self.top = ctx.sub('sbx-%s' % (name or kind.name))
        shutil.rmtree(self.top, ignore_errors=True)
        self.base = os.path.join(self.top, *['j%d' % i for i in range(JAIL)], 'B')
        self.root = os.path.join(self.base, 'data', 'cc')
        self.lockroot = os.path.join(self.base, 'tlocks')
        self.confroot = os.path.join(self.base, 'conf')
        os.makedirs(os.path.join(self.base, 'data'))
        os.makedirs(self.confroot)
        # (the legend cache lives below globals.cache.base_dir)
        self.allowed = [self.root, self.lockroot, os.path.join(self.base, 'locks'), os.path.join(self.base, 'data', 'legends')]
        self.multiapp = multiapp
        self.decoys = []
        self._make_decoys()
        self.app = self._make_app()

    # -- decoy tile trees next to the cache (and next to the data directory)
    def _make_decoys(self):
        from mapproxy.cache.file import FileCache
        from mapproxy.cache.tile import Tile
        for d in (os.path.join(self.base, 'data', 'decoy'), os.path.join(self.base, 'decoy'),
                  os.path.join(self.base, 'data', 'cc2')):
            for lay in ('tc', 'mp', 'tms', 'reverse_tms', 'quadkey', 'arcgis'):
                c = FileCache(d, 'png', directory_layout=lay)
                for coord in ((0, 0, 0), (0, 0, 1), (1, 1, 1), (0, 1, 1), (1, 0, 1)):
                    for dims in (None, {'time': 'v1'}):
                        loc = c.tile_location(Tile(coord), create_dir=True, dimensions=dims)
                        with open(loc, 'wb') as f:
                            f.write(_png((TILE, TILE)))
            self.decoys.append(d)
        with open(os.path.join(self.base, 'secret.yaml'), 'w') as f:
            f.write('services:\n  demo:\n')
        self.decoys.append(os.path.join(self.base, 'secret.yaml'))

    def conf(self):
        kind = self.kind
        layer = {'name': LAYER, 'title': 't', 'sources': ['c1']}
        template = '/{Layer}/{TileMatrixSet}/{TileMatrix}/{TileCol}/{TileRow}.{Format}'
        if kind.dims:
            layer['dimensions'] = {'time': {'values': list(DIM_VALUES), 'default': DIM_DEFAULT}}
            template = '/{Layer}/{TileMatrixSet}/{Time}/{TileMatrix}/{TileCol}/{TileRow}.{Format}'
        return {
            'globals': {'cache': {'base_dir': os.path.join(self.base, 'data'), 'lock_dir': os.path.join(self.base, 'locks'),
                                  'tile_lock_dir': self.lockroot, 'meta_size': [self.meta, self.meta], 'meta_buffer': 0},
                        'image': {'paletted': False}},
            'services': {'wms': {}, 'tms': {}, 'kml': {}, 'demo': {},
                         'wmts': {'restful': True, 'kvp': True, 'restful_template': template}},
            'layers': [layer],
            'grids': {GRID: {'srs': 'EPSG:3857', 'bbox': [0, 0, 1024, 1024], 'origin': 'll', 'tile_size': [TILE, TILE],
                             'res': [RES0 / 2 ** z for z in range(self.levels)]}},
            'caches': {'c1': {'grids': [GRID], 'sources': ['src'], 'cache': kind.cache(self.root)}},
            'sources': {'src': {'type': 'wms', 'req': {'url': 'http://upstream.invalid/service', 'layers': 'a'},
                                'forward_req_params': ['time', 'elevation'], 'wms_opts': {'legendgraphic': True}}},
        }

    def _make_app(self):
        import webtest
        from mapproxy.config.loader import ProxyConfiguration
        from mapproxy.wsgiapp import MapProxyApp
        install_fake_upstream()
        conf = self.conf()
        if self.multiapp:
            import yaml
            from mapproxy.multiapp import make_wsgi_app
            import mapproxy.multiapp as MA
            with open(os.path.join(self.confroot, PROJECT + '.yaml'), 'w') as f:
                yaml.safe_dump(conf, f)
            if not isinstance(MA.os, _OsProxy):
                MA.os = _OsProxy(MA.os)
            return webtest.TestApp(make_wsgi_app(self.confroot, allow_listing=False))
        pc = ProxyConfiguration(conf, conf_base_dir=self.base, seed=False, renderd=False)
        return webtest.TestApp(MapProxyApp(pc.configured_services(), pc.base_config))

    def close(self):
        shutil.rmtree(self.top, ignore_errors=True)

    # -- real path <-> model segments
    def model_segs(self, path):
        """raw (not normalised) real path -> segment sequence in the model's name space"""
        if path == self.base:
            return list(MODEL_BASE)
        if path.startswith(self.base + '/'):
            return list(MODEL_BASE) + path[len(self.base) + 1:].split('/')
        return path.split('/')


class _PathProxy(object):
    def __init__(self, real):
        self._real = real

    def isfile(self, p):
        if REC.active is not None:
            REC.active.append(('probe', [os.fsdecode(p)]))
        return self._real.isfile(p)

    def getmtime(self, p):
        if REC.active is not None:
            REC.active.append(('probe', [os.fsdecode(p)]))
        return self._real.getmtime(p)

    def __getattr__(self, n):
        return getattr(self._real, n)


class _OsProxy(object):
    """mapproxy.multiapp looks at project files with os.path.isfile / getmtime (no audit event): record them."""

    def __init__(self, real):
        self._real = real
        self.path = _PathProxy(real.path)

    def __getattr__(self, n):
        return getattr(self._real, n)


# --------------------------------------------------------------------------------------------------------
# abstract requests -> real requests, observations
# --------------------------------------------------------------------------------------------------------
_DIM_RE = re.compile(r'(?i)^dim_|^(time|elevation)$')       # request/wms/__init__.py _get_dimensions


def flat(segs):
    return '/'.join(segs)


def key_class(name):
    if not _DIM_RE.search(name):
        return 'other'
    return 'custom' if name.lower().startswith('dim_') else 'predef'


def keyrec(segs):
    segs = [s.lower() for s in segs]
    return {'segs': segs, 'class': key_class(flat(segs))}


def tile_bbox(x0, y0, x1, y1, z):
    span = TILE * RES0 / 2 ** z
    return (x0 * span, y0 * span, (x1 + 1) * span, (y1 + 1) * span)


def _q(s, full):
    return quote(s, safe='' if full else "/.-_~:,;@!$'()*")


def build(world, req):
    """abstract request -> (PATH_INFO, QUERY_STRING)"""
    flow = req['flow']
    pre = '/' + PROJECT if world.multiapp and flow != 'multiapp' else ''
    full = bool(req.get('enc'))
    layer = flat(req.get('layer') or [LAYER])
    dims = [(flat(k['segs']) if not req.get('upper') else flat(k['segs']).upper(), flat(v)) for k, v in req.get('dims') or []]
    x, y, z = req.get('tile') or (0, 0, 0)
    if flow == 'multiapp':
        return '/' + flat(req['path']), ''
    if flow == 'wms':
        if req.get('range'):
            x0, y0, x1, y1 = req['range']
        else:
            x0, y0, x1, y1 = x, y, x, y
        bbox = tile_bbox(x0, y0, x1, y1, z)
        qs = [('SERVICE', 'WMS'), ('VERSION', '1.3.0' if req.get('v130') else '1.1.1'), ('REQUEST', 'GetMap'), ('LAYERS', layer),
              ('STYLES', ''), ('CRS' if req.get('v130') else 'SRS', 'EPSG:3857'), ('BBOX', ','.join(repr(float(v)) for v in bbox)),
              ('WIDTH', str(TILE * (x1 - x0 + 1))), ('HEIGHT', str(TILE * (y1 - y0 + 1))), ('FORMAT', 'image/png')]
        if req.get('tiled'):
            qs.append(('TILED', 'true'))
        return pre + '/service', '&'.join('%s=%s' % (_q(k, full), _q(v, full)) for k, v in qs + dims)
    if flow == 'wmts_kvp':
        qs = [('SERVICE', 'WMTS'), ('VERSION', '1.0.0'), ('REQUEST', 'GetTile'), ('LAYER', layer), ('STYLE', ''),
              ('TILEMATRIXSET', GRID), ('TILEMATRIX', str(z)), ('TILEROW', str(y)), ('TILECOL', str(x)),
              ('FORMAT', 'image/png')]
        return pre + '/service', '&'.join('%s=%s' % (_q(k, full), _q(v, full)) for k, v in qs + dims)
    if flow == 'tms':
        if req.get('origin'):     # the generic tile service honours ?origin=, /tms does not
            return pre + '/tiles/%s/EPSG3857/%d/%d/%d.png' % (layer, z, x, y), 'origin=%s' % req['origin']
        return pre + '/tms/1.0.0/%s/EPSG3857/%d/%d/%d.png' % (layer, z, x, y), ''
    if flow == 'kml':
        return pre + '/kml/%s/EPSG3857/%d/%d/%d.png' % (layer, z, x, y), ''
    if flow == 'wmts_rest':
        dpart = ''.join('/' + v for _k, v in dims)
        return pre + '/wmts/%s/%s%s/%d/%d/%d.png' % (layer, GRID, dpart, z, x, y), ''
    raise ValueError(flow)


CANARIES = ['/etc/passwd', '/tmp/c09-escape']      # targets of the absolute / deep-climbing spellings the drivers send
_LOCK_RE = re.compile(r'^(.*)-(\d+)-(\d+)-(\d+)\.lck$')
_TMP_RE = re.compile(r'\.tmp-\d+$')
_DIR_EVENTS = {'os.mkdir', 'os.rmdir', 'os.listdir', 'os.scandir', 'glob.glob'}
_READ_EVENTS = {'open-read', 'os.listdir', 'os.scandir', 'glob.glob', 'probe'}


def under(root, path):
    root = os.path.normpath(root)
    path = os.path.normpath(path)
    return path == root or path.startswith(root.rstrip('/') + '/')


class Observation(object):
    def __init__(self):
        self.out = None
        self.status = None
        self.touches = []        # [{'op','kind','path': model segments}]
        self.raw = []            # [(event, [real paths])]
        self.unsafe = []         # [(access, event, real path)]  direct check of the statement
        self.text = ''


def observe(world, req, extra_headers=None):
    path_info, qs = build(world, req)
    return observe_raw(world, path_info, qs, flow=req['flow'], extra_headers=extra_headers)


def observe_raw(world, path_info, qs, flow='wms', extra_headers=None):
    env = {'PATH_INFO': path_info}      # PATH_INFO is what a WSGI server hands over: already percent-decoded
    o = Observation()
    with Recording() as events:
        resp = world.app.get('/?' + qs, extra_environ=env, headers=extra_headers or {}, expect_errors=True)
        body = resp.body     # reading the body is part of serving the request (lazy file sources)
    o.status = resp.status_int
    ct = resp.content_type or ''
    o.text = '' if ct.startswith('image/') else resp.text[:300]
    if resp.status_int == 200 and ct.startswith('image/'):
        o.out = 'served'
    elif flow == 'multiapp':
        if 'mapproxy.instance_name' in resp.request.environ:
            o.out = 'dispatch'          # MultiMapProxy.handle handed the request to a project application
        elif resp.status_int == 404 and body == b'not found':
            o.out = 'notfound'
        elif body.startswith(b'<html><body><h1>Welcome to MapProxy'):
            o.out = 'index'
        else:
            o.out = 'dispatch'
    elif resp.status_int >= 500 and 'ServiceException' not in o.text and 'TileMapServerError' not in o.text \
            and 'ExceptionReport' not in o.text and not o.text.startswith('internal error: invalid request'):
        o.out = 'error'
    elif resp.status_int >= 400:
        o.out = 'rejected'
    else:
        o.out = 'other:%d:%s' % (resp.status_int, ct)
    kind = world.kind
    for ev, paths in events:
        for p in paths:
            n = os.path.normpath(os.path.abspath(p))
            inside = under(world.top, n) or any(under(c, n) for c in CANARIES)
            read = ev in _READ_EVENTS
            if read and not inside:
                continue            # templates, python modules, proj data ...
            o.raw.append((ev, p))
            # ---- the statement itself, on the real paths
            if read:
                ok = any(under(r, n) for r in world.allowed) or (world.multiapp and under(world.confroot, n)) \
                    or (ev != 'open-read' and any(under(n, r) for r in world.allowed))
            else:
                ok = any(under(r, n) for r in world.allowed) or (ev == 'os.mkdir' and any(under(n, r) for r in world.allowed))
            if not ok:
                o.unsafe.append(('read' if read else 'write', ev, p))
            # ---- projection for the model
            q = _TMP_RE.sub('', p)
            if kind.canon and not _LOCK_RE.match(os.path.basename(q)):
                q = kind.canon(q)
            if q.endswith('.init.lck'):
                q = q[:-len('.init.lck')]
            segs = world.model_segs(q)
            m = _LOCK_RE.match(segs[-1])
            if ev == 'probe' or segs[-1].endswith('.yaml'):
                k = 'conf'
            elif m:
                k = 'lock'
                segs[-1] = 'ID-%s-%s-%s.lck' % m.group(2, 3, 4)
            else:
                k = 'file'
            t = {'op': 'dir' if ev in _DIR_EVENTS else 'leaf', 'kind': k, 'path': segs}
            if t not in o.touches:
                o.touches.append(t)
    return o


def hostile_component(req):
    def bad(segs):
        return len(segs) > 1 or segs[0] in ('', '.', '..')
    if any(bad(k['segs']) or bad(v) for k, v in req.get('dims') or []):
        return 'dimensions'
    if req.get('layer') and (bad(req['layer']) or req['layer'] != [LAYER]):
        return 'layer'
    if req.get('path'):
        return 'path'
    if req.get('tile') and not in_grid(req['tile'], 64):
        return 'tile'
    return 'none'


def in_grid(c, levels):
    x, y, z = c
    return 0 <= z < levels and 0 <= x < 2 ** z and 0 <= y < 2 ** z


def report_unsafe(ctx, world, req, o, where):
    """direct violation of the statement: an event outside the configured directories"""
    if not o.unsafe:
        return False
    access = sorted({a for a, _e, _p in o.unsafe})
    sig = {'kind': 'escape', 'flow': req.get('flow'), 'via': hostile_component(req), 'backend': world.kind.backend}
    acc, ev, p = o.unsafe[0]
    ctx.violation(sig, '%s: request %s (%s) made MapProxy %s %s -> %s, outside the cache directory %s and the lock '
                       'directories (%d such events, access: %s; found by %s)' % (
                           world.kind.name, describe(req), where_url(world, req), ev, p.replace(world.base, '$B'),
                           os.path.normpath(p).replace(world.base, '$B'), world.root.replace(world.base, '$B'),
                           len(o.unsafe), '+'.join(access), where),
                  {'kind': world.kind.name, 'levels': world.levels, 'meta': world.meta, 'multiapp': world.multiapp,
                   'requests': [req]})
    return True


def describe(req):
    d = {k: v for k, v in req.items() if v not in (None, [], '')}
    if 'dims' in d:
        d['dims'] = {flat(k['segs']): flat(v) for k, v in d['dims']}
    for k in ('layer', 'path'):
        if k in d:
            d[k] = flat(d[k])
    return json.dumps(d, sort_keys=True)


def where_url(world, req):
    try:
        p, q = build(world, req)
        return (p + ('?' + q if q else ''))[:400]
    except Exception as ex:      # pragma: no cover
        return repr(ex)


# --------------------------------------------------------------------------------------------------------
# the model's prediction, in python (used for the spec -> code comparison; the same clauses as Trace_PathSafety)
# --------------------------------------------------------------------------------------------------------
def predicted(touch, model_touched):
    if touch['op'] == 'leaf':
        return any(t['kind'] == touch['kind'] and list(t['path']) == touch['path'] for t in model_touched)
    n = len(touch['path'])
    return any(list(t['path'])[:n] == touch['path'] for t in model_touched)


def class_of(model_out):
    if model_out == 'served':
        return 'served'
    if model_out in ('reject_layer', 'reject_dim', 'reject_tile'):
        return 'rejected'
    return model_out


# --------------------------------------------------------------------------------------------------------
# TLC: exhaustive model, location tables
# --------------------------------------------------------------------------------------------------------
MC_KEYS = [['time'], ['elevation'], ['dim_a'], ['dim_', '..', '..', 'x'], ['foo']]
MC_TOK = ['', '.', '..', 'a', 'v1', 'cc']
ACTIONS = ['Receive', 'DoPopPath', 'DoLayerLookup', 'DoDimsWMS', 'DoDimsChecked', 'DoCoordWMS', 'DoLimitTile', 'Lock', 'Store']
ALL_FLOWS = ['wms', 'tms', 'kml', 'wmts_kvp', 'wmts_rest', 'multiapp']
INVARIANTS = ['TypeOK', 'SafeOther', 'RejectedTouchNothing', 'OnlyCheckedValues', 'CoordInGrid']


def tla_keys(keys):
    recs = [keyrec(k) for k in keys]
    order = sorted(recs, key=lambda r: flat(r['segs']))
    return ('={' + ', '.join(tla.to_tla(r) for r in recs) + '}' if recs else '={}'), tuple(order)


def kind_consts(kind, sanitise, levels):
    dimconf = ({'key': 'time', 'values': set(DIM_VALUES), 'default': DIM_DEFAULT},) if kind.dims else ()
    root = MODEL_BASE + ('data', 'cc') + (('g',) if kind.backend == 'level' else ())
    return dict(Root=root, LockRoot=MODEL_BASE + ('tlocks',), ConfRoot=MODEL_BASE + ('conf',),
                Projects={PROJECT}, Backend=kind.backend, Layout=kind.layout, Sanitise=sanitise, Ext=kind.ext,
                Levels=levels, Layers={LAYER}, DimConf=dimconf, LockId='ID')


def mc_consts(kind, sanitise, levels=3, tok=MC_TOK, maxsegs=3, keys=MC_KEYS, maxdims=1, idx=(-1, 0, 1, 3, 4, 1000000),
              flows=ALL_FLOWS):
    c = kind_consts(kind, sanitise, levels)
    ks, order = tla_keys(keys)
    c.update(Tok=set(tok), MaxSegs=maxsegs, Keys=ks, KeyOrder=order, MaxDims=maxdims, Idx=set(idx), Flows=set(flows))
    return c


def run_mc(ctx, name, consts, invariants, workers=4, timeout=1500, coverage=True):
    d = ctx.sub('mc-' + name)
    mp, cp = tlc.write_mc(d, 'PathSafety', 'MC_PathSafety', consts, invariants=invariants, view='View')
    r = tlc.run(mp, cp, d, workers=workers, timeout=timeout, coverage=coverage)
    for m in re.finditer(r'(?m)^<(\w+) line [^>]*>: (\d+):(\d+)', r.out):
        a = m.group(1)
        old = r.coverage.get(a, (0, 0))
        r.coverage[a] = (max(old[0], int(m.group(2))), max(old[1], int(m.group(3))))
    return r


TABLE_COORDS = [(0, 0, 0), (1, 0, 1), (3, 2, 2), (5, 7, 3), (999, 1000, 10), (1000, 999, 10), (127, 128, 9), (9999, 10000, 14),
                (10000, 9999, 14), (999999, 1000000, 20), (1000000, 1234567, 21), (255, 256, 9), (65535, 4095, 16)]
TABLE_DIMS = [
    {},
    {'time': 'v1'},
    {'time': '2020-08-25T00:00:00Z'},
    {'TIME': '../../..'},
    {'time': 'a/b', 'elevation': '..'},
    {'dim_b': '/abs', 'DIM_a': '.', 'time': ''},
    {'dim_/../x': '1', 'time': 'v2'},
    {'elevation': './', 'dim_reference_time': '2020-08-25T00:00:00Z', 'dim_level': '700'},
    {'time': '//', 'Elevation': '..//..'},
    {'dim_': '../cc/..', 'time': 'a/../../b/'},
]


def _segs(s):
    return s.split('/')


def table_cases():
    cases = []
    for di, d in enumerate(TABLE_DIMS):
        for ci, c in enumerate(TABLE_COORDS):
            if (di + ci) % 3 == 0 or di in (0, 3) or ci == 0:
                cases.append((d, c))
    return cases


def location_tables(ctx):
    """FileLoc of the model == FileCache.tile_location of the code, for both variants of dimensions_part.
    Returns the variant the code under test implements."""
    from mapproxy.cache.file import FileCache
    from mapproxy.cache.tile import Tile
    cases = table_cases()
    allkeys = sorted({k.lower() for d, _c in cases for k in d})
    ks, order = tla_keys([_segs(k) for k in allkeys])
    tla_cases = []
    for d, c in cases:
        ds = tla.FrozenDict((tla.FrozenDict((('segs', tuple(_segs(k.lower()))), ('class', key_class(k)))), tuple(_segs(v)))
                            for k, v in d.items())
        tla_cases.append((ds, tuple(c)))
    layouts = ('tc', 'mp', 'tms', 'reverse_tms', 'quadkey', 'arcgis')

    def job(variant):
        c = kind_consts(Kind('file-tc', 'file'), variant, 22)
        c.update(Tok={'a'}, MaxSegs=1, Keys=ks, KeyOrder=order, MaxDims=1, Idx={0}, Flows={'wms'})
        d = ctx.sub('loc-%s' % variant)
        extra = ('Cases == %s\nLayouts == %s\n'
                 'ASSUME PrintT(<<"loctable", [j \\in 1 .. Len(Layouts) |-> [i \\in 1 .. Len(Cases) |-> '
                 'FileLocL(Layouts[j], WmsCDims(Cases[i][1]), Cases[i][2])]]>>)\n'
                 'LocSpec == Init /\\ [][FALSE]_vars' % (tla.to_tla(tuple(tla_cases)), tla.to_tla(layouts)))
        mp, cp = tlc.write_mc(d, 'PathSafety', 'MC_Loc', c, extra_defs=extra, spec='LocSpec')
        r = tlc.run(mp, cp, d, workers=1, coverage=False, timeout=600)
        pr = tlc.find_prints(r.out, 'loctable')
        if not pr:
            raise tlc.MachineryError('no location table from TLC (%s): %s' % (variant, r.out[-1500:]))
        return [(( lay, variant), list(pr[-1][1][j])) for j, lay in enumerate(layouts)]

    with ThreadPoolExecutor(max_workers=2) as ex:
        tables = dict(sum(ex.map(job, ('raw', 'nosep')), []))
    jobs = list(tables)
    matches = {'raw': 0, 'nosep': 0}
    first_bad = {}
    for lay in ('tc', 'mp', 'tms', 'reverse_tms', 'quadkey', 'arcgis'):
        cache = FileCache('/B/data/cc', 'png', directory_layout=lay)
        for i, (d, c) in enumerate(cases):
            try:
                real = cache.tile_location(Tile(c), dimensions=dict(d) if d else None)
            except Exception as ex:
                real = 'raised %r' % (ex,)
            ctx.count(('loc', lay, i))
            for variant in ('raw', 'nosep'):
                model = '/'.join(tables[(lay, variant)][i])
                if model == real:
                    matches[variant] += 1
                else:
                    first_bad.setdefault(variant, (lay, d, c, real, model))
    total = 6 * len(cases)
    ctx.cov['states'] += len(jobs)
    ctx.cov['transitions'] += len(jobs)
    ctx.log('location tables: %d cases; code == model(raw) on %d, == model(nosep) on %d' % (total, matches['raw'], matches['nosep']))
    if matches['raw'] == total and matches['nosep'] < total:
        return 'raw'
    if matches['nosep'] == total and matches['raw'] < total:
        return 'nosep'
    variant = 'raw' if matches['raw'] >= matches['nosep'] else 'nosep'
    lay, d, c, real, model = first_bad[variant]
    hostile = any('/' in v or '/' in k for k, v in d.items())
    ctx.violation({'kind': 'location', 'layout': lay, 'hostile_dims': hostile},
                  'layout %s: tile_location(%s, dimensions=%s) is %s, PathSafety!Loc (%s) says %s' % (lay, c, d, real, variant, model),
                  {'location': {'layout': lay, 'dims': d, 'coord': list(c)}})
    return variant


def model_checks(ctx, variant):
    """(M) exhaustive TLC runs; returns the counterexample requests of violated instances"""
    thorough = ctx.tier == 'thorough'
    kinds = {k.name: k for k in all_kinds()}
    jobs = []
    # with the unrepaired dimensions_part SafeWMS is known to fail: the big instances then explore everything
    # else (SafeOther and the structural invariants) and small WMS-only instances produce the counterexamples
    invs = INVARIANTS + (['SafeWMS'] if variant == 'nosep' else [])
    jobs.append(('file-tc', kinds['file-tc'], dict(maxsegs=5 if thorough else 4, levels=2 if thorough else 1), invs))
    jobs.append(('file-tc-levels', kinds['file-tc'], dict(maxsegs=2, levels=4 if thorough else 3), invs))
    if thorough:
        jobs.append(('file-tc-2dims', kinds['file-tc'], dict(maxsegs=2, maxdims=2, levels=2, tok=['', '.', '..', 'a', 'v1'],
                                                               flows=['wms', 'wmts_kvp']), invs))
    for n in ('file-mp', 'file-tms', 'file-reverse_tms', 'file-quadkey', 'file-arcgis'):
        jobs.append((n, kinds[n], dict(maxsegs=4 if thorough else 3, levels=2), invs))
    for n in ('mbtiles', 'sqlite-level', 'compact-v1'):
        jobs.append((n, kinds[n], dict(maxsegs=3, levels=3 if thorough else 2), INVARIANTS + ['SafeWMS']))
    if variant != 'nosep':
        for n in ('file-tc', 'file-mp', 'file-tms', 'file-reverse_tms', 'file-quadkey', 'file-arcgis'):
            jobs.append((n + '-wms', kinds[n], dict(maxsegs=3, levels=1, flows=['wms']), ['SafeWMS']))

    def job(j):
        name, kind, kw, invs = j
        return j, run_mc(ctx, name, mc_consts(kind, variant, **kw), invs)

    with ThreadPoolExecutor(max_workers=4) as ex:
        results = list(ex.map(job, jobs))
    cex = []
    for (name, kind, kw, invs), r in results:
        ctx.log('TLC %-22s %r' % (name, r))
        if r.error:
            raise tlc.MachineryError('TLC failed on %s: %s\n%s' % (name, r.error, r.out[-1500:]))
        if r.violated:
            if r.violated != 'SafeWMS' and r.violated != 'SafeOther':
                # the model of the code contradicts one of its own structural invariants
                raise tlc.MachineryError('PathSafety (%s) violates %s: %s' % (name, r.violated, [a for a, _ in r.trace]))
            st = r.trace[-1][1]
            cex.append((name, kind, r.violated, state_request(st), st))
            continue
        ctx.add_tlc('PathSafety/' + name, r)
        flows = kw.get('flows', ALL_FLOWS)
        expect = set(ACTIONS)
        cov = dict(r.coverage)
        cov.setdefault('Lock', cov.get('LockSet', (0, 0)))
        cov.setdefault('Store', cov.get('StoreSet', (0, 0)))
        if 'multiapp' not in flows:
            expect.discard('DoPopPath')
        if flows == ['wms']:
            expect -= {'DoDimsChecked', 'DoLimitTile'}
        if 'wms' not in flows:
            expect -= {'DoDimsWMS', 'DoCoordWMS'}
        for a in expect:
            if max(cov.get(a, (0, 0))[0], cov.get(a + 'Set', (0, 0))[0]) == 0:
                raise tlc.MachineryError('vacuity: action %s never taken in %s (%s)' % (a, name, sorted(cov)))
    return cex


def state_request(st):
    """TLC state -> abstract request (python)"""
    rq = st['req']
    dims = rq['dims']
    pairs = []
    if isinstance(dims, dict):
        for k, v in dims.items():
            pairs.append([{'segs': list(k['segs']), 'class': str(k['class'])}, list(v)])
    pairs.sort(key=lambda p: flat(p[0]['segs']))
    return {'flow': str(rq['flow']), 'layer': list(rq['layer']) or None, 'dims': pairs,
            'tile': list(rq['tile']) or None, 'path': list(rq['path']) or None}


def state_touched(st):
    return [{'kind': str(t['kind']), 'path': list(t['path'])} for t in st['touched']]


# --------------------------------------------------------------------------------------------------------
# (R) spec -> code: terminal states of small exhaustive instances, executed on the real application
# --------------------------------------------------------------------------------------------------------
def terminal_cases(ctx, name, consts):
    """all complete pipeline runs of an instance: [(request, model out, model touched)]"""
    d = ctx.sub('cases-' + name)
    mp, cp = tlc.write_mc(d, 'PathSafety', 'MC_Cases', consts, invariants=['TypeOK'])
    dump = os.path.join(d, 'states')
    r = tlc.run(mp, cp, d, workers=2, coverage=False, extra=['-dump', dump], timeout=900)
    if not r.ok:
        raise tlc.MachineryError('TLC failed on case instance %s: %r\n%s' % (name, r, r.out[-1500:]))
    with open(dump + '.dump') as f:
        blocks = re.split(r'(?m)^State \d+:\s*$', f.read())
    cases = []
    for b in blocks:
        if not b.strip():
            continue
        st = tla.parse_state(b.strip())
        if st['pc'] == 'done':
            cases.append((state_request(st), str(st['out']), state_touched(st)))
    cases.sort(key=lambda c: json.dumps(c, sort_keys=True))
    return r, cases


def compare_case(world, req, model_out, model_touched, o):
    """None if the real application did what the model says, else a description"""
    if o.out != class_of(model_out):
        return 'outcome %s (HTTP %s %s), the model says %s' % (o.out, o.status, o.text[:120].replace('\n', ' '), model_out)
    for t in o.touches:
        if not predicted(t, model_touched):
            return 'touched %s %s %s, which the model does not compute for this request (model: %s)' % (
                t['op'], t['kind'], '/'.join(t['path']), ['/'.join(m['path']) for m in model_touched])
    if model_out == 'served':
        files = [m for m in model_touched if m['kind'] == 'file']
        seen = [t['path'] for t in o.touches if t['op'] == 'leaf' and t['kind'] == 'file']
        for m in files:
            if m['path'] not in seen:
                return 'the tile location %s of the model was not touched (touched: %s)' % (
                    '/'.join(m['path']), ['/'.join(p) for p in seen])
    return None


def spec_to_code(ctx, variant, kinds):
    thorough = ctx.tier == 'thorough'
    per_group = 4 if thorough else 2
    nreplayed = 0
    insts = [('a', dict(levels=2, tok=['', '..', 'a', 'v1', 'decoy'], maxsegs=2, maxdims=1, idx=(-1, 0, 1, 2))),
             ('b', dict(levels=2, tok=['..', 'decoy'], maxsegs=3 if thorough else 2, maxdims=2, idx=(0,), flows=['wms']))]
    todo = [(kind, iname, kw) for kind in kinds for iname, kw in insts]
    with ThreadPoolExecutor(max_workers=4) as ex:
        dumps = list(ex.map(lambda t: terminal_cases(ctx, t[0].name + '-' + t[1], mc_consts(t[0], variant, **t[2])), todo))
    for (kind, iname, kw), (r, cases) in zip(todo, dumps):
        ctx.add_tlc('PathSafety/cases-%s-%s' % (kind.name, iname), r)
        groups = {}
        for c in cases:
            req, mout, mt = c
            groups.setdefault((req['flow'], mout, hostile_component(req), len(req['dims'])), []).append(c)
        chosen = []
        for g in sorted(groups):
            cs = groups[g]
            chosen += ctx.rng.sample(cs, min(per_group, len(cs)))
        world = World(ctx, kind, levels=2, meta=1, name='r-' + kind.name)
        mworld = None
        try:
            for req, mout, mt in chosen:
                w = world
                if req['flow'] == 'multiapp':
                    if mworld is None:
                        mworld = World(ctx, kind, levels=2, meta=1, multiapp=True, name='rm-' + kind.name)
                    w = mworld
                o = observe(w, req)
                nreplayed += 1
                ctx.cov['replayed_behaviours'] += 1
                ctx.cov['replayed_steps'] += 1 + sum(1 for k in ('layer', 'dims', 'tile', 'path') if req.get(k)) + len(mt)
                ctx.count(('case', kind.name, describe(req)))
                report_unsafe(ctx, w, req, o, 'replaying a TLC case')
                bad = compare_case(w, req, mout, mt, o)
                if bad:
                    ctx.violation({'kind': 'replay', 'flow': req['flow'], 'backend': kind.backend, 'model_out': mout,
                                   'real_out': o.out},
                                  '%s: request %s: %s' % (kind.name, describe(req), bad),
                                  {'kind': kind.name, 'levels': 2, 'meta': 1, 'multiapp': req['flow'] == 'multiapp',
                                   'requests': [req], 'model': {'out': mout, 'touched': mt}})
            if chosen:
                req, mout, mt = chosen[len(chosen) // 2]
                ctx.sample({'kind': 'TLC case executed on %s' % kind.name, 'request': describe(req), 'model_out': mout,
                            'model_touched': ['/'.join(m['path']) for m in mt]})
        finally:
            world.close()
            if mworld:
                mworld.close()
    ctx.log('spec -> code: %d TLC cases executed on the real application' % nreplayed)


def reproduce_counterexamples(ctx, cex, variant):
    """a violated SafeWMS in the model of the code must be a real escape: run the counterexample, then read a decoy"""
    confirmed = 0
    for name, kind, viol, req, st in cex:
        world = World(ctx, kind, levels=2, meta=1, name='cex-' + kind.name)
        try:
            o = observe(world, req)
            ctx.count(('cex', kind.name))
            bad = compare_case(world, req, str(st['out']), state_touched(st), o)
            if report_unsafe(ctx, world, req, o, 'TLC counterexample of %s in instance %s' % (viol, name)):
                confirmed += 1
            elif bad is None:
                raise tlc.MachineryError('counterexample of %s (%s) conforms but no event left the cache directory: %s' % (
                    viol, name, o.raw[:6]))
            if bad:
                ctx.violation({'kind': 'replay', 'flow': req['flow'], 'backend': kind.backend, 'model_out': str(st['out']),
                               'real_out': o.out}, '%s: counterexample %s: %s' % (kind.name, describe(req), bad),
                              {'kind': kind.name, 'levels': 2, 'meta': 1, 'requests': [req]})
        finally:
            world.close()
    return confirmed


def decoy_history(ctx, kind):
    """two step history: a storing request creates the `time-..` directory, a second one then resolves through it
    and reads a tile of the decoy tree next to the cache"""
    world = World(ctx, kind, levels=2, meta=1, name='decoy-' + kind.name)
    try:
        k = keyrec(['time'])

        def rq(*segs):
            return {'flow': 'wms', 'layer': [LAYER], 'dims': [[k, list(segs)]], 'tile': [0, 0, 0]}
        # stepping stones: an ordinary dimension directory (time-v1) and the directory the attack itself creates (time-..)
        hist = [rq('v1'), rq('..', 'zz'), rq('..', '..', 'decoy'), rq('v1', '..', '..', 'decoy'), rq('v1', '..', '..', '..', 'decoy'),
                rq('v1', '..', '..', 'cc2'), rq('v1', '..', 'time-v1')]
        obs = [observe(world, r) for r in hist]
        o2 = obs[2]
        ctx.count(('decoy', kind.name))
        for i, (req, o) in enumerate(zip(hist, obs)):
            if o.unsafe:
                acc = sorted({a for a, _e, _p in o.unsafe})
                ctx.violation({'kind': 'escape', 'flow': 'wms', 'via': 'dimensions', 'backend': kind.backend},
                              '%s: history %s: request %s made MapProxy %s %s (access %s) outside the cache directory' % (
                                  kind.name, [flat(h['dims'][0][1]) for h in hist[:i + 1]], describe(req), o.unsafe[0][1],
                                  os.path.normpath(o.unsafe[0][2]).replace(world.base, '$B'), '+'.join(acc)),
                              {'kind': kind.name, 'levels': 2, 'meta': 1, 'requests': hist[:i + 1]})
        return any(a == 'read' for a, _e, p in o2.unsafe)
    finally:
        world.close()


# --------------------------------------------------------------------------------------------------------
# (T) code -> spec: random requests, recorded, validated by TLC
# --------------------------------------------------------------------------------------------------------
HOSTILE_TOK = ['', '.', '..', '..', '..', '...', 'a', 'cc', 'data', 'decoy', 'v1', '..\\..', '%2e%2e', 'B', 'tlocks', 'x y', '~',
               'time-v1', 'g', '00']
KEY_POOL = [['time'], ['time'], ['elevation'], ['dim_a'], ['dim_b'], ['dim_', '..', 'x'], ['dim_'], ['foo'], ['xtime'],
            ['dim_..', '..', '..', 'decoy']]
LAYER_POOL = [['..'], ['lay', '..', 'lay'], ['', 'etc'], ['lay', ''], ['LAY'], ['.'], ['lay', '..', '..', 'decoy'], ['decoy'],
              ['cc'], ['lay.'], ['lay_EPSG3857']]


def rand_value(rng, hostile):
    if not hostile:
        return [rng.choice(DIM_VALUES + ['2021-01-01', 'default', ''])]
    if rng.random() < 0.35:      # structured: an existing directory as stepping stone, some "..", a target next to the cache
        stone = rng.choice([[], ['v1'], ['v2'], ['..'], ['.'], ['v1', 'a']])
        segs = stone + ['..'] * rng.randint(1, 4) + rng.choice([['decoy'], ['cc2'], ['data', 'decoy'], ['cc', 'time-v1'], ['tlocks'], []])
        if rng.random() < 0.3:
            # the same journey spelled with compatibility characters (FULLWIDTH SOLIDUS, TWO DOT LEADER, FULLWIDTH FULL STOP):
            # ONE path component that only looks like several - until somebody normalises it
            up = rng.choice(['\u2025', '\uff0e\uff0e', '\u2024\u2024'])
            return ['\uff0f'.join(up if x == '..' else x for x in (segs if stone else ['x'] + segs))]
        return segs
    return [rng.choice(HOSTILE_TOK) for _ in range(rng.randint(1, 6))]


def rand_request(rng, world):
    kind = world.kind
    flow = rng.choice(['wms', 'wms', 'tms', 'kml', 'wmts_kvp', 'wmts_rest'])
    req = {'flow': flow, 'layer': [LAYER], 'dims': [], 'tile': None}
    if rng.random() < 0.15:
        req['layer'] = list(rng.choice(LAYER_POOL))
    levels = world.levels
    # tile
    z = rng.randrange(levels)
    x, y = rng.randrange(2 ** z), rng.randrange(2 ** z)
    if flow == 'wms':
        if rng.random() < 0.3:
            z = rng.randrange(min(levels, 4))
            x0, y0 = rng.randrange(2 ** z), rng.randrange(2 ** z)
            x1, y1 = min(2 ** z - 1, x0 + rng.randint(0, 1)), min(2 ** z - 1, y0 + rng.randint(0, 1))
            req['range'] = [x0, y0, x1, y1]
            x, y = x0, y0
        elif rng.random() < 0.3:
            req['tiled'] = True          # WMS-C: single tile, with metadata
        req['v130'] = rng.random() < 0.3
    elif rng.random() < 0.3:
        k = rng.randrange(6)
        if k == 0:
            x = -rng.randint(1, 3)
        elif k == 1:
            y = 2 ** z + rng.randint(0, 2)
        elif k == 2:
            z = levels + rng.randint(0, 3)
        elif k == 3:
            z = -1
        elif k == 4:
            x = 2147483647
        else:
            x = 2 ** z
    req['tile'] = [x, y, z]
    # dimensions
    if flow == 'wms':
        n = rng.choice([0, 1, 1, 1, 2, 2, 3])
        seen = set()
        for _ in range(n):
            k = keyrec(rng.choice(KEY_POOL))
            if flat(k['segs']) in seen:
                continue
            seen.add(flat(k['segs']))
            req['dims'].append([k, rand_value(rng, rng.random() < 0.7)])
        req['upper'] = rng.random() < 0.3
    elif flow == 'wmts_kvp':
        if rng.random() < 0.8:
            req['dims'].append([keyrec(['time']), rand_value(rng, rng.random() < 0.4)])
        if rng.random() < 0.3:
            req['dims'].append([keyrec(rng.choice(KEY_POOL[2:])), rand_value(rng, True)])
        if len({flat(k['segs']) for k, _v in req['dims']}) < len(req['dims']):
            req['dims'] = req['dims'][:1]
        req['upper'] = rng.random() < 0.3
    elif flow == 'wmts_rest' and kind.dims:
        v = rng.choice(DIM_VALUES + ['default', '..', '.', '...', 'cc', 'decoy', 'a', '..:..', 'v1.', '-'])
        req['dims'].append([keyrec(['time']), [v]])
    if flow == 'tms' and rng.random() < 0.2:
        req['origin'] = rng.choice(['nw', 'sw', '../..'])
    req['enc'] = rng.random() < 0.5
    req['dims'].sort(key=lambda p: flat(p[0]['segs']))
    return req


def wms_cands(world, req):
    m = world.meta
    x, y, z = req['tile']
    x0, y0, x1, y1 = req.get('range') or (x, y, x, y)
    n = 2 ** z
    cs = []
    for bx in range(x0 // m * m, x1 // m * m + m):
        for by in range(y0 // m * m, y1 // m * m + m):
            if bx < n and by < n:
                cs.append([bx, by, z])
    first = [x0, y0, z]
    cs.remove(first)
    return [first] + cs


def request_events(world, req, o):
    flow = req['flow']
    ev = [{'ev': 'receive', 'flow': flow}]
    if flow == 'multiapp':
        ev.append({'ev': 'pop', 'path': req['path']})
    else:
        ev.append({'ev': 'layer', 'layer': req['layer']})
        ev.append({'ev': 'dims', 'dims': req['dims']})
        if flow == 'wms':
            ev.append({'ev': 'coords', 'cands': wms_cands(world, req)})
        else:
            t = list(req['tile'])
            if flow == 'tms' and req.get('origin') == 'nw':
                # TMS with ?origin=nw addresses rows from the top: the same tile as the flipped row
                t = [t[0], 2 ** t[2] - 1 - t[1], t[2]] if 0 <= t[2] < world.levels else t
            cands = []
            if in_grid(t, world.levels):
                it = [t[0], 2 ** t[2] - 1 - t[1], t[2]] if flow in ('wmts_kvp', 'wmts_rest') else t
                cands = wms_cands(world, {'tile': it})
            ev.append({'ev': 'tile', 'tile': t, 'cands': cands})
        if o.out == 'served':
            ev.append({'ev': 'lock'})
            ev.append({'ev': 'store'})
    ev.append({'ev': 'done', 'out': o.out, 'touches': o.touches})
    return ev


def validate_batch(ctx, name, kind, variant, levels, traces):
    d = ctx.sub('trace-' + name)
    tf = os.path.join(d, 'batch.json')
    with open(tf, 'w') as f:
        json.dump(traces, f)
    keys = {('time',)}
    for tr in traces:
        for e in tr:
            if e['ev'] == 'dims':
                for k, _v in e['dims']:
                    keys.add(tuple(k['segs']))
    consts = mc_consts(kind, variant, levels=levels, tok=['a'], maxsegs=1, keys=[list(k) for k in sorted(keys)], maxdims=1,
                       idx=(0,), flows=ALL_FLOWS)
    mp, cp = tlc.write_mc(d, 'Trace_PathSafety', 'MC_Trace', consts, spec='TraceSpec', post='TraceAccepted')
    r = tlc.run(mp, cp, d, workers=1, coverage=False, env={'TRACE_FILE': tf}, timeout=1800)
    pm = tlc.find_prints(r.out, 'matched')
    pu = tlc.find_prints(r.out, 'unsafe')
    if not pm or not pu:
        raise tlc.MachineryError('trace validation (%s): no verdict from TLC: %s\n%s' % (name, r.error, r.out[-2500:]))
    mv = pm[-1][1]
    matched = list(mv) if isinstance(mv, tuple) else [mv[k] for k in sorted(mv)]
    if len(matched) != len(traces):
        raise tlc.MachineryError('trace validation (%s): %d verdicts for %d traces' % (name, len(matched), len(traces)))
    rejected = [(i, matched[i]) for i in range(len(traces)) if matched[i] < len(traces[i])]
    unsafe = sorted(int(t) - 1 for t in pu[-1][1])
    return r, rejected, unsafe


def code_to_spec(ctx, variant, kinds):
    thorough = ctx.tier == 'thorough'
    nreq = 140 if thorough else 45
    levels = 12
    batches = []
    for ki, kind in enumerate(kinds):
        for meta in ((1, 2) if thorough else (1 + (ki + ctx.seed) % 2,)):
            world = World(ctx, kind, levels=levels, meta=meta, name='t-%s-%d' % (kind.name, meta))
            traces, reqs = [], []
            try:
                for i in range(nreq):
                    req = rand_request(ctx.rng, world)
                    o = observe(world, req)
                    ctx.count(('rand', kind.name, meta, describe(req)))
                    report_unsafe(ctx, world, req, o, 'the random driver')
                    if o.out == 'error' or o.out.startswith('other'):
                        ctx.violation({'kind': 'internal-error', 'flow': req['flow'], 'backend': kind.backend},
                                      '%s: request %s (%s) ended with HTTP %s: %s' % (
                                          kind.name, describe(req), where_url(world, req), o.status, o.text[:200]),
                                      {'kind': kind.name, 'levels': levels, 'meta': meta, 'requests': reqs + [req]})
                        continue
                    traces.append(request_events(world, req, o))
                    reqs.append(req)
            finally:
                world.close()
            batches.append((kind, meta, traces, reqs))
    # the multiapp in front of a file cache
    mkind = kinds[0]
    world = World(ctx, mkind, levels=levels, meta=1, multiapp=True, name='t-multiapp')
    traces, reqs = [], []
    try:
        for i in range(nreq):
            if ctx.rng.random() < 0.5:
                p = [ctx.rng.choice(['', '..', '.', PROJECT, 'secret', 'proj.yaml', '..%2fsecret', 'conf', 'B', 'PROJ', 'a'])
                     for _ in range(ctx.rng.randint(1, 4))]
                if p[0] == PROJECT and ctx.rng.random() < 0.5:
                    p = p[:1] + ['demo', '']
                req = {'flow': 'multiapp', 'path': p}
            else:
                req = rand_request(ctx.rng, world)
            o = observe(world, req)
            ctx.count(('rand', 'multiapp', describe(req)))
            report_unsafe(ctx, world, req, o, 'the random driver (multiapp)')
            if req['flow'] != 'multiapp':
                # the project application is created by the first request: its configuration is read then
                o.touches = [t for t in o.touches if t['kind'] != 'conf']
            if o.out == 'error' or o.out.startswith('other'):
                ctx.violation({'kind': 'internal-error', 'flow': req['flow'], 'backend': mkind.backend},
                              'multiapp: request %s ended with HTTP %s: %s' % (describe(req), o.status, o.text[:200]),
                              {'kind': mkind.name, 'levels': levels, 'meta': 1, 'multiapp': True, 'requests': reqs + [req]})
                continue
            traces.append(request_events(world, req, o))
            reqs.append(req)
    finally:
        world.close()
    batches.append((mkind, 'multiapp', traces, reqs))

    def job(b):
        kind, meta, traces, reqs = b
        return validate_batch(ctx, '%s-%s' % (kind.name, meta), kind, variant, levels, traces)

    with ThreadPoolExecutor(max_workers=6) as ex:
        results = list(ex.map(job, batches))
    total = 0
    for (kind, meta, traces, reqs), (r, rejected, unsafe) in zip(batches, results):
        total += len(traces)
        ctx.cov['traces_validated_against_impl'] += len(traces)
        ctx.cov['states'] += r.distinct
        ctx.cov['transitions'] += r.generated
        for i, upto in rejected:
            e = traces[i][upto]
            req = reqs[i]
            what = 'event %d (%s)' % (upto, e['ev'])
            if e['ev'] == 'done':
                what += ': observed outcome %s, touched %s' % (e['out'], [t['op'] + ':' + '/'.join(t['path']) for t in e['touches']][:6])
            ctx.violation({'kind': 'trace-rejected', 'flow': req['flow'], 'backend': kind.backend, 'event': e['ev'],
                           'real_out': traces[i][-1]['out']},
                          '%s (meta %s): the recorded request %s is not a behaviour of PathSafety at %s' % (
                              kind.name, meta, describe(req), what),
                          {'kind': kind.name, 'levels': levels, 'meta': meta if meta != 'multiapp' else 1,
                           'multiapp': meta == 'multiapp', 'requests': reqs[:i + 1], 'trace': traces[i]})
        for i in unsafe:
            req = reqs[i]
            bad = [t for t in traces[i][-1]['touches']]
            ctx.violation({'kind': 'escape', 'flow': req['flow'], 'via': hostile_component(req), 'backend': kind.backend},
                          '%s: validated trace of request %s violates Safe on the observed paths %s' % (
                              kind.name, describe(req), ['/'.join(t['path']) for t in bad][:4]),
                          {'kind': kind.name, 'levels': levels, 'meta': meta if meta != 'multiapp' else 1,
                           'multiapp': meta == 'multiapp', 'requests': reqs[:i + 1]})
        if traces:
            j = len(traces) // 3
            ctx.sample({'kind': 'request recorded from %s, validated by Trace_PathSafety' % kind.name, 'request': describe(reqs[j]),
                        'out': traces[j][-1]['out'], 'touched': ['/'.join(t['path']) for t in traces[j][-1]['touches']][:4]})
    ctx.log('code -> spec: %d recorded requests validated by TLC' % total)


# --------------------------------------------------------------------------------------------------------
# spellings outside the model's alphabet: only the statement itself is checked on the audit log
# --------------------------------------------------------------------------------------------------------
def robustness(ctx, kinds):
    wms = ('SERVICE=WMS&VERSION=1.1.1&REQUEST=GetMap&LAYERS=%s&STYLES=&SRS=EPSG:3857&BBOX=0.0,0.0,1024.0,1024.0&WIDTH=64&HEIGHT=64'
           '&FORMAT=image/png')
    wmts = ('SERVICE=WMTS&VERSION=1.0.0&REQUEST=GetTile&LAYER=%s&STYLE=&TILEMATRIXSET=g&TILEMATRIX=%s&TILEROW=%s&TILECOL=%s'
            '&FORMAT=image/png')
    vals = ['..%2f..%2f..%2fdecoy', '%2e%2e/%2e%2e/%2e%2e/decoy', '..%5c..%5c..%5cdecoy', '..%252f..%252f..', '%00', 'a%00/../..',
            '/etc/passwd', '//etc//passwd', '....//....//....//decoy', '..;/..;/..', '%c0%ae%c0%ae/%c0%ae%c0%ae/decoy',
            '%ef%bc%8e%ef%bc%8e/%ef%bc%8e%ef%bc%8e/decoy', '..%e2%88%95..%e2%88%95decoy', 'A' * 300, ('../' * 12) + 'decoy',
            '.%0a./..', '~/..', '$HOME/..', '..%09/..', 'v1/../../../decoy', 'file:///etc', 'time-v1/../..', '%2e', '..', '.',
            '+../+..', '..%20/..%20/', '2020-08-25T00:00:00Z/../../..', '../../../../../../../../../../../../../../tmp/c09-escape']
    cases = []
    for v in vals:
        cases.append(('wms', '/service', wms % LAYER + '&TIME=' + v))
        cases.append(('wms', '/service', wms % LAYER + '&ELEVATION=' + v + '&time=v1'))
        cases.append(('wms', '/service', wms % LAYER + '&DIM_X=' + v))
        cases.append(('wms', '/service', wms % LAYER + '&DIM_' + v + '=1'))
        cases.append(('wms', '/service', wms % v))
        cases.append(('wmts_kvp', '/service', wmts % (LAYER, '0', '0', '0') + '&TIME=' + v))
        cases.append(('wmts_kvp', '/service', wmts % (v, '0', '0', '0')))
        cases.append(('wmts_kvp', '/service', wmts % (LAYER, v, '0', '0')))
    # the image format of a request: whatever caches by format (the legend cache keeps files per legend and scale) must not
    # build a file name from it
    legend = 'SERVICE=WMS&VERSION=1.1.1&REQUEST=GetLegendGraphic&LAYER=%s&SCALE=%d&FORMAT=%s'
    for i, v in enumerate(vals + ['x/png/../../../decoy/evil.png', 'x/png/../../../../decoy/evil.png', 'png/../../evil.png',
                                   'x/jpeg/../../../decoy/evil.jpeg', 'png%2f..%2f..%2fevil.png']):
        cases.append(('wms', '/service', legend.replace('%s', LAYER, 1).replace('%d', str(1000 + i)).replace('%s', 'image/' + v)))
        cases.append(('wms', '/service', legend.replace('%s', LAYER, 1).replace('%d', str(5000 + i)).replace('%s', v)))
        cases.append(('wms', '/service', (wms % LAYER).replace('FORMAT=image/png', 'FORMAT=image/' + v)))
        cases.append(('wms', '/service', (wms % LAYER).replace('GetMap', 'GetFeatureInfo') + '&QUERY_LAYERS=%s&X=1&Y=1&INFO_FORMAT=%s' % (LAYER, v)))
    from urllib.parse import unquote
    for v in vals:
        u = unquote(v, errors='replace').encode('utf8', 'replace').decode('latin1')
        if '\x00' in u:
            u = u.replace('\x00', '%00')
        cases.append(('tms', '/tms/1.0.0/%s/EPSG3857/0/0/0.png' % u, ''))
        cases.append(('tms', '/tms/1.0.0/lay/%s/0/0/0.png' % u, ''))
        cases.append(('kml', '/kml/%s/EPSG3857/0/0/0.png' % u, ''))
        cases.append(('wmts_rest', '/wmts/%s/g/v1/0/0/0.png' % u, ''))
        cases.append(('wmts_rest', '/wmts/lay/g/%s/0/0/0.png' % u, ''))
        cases.append(('wmts_rest', '/wmts/lay/%s/v1/0/0/0.png' % u, ''))
        cases.append(('demo', '/demo/static/%s' % u, ''))
        cases.append(('demo', '/demo/static/../../../../%s' % u, ''))
    for t in ['-1/0/0', '0/-1/0', '0/0/-1', '99/0/0', '1/5/5', '0/%d/0' % 10 ** 30, '%d/0/0' % 10 ** 30, '0/0/%d' % (2 ** 63),
              '-0/-0/-0', '00/00/00', '2147483648/2147483648/2147483648', '1/4294967296/0', '1/0/4294967297']:
        cases.append(('tms', '/tms/1.0.0/lay/EPSG3857/%s.png' % t, ''))
        cases.append(('tms', '/tiles/lay/EPSG3857/%s.png' % t, 'origin=nw'))
        cases.append(('kml', '/kml/lay/EPSG3857/%s.png' % t, ''))
        cases.append(('kml', '/kml/lay/EPSG3857/%s.kml' % t, ''))
        z, x, y = t.split('/')
        cases.append(('wmts_rest', '/wmts/lay/g/v1/%s/%s/%s.png' % (z, x, y), ''))
        cases.append(('wmts_kvp', '/service', wmts % (LAYER, z, y, x)))
    headers = [{'X-Forwarded-Host': '../../../decoy', 'X-Script-Name': '/../../decoy', 'Host': '../..'},
               {'X-Forwarded-Proto': '../..', 'Referer': 'file:///etc/passwd', 'If-None-Match': '../../decoy',
                'If-Modified-Since': '../../..'}]
    n = 0
    for kind in kinds:
        world = World(ctx, kind, levels=3, meta=1, name='rob-' + kind.name)
        decoy_tile = world.base + '/data/decoy/00/000/000/000/000/000/000.png'
        extra = [('demo', '/demo/static/' + '../' * 60 + decoy_tile.lstrip('/'), ''),
                 ('demo', '/demo/static//' + decoy_tile.lstrip('/'), ''),
                 ('demo', '/demo/static/' + decoy_tile, ''),
                 ('demo', '/demo/static/..%2f..%2f' + decoy_tile, '')]
        # the demo service fetches capabilities documents from a URL it builds from request headers (type=external):
        # scheme and host are the client's
        for view in ('wms_capabilities', 'wmsc_capabilities', 'wmts_capabilities', 'wmts_capabilities_kvp', 'tms_capabilities'):
            for proto, host in (('file', decoy_tile + '#http://x'), ('file', decoy_tile + '?http://x/'), ('FILE', decoy_tile + '#https://x'),
                                ('file', ''), ('file', 'localhost' + decoy_tile + '#http://x'), ('ftp', decoy_tile + '#http://x')):
                extra.append(('demo', '/demo/', view + '&type=external', {'X-Forwarded-Proto': proto, 'X-Forwarded-Host': host}))
        try:
            for i, case in enumerate(cases + extra):
                flow, pi, qs = case[:3]
                if not kind.dims:
                    pi = pi.replace('/g/v1/', '/g/')
                try:
                    o = observe_raw(world, pi, qs, flow=flow,
                                    extra_headers=case[3] if len(case) > 3 else headers[i % 2] if i % 5 == 0 else None)
                except Exception as ex:          # the test client refuses what no server would pass on
                    ctx.notes.append('robustness case not sendable: %r' % (ex,)) if len(ctx.notes) < 3 else None
                    continue
                n += 1
                ctx.count(('rob', kind.name, i))
                if o.unsafe:
                    req = {'flow': flow, 'raw': [pi, qs]}
                    acc, ev, p = o.unsafe[0]
                    via = 'dimensions' if re.search(r'(?i)(TIME|ELEVATION|DIM_)', qs) and flow == 'wms' else 'spelling'
                    ctx.violation({'kind': 'escape', 'flow': flow, 'via': via, 'backend': kind.backend},
                                  '%s: request %s?%s made MapProxy %s %s -> %s outside the cache and lock directories' % (
                                      kind.name, pi, qs[-120:], ev, p.replace(world.base, '$B'),
                                      os.path.normpath(p).replace(world.base, '$B')),
                                  {'kind': kind.name, 'levels': 3, 'meta': 1, 'raw': [[pi, qs, flow]]})
        finally:
            world.close()
    stray = '/tmp/c09-escape'
    if os.path.exists(stray):
        shutil.rmtree(stray, ignore_errors=True)
    ctx.log('robustness: %d requests with spellings outside the model alphabet checked on the audit log' % n)


# --------------------------------------------------------------------------------------------------------
def relative_configuration_case(ctx):
    """The working directory of the server process is part of its environment: an application created from a RELATIVE
    configuration path (`make_wsgi_app('mapproxy.yaml')` next to the file) in a process that changes its directory afterwards
    (a daemon going to /, a preloading server).  Relative cache and lock directories of the configuration belong below the
    directory of the configuration file, wherever the process is when a request comes in."""
    import tempfile
    import shutil
    import webtest
    from mapproxy.wsgiapp import make_wsgi_app
    root = os.path.realpath(tempfile.mkdtemp(prefix='verif-c09-rel-'))
    old_cwd = os.getcwd()
    install_fake_upstream()
    try:
        etc, run_dir = os.path.join(root, 'etc'), os.path.join(root, 'run')
        os.makedirs(etc)
        os.makedirs(run_dir)
        with open(os.path.join(etc, 'mapproxy.yaml'), 'w') as f:
            f.write('services:\n  tms:\n  wms:\n    srs: ["EPSG:3857"]\n'
                    'layers:\n  - name: lay\n    title: lay\n    sources: [c]\n'
                    'caches:\n  c:\n    grids: [GLOBAL_MERCATOR]\n    sources: [up]\n'
                    '    cache:\n      type: file\n      directory: ./tiles\n'
                    'sources:\n  up:\n    type: wms\n    req:\n      url: http://upstream.invalid/wms\n      layers: x\n'
                    'globals:\n  cache:\n    base_dir: ./cache_data\n    lock_dir: ./locks\n    tile_lock_dir: ./tile_locks\n')
        os.chdir(etc)
        app = webtest.TestApp(make_wsgi_app('mapproxy.yaml'))
        os.chdir(run_dir)
        with Recording() as events:
            r = app.get('/tms/1.0.0/lay/EPSG900913/1/0/0.png', expect_errors=True)
        ctx.count(('relative-configuration', r.status_int))
        if r.status_int != 200:
            raise tlc.MachineryError('relative configuration: the tile request answered %s: %s' % (r.status, r.text[:200]))
        outside = sorted({p for ev, paths in events if ev in _MUTATING or ev == 'open-write' for p in paths
                          if not under(etc, os.path.normpath(os.path.join(run_dir, p)))})
        stored = [os.path.join(dp, fn) for dp, _d, fns in os.walk(os.path.join(etc, 'tiles')) for fn in fns if fn.endswith('.png')]
        if outside or not stored:
            ctx.violation({'kind': 'relative-configuration', 'what': 'outside' if outside else 'not-stored'},
                          'application created from the relative path mapproxy.yaml in %s, process moved to %s afterwards: the tile '
                          'request %s' % (etc, run_dir, ('writes outside the directory of the configuration: %s' % outside[:4]) if outside
                                          else 'stored no tile below the configured cache directory ./tiles'), {'kind': 'relative-configuration'})
    finally:
        os.chdir(old_cwd)
        shutil.rmtree(root, ignore_errors=True)


def run(ctx):
    import logging
    logging.disable(logging.CRITICAL)        # the application logs a traceback for every refused spelling
    thorough = ctx.tier == 'thorough'
    tlc.sany(SPEC)
    kinds = all_kinds()
    by = {k.name: k for k in kinds}
    variant = location_tables(ctx)
    ctx.log('dimensions_part of the code under test conforms to the model variant %r' % variant)

    cex = model_checks(ctx, variant)
    if variant == 'raw' and not cex:
        raise tlc.MachineryError('the model of the unrepaired dimensions_part is expected to violate SafeWMS')
    if cex:
        confirmed = reproduce_counterexamples(ctx, cex, variant)
        ctx.log('%d model counterexamples, %d reproduced on the real application' % (len(cex), confirmed))
    file_kinds = [k for k in kinds if k.backend == 'file']
    other = [k for k in kinds if k.backend != 'file']
    if thorough:
        rk, tk, dk, bk = kinds, kinds, file_kinds, kinds
    else:
        s = ctx.seed
        rk = [by['file-tc'], file_kinds[1 + s % 5], other[s % len(other)]]
        tk = [by['file-tc'], file_kinds[1 + (s + 2) % 5], file_kinds[1 + (s + 4) % 5], other[(s + 1) % len(other)],
              other[(s + 3) % len(other)], other[(s + 5) % len(other)]]
        dk = [by['file-tc'], file_kinds[1 + (s + 1) % 5]]
        bk = [by['file-tc'], other[(s + 2) % len(other)]]
    for k in dk:
        decoy_history(ctx, k)
    spec_to_code(ctx, variant, rk)
    code_to_spec(ctx, variant, tk)
    robustness(ctx, bk)
    relative_configuration_case(ctx)
    ctx.assumptions += [
        'POSIX path semantics (separator "/"); the Windows separator and drive letters are not modelled',
        'paths are normalised lexically: no symbolic links to directories inside the cache and lock directories',
        'observation by interpreter audit events (open, os.mkdir/rename/remove/rmdir/symlink/link/utime/chmod/truncate/listdir/'
        'scandir, sqlite3.connect, shutil.*) plus os.path.isfile/getmtime of mapproxy.multiapp; pure stat() calls of the file '
        'cache (existence probes) and file accesses inside the sqlite library are not events',
        'tile sources are a fake HTTP client; S3/Azure/Redis/CouchDB/Riak caches need network services and are not covered',
        'seeding, cleanup and other command line tools are not requests and are out of scope',
    ]
    return ctx.finish('model_checking',
                      'TLC: PathSafety exhaustively for every flow, layout and backend class over all attacker strings up to the '
                      'stated number of segments; distinct = distinct (cache configuration, request) pairs executed on the real '
                      'WSGI application (TLC cases, recorded random requests, spellings) plus location-table rows')


def _world_for(ctx, case):
    kinds = {k.name: k for k in all_kinds()}
    return World(ctx, kinds[case.get('kind', 'file-tc')], levels=case.get('levels', 3), meta=case.get('meta', 1),
                 multiapp=bool(case.get('multiapp')), name='replay')


def replay(ctx, data):
    case = data.get('case') or {}
    rc = 0
    if 'location' in case:
        from mapproxy.cache.file import FileCache
        from mapproxy.cache.tile import Tile
        loc = case['location']
        c = FileCache('/B/data/cc', 'png', directory_layout=loc['layout'])
        real = c.tile_location(Tile(tuple(loc['coord'])), dimensions=loc['dims'] or None)
        print('tile_location:', real, '->', os.path.normpath(real))
        rc = 0 if under('/B/data/cc', real) else 1
    elif 'requests' in case or 'raw' in case:
        world = _world_for(ctx, case)
        try:
            for req in case.get('requests', []):
                o = observe(world, req)
                print('request', describe(req), '->', o.out, o.status)
                for ev, p in o.raw:
                    print('    ', ev, p.replace(world.base, '$B'))
                for acc, ev, p in o.unsafe:
                    print('  OUTSIDE (%s): %s %s' % (acc, ev, os.path.normpath(p).replace(world.base, '$B')))
                    rc = 1
            for pi, qs, flow in case.get('raw', []):
                o = observe_raw(world, pi, qs, flow=flow)
                print('request', pi, qs[-100:], '->', o.out, o.status)
                for acc, ev, p in o.unsafe:
                    print('  OUTSIDE (%s): %s %s' % (acc, ev, os.path.normpath(p).replace(world.base, '$B')))
                    rc = 1
            if 'model' in case and case.get('requests'):
                bad = compare_case(world, case['requests'][-1], case['model']['out'], case['model']['touched'], o)
                print('model comparison:', bad or 'conforms')
                rc = rc or (1 if bad else 0)
        finally:
            world.close()
    shutil.rmtree(ctx.workdir, ignore_errors=True)
    return rc
