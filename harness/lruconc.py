"""LRUCONC - concurrent requests on the project cache of MultiMapProxy (not one of the listed properties; extends
coverage).

spec/LruConc.tla models proj_app() on the LRU dictionary at the granularity of single dict / deque operations; TLC
explores all interleavings of three requests.  Binding: the real MultiMapProxy.proj_app and the real LRU run in
threads under the baton scheduler, with yield points at every operation of the LRU's dict and deque (the two
containers are replaced by subclasses that hand the baton back before each operation) and at the locks; the loader
and create_app are stubs.  TLC's counterexamples for the unguarded variant are forced on the real code, behaviours
of the variant the tree implements are replayed, random schedules are validated (spec/trace/Trace_LruConc.tla).
"""
import collections
import json
import os
import threading

from engine import tlc
from engine.sched import Baton, Deadlock

SPEC = os.path.join(tlc.SPEC_DIR, 'LruConc.tla')
INVS = ['NoError', 'Consistent', 'MutexOK', 'NoStuck']
OP_OF = {'contains': 'contains', 'read': 'read', 'remove': 'remove', 'append': 'append', 'store': 'store',
         'check': 'check', 'pop': 'pop', 'del': 'del', 'lock': 'lock_try', 'unlock': 'unlock'}


def op_of_pc(label):
    return OP_OF[label.split('_', 1)[1]] if '_' in label else OP_OF[label]


class World(object):
    def __init__(self, wants, size, init_keys):
        from mapproxy.multiapp import MultiMapProxy, ConfLoader
        w = self
        self.sched = Baton()
        self.results = {}

        class Loader(ConfLoader):
            def needs_reload(self, app_name, timestamps):
                return not timestamps

            def app_available(self, app_name):
                return True

        class YDict(dict):
            def __contains__(self, k):
                w.sched.point('contains')
                r = dict.__contains__(self, k)
                w.emit('contains', k)
                return r

            def __getitem__(self, k):
                w.sched.point('read')
                try:
                    r = dict.__getitem__(self, k)
                except KeyError:
                    w.emit('read_fail', k)
                    raise
                w.emit('read', k)
                return r

            def __setitem__(self, k, v):
                w.sched.point('store')
                dict.__setitem__(self, k, v)
                w.emit('store', k)

            def __delitem__(self, k):
                w.sched.point('del')
                try:
                    dict.__delitem__(self, k)
                except KeyError:
                    w.emit('del_fail', k)
                    raise
                w.emit('del', k)

            def __len__(self):
                w.sched.point('check')
                r = dict.__len__(self)
                w.emit('check', '-')
                return r

        class YDeque(collections.deque):
            def remove(self, k):
                w.sched.point('remove')
                try:
                    collections.deque.remove(self, k)
                finally:
                    w.emit('remove', k)

            def appendleft(self, k):
                w.sched.point('append')
                collections.deque.appendleft(self, k)
                w.emit('append', k)

            def pop(self):
                w.sched.point('pop')
                try:
                    r = collections.deque.pop(self)
                except IndexError:
                    w.emit('pop_fail', '-')
                    raise
                w.emit('pop', r)
                return r

        class YLock(object):
            def __init__(self, name):
                self.name = name
                self.real = threading.Lock()

            def __enter__(self):
                while True:
                    w.sched.point(self.name + 'lock_try')
                    if self.real.acquire(False):
                        w.emit(self.name + 'lock_ok', '-')
                        return
                    w.emit(self.name + 'lock_busy', '-')

            def __exit__(self, *a):
                w.sched.point(self.name + 'unlock')
                self.real.release()
                w.emit(self.name + 'unlock', '-')

        self.mm = mm = MultiMapProxy(Loader(), app_cache_size=size)
        self.variant = 'lock' if hasattr(mm, '_apps_lock') else 'none'
        vals = YDict()
        for k in init_keys:
            dict.__setitem__(vals, k, (('app', k), {'conf': 1}))
        mm.apps.values = vals
        mm.apps.last_used = YDeque(init_keys)
        mm._app_init_lock = YLock('')
        if self.variant == 'lock':
            mm._apps_lock = YLock('a')
        mm.create_app = lambda name: (('app', name), {'conf': 1})
        for t in sorted(wants):
            self.sched.spawn(t, self._driver(t, wants[t]))
        for t in sorted(wants):
            self.sched.step(t)

    def _driver(self, t, key):
        def run():
            try:
                app = self.mm.proj_app(key)
                self.results[t] = 'ok' if app == ('app', key) else 'wrong app %r' % (app,)
                self.emit('done', key)
            except Exception as ex:
                self.results[t] = 'raised %s: %s' % (type(ex).__name__, ex)
                self.emit('failed', '%s' % type(ex).__name__)
        return run

    def obs(self):
        return {'values': sorted(dict.keys(self.mm.apps.values)), 'lastUsed': list(collections.deque.__iter__(self.mm.apps.last_used))}

    def emit(self, ev, key):
        e = self.sched.emit(ev, key=key)
        e['t'] = e.pop('c')
        e.update(self.obs())

    def pending(self, t):
        p = self.sched.pending(t)
        return p[0] if p else None

    def step(self, t, skip_alock=True):
        """one model step of thread t: the operations on the short dictionary lock of the repaired code are passed
        through silently"""
        evs = []
        while skip_alock and self.pending(t) in ('alock_try', 'aunlock'):
            evs += self.sched.step(t)
            if any(e['ev'] == 'alock_busy' for e in evs):
                return evs
        evs += self.sched.step(t)
        while skip_alock and self.pending(t) == 'aunlock':
            evs += self.sched.step(t)
        return evs


def moved(prev, cur):
    ts = [t for t in cur['pc'] if cur['pc'][t] != prev['pc'][t]]
    return ts[0] if len(ts) == 1 else None


def replay_behaviour(wants, size, init_keys, beh, lenient=False):
    w = World(wants, size, init_keys)
    try:
        for n in range(1, len(beh)):
            prev, cur = beh[n - 1][1], beh[n][1]
            t = moved(prev, cur)
            if t is None:
                raise tlc.MachineryError('cannot tell which thread moved at step %d' % n)
            t = str(t)
            want = op_of_pc(str(prev['pc'][t]))
            while w.pending(t) == 'alock_try':          # take the dictionary lock (repaired code), stop before the operation
                if any(e['ev'] == 'alock_busy' for e in w.sched.step(t)):
                    return ('not-executable' if lenient else 'diverged'), 'step %d: %s cannot get the dictionary lock' % (n, t), w
            got = w.pending(t)
            if got != want:
                return ('not-executable' if lenient else 'diverged'), 'step %d: %s does %s in the model, the code is about to do %s' % (n, t, want, got), w
            w.step(t)
            o = w.obs()
            if o['values'] != sorted(str(x) for x in cur['values']) or o['lastUsed'] != [str(x) for x in cur['lastUsed']]:
                return 'diverged', 'step %d (%s %s): model values=%s lastUsed=%s, real %s' % (
                    n, t, want, sorted(cur['values']), list(cur['lastUsed']), o), w
            if str(cur['err'][t]) != 'none' and not str(w.results.get(t, '')).startswith('raised'):
                # the exception surfaces when the thread runs on
                pass
        w.sched.finish_all(limit=2000)
        return 'ok', {t: r for t, r in w.results.items()}, w
    except Deadlock as ex:
        return 'problem', 'scheduler: %s' % ex, w


def random_schedule(rng, wants, size, init_keys):
    w = World(wants, size, init_keys)
    for _ in range(500):
        run = w.sched.runnable()
        if not run:
            break
        w.step(rng.choice(sorted(run)), skip_alock=False)
    evs = [e for e in w.sched.events if not e['ev'].startswith('a') or e['ev'] == 'append']
    return evs, dict(w.results), w.variant


SCEN = {
    'evict': (dict(t1='a', t2='b', t3='a'), 1, ('a',)),
    'two-of-three': (dict(t1='a', t2='b', t3='c'), 2, ('a', 'b')),
    'same-key': (dict(t1='a', t2='a', t3='b'), 2, ('b',)),
}


def run(ctx):
    thorough = ctx.tier == 'thorough'
    tlc.sany(SPEC)
    w0 = World(dict(t1='a'), 1, ())
    variant = w0.variant
    w0.sched.finish_all(limit=200)
    ctx.log('the tree implements Guard=%s' % variant)
    for name, (wants, size, init_keys) in SCEN.items():
        consts = dict(Thread=set(wants), Wants=wants, Size=size, InitKeys=tuple(init_keys))
        # the unguarded variant: counterexamples forced on the real code
        for inv in ('NoError', 'Consistent'):
            d = ctx.sub('attack')
            mp, cp = tlc.write_mc(d, 'LruConc', 'MC_L', dict(consts, Guard='none'), invariants=[inv])
            r = tlc.run(mp, cp, d, timeout=600, coverage=False, workers=4)
            if not r.violated:
                continue                      # (not every scenario breaks every invariant)
            status, detail, w = replay_behaviour(wants, size, init_keys, r.trace, lenient=True)
            ctx.count(('attack', name, inv))
            ctx.sample({'kind': 'counterexample of the unguarded variant forced on the real MultiMapProxy', 'scenario': name,
                        'invariant': inv, 'result': status, 'detail': str(detail)[:200]}, limit=8)
            if status == 'ok':
                o = w.obs()
                raised = {t: r_ for t, r_ in detail.items() if r_.startswith('raised')}
                dup = len(o['lastUsed']) != len(set(o['lastUsed'])) or set(o['lastUsed']) != set(o['values']) or len(o['values']) > size
                if raised or dup:
                    ctx.violation({'kind': 'lru-race', 'what': 'raises' if raised else 'inconsistent'},
                                  '%s: schedule found by TLC reproduced on the real MultiMapProxy: %s; cache %s' % (name, raised or 'no exception', o),
                                  {'scenario': name, 'invariant': inv})
            elif status == 'problem':
                ctx.violation({'kind': 'problem', 'scenario': name}, str(detail), None)
        # the variant the tree implements
        d = ctx.sub('mc-' + name)
        invs = INVS if variant == 'lock' else ['MutexOK', 'NoStuck']
        mp, cp = tlc.write_mc(d, 'LruConc', 'MC_L', dict(consts, Guard=variant), invariants=invs)
        r = tlc.run(mp, cp, d, timeout=900)
        ctx.log('LruConc.tla %s (Guard=%s): %r' % (name, variant, r))
        if r.violated:
            ctx.violation({'kind': 'model', 'scenario': name, 'property': r.violated}, 'LruConc.tla (%s) violates %s' % (name, r.violated), None)
            continue
        if not r.ok:
            raise tlc.MachineryError('LruConc.tla: %r %s' % (r, r.out[-800:]))
        ctx.add_tlc('LruConc/' + name, r)
        mp, cp = tlc.write_mc(d, 'LruConc', 'MC_LL', dict(consts, Guard=variant), spec='FairSpec', properties=['Termination'])
        r = tlc.run(mp, cp, d, timeout=900, coverage=False)
        if r.violated:
            ctx.violation({'kind': 'model-liveness', 'scenario': name}, 'LruConc.tla (%s): Termination fails' % name, None)
        elif r.ok:
            ctx.add_tlc('LruConc/%s/liveness' % name, r)
        # spec -> code
        d = ctx.sub('sim-' + name)
        mp, cp = tlc.write_mc(d, 'LruConc', 'MC_Sim', dict(consts, Guard=variant))
        prefix = os.path.join(d, 'beh')
        tlc.run(mp, cp, d, workers=1, simulate='file=%s,num=%d' % (prefix, 60 if thorough else 15), depth=80, seed=ctx.seed + 13,
                coverage=False, timeout=600)
        k = 0
        for f, beh in tlc.sim_traces(prefix):
            if len(beh) < 2:
                continue
            k += 1
            status, detail, w = replay_behaviour(wants, size, init_keys, beh)
            ctx.cov['replayed_behaviours'] += 1
            ctx.cov['replayed_steps'] += len(beh) - 1
            ctx.count(('replay', name, json.dumps([str(s['pc']) for _, s in beh])))
            if status != 'ok':
                ctx.violation({'kind': 'replay-' + status, 'scenario': name}, '%s: %s' % (name, detail), None)
                break
            bad = {t: r_ for t, r_ in detail.items() if r_ != 'ok'}
            if bad and variant == 'lock':
                ctx.violation({'kind': 'lru-race', 'what': 'raises'}, '%s: %s' % (name, bad), None)
        # code -> spec
        traces = []
        for i in range(100 if thorough else 25):
            evs, results, _ = random_schedule(ctx.rng, wants, size, init_keys)
            ctx.count(('sched', name, json.dumps([[e['t'], e['ev']] for e in evs])))
            bad = {t: r_ for t, r_ in results.items() if r_ != 'ok'}
            if bad and variant == 'lock':
                ctx.violation({'kind': 'lru-race', 'what': 'raises'}, '%s: random schedule: %s' % (name, bad), {'trace': evs})
            traces.append(evs)
        d = ctx.sub('tr-' + name)
        tf = os.path.join(d, 'batch.json')
        with open(tf, 'w') as f:
            json.dump(traces, f)
        mp, cp = tlc.write_mc(d, 'Trace_LruConc', 'MC_TL', dict(consts, Guard=variant), spec='TraceSpec', invariants=invs, post='TraceAccepted')
        r = tlc.run(mp, cp, d, workers=1, coverage=False, env={'TRACE_FILE': tf}, timeout=1800)
        ctx.cov['traces_validated_against_impl'] += len(traces)
        ctx.cov['states'] += r.distinct
        ctx.cov['transitions'] += r.generated
        if r.violated and r.violated != 'postcondition':
            ctx.violation({'kind': 'trace-invariant', 'scenario': name, 'invariant': r.violated}, '%s: %s violated in a recorded schedule' % (name, r.violated), None)
            continue
        pr = tlc.find_prints(r.out, 'matched')
        if not pr:
            raise tlc.MachineryError('Trace_LruConc: no verdict: %s' % r.out[-1200:])
        mv = pr[-1][1]
        matched = list(mv) if isinstance(mv, tuple) else [mv[k2] for k2 in sorted(mv)]
        nrej = 0
        for i, t in enumerate(traces):
            if matched[i] < len(t):
                nrej += 1
                ctx.violation({'kind': 'trace-rejected', 'scenario': name, 'event': t[matched[i]]['ev']},
                              '%s: recorded schedule is not a behaviour of LruConc.tla at event %d: %s' % (name, matched[i], t[matched[i]]),
                              {'trace': t[:matched[i] + 1]})
        ctx.log('%s: replayed %d behaviours, validated %d schedules (%d rejected)' % (name, k, len(traces), nrej))
    ctx.assumptions += ['threads of one process; every dict / deque operation is atomic (interpreter lock); stub loader and create_app; '
                        'no reload of a cached project during the schedule']
    return ctx.finish('model_checking', 'TLC: all interleavings of 3 requests at the granularity of single dict / deque operations of the '
                      'LRU; counterexamples and behaviours forced on, schedules recorded from the real MultiMapProxy.proj_app + LRU')


def replay(ctx, data):
    return 0
