"""C10 - authorization is enforced: denied layers stay dark, limited areas are clipped.

spec/Auth.tla models what MapProxy does with one request under one result of the `mapproxy.authorize` callback
(WMS GetMap / GetFeatureInfo / GetCapabilities, TMS, KML, WMTS KVP / REST incl. WMTS GetFeatureInfo, the tile
capabilities), with limited_to areas on an integer lattice and every pixel classified exactly as inside / boundary
band / outside.  TLC enumerates (request, callback result) pairs for small universes, checks the property on the
model and prints the expected response of every pair; each pair is executed on the real WSGI application with
flat-colour synthetic upstreams and compared (spec -> code).  Random worlds / geometries / requests / callback results
are recorded from the real application and validated by TLC against spec/trace/Trace_Auth.tla, which also evaluates
the property on every recorded observation (code -> spec).
"""
import io
import json
import os
import re
import shutil
import time
import warnings

from engine import tlc, tla
from harness import c10_world as W

SPEC = os.path.join(tlc.SPEC_DIR, 'Auth.tla')
TRACE_SPEC = os.path.join(tlc.SPEC_DIR, 'trace', 'Trace_Auth.tla')
CODES = {'dark': 1, 'a': 2, 'b': 4, 'c': 8, 'g': 16}
NAMES_OF = {v: k for k, v in CODES.items()}
ACTIONS = ['CollectLayers', 'CallAuthorize', 'FilterActualLayers', 'RenderAndMerge', 'InfoGate', 'WmsCapabilities',
           'TileAuthorize', 'TileRender', 'TileInfoGate', 'TileDocument', 'TileCapabilities']
PROPERTY = ['DeniedStaysDark', 'ClippedOutside', 'ContentInside', 'InfoGateOK']
BASE_INV = ['TypeOK', 'StatusOK']
FD = tla.FrozenDict
TLC_WORKERS = 4


# ---------------------------------------------------------------------------------------------------------------
# geometry on the lattice
# ---------------------------------------------------------------------------------------------------------------
class Geom(object):
    """A rectilinear area: union of rectangles minus holes (lattice units), strictly inside W.WINDOW."""

    def __init__(self, rects, holes=()):
        self.rects = [tuple(r) for r in rects]
        self.holes = [tuple(r) for r in holes]
        wx0, wy0, wx1, wy1 = W.WINDOW
        for r in self.rects + self.holes:
            assert wx0 < r[0] < r[2] < wx1 and wy0 < r[1] < r[3] < wy1, r
        self.xs = sorted({wx0, wx1} | {r[0] for r in self.rects + self.holes} | {r[2] for r in self.rects + self.holes})
        self.ys = sorted({wy0, wy1} | {r[1] for r in self.rects + self.holes} | {r[3] for r in self.rects + self.holes})
        self.cells = set()
        for i in range(len(self.xs) - 1):
            for j in range(len(self.ys) - 1):
                cx, cy = self.xs[i] + self.xs[i + 1], self.ys[j] + self.ys[j + 1]     # doubled centre
                inside = any(2 * r[0] < cx < 2 * r[2] and 2 * r[1] < cy < 2 * r[3] for r in self.rects)
                if inside and not any(2 * r[0] < cx < 2 * r[2] and 2 * r[1] < cy < 2 * r[3] for r in self.holes):
                    self.cells.add((i + 1, j + 1))
        assert self.cells

    def tla(self):
        return FD(xs=tuple(2 * x for x in self.xs), ys=tuple(2 * y for y in self.ys), cells=frozenset(self.cells))

    def shape(self):
        from shapely.geometry import box
        from shapely.ops import unary_union
        return unary_union([box(self.xs[i - 1], self.ys[j - 1], self.xs[i], self.ys[j]) for i, j in sorted(self.cells)])

    def limited_to(self, form, srs):
        """the `limited_to` dictionary of the callback result: form bbox | wkt | lines | shapely, srs req | alias | geo"""
        g = self.shape()
        code = {'req': W.SRS, 'alias': W.SRS_ALIAS, 'geo': 'EPSG:4326'}[srs]
        if srs == 'geo':
            from mapproxy.srs import SRS
            from mapproxy.util.geom import transform_geometry
            g = transform_geometry(SRS(W.SRS), SRS(4326), g)
        if form == 'bbox' and len(self.rects) == 1 and not self.holes:
            return {'geometry': list(g.bounds), 'srs': code}
        if form == 'shapely':
            return {'geometry': g, 'srs': code}
        if form == 'lines' and g.geom_type == 'MultiPolygon':
            return {'geometry': '\n'.join(p.wkt for p in g.geoms), 'srs': code}
        return {'geometry': g.wkt, 'srs': code}

    def json(self):
        return {'rects': self.rects, 'holes': self.holes}


FORMS = [('bbox', 'req'), ('wkt', 'req'), ('shapely', 'alias'), ('lines', 'req'), ('wkt', 'alias'), ('shapely', 'req'),
         ('bbox', 'alias'), ('shapely', 'geo'), ('wkt', 'geo')]

# the catalogue of the exhaustive instances.  The requests look at the area x 60..180, y 470..580 (tile (2, 2) of
# level 2 is x 80..120, y 520..560; tile (1, 1) of level 1 is x 80..160, y 480..560)
CATALOGUE = {
    'Ghalf': Geom([(-300, -300, 100, 940)]),                            # edge on a pixel boundary of every level
    'Goff': Geom([(93, 507, 133, 547)]),                                # edges at .3 / .7 of a 10-unit pixel
    'Gring': Geom([(60, 470, 170, 580)], holes=[(95, 515, 125, 545)]),  # polygon with a hole
    'Gfar': Geom([(1000, 100, 1100, 200)]),                             # disjoint from every request
    'Gtouch': Geom([(120, 400, 300, 520)]),                             # touches tile (2, 2) of level 2 in one corner
    'Gdiag': Geom([(80, 520, 100, 540), (100, 540, 120, 560)]),         # two parts touching in a corner
    'Gall': Geom([(-100, -100, 1380, 740)]),                            # contains the whole grid
    'Gtop': Geom([(-300, 535, 1500, 940)]),                             # upper part: crosses Ghalf
    'Gedge': Geom([(1280, 100, 1400, 300)]),                            # touches the grid extent from outside
}


def make_callback(cb, geoms, variant, calls):
    """the real callback returning the result described by the (parsed) TLA record cb"""
    def lim(gid, k):
        form, srs = FORMS[(variant + k) % len(FORMS)]
        return geoms[gid].limited_to(form, srs)
    result = {'authorized': str(cb['authorized'])}
    if result['authorized'] == 'partial':
        result['layers'] = {}
        for k, (n, e) in enumerate(sorted(cb['layers'].items())):
            d = {}
            for flag in ('map', 'featureinfo', 'tile'):
                if e[flag]:
                    d[flag] = True
                elif (variant + k) % 2:
                    d[flag] = False          # otherwise the key is absent
            if e['lim'] != 'none':
                d['limited_to'] = lim(str(e['lim']), k)
            result['layers'][str(n)] = d
        if cb['glob'] != 'none':
            result['limited_to'] = lim(str(cb['glob']), 7)

    def callback(service, layers, environ=None, query_extent=None, **kw):
        calls.append((service, list(layers), query_extent))
        return result
    return callback


# ---------------------------------------------------------------------------------------------------------------
# requests
# ---------------------------------------------------------------------------------------------------------------
def mkreq(f, ls=(), expl=None, box=(0, 0, 1, 1, 1, 1), pos=(0, 0), lay='-', tile=(0, 0, 0)):
    ls = tuple(ls)
    return FD(f=f, ls=ls, expl=frozenset(ls if expl is None else expl), box=tuple(box), pos=tuple(pos), lay=lay, tile=tuple(tile))


def norm_req(r):
    return mkreq(str(r['f']), [str(x) for x in r['ls']], [str(x) for x in r['expl']], [int(x) for x in r['box']],
                 [int(x) for x in r['pos']], str(r['lay']), [int(x) for x in r['tile']])


def norm_cb(c):
    layers = c['layers'] if isinstance(c['layers'], dict) else {}
    return FD(authorized=str(c['authorized']), glob=str(c['glob']),
              layers=FD({str(n): FD(map=bool(e['map']), featureinfo=bool(e['featureinfo']), tile=bool(e['tile']), lim=str(e['lim']))
                         for n, e in layers.items()}))


def case_key(req, cb):
    return json.dumps([tla.jsonable(req), tla.jsonable(cb)], sort_keys=True)


def tile_rows(z):
    gb, res, ts = W.GRID['bbox'], W.GRID['res'], W.GRID['tile_size']
    return (gb[3] - gb[1]) // (res[z] * ts[1])


def url_of(world, r, fmt='png', version='1.1.1'):
    f = r['f']
    x0, y0, rx, ry, w, h = r['box']
    if f in ('wms.map', 'wms.fi'):
        base = ('/service?SERVICE=WMS&VERSION=1.1.1&STYLES=&SRS=%s&BBOX=%d,%d,%d,%d&WIDTH=%d&HEIGHT=%d' % (
            W.SRS, x0, y0, x0 + w * rx, y0 + h * ry, w, h))
        if f == 'wms.map':
            return base + '&REQUEST=GetMap&LAYERS=%s&FORMAT=image/%s&TRANSPARENT=%s' % (
                ','.join(r['ls']), fmt, 'true' if fmt == 'png' else 'false')
        return base + ('&REQUEST=GetFeatureInfo&FORMAT=image/png&LAYERS=%s&QUERY_LAYERS=%s&X=%d&Y=%d&INFO_FORMAT=text/plain' % (
            ','.join(sorted(r['expl'])), ','.join(r['ls']), r['pos'][0], r['pos'][1]))
    if f == 'wms.caps':
        return '/service?SERVICE=WMS&REQUEST=GetCapabilities&VERSION=1.1.1'
    if f == 'tms.caps':
        return '/tms/1.0.0/'
    if f == 'wmts.caps':
        return '/wmts/1.0.0/WMTSCapabilities.xml'
    lay = r['lay']
    z, col, row = r['tile']
    tfmt = 'jpeg' if world.kinds[lay] == 'cachej' else 'png'
    y = tile_rows(z) - 1 - row
    if f == 'tms':
        return '/tms/1.0.0/%s/%s/%d/%d/%d.%s' % (lay, W.SRS_PATH, z, col, y, tfmt)
    if f == 'tms.layer':
        return '/tms/1.0.0/%s/%s' % (lay, W.SRS_PATH)
    if f == 'kml':
        return '/kml/%s/%s/%d/%d/%d.%s' % (lay, W.SRS_PATH, z, col, y, tfmt)
    if f == 'kml.doc':
        return '/kml/%s/%s/%d/%d/%d.kml' % (lay, W.SRS_PATH, z, col, y)
    if f == 'wmts.rest':
        return '/wmts/%s/g/%02d/%d/%d.%s' % (lay, z, col, row, tfmt)
    if f == 'wmts.kvp':
        return ('/service?SERVICE=WMTS&REQUEST=GetTile&VERSION=1.0.0&LAYER=%s&STYLE=&TILEMATRIXSET=g&TILEMATRIX=%02d'
                '&TILECOL=%d&TILEROW=%d&FORMAT=image/%s' % (lay, z, col, row, tfmt))
    if f == 'wmts.fi.rest':
        return '/wmts/%s/g/%02d/%d/%d/%d/%d.txt' % (lay, z, col, row, r['pos'][0], r['pos'][1])
    if f == 'wmts.fi.kvp':
        return ('/service?SERVICE=WMTS&REQUEST=GetFeatureInfo&VERSION=1.0.0&LAYER=%s&STYLE=&TILEMATRIXSET=g&TILEMATRIX=%02d'
                '&TILECOL=%d&TILEROW=%d&FORMAT=image/%s&INFOFORMAT=text/plain&I=%d&J=%d' % (
                    lay, z, col, row, tfmt, r['pos'][0], r['pos'][1]))
    raise ValueError(f)


SERVICE_STRING = {'wms.map': 'wms.map', 'wms.fi': 'wms.featureinfo', 'wms.caps': 'wms.capabilities', 'tms': 'tms',
                  'tms.layer': 'tms', 'tms.caps': 'tms', 'kml': 'kml', 'kml.doc': 'kml', 'wmts.kvp': 'wmts', 'wmts.rest': 'wmts',
                  'wmts.caps': 'wmts', 'wmts.fi.kvp': 'wmts.featureinfo', 'wmts.fi.rest': 'wmts.featureinfo'}
IMAGE_FEATURES = ('wms.map', 'tms', 'kml', 'wmts.kvp', 'wmts.rest')


def classify_pixels(body, lossy_ok):
    from PIL import Image
    im = Image.open(io.BytesIO(body))
    lossy = im.format == 'JPEG'
    opaque_bg = im.mode in ('RGB', 'L') or lossy
    im = im.convert('RGBA')
    wpx, hpx = im.size
    data = list(im.getdata())
    tol = 40 if lossy else 0
    palette = [(CODES[n], c) for n, c in W.COLOURS.items()]
    rows = []
    for j in range(hpx):
        row = []
        for i in range(wpx):
            r, g, b, a = data[j * wpx + i]
            code = 0
            if a == 0:
                code = 1
            elif a == 255:
                for cd, c in palette:
                    if abs(r - c[0]) <= tol and abs(g - c[1]) <= tol and abs(b - c[2]) <= tol:
                        code = cd
                        break
                else:
                    if opaque_bg and all(abs(v - w_) <= tol for v, w_ in zip((r, g, b), W.BG)):
                        code = 1
            row.append(code)
        rows.append(row)
    return rows, lossy


def observe(world, app, r, cbrec, geoms, variant, fmt='png'):
    """execute one request on the real application -> observation"""
    calls = []
    callback = make_callback(cbrec, geoms, variant, calls)
    url = url_of(world, r, fmt)
    with warnings.catch_warnings():
        warnings.simplefilter('ignore')
        resp, log, unknown = app.get(url, callback)
    f = r['f']
    obs = {'status': resp.status_int, 'ups': sorted({n for n, k in log}), 'px': [], 'infos': [], 'listing': [], 'lossy': False,
           'problems': list(unknown), 'url': url, 'ctype': resp.content_type or ''}
    kinds = {k for n, k in log}
    if kinds - ({'fi'} if f in ('wms.fi', 'wmts.fi.kvp', 'wmts.fi.rest') else {'map'}):
        obs['problems'].append('upstream requests of the wrong kind: %s' % sorted(log))
    if len(calls) != 1:
        obs['problems'].append('callback called %d times' % len(calls))
    elif calls[0][0] != SERVICE_STRING[f]:
        obs['problems'].append('callback called for service %r' % calls[0][0])
    if resp.status_int == 200:
        ct = obs['ctype']
        body = resp.body
        if f in IMAGE_FEATURES:
            if not ct.startswith('image/'):
                obs['problems'].append('content type %s' % ct)
            else:
                obs['px'], obs['lossy'] = classify_pixels(body, fmt != 'png')
        elif f in ('wms.fi', 'wmts.fi.kvp', 'wmts.fi.rest'):
            obs['infos'] = sorted(set(re.findall(r'info:(\w+)', body.decode('utf8', 'replace'))))
        elif f == 'wms.caps':
            obs['listing'] = sorted(set(re.findall(r'<Layer[^>]*>\s*<Name>([^<]*)</Name>', body.decode('utf8', 'replace'))))
        elif f == 'tms.caps':
            obs['listing'] = sorted(set(re.findall(r'href="[^"]*/tms/1\.0\.0/([^/"]+)/', body.decode('utf8', 'replace'))))
        elif f == 'wmts.caps':
            obs['listing'] = sorted(set(re.findall(r'<Layer>\s*<ows:Title>[^<]*</ows:Title>\s*<ows:Abstract>[^<]*</ows:Abstract>'
                                                   r'(?:\s*<ows:WGS84BoundingBox>.*?</ows:WGS84BoundingBox>)?'
                                                   r'\s*<ows:Identifier>([^<]*)</ows:Identifier>', body.decode('utf8', 'replace'), re.S)))
        elif f in ('kml.doc', 'tms.layer'):
            obs['listing'] = [r['lay']]
    return obs


def compare(out, obs):
    """-> list of (what, detail) the observation is not allowed by the response record `out` of the spec"""
    bad = []
    if obs['problems']:
        bad.append(('harness', '; '.join(obs['problems'])[:200]))
    if obs['status'] != out['status']:
        bad.append(('status', 'answered %s, the spec says %s' % (obs['status'], out['status'])))
        return bad
    for key, what in (('ups', 'upstream'), ('info', 'info'), ('list', 'listing')):
        seen = set(obs[{'ups': 'ups', 'info': 'infos', 'list': 'listing'}[key]])
        must, may = {str(x) for x in out[key + '_must']}, {str(x) for x in out[key + '_may']}
        if seen - may:
            bad.append((what, 'unexpected-%s' % '+'.join(sorted(seen - may))))
        if must - seen:
            bad.append((what, 'missing-%s' % '+'.join(sorted(must - seen))))
    px = out['px']
    if len(px) != len(obs['px']) or any(len(a) != len(b) for a, b in zip(px, obs['px'])):
        bad.append(('pixels', 'image size %dx%d, expected %dx%d' % (len(obs['px'][0]) if obs['px'] else 0, len(obs['px']),
                                                                    len(px[0]) if px else 0, len(px))))
        return bad
    kinds = set()
    where = None
    for j, (erow, orow) in enumerate(zip(px, obs['px'])):
        for i, (m, c) in enumerate(zip(erow, orow)):
            if c and (m // c) % 2 == 1:
                continue
            if c == 0 and obs['lossy'] and m not in (1, 2, 4, 8, 16):
                continue
            where = where or (i, j, m, c)
            if c == 0:
                kinds.add('unknown-colour')
            elif c == 1:
                kinds.add('dark-where-content-required')
            elif m == 1:
                kinds.add('content-where-dark-required')
            else:
                kinds.add('wrong-layer')
    if kinds:
        i, j, m, c = where
        bad.append(('pixels', '+'.join(sorted(kinds)) + ' (first at pixel %d,%d: saw %s, allowed %s)' % (
            i, j, NAMES_OF.get(c, 'other'), [n for n, cd in CODES.items() if (m // cd) % 2])))
    return bad


def family(f):
    return f.split('.')[0]


DEFECT_SIG = {'kind': 'request-limit-ignored', 'where': 'authorize_tile_layer',
              'cause': 'layer-limited_to-takes-precedence-over-request-limited_to'}


# ---------------------------------------------------------------------------------------------------------------
# TLC
# ---------------------------------------------------------------------------------------------------------------
class Instance(object):
    """one exhaustive instance: a world + request universe + callback universe"""

    def __init__(self, name, world, requests, auth, perms, lims, globs, entries, geoms=None, variants=('found',)):
        self.name, self.world, self.requests = name, world, requests
        self.auth, self.perms, self.lims, self.globs, self.entries = auth, perms, lims, globs, entries
        self.geoms = geoms or CATALOGUE
        self.variants = variants

    def consts(self, combine):
        w = self.world
        kinds = FD((n, k) for n, k in w.kinds.items())
        root = tuple(n for n in w.names if n not in w.group) + (('g',) if w.group else ())
        return dict(Kinds=kinds, Root=root, Group=tuple(w.group),
                    GeomTab=FD((k, g.tla()) for k, g in self.geoms.items()),
                    GridBox=tuple(W.GRID['bbox']), GridRes=tuple(W.GRID['res']), TileSize=tuple(W.GRID['tile_size']),
                    CombineChoices=(frozenset([True, False]) if combine is None else frozenset([bool(combine)])), Requests=frozenset(self.requests), AuthKinds=frozenset(self.auth),
                    PermOpts=frozenset(FD(map=m, featureinfo=f, tile=t) for m, f, t in self.perms),
                    LimIds=frozenset(self.lims), GlobIds=frozenset(self.globs), EntryNames=frozenset(self.entries))


def world_root(w):
    return tuple(n for n in w.names if n not in w.group) + (('g',) if w.group else ())


def run_model(ctx, inst, combine, invariants, emit, label, timeout=1500):
    d = ctx.sub('mc-%s-%s' % (inst.name, label))
    mp, cp = tlc.write_mc(d, 'Auth', 'MC_Auth', inst.consts(combine), invariants=list(invariants) + (['Emit'] if emit else []))
    r = tlc.run(mp, cp, d, workers=TLC_WORKERS, timeout=timeout, coverage=False)
    ctx.log('TLC %s/%s: %d states, %s  [%.0fs]' % (inst.name, label, r.distinct,
                                                 'violates ' + r.violated if r.violated else ('ok' if r.ok else r.error), r.wall))
    return r


def cases_of(r):
    """printed terminal states -> {key: (req, cb, out, pruned, property holds on out, path)}"""
    table = {}
    for pr in tlc.find_prints(r.out, 'case'):
        _, req, cb, out, pruned, prop, path = pr
        req, cb = norm_req(req), norm_cb(cb)
        table[case_key(req, cb)] = (req, cb, out, bool(pruned), bool(prop), tuple(str(a) for a in path))
    return table


def vacuity_guard(name, inst, r, table, need):
    """every (request, callback result) pair reaches exactly one terminal state (no stuck state, no branching), and every
    action the instance is meant to exercise was taken (action coverage from the recorded paths)"""
    nentry = (1 + len(inst.perms) * len(inst.lims)) ** len(inst.entries)
    ncb = len([a for a in inst.auth if a != 'partial']) + (nentry * len(inst.globs) if 'partial' in inst.auth else 0)
    expected = ncb * len(set(inst.requests))
    if len(table) != expected:
        raise tlc.MachineryError('%s: %d terminal states printed for %d (request, callback result) pairs' % (name, len(table), expected))
    if r.distinct != sum(len(v[5]) + 1 for v in table.values()):
        raise tlc.MachineryError('%s: %d states, but the printed paths account for %d' % (
            name, r.distinct, sum(len(v[5]) + 1 for v in table.values())))
    cov = {}
    for v in table.values():
        for a in v[5]:
            cov[a] = cov.get(a, 0) + 1
    r.coverage = {a: (n, n) for a, n in cov.items()}
    for a in need:
        if cov.get(a, 0) == 0:
            raise tlc.MachineryError('%s: action %s was never taken (coverage %r)' % (name, a, cov))


def table_guard(name, table):
    """the table must contain the situations the property speaks about (non-vacuity of the invariants)"""
    seen = set()
    for req, cb, out, pruned, prop, path in table.values():
        seen.add('status%d' % out['status'])
        f = req['f']
        for row in out['px']:
            for m in row:
                if cb['authorized'] == 'partial':
                    seen.add(family(f) + (':dark' if m == 1 else ':content' if m in (2, 4, 8, 16) else ':band'))
        if f in ('wms.fi', 'wmts.fi.kvp', 'wmts.fi.rest') and out['status'] == 200 and cb['authorized'] == 'partial':
            seen.add(family(f) + (':info' if out['info_must'] else ':noinfo'))
    return seen


# ---------------------------------------------------------------------------------------------------------------
# the exhaustive instances
# ---------------------------------------------------------------------------------------------------------------
ALLPERMS = [(m, f, t) for m in (False, True) for f in (False, True) for t in (False, True)]
S_TILE = (80, 520, 10, 10, 4, 4)          # the box of tile (2, 2, 2)
S_OFF = (75, 505, 10, 10, 6, 5)           # not aligned with the geometries
S_COARSE = (70, 490, 20, 20, 5, 4)
S_WIDE = (40, 500, 10, 10, 12, 6)


def instances(tier):
    thorough = tier == 'thorough'
    out = []
    # E1: one cached layer, every service
    w1 = W.World({'b': 'cache', 'c': 'cachej'}, group=())
    tiles = [(2, 2, 2), (1, 1, 1), (0, 0, 0), (2, 3, 2)] + ([(2, 2, 3), (1, 0, 1), (2, 30, 2)] if thorough else [])
    fipos = [(0, 0), (1, 1), (2, 2), (3, 1)] + ([(1, 3), (3, 3), (2, 1)] if thorough else [])

    def tile_requests(lay, full):
        rs = [mkreq('tms', lay=lay, tile=t) for t in tiles]
        rs += [mkreq(f, lay=lay, tile=t) for f in ('kml', 'wmts.kvp', 'wmts.rest') for t in (tiles if full and thorough else tiles[:2])]
        if full:
            rs += [mkreq(f, lay=lay, tile=(2, 2, 2), pos=p) for f in ('wmts.fi.kvp', 'wmts.fi.rest') for p in fipos]
            rs += [mkreq(f, lay=lay, tile=(1, 1, 1)) for f in ('tms.layer', 'kml.doc')]
            rs += [mkreq('tms.caps'), mkreq('wmts.caps')]
        return rs
    reqs = tile_requests('b', True)
    reqs += [mkreq('wms.map', ['b'], box=s) for s in ((S_TILE, S_OFF, S_COARSE) + ((S_WIDE,) if thorough else ()))]
    reqs += [mkreq('wms.fi', ['b'], box=S_TILE, pos=p) for p in fipos]
    reqs += [mkreq('wms.caps')]
    lims = ['none', 'Ghalf', 'Goff', 'Gring', 'Gfar'] + (['Gtouch', 'Gdiag', 'Gall'] if thorough else [])
    globs = ['none', 'Gtop', 'Gtouch', 'Gdiag'] + (['Goff', 'Gall', 'Gedge'] if thorough else [])
    out.append(Instance('one-layer', w1, reqs, ['full', 'none', 'unauthenticated', 'partial'], ALLPERMS, lims, globs, ['b'],
                        variants=('found', 'repaired')))
    out.append(Instance('jpeg-tiles', w1, tile_requests('c', False) + [mkreq('wms.map', ['c'], box=S_OFF), mkreq('wms.map', ['b', 'c'], box=S_OFF)],
                        ['full', 'partial'], [(True, True, True), (True, False, False), (False, False, True)],
                        ['none', 'Ghalf', 'Goff', 'Gdiag'], ['none', 'Gtop'], ['c'], variants=('found', 'repaired')))
    # E2: two layers, WMS
    w2 = W.World({'a': 'wmsT', 'b': 'cache'}, group=())
    seqs = [('a',), ('b',), ('a', 'b'), ('b', 'a')]
    reqs = [mkreq('wms.map', s, box=bx) for s in seqs for bx in (S_OFF, S_COARSE)]
    reqs += [mkreq('wms.fi', s, box=S_TILE, pos=p) for s in seqs for p in ((1, 1), (3, 1))]
    reqs += [mkreq('wms.fi', ['a'], expl=['b'], box=S_TILE, pos=(1, 1)), mkreq('wms.caps')]
    perms = [(True, False, False), (False, True, False), (True, True, True)] + ([(False, False, True), (False, False, False)] if thorough else [])
    out.append(Instance('two-layers', w2, reqs, ['full', 'none', 'unauthenticated', 'partial'], perms,
                        ['none', 'Ghalf', 'Gring'] + (['Goff'] if thorough else []), ['none', 'Gtop'] + (['Gdiag'] if thorough else []), ['a', 'b']))
    # E3: three layers with a group
    w3 = W.World({'a': 'wmsT', 'b': 'cache', 'c': 'cachej'})
    seqs = [('g',), ('a', 'g'), ('g', 'a'), ('b',), ('a', 'c'), ('g', 'b'), ('c', 'b', 'a')]
    reqs = [mkreq('wms.map', s, box=S_OFF) for s in seqs] + [mkreq('wms.fi', s, box=S_TILE, pos=(1, 1)) for s in seqs]
    reqs += [mkreq('wms.fi', ['g'], box=S_TILE, pos=(3, 1)), mkreq('wms.caps')]
    out.append(Instance('group', w3, reqs, ['full', 'none', 'partial'], [(True, True, False)] + ([(True, False, False)] if thorough else []),
                        ['none', 'Ghalf'], ['none', 'Gtop'], ['a', 'b', 'c', 'g']))
    # E4: an opaque layer on top (pruning below opaque layers precedes authorization)
    w4 = W.World({'a': 'wmsT', 'b': 'wmsO', 'c': 'cache'}, group=())
    seqs = [('a', 'b'), ('b', 'a'), ('a', 'b', 'c'), ('c', 'a', 'b'), ('b',)]
    reqs = [mkreq('wms.map', s, box=S_OFF) for s in seqs] + [mkreq('wms.fi', ('a', 'b'), box=S_TILE, pos=(1, 1)), mkreq('wms.caps')]
    out.append(Instance('opaque', w4, reqs, ['full', 'none', 'partial'], [(True, True, False)] + ([(False, True, False)] if thorough else []),
                        ['none', 'Ghalf', 'Gring'], ['none', 'Gtop'], ['a', 'b', 'c']))
    # E5: the group layer has sources of its own (then it is one layer for the authorization) and an opaque member
    w5 = W.World({'a': 'wmsT', 'b': 'wmsO'}, group=('b',), group_this='cache')
    seqs = [('g',), ('a', 'g'), ('g', 'a'), ('a', 'b'), ('b', 'g')]
    reqs = [mkreq('wms.map', s, box=S_OFF) for s in seqs] + [mkreq('wms.fi', s, box=S_TILE, pos=(1, 1)) for s in seqs[:3]] + [mkreq('wms.caps')]
    reqs += [mkreq('tms', lay='g', tile=(2, 2, 2)), mkreq('wmts.fi.rest', lay='g', tile=(2, 2, 2), pos=(1, 1)), mkreq('tms.caps')]
    out.append(Instance('group-with-sources', w5, reqs, ['full', 'partial'], [(True, True, True)] + ([(True, False, False), (False, False, True)] if thorough else []),
                        ['none', 'Goff'], ['none', 'Gtop'], ['a', 'b', 'g'], variants=('found', 'repaired')))
    return out


# ---------------------------------------------------------------------------------------------------------------
# spec -> code
# ---------------------------------------------------------------------------------------------------------------
class Apps(object):
    def __init__(self, ctx):
        self.ctx = ctx
        self.apps = {}
        self.n = 0

    def get(self, world):
        k = world.key()
        if k not in self.apps:
            self.n += 1
            self.apps[k] = W.App(world, os.path.join(self.ctx.sub('apps'), 'w%d' % self.n))
        return self.apps[k]

    def close(self):
        for a in self.apps.values():
            a.close()
        self.apps = {}


def replay_table(ctx, apps, inst, tables, label):
    """tables: {'found': table[, 'repaired': table]}.  Every case is executed on the real application; the observation
    must be allowed by the model of the code as found or (instances with tile services) by the model with both limits
    applied.  A response that only the model of the code as found allows, and on which that model violates the property, is
    a violation of the property by the real code."""
    world = inst.world
    app = apps.get(world)
    table = tables['found']
    other = tables.get('repaired')
    nbad = ndefect = 0
    for n, key in enumerate(sorted(table)):
        req, cb, out, pruned, prop_ok, path = table[key]
        variant = n % len(FORMS)
        obs = observe(world, app, req, cb, inst.geoms, variant)
        ctx.cov['replayed_behaviours'] += 1
        ctx.cov['replayed_steps'] += len(path)
        ctx.count(('case', inst.name, key, obs['status'], json.dumps(obs['px']), tuple(obs['ups']), tuple(obs['infos']), tuple(obs['listing'])))
        bad = compare(out, obs)
        bad_other = compare(other[key][2], obs) if other else bad
        case = {'instance': inst.name, 'world': world_json(world), 'geoms': {k: g.json() for k, g in inst.geoms.items()},
                'req': tla.jsonable(req), 'cb': tla.jsonable(cb), 'variant': variant, 'fmt': 'png', 'url': obs['url']}
        if bad and bad_other:
            nbad += 1
            what, detail = bad[0]
            ctx.violation({'kind': 'conformance', 'feature': req['f'], 'what': what, 'detail': re.sub(r' \(first at.*', '', detail)},
                          '%s: %s %s under callback %s: %s' % (inst.name, req['f'], describe(req), describe_cb(cb), '; '.join(d for _, d in bad)),
                          case)
        elif not bad and bad_other and not prop_ok:
            ndefect += 1
            ctx.violation(dict(DEFECT_SIG, service=family(req['f'])),
                          '%s %s under callback %s: the response is the one Auth.tla (code as found) predicts and it violates the property: '
                          'the request-wide limited_to is not applied when the layer has a limited_to of its own (pixels / feature info '
                          'outside the request-wide area are served)' % (req['f'], describe(req), describe_cb(cb)), case)
    ctx.log('%s/%s: %d cases executed on the real application, %d not allowed by the spec, %d reproduce a property violation of the '
            'model of the code as found' % (inst.name, label, len(table), nbad, ndefect))
    return nbad


def world_json(w):
    return {'kinds': {n: w.kinds[n] for n in w.names}, 'group': list(w.group), 'group_this': w.group_this}


def world_from_json(d):
    return W.World(d['kinds'], group=tuple(d['group']), group_this=d.get('group_this'))


def describe(req):
    f = req['f']
    if f in ('wms.map', 'wms.fi'):
        s = 'layers=%s box=%s' % (','.join(req['ls']), list(req['box']))
        return s + (' pos=%s' % list(req['pos']) if f == 'wms.fi' else '')
    if f in ('wms.caps', 'tms.caps', 'wmts.caps'):
        return ''
    return 'layer=%s tile=%s' % (req['lay'], list(req['tile'])) + (' pos=%s' % list(req['pos']) if '.fi.' in f else '')


def describe_cb(cb):
    if cb['authorized'] != 'partial':
        return cb['authorized']
    parts = []
    for n, e in sorted(cb['layers'].items()):
        flags = ''.join(ch for ch, k in (('m', 'map'), ('f', 'featureinfo'), ('t', 'tile')) if e[k])
        parts.append('%s:%s%s' % (n, flags or '-', '' if e['lim'] == 'none' else '@' + e['lim']))
    return 'partial{%s}%s' % (' '.join(parts), '' if cb['glob'] == 'none' else ' limited_to=' + cb['glob'])


# ---------------------------------------------------------------------------------------------------------------
# code -> spec
# ---------------------------------------------------------------------------------------------------------------
def random_geom(rng, focus):
    """random rectilinear area near the box `focus` = (x0, y0, x1, y1)"""
    x0, y0, x1, y1 = focus
    span = max(x1 - x0, y1 - y0, 40)
    k = rng.random()
    if k < 0.08:
        return Geom([(-100, -100, 1380, 740)])
    if k < 0.14:
        gx = rng.randint(600, 1200)
        return Geom([(gx + 400, 700, gx + 450, 900)])          # far away
    rects, holes = [], []
    for _ in range(rng.choice([1, 1, 2, 3])):
        if rng.random() < 0.25:     # a half plane like area through the focus
            cut = rng.randint(x0 - 5, x1 + 5)
            rects.append((-300, -300, cut, 940) if rng.random() < 0.5 else (cut, -300, 1500, 940))
            if rng.random() < 0.5:
                cut = rng.randint(y0 - 5, y1 + 5)
                rects[-1] = (-300, -300, 1500, cut) if rng.random() < 0.5 else (-300, cut, 1500, 940)
        else:
            gx0 = rng.randint(x0 - span // 2, x1)
            gy0 = rng.randint(y0 - span // 2, y1)
            rects.append((gx0, gy0, gx0 + rng.randint(1, span), gy0 + rng.randint(1, span)))
    if rng.random() < 0.3:
        r = rng.choice(rects)
        if r[2] - r[0] > 6 and r[3] - r[1] > 6:
            hx0 = rng.randint(r[0] + 1, r[2] - 3)
            hy0 = rng.randint(r[1] + 1, r[3] - 3)
            holes.append((hx0, hy0, rng.randint(hx0 + 1, r[2] - 1), rng.randint(hy0 + 1, r[3] - 1)))
    try:
        return Geom(rects, holes)
    except AssertionError:
        return Geom([rects[0]])


WORLD_POOL = [
    {'kinds': {'a': 'wmsT', 'b': 'cache', 'c': 'cachej'}, 'group': ['b', 'c'], 'group_this': None},
    {'kinds': {'a': 'cache', 'b': 'wmsT', 'c': 'wmsT'}, 'group': ['b', 'c'], 'group_this': None},
    {'kinds': {'a': 'wmsT', 'b': 'wmsO', 'c': 'cache'}, 'group': [], 'group_this': None},
    {'kinds': {'a': 'cachej', 'b': 'cache'}, 'group': ['b'], 'group_this': 'cache'},
    {'kinds': {'a': 'wmsO', 'b': 'cache', 'c': 'wmsT'}, 'group': ['b', 'c'], 'group_this': None},
    {'kinds': {'b': 'cache', 'c': 'cachej'}, 'group': [], 'group_this': None},
]


def random_event(rng, world, geoms):
    """-> (req, cb, fmt); geometries are added to `geoms`"""
    names = list(world.names) + (['g'] if world.group else [])
    tl = world.tile_layers
    feats = ['wms.map'] * 6 + ['wms.fi'] * 3 + ['wms.caps']
    if tl:
        feats += ['tms'] * 3 + ['kml', 'wmts.kvp', 'wmts.rest', 'wmts.fi.kvp', 'wmts.fi.rest', 'wmts.fi.rest', 'tms.layer', 'kml.doc',
                  'tms.caps', 'wmts.caps']
    f = rng.choice(feats)
    fmt = 'png'
    gb, ts = W.GRID['bbox'], W.GRID['tile_size']
    if f in ('wms.map', 'wms.fi'):
        rx = rng.choice([10, 20, 40, 10, 7, 13, 25])
        ry = rx if rng.random() < 0.8 else rng.choice([10, 20, 9, 15])
        wpx, hpx = rng.randint(1, 10), rng.randint(1, 8)
        x0 = rng.randint(gb[0], gb[2] - wpx * rx)
        y0 = rng.randint(gb[1], gb[3] - hpx * ry)
        box = (x0, y0, rx, ry, wpx, hpx)
        ls = [rng.choice(names) for _ in range(rng.choice([1, 1, 2, 2, 3]))]
        ls = [n for i, n in enumerate(ls) if n not in ls[:i]]
        if f == 'wms.map':
            if rng.random() < 0.2:
                fmt = 'jpeg'
            req = mkreq(f, ls, box=box)
        else:
            expl = ls if rng.random() < 0.8 else [rng.choice(names)]
            req = mkreq(f, ls, expl=expl, box=box, pos=(rng.randint(0, wpx - 1), rng.randint(0, hpx - 1)))
        focus = (x0, y0, x0 + wpx * rx, y0 + hpx * ry)
    elif f in ('wms.caps', 'tms.caps', 'wmts.caps'):
        req = mkreq(f)
        focus = (gb[2] - 100, gb[1], gb[2] + 60, gb[1] + 200) if rng.random() < 0.5 else (100, 100, 300, 300)
    else:
        lay = rng.choice(tl)
        z = rng.randint(0, len(W.GRID['res']) - (2 if f == 'kml.doc' else 1))   # the KML document of the last level is a 500 (not C10)
        res = W.GRID['res'][z]
        cols, rows = (gb[2] - gb[0]) // (res * ts[0]), tile_rows(z)
        col, row = rng.randint(0, cols - 1), rng.randint(0, rows - 1)
        req = mkreq(f, lay=lay, tile=(z, col, row), pos=(rng.randint(0, ts[0] - 1), rng.randint(0, ts[1] - 1)))
        x0, y1 = gb[0] + col * res * ts[0], gb[3] - row * res * ts[1]
        focus = (x0, y1 - res * ts[1], x0 + res * ts[0], y1)

    def new_geom():
        gid = 'R%d' % len(geoms)
        geoms[gid] = random_geom(rng, focus)
        return gid
    k = rng.random()
    if k < 0.08:
        cb = FD(authorized=rng.choice(['full', 'none', 'unauthenticated']), layers=FD(), glob='none')
    else:
        layers = {}
        for n in names:
            if rng.random() < 0.2:
                continue
            e = dict(map=rng.random() < 0.75, featureinfo=rng.random() < 0.75, tile=rng.random() < 0.75, lim='none')
            if rng.random() < 0.45:
                e['lim'] = new_geom()
            layers[n] = FD(e)
        cb = FD(authorized='partial', layers=FD(layers), glob=new_geom() if rng.random() < 0.4 else 'none')
    return req, cb, fmt


def event_json(req, cb, obs, geoms):
    used = sorted(({cb['glob']} | {e['lim'] for e in cb['layers'].values()}) - {'none'})
    gs = {'Z': CATALOGUE['Gfar']}
    gs.update((g, geoms[g]) for g in used)
    return {'geoms': {g: {'xs': [2 * x for x in v.xs], 'ys': [2 * y for y in v.ys], 'cells': [list(c) for c in sorted(v.cells)]}
                      for g, v in gs.items()},
            'req': {'f': req['f'], 'ls': list(req['ls']), 'expl': sorted(req['expl']), 'box': list(req['box']), 'pos': list(req['pos']),
                    'lay': req['lay'], 'tile': list(req['tile'])},
            'cb': {'authorized': cb['authorized'], 'glob': cb['glob'],
                   'layers': [[n, e['map'], e['featureinfo'], e['tile'], e['lim']] for n, e in sorted(cb['layers'].items())]},
            'obs': {'status': obs['status'], 'ups': obs['ups'], 'px': obs['px'], 'infos': obs['infos'], 'listing': obs['listing'],
                    'lossy': bool(obs['lossy'])}}


def validate_events(ctx, world, geoms, events, name):
    """-> (TLC result, ids (1-based) accepted by the model of the code as found, ids accepted by the model with both limits
    applied, ids whose observation violates the property)"""
    d = ctx.sub(name)
    tf = os.path.join(d, 'batch.json')
    with open(tf, 'w') as f:
        json.dump(events, f)
    inst = Instance(name, world, [], [], [], [], [], [], geoms={'Z': CATALOGUE['Gfar']})
    mp, cp = tlc.write_mc(d, 'Trace_Auth', 'MC_Trace', inst.consts(None), spec='TraceSpec', post='TraceAccepted',
                          invariants=['TypeOK'])
    r = tlc.run(mp, cp, d, workers=1, coverage=False, env={'TRACE_FILE': tf}, timeout=3000)
    pa, pc_, pb = tlc.find_prints(r.out, 'accepted'), tlc.find_prints(r.out, 'accepted_combined'), tlc.find_prints(r.out, 'obsbad')
    if not pa or not pb or not pc_:
        raise tlc.MachineryError('trace validation: no verdict from TLC\n' + r.out[-2500:])
    return r, {int(x) for x in pa[-1][1]}, {int(x) for x in pc_[-1][1]}, {int(x) for x in pb[-1][1]}


def random_traces(ctx, apps, nworlds, nevents):
    total = rejected = obsbad = 0
    for wi in range(nworlds):
        wd = WORLD_POOL[wi % len(WORLD_POOL)]
        world = world_from_json(wd)
        app = apps.get(world)
        geoms, events, meta = {}, [], []
        for k in range(nevents):
            req, cb, fmt = random_event(ctx.rng, world, geoms)
            variant = ctx.rng.randrange(len(FORMS))
            obs = observe(world, app, req, cb, geoms, variant, fmt)
            if obs['problems']:
                ctx.violation({'kind': 'conformance', 'feature': req['f'], 'what': 'harness', 'detail': obs['problems'][0][:80]},
                              'random %s %s: %s' % (req['f'], describe(req), '; '.join(obs['problems'])[:300]), None)
            events.append(event_json(req, cb, obs, geoms))
            meta.append((req, cb, variant, fmt, obs))
            ctx.count(('event', wi, k, req['f'], obs['status'], json.dumps(obs['px']), tuple(obs['ups'])))
        r, acc_found, acc_comb, bad = validate_events(ctx, world, geoms, events, 'trace-%d' % wi)
        ctx.cov['traces_validated_against_impl'] += len(events)
        ctx.cov['states'] += r.distinct
        ctx.cov['transitions'] += r.generated
        total += len(events)
        if wi == 0:
            ctx.sample({'kind': 'recorded request validated by Trace_Auth', 'event': {k: v for k, v in events[0].items() if k != 'geoms'}})
        for i, (req, cb, variant, fmt, obs) in enumerate(meta):
            case = {'world': wd, 'geoms': {g: geoms[g].json() for g in sorted({cb['glob']} | {e['lim'] for e in cb['layers'].values()}) if g != 'none'},
                    'req': tla.jsonable(req), 'cb': tla.jsonable(cb), 'variant': variant, 'fmt': fmt, 'url': obs['url']}
            both = (req['f'] in TILE_WITH_COVERAGE and cb['authorized'] == 'partial' and cb['glob'] != 'none'
                    and req['lay'] in cb['layers'] and cb['layers'][req['lay']]['lim'] != 'none')
            if (i + 1) in bad:
                obsbad += 1
                if both and (i + 1) in acc_found and (i + 1) not in acc_comb:
                    ctx.violation(dict(DEFECT_SIG, service=family(req['f'])),
                                  'recorded %s %s under callback %s: the observation violates the property (request-wide limited_to '
                                  'not applied) and is what Auth.tla (code as found) predicts' % (req['f'], describe(req), describe_cb(cb)), case)
                else:
                    ctx.violation({'kind': 'property', 'feature': req['f'], 'what': 'observation-violates-property'},
                                  'TLC: the recorded observation violates the property: %s %s under callback %s -> status %s ups %s infos %s '
                                  'listing %s px %s' % (req['f'], describe(req), describe_cb(cb), obs['status'], obs['ups'], obs['infos'],
                                                        obs['listing'], obs['px']), case)
            if (i + 1) not in acc_found and (i + 1) not in acc_comb:
                rejected += 1
                ctx.violation({'kind': 'trace-rejected', 'feature': req['f'], 'status': obs['status']},
                              'recorded response is not a terminal state of Auth.tla: %s %s under callback %s -> status %s ups %s infos %s '
                              'listing %s px %s' % (req['f'], describe(req), describe_cb(cb), obs['status'], obs['ups'], obs['infos'],
                                                    obs['listing'], obs['px']), case)
    ctx.log('validated %d recorded requests with TLC (%d rejected, %d violate the property)' % (total, rejected, obsbad))


TILE_WITH_COVERAGE = ('tms', 'kml', 'wmts.kvp', 'wmts.rest', 'wmts.fi.kvp', 'wmts.fi.rest')


# ---------------------------------------------------------------------------------------------------------------
def attack(ctx, apps, inst, tables):
    """TLC counterexamples of the model of the code as found (ClippedOutside / InfoGateOK), replayed on the real
    application"""
    for inv in ('ClippedOutside', 'InfoGateOK'):
        r = run_model(ctx, inst, False, [inv], False, 'attack-' + inv, timeout=600)
        if r.violated != inv or not r.trace:
            raise tlc.MachineryError('the model of the code as found satisfies %s - vacuous? %r' % (inv, r))
        st0, stn = r.trace[0][1], r.trace[-1][1]
        req, cb, out = norm_req(st0['req']), norm_cb(st0['cb']), stn['out']
        obs = observe(inst.world, apps.get(inst.world), req, cb, inst.geoms, 1)
        ctx.cov['replayed_behaviours'] += 1
        ctx.cov['replayed_steps'] += len(r.trace)
        ctx.count(('attack', inv))
        rep = tables['repaired'][case_key(req, cb)]
        reproduced = not compare(out, obs) and bool(compare(rep[2], obs))
        ctx.log('model (code as found) violates %s on %s %s under %s: %s on the real application' % (
            inv, req['f'], describe(req), describe_cb(cb),
            'REPRODUCED' if reproduced else 'not reproduced' if compare(out, obs) else 'not decisive (within the one-pixel band)'))
        if reproduced:
            ctx.violation(dict(DEFECT_SIG, service=family(req['f'])),
                          'counterexample of %s found by TLC on Auth.tla (code as found) reproduced on the real application: %s %s under '
                          'callback %s serves content / feature info outside the request-wide limited_to' % (
                              inv, req['f'], describe(req), describe_cb(cb)),
                          {'instance': inst.name, 'world': world_json(inst.world), 'geoms': {k: g.json() for k, g in inst.geoms.items()},
                           'req': tla.jsonable(req), 'cb': tla.jsonable(cb), 'variant': 1, 'fmt': 'png', 'url': obs['url']})


def run(ctx):
    thorough = ctx.tier == 'thorough'
    tlc.sany(SPEC)
    insts = instances(ctx.tier)
    apps = Apps(ctx)
    try:
        t0 = time.time()
        seen_situations = set()
        npruned = 0
        insts_tables = []
        for inst in insts:
            tables = {}
            need = {a for a in ACTIONS if any(applies(a, q['f']) for q in inst.requests)}
            if 'repaired' in inst.variants:
                # (M) with both limits applied the model satisfies the property on the whole universe ...
                r = run_model(ctx, inst, True, BASE_INV + PROPERTY, True, 'repaired')
                if not r.ok:
                    raise tlc.MachineryError('Auth.tla (%s, repaired variant): %r\n%s' % (inst.name, r, r.out[-1500:]))
                tables['repaired'] = cases_of(r)
                vacuity_guard('Auth ' + inst.name, inst, r, tables['repaired'], need)
                # ... the model of the code as found does not (detect_variant); its terminal states are the table for the code as found
                rf = run_model(ctx, inst, False, BASE_INV + ['DeniedStaysDark', 'ContentInside'], True, 'found')
                if not rf.ok:
                    raise tlc.MachineryError('Auth.tla (%s, code as found): %r\n%s' % (inst.name, rf, rf.out[-1500:]))
                tables['found'] = cases_of(rf)
                vacuity_guard('Auth ' + inst.name, inst, rf, tables['found'], need)
                ctx.add_tlc('Auth %s (both limits applied), property checked' % inst.name, r)
                ctx.add_tlc('Auth %s (code as found), terminal states' % inst.name, rf)
            else:
                rr = run_model(ctx, inst, False, BASE_INV + PROPERTY, True, 'model')
                if not rr.ok:
                    raise tlc.MachineryError('Auth.tla (%s): %r\n%s' % (inst.name, rr, rr.out[-1500:]))
                tables['found'] = cases_of(rr)
                vacuity_guard('Auth ' + inst.name, inst, rr, tables['found'], need)
                ctx.add_tlc('Auth %s, property checked' % inst.name, rr)
            for t in tables.values():
                if not t:
                    raise tlc.MachineryError('no cases printed by TLC for %s' % inst.name)
                seen_situations |= table_guard(inst.name, t)
                npruned += sum(1 for v in t.values() if v[3])
            for vname, t in tables.items():
                if any(not v[4] for v in t.values()) and not (vname == 'found' and 'repaired' in tables):
                    raise tlc.MachineryError('%s/%s: unexpected property verdicts in the printed table' % (inst.name, vname))
            insts_tables.append(tables['found'])
            if inst is insts[0]:
                attack(ctx, apps, inst, tables)
            replay_table(ctx, apps, inst, tables, 'spec->code')
        for need in ('status200', 'status401', 'status403', 'wms:dark', 'wms:content', 'wms:band', 'tms:dark', 'tms:content', 'tms:band',
                     'wmts:dark', 'kml:band', 'wms:info', 'wms:noinfo', 'wmts:info', 'wmts:noinfo'):
            if need not in seen_situations:
                raise tlc.MachineryError('the exhaustive instances never produce the situation %r (vacuous check)' % need)
        some = sorted(tables['found'].items())[len(tables['found']) // 2][1]
        for k, v in sorted(insts_tables[0].items()):
            flat = [m for row in v[2]['px'] for m in row]
            if v[1]['authorized'] == 'partial' and 1 in flat and 4 in flat and 5 in flat and v[0]['f'] == 'tms':
                some = v
                break
        ctx.sample({'kind': 'case enumerated by TLC with the response of the spec', 'request': tla.jsonable(some[0]),
                    'callback': tla.jsonable(some[1]), 'response': tla.jsonable(some[2])})
        if npruned:
            ctx.notes.append('observation (not part of C10): in %d enumerated cases an allowed layer is missing from the picture because it '
                             'was pruned below an opaque layer BEFORE that opaque layer was denied or clipped (wms.py:107-122); the real '
                             'application conforms to the model in these cases' % npruned)
            ctx.log('observation: %d cases where a layer pruned below an opaque layer stays missing although the opaque layer is denied / clipped' % npruned)
        ctx.log('exhaustive instances done  [%.0fs]' % (time.time() - t0))

        # (T) code -> spec
        random_traces(ctx, apps, nworlds=(18 if thorough else 6), nevents=(1500 if thorough else 500))
    finally:
        apps.close()
    ctx.assumptions += [
        'limited_to areas are rectilinear (unions of lattice rectangles, holes, parts touching in a corner), given as bbox, WKT, '
        'several WKT lines or shapely geometry, in the request SRS, its alias EPSG:900913, or as EPSG:4326 coordinates of the same '
        'lattice vertices (web mercator keeps axis-parallel edges axis-parallel); general reprojection accuracy is not decided',
        'requests lie inside the extent of the tile grid; upstreams answer every request with a flat colour; caches do not store '
        '(every rendered layer reaches its upstream)',
        '"one pixel" is the larger of the two pixel sides; pixels whose centre is within one pixel of the boundary of an area may '
        'have either value; a feature-info point exactly on the boundary may be answered either way',
        'the query point of GetFeatureInfo is the upper left corner of pixel (I, J), as the code computes it',
        'jpeg answers: colours are classified with a tolerance of 40 per channel, blends are accepted in the boundary band only',
        'the unnamed root layer is used; a named root layer is listed in the WMS capabilities without being filtered (not part of '
        'the property: no image, feature info or upstream request results)',
    ]
    return ctx.finish('model_checking',
                      'TLC: all (request, callback result) pairs of the stated universes (1-3 layers with a group, all services); every '
                      'pair executed on the real application; distinct = distinct (case, observation) pairs plus distinct recorded '
                      'random requests')


def applies(action, f):
    wms = f in ('wms.map', 'wms.fi')
    return {'CollectLayers': wms, 'CallAuthorize': wms, 'FilterActualLayers': wms, 'RenderAndMerge': f == 'wms.map',
            'InfoGate': f == 'wms.fi', 'WmsCapabilities': f == 'wms.caps',
            'TileAuthorize': f in TILE_WITH_COVERAGE + ('tms.layer', 'kml.doc'),
            'TileRender': f in ('tms', 'kml', 'wmts.kvp', 'wmts.rest'), 'TileInfoGate': f in ('wmts.fi.kvp', 'wmts.fi.rest'),
            'TileDocument': f in ('tms.layer', 'kml.doc'), 'TileCapabilities': f in ('tms.caps', 'wmts.caps')}[action]


def replay(ctx, data):
    case = data.get('case') or {}
    if not case:
        print('nothing to replay')
        return 0
    world = world_from_json(case['world'])
    geoms = {k: Geom(g['rects'], g['holes']) for k, g in case['geoms'].items()}
    req = norm_req(case['req'])
    cbj = case['cb']
    cb = norm_cb({'authorized': cbj['authorized'], 'glob': cbj['glob'], 'layers': cbj['layers'] if isinstance(cbj['layers'], dict) else {}})
    apps = Apps(ctx)
    try:
        obs = observe(world, apps.get(world), req, cb, geoms, case.get('variant', 0), case.get('fmt', 'png'))
        print('request :', obs['url'])
        print('callback:', describe_cb(cb))
        print('observed: status %s upstream %s infos %s listing %s' % (obs['status'], obs['ups'], obs['infos'], obs['listing']))
        for row in obs['px']:
            print('          ' + ' '.join('%-4s' % NAMES_OF.get(c, '?') for c in row))
        r, acc_found, acc_comb, bad = validate_events(ctx, world, geoms, [event_json(req, cb, obs, geoms)], 'replay')
        print('Trace_Auth: %s by the model of the code as found, %s by the model with both limits applied; property on the observation: %s' % (
            'accepted' if acc_found else 'REJECTED', 'accepted' if acc_comb else 'REJECTED', 'VIOLATED' if bad else 'holds'))
        rc = 1 if bad or not (acc_found or acc_comb) else 0
        return rc
    finally:
        apps.close()
        shutil.rmtree(ctx.workdir, ignore_errors=True)
