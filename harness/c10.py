"""C10 - authorization is enforced: denied layers stay dark, limited areas are clipped.

spec/Auth.tla models what MapProxy does with one request under one result of the `mapproxy.authorize` callback
(WMS GetMap / GetFeatureInfo / GetCapabilities, TMS, KML, WMTS KVP / REST incl. WMTS GetFeatureInfo, the tile
capabilities), with limited_to areas on an integer lattice and every pixel classified exactly as inside / boundary
band / outside.  TLC enumerates (request, callback result) pairs for small universes, checks the property on the
model and prints the expected response of every pair; each pair is executed on the real WSGI application with
flat-colour synthetic upstreams and compared (spec -> code).  Random worlds / geometries / requests / callback results
are recorded from the real application and validated by TLC against spec/trace/Trace_Auth.tla, which also evaluates
the property on every recorded observation (code -> spec).

Oblique worlds (code -> spec only): the lattice model cannot see defects that need a limited_to SRS and a grid / request
SRS related by a transformation that bends straight lines.  Random requests (TMS, KML, WMTS incl. feature info, WMS GetMap /
GetFeatureInfo / capabilities) are therefore also recorded in worlds whose tile grid lives in EPSG:3995 (polar stereographic,
c10_world.FRAMES) under callback results whose areas are given natively in EPSG:4326 (OGeom).  For such an event the geometry
table of the model holds a "raster" entry per area: the class (out / band / in) of every pixel centre of the request, the class
of the feature-info point, and whether the area certainly meets the grid extent.  These geometric inputs are computed here
with pyproj point transforms and shapely only (outline densified in EPSG:4326, projected point by point; never with
mapproxy's coverage code); the decision - is the recorded response a terminal state of Auth.tla, does the observation
satisfy DeniedStaysDark / ClippedOutside / ContentInside / InfoGateOK - is TLC's.  A good share of the tile requests has the
border of the area running through the bulge of a curved tile edge with all four tile corners inside the area (where a
"contains" decision taken on the corner quadrilateral is wrong, seed s15); vacuity counters guard this.  Areas are handed to
MapProxy with densified edges (must satisfy the property) or, in 20% of the events, with their few vertices only (MapProxy
transforms geometries vertex by vertex, so the clip edge is a chord: violations are reported under their own signature
SPARSE_SIG).

Worlds with an SRS extent (both directions): the WMS service declares an extent for the request SRS and its alias code
(`services: wms: bbox_srs`, c10_world.World(ext=...)); a lattice rectangle whose edges are no multiples of the pixel sizes.
WMSServer.map answers a GetMap that does not meet the extent with a blank image before anything else happens (Auth.tla
OutsideExtent: no callback, no upstream request) and reduces a GetMap that reaches beyond the extent to the part inside
(bbox_position_in_image -> sub-query -> SubImageSource; Auth.tla Sub, SubClass, RenderAndMerge); GetFeatureInfo ignores the
extent.  The exhaustive instance `srs-extent` (boxes inside / across one, two, all four edges / outside; areas with borders
inside, outside and across the extent, per layer and request wide) is model checked in two variants: the reference whose
sub-image is not displaced satisfies the property, the model of the code as found (sub-image displaced by up to one output
pixel, masks drawn in the geometry of the sub-query) gives the table every pair is compared with on the real application
(png, every fourth GetMap also as jpeg, every third request under the alias code).  Responses that the model of the code
predicts, that the reference does not allow and on which the model violates the property are handed to TLC (Trace_Auth,
ClippedOutsideOn / ContentInsideOn on the observation): violations are reported under EXT_SIG.  Random GetMap (png, jpeg) /
GetFeatureInfo / tile requests of three such worlds are recorded and validated through Trace_Auth (ExactChoices = BOOLEAN for
GetMap reaching beyond the extent); vacuity counters guard that requests crossed the extent with a limit in force and that
blank answers occurred.
"""
import collections
import io
import json
import os
import re
import shutil
import time
import warnings

from engine import tlc, tla
from harness import c10_world as W

SPEC = os.path.join(tlc.SPEC_DIR, 'Auth.tla')
TRACE_SPEC = os.path.join(tlc.SPEC_DIR, 'trace', 'Trace_Auth.tla')
CODES = {'dark': 1, 'a': 2, 'b': 4, 'c': 8, 'g': 16}
NAMES_OF = {v: k for k, v in CODES.items()}
ACTIONS = ['OutsideExtent', 'CollectLayers', 'CallAuthorize', 'FilterActualLayers', 'RenderAndMerge', 'InfoGate', 'WmsCapabilities',
           'TileAuthorize', 'TileRender', 'TileInfoGate', 'TileDocument', 'TileCapabilities']
PROPERTY = ['DeniedStaysDark', 'ClippedOutside', 'ContentInside', 'InfoGateOK']
BASE_INV = ['TypeOK', 'StatusOK']
FD = tla.FrozenDict
TLC_WORKERS = 4


# ---------------------------------------------------------------------------------------------------------------
# geometry on the lattice
# ---------------------------------------------------------------------------------------------------------------
class Geom(object):
    """A rectilinear area: union of rectangles minus holes (lattice units), strictly inside W.WINDOW."""

    def __init__(self, rects, holes=()):
        self.rects = [tuple(r) for r in rects]
        self.holes = [tuple(r) for r in holes]
        wx0, wy0, wx1, wy1 = W.WINDOW
        for r in self.rects + self.holes:
            assert wx0 < r[0] < r[2] < wx1 and wy0 < r[1] < r[3] < wy1, r
        self.xs = sorted({wx0, wx1} | {r[0] for r in self.rects + self.holes} | {r[2] for r in self.rects + self.holes})
        self.ys = sorted({wy0, wy1} | {r[1] for r in self.rects + self.holes} | {r[3] for r in self.rects + self.holes})
        self.cells = set()
        for i in range(len(self.xs) - 1):
            for j in range(len(self.ys) - 1):
                cx, cy = self.xs[i] + self.xs[i + 1], self.ys[j] + self.ys[j + 1]     # doubled centre
                inside = any(2 * r[0] < cx < 2 * r[2] and 2 * r[1] < cy < 2 * r[3] for r in self.rects)
                if inside and not any(2 * r[0] < cx < 2 * r[2] and 2 * r[1] < cy < 2 * r[3] for r in self.holes):
                    self.cells.add((i + 1, j + 1))
        assert self.cells

    def tla(self):
        return FD(xs=tuple(2 * x for x in self.xs), ys=tuple(2 * y for y in self.ys), cells=frozenset(self.cells))

    def shape(self):
        from shapely.geometry import box
        from shapely.ops import unary_union
        return unary_union([box(self.xs[i - 1], self.ys[j - 1], self.xs[i], self.ys[j]) for i, j in sorted(self.cells)])

    def limited_to(self, form, srs):
        """the `limited_to` dictionary of the callback result: form bbox | wkt | lines | shapely, srs req | alias | geo"""
        g = self.shape()
        code = {'req': W.SRS, 'alias': W.SRS_ALIAS, 'geo': 'EPSG:4326'}[srs]
        if srs == 'geo':
            from mapproxy.srs import SRS
            from mapproxy.util.geom import transform_geometry
            g = transform_geometry(SRS(W.SRS), SRS(4326), g)
        if form == 'bbox' and len(self.rects) == 1 and not self.holes:
            return {'geometry': list(g.bounds), 'srs': code}
        if form == 'shapely':
            return {'geometry': g, 'srs': code}
        if form == 'lines' and g.geom_type == 'MultiPolygon':
            return {'geometry': '\n'.join(p.wkt for p in g.geoms), 'srs': code}
        return {'geometry': g.wkt, 'srs': code}

    def json(self):
        return {'rects': self.rects, 'holes': self.holes}


FORMS = [('bbox', 'req'), ('wkt', 'req'), ('shapely', 'alias'), ('lines', 'req'), ('wkt', 'alias'), ('shapely', 'req'),
         ('bbox', 'alias'), ('shapely', 'geo'), ('wkt', 'geo')]


# ---------------------------------------------------------------------------------------------------------------
# geometry of the oblique worlds: areas given natively in EPSG:4326, tile grid in a polar stereographic SRS
# ---------------------------------------------------------------------------------------------------------------
TRUE_EPS = 0.0005      # lattice units: chord error of the densified outline the pixel classes are computed from
DENSE_EPS = 0.02       # lattice units (= 0.02 px at the finest level): chord error of the "densified" geometries handed to MapProxy
TOL = 0.02             # pixels: guard band around the one-pixel threshold / around "exactly on the boundary"
O_WINDOW = (-89.0, 40.0, 89.0, 89.5)      # lon/lat window of the half-plane like areas (contains the whole grid of both frames)


def _densify_ring(frame, coords, eps):
    """vertices (lon, lat) of a closed ring -> (lon/lat vertices, lattice vertices) with every edge subdivided IN EPSG:4326
    until the projected outline deviates less than eps lattice units from the projected straight lon/lat edge"""
    import numpy as np
    lls, lat_pts = [], []
    for (x0, y0), (x1, y1) in zip(coords[:-1], coords[1:]):
        n = 4
        while True:
            t = np.linspace(0.0, 1.0, 2 * n + 1)
            lon, lat = x0 + (x1 - x0) * t, y0 + (y1 - y0) * t
            px, py = W.lonlat_to_lattice(frame, lon, lat)
            mx, my = (px[0:-2:2] + px[2::2]) / 2.0, (py[0:-2:2] + py[2::2]) / 2.0
            dev = float(np.max(np.hypot(px[1::2] - mx, py[1::2] - my)))
            if dev < eps or n >= 1 << 15:
                break
            n *= 2
        lls.extend(zip(lon[:-1].tolist(), lat[:-1].tolist()))
        lat_pts.extend(zip(px[:-1].tolist(), py[:-1].tolist()))
    lls.append(lls[0])
    lat_pts.append(lat_pts[0])
    return lls, lat_pts


def _polygons(g):
    return [g] if g.geom_type == 'Polygon' else [p for p in getattr(g, 'geoms', []) if p.geom_type == 'Polygon']


def _densified(frame, g, eps):
    """-> (the same area of the lon/lat plane with densified edges, its image in lattice coordinates)"""
    from shapely.geometry import Polygon, MultiPolygon
    ll, lt = [], []
    for p in _polygons(g):
        rings = [_densify_ring(frame, list(p.exterior.coords), eps)] + [_densify_ring(frame, list(r.coords), eps) for r in p.interiors]
        ll.append(Polygon(rings[0][0], [r[0] for r in rings[1:]]))
        lt.append(Polygon(rings[0][1], [r[1] for r in rings[1:]]))
    if len(ll) == 1:
        return ll[0], lt[0]
    return MultiPolygon(ll), MultiPolygon(lt)


class OGeom(object):
    """A limited_to area of an oblique world: a (multi)polygon of the lon/lat plane (EPSG:4326, straight edges between
    its vertices).  `sparse`: handed to MapProxy with these few vertices (a rectangle possibly as 4 numbers), otherwise
    with densified edges (same area).  The pixel classes of a request are computed here, independently of MapProxy's
    coverage code: pyproj point transforms of the finely densified outline + shapely distances in grid SRS units."""

    def __init__(self, frame, g, sparse, rect=None):
        self.frame, self.g, self.sparse, self.rect = frame, g, bool(sparse), (tuple(rect) if rect else None)
        self._true = None
        self._dense = None

    def true(self):
        if self._true is None:
            t = _densified(self.frame, self.g, TRUE_EPS)[1]
            if not t.is_valid:
                raise tlc.MachineryError('projected limited_to area is not a valid polygon: %s' % self.g.wkt[:300])
            self._true = t
        return self._true

    def limited_to(self, form, srs):
        g = self.g
        if self.sparse:
            if self.rect and form == 'bbox':
                return {'geometry': list(self.rect), 'srs': 'EPSG:4326'}
        else:
            if self._dense is None:
                self._dense = _densified(self.frame, self.g, DENSE_EPS)[0]
            g = self._dense
        if form == 'shapely':
            return {'geometry': g, 'srs': 'EPSG:4326'}
        if form == 'lines' and g.geom_type == 'MultiPolygon':
            return {'geometry': '\n'.join(p.wkt for p in g.geoms), 'srs': 'EPSG:4326'}
        return {'geometry': g.wkt, 'srs': 'EPSG:4326'}

    def json(self):
        return {'frame': self.frame, 'wkt4326': self.g.wkt, 'sparse': self.sparse, 'rect': list(self.rect) if self.rect else None}

    @staticmethod
    def from_json(d):
        from shapely import wkt
        return OGeom(d['frame'], wkt.loads(d['wkt4326']), d['sparse'], d.get('rect'))

    # ---- the geometric inputs of the model --------------------------------------------------------------
    def _local(self, rect, margin):
        from shapely.geometry import box
        win = box(rect[0] - margin, rect[1] - margin, rect[2] + margin, rect[3] + margin)
        t = self.true()
        return t.intersection(win), win.difference(t)

    def classes(self, bx):
        """class of every pixel centre of the request box (x0, y0, rx, ry, w, h): 0 out, 1 band, 2 in (rows top down);
        distances in lattice (= grid SRS) units against max(rx, ry) like One2 in Auth.tla; a pixel within TOL of the
        one-pixel threshold is "band" """
        import numpy as np
        import shapely
        x0, y0, rx, ry, w, h = bx
        m = float(max(rx, ry))
        inside, outside = self._local((x0, y0, x0 + w * rx, y0 + h * ry), 3 * m)
        cx = x0 + (np.arange(w) + 0.5) * rx
        cy = y0 + h * ry - (np.arange(h) + 0.5) * ry
        pts = shapely.points(*np.meshgrid(cx, cy))
        d_out = shapely.distance(pts, inside) if not inside.is_empty else np.full(pts.shape, np.inf)
        d_in = shapely.distance(pts, outside) if not outside.is_empty else np.full(pts.shape, np.inf)
        thr = (1.0 + TOL) * m
        cls = np.where(d_out > thr, 0, np.where(d_in > thr, 2, 1))
        signed = np.where(d_out > 0, d_out, -d_in) / m          # pixels outside (+) / inside (-), for the reports only
        return cls.tolist(), signed

    def point_class(self, x, y, m):
        from shapely.geometry import Point
        inside, outside = self._local((x, y, x, y), 3 * m)
        p = Point(x, y)
        if inside.is_empty or inside.distance(p) > TOL * m:
            return 'out'
        if outside.is_empty or outside.distance(p) > TOL * m:
            return 'in'
        return 'edge'

    def grid_fact(self, world):
        """does the area certainly meet the extent of the tile grid as MapProxy tests it (the lon/lat envelope of points
        on the outline of the extent)?  "yes" when it contains a corner or an edge midpoint of the extent, else "maybe" """
        from shapely.geometry import Point
        x0, y0, x1, y1 = world.grid['bbox']
        t = self.true()
        for x, y in ((x0, y0), (x1, y0), (x1, y1), (x0, y1), ((x0 + x1) / 2.0, y0), ((x0 + x1) / 2.0, y1), (x0, (y0 + y1) / 2.0),
                     (x1, (y0 + y1) / 2.0)):
            p = Point(x, y)
            if t.contains(p) and t.boundary.distance(p) > 0.5:
                return 'yes'
        return 'maybe'


# the catalogue of the exhaustive instances.  The requests look at the area x 60..180, y 470..580 (tile (2, 2) of
# level 2 is x 80..120, y 520..560; tile (1, 1) of level 1 is x 80..160, y 480..560)
CATALOGUE = {
    'Ghalf': Geom([(-300, -300, 100, 940)]),                            # edge on a pixel boundary of every level
    'Goff': Geom([(93, 507, 133, 547)]),                                # edges at .3 / .7 of a 10-unit pixel
    'Gring': Geom([(60, 470, 170, 580)], holes=[(95, 515, 125, 545)]),  # polygon with a hole
    'Gfar': Geom([(1000, 100, 1100, 200)]),                             # disjoint from every request
    'Gtouch': Geom([(120, 400, 300, 520)]),                             # touches tile (2, 2) of level 2 in one corner
    'Gdiag': Geom([(80, 520, 100, 540), (100, 540, 120, 560)]),         # two parts touching in a corner
    'Gall': Geom([(-100, -100, 1380, 740)]),                            # contains the whole grid
    'Gtop': Geom([(-300, 535, 1500, 940)]),                             # upper part: crosses Ghalf
    'Gedge': Geom([(1280, 100, 1400, 300)]),                            # touches the grid extent from outside
}


def make_callback(cb, geoms, variant, calls):
    """the real callback returning the result described by the (parsed) TLA record cb"""
    def lim(gid, k):
        form, srs = FORMS[(variant + k) % len(FORMS)]
        return geoms[gid].limited_to(form, srs)
    result = {'authorized': str(cb['authorized'])}
    if result['authorized'] == 'partial':
        result['layers'] = {}
        for k, (n, e) in enumerate(sorted(cb['layers'].items())):
            d = {}
            for flag in ('map', 'featureinfo', 'tile'):
                if e[flag]:
                    d[flag] = True
                elif (variant + k) % 2:
                    d[flag] = False          # otherwise the key is absent
            if e['lim'] != 'none':
                d['limited_to'] = lim(str(e['lim']), k)
            result['layers'][str(n)] = d
        if cb['glob'] != 'none':
            result['limited_to'] = lim(str(cb['glob']), 7)

    def callback(service, layers, environ=None, query_extent=None, **kw):
        calls.append((service, list(layers), query_extent))
        return result
    return callback


# ---------------------------------------------------------------------------------------------------------------
# requests
# ---------------------------------------------------------------------------------------------------------------
def mkreq(f, ls=(), expl=None, box=(0, 0, 1, 1, 1, 1), pos=(0, 0), lay='-', tile=(0, 0, 0)):
    ls = tuple(ls)
    return FD(f=f, ls=ls, expl=frozenset(ls if expl is None else expl), box=tuple(box), pos=tuple(pos), lay=lay, tile=tuple(tile))


def norm_req(r):
    return mkreq(str(r['f']), [str(x) for x in r['ls']], [str(x) for x in r['expl']], [int(x) for x in r['box']],
                 [int(x) for x in r['pos']], str(r['lay']), [int(x) for x in r['tile']])


def norm_cb(c):
    layers = c['layers'] if isinstance(c['layers'], dict) else {}
    return FD(authorized=str(c['authorized']), glob=str(c['glob']),
              layers=FD({str(n): FD(map=bool(e['map']), featureinfo=bool(e['featureinfo']), tile=bool(e['tile']), lim=str(e['lim']))
                         for n, e in layers.items()}))


def case_key(req, cb):
    return json.dumps([tla.jsonable(req), tla.jsonable(cb)], sort_keys=True)


def tile_rows(world, z):
    gb, res, ts = world.grid['bbox'], world.grid['res'], world.grid['tile_size']
    return (gb[3] - gb[1]) // (res[z] * ts[1])


def url_of(world, r, fmt='png', version='1.1.1'):
    """fmt: png | jpeg, with the suffix +alias the WMS request names the alias code of the request SRS (same-SRS worlds)"""
    f = r['f']
    x0, y0, rx, ry, w, h = r['box']
    fmt, _, srs_variant = fmt.partition('+')
    if f in ('wms.map', 'wms.fi'):
        base = ('/service?SERVICE=WMS&VERSION=1.1.1&STYLES=&SRS=%s&BBOX=%d,%d,%d,%d&WIDTH=%d&HEIGHT=%d' % (
            W.SRS_ALIAS if srs_variant == 'alias' and not world.frame else world.srs, world.sx(x0), world.sy(y0), world.sx(x0 + w * rx), world.sy(y0 + h * ry), w, h))
        if f == 'wms.map':
            return base + '&REQUEST=GetMap&LAYERS=%s&FORMAT=image/%s&TRANSPARENT=%s' % (
                ','.join(r['ls']), fmt, 'true' if fmt == 'png' else 'false')
        return base + ('&REQUEST=GetFeatureInfo&FORMAT=image/png&LAYERS=%s&QUERY_LAYERS=%s&X=%d&Y=%d&INFO_FORMAT=text/plain' % (
            ','.join(sorted(r['expl'])), ','.join(r['ls']), r['pos'][0], r['pos'][1]))
    if f == 'wms.caps':
        return '/service?SERVICE=WMS&REQUEST=GetCapabilities&VERSION=1.1.1'
    if f == 'tms.caps':
        return '/tms/1.0.0/'
    if f == 'wmts.caps':
        return '/wmts/1.0.0/WMTSCapabilities.xml'
    lay = r['lay']
    z, col, row = r['tile']
    tfmt = 'jpeg' if world.kinds[lay] == 'cachej' else 'png'
    y = tile_rows(world, z) - 1 - row
    if f == 'tms':
        return '/tms/1.0.0/%s/%s/%d/%d/%d.%s' % (lay, world.srs_path, z, col, y, tfmt)
    if f == 'tms.layer':
        return '/tms/1.0.0/%s/%s' % (lay, world.srs_path)
    if f == 'kml':
        return '/kml/%s/%s/%d/%d/%d.%s' % (lay, world.srs_path, z, col, y, tfmt)
    if f == 'kml.doc':
        return '/kml/%s/%s/%d/%d/%d.kml' % (lay, world.srs_path, z, col, y)
    if f == 'wmts.rest':
        return '/wmts/%s/g/%02d/%d/%d.%s' % (lay, z, col, row, tfmt)
    if f == 'wmts.kvp':
        return ('/service?SERVICE=WMTS&REQUEST=GetTile&VERSION=1.0.0&LAYER=%s&STYLE=&TILEMATRIXSET=g&TILEMATRIX=%02d'
                '&TILECOL=%d&TILEROW=%d&FORMAT=image/%s' % (lay, z, col, row, tfmt))
    if f == 'wmts.fi.rest':
        return '/wmts/%s/g/%02d/%d/%d/%d/%d.txt' % (lay, z, col, row, r['pos'][0], r['pos'][1])
    if f == 'wmts.fi.kvp':
        return ('/service?SERVICE=WMTS&REQUEST=GetFeatureInfo&VERSION=1.0.0&LAYER=%s&STYLE=&TILEMATRIXSET=g&TILEMATRIX=%02d'
                '&TILECOL=%d&TILEROW=%d&FORMAT=image/%s&INFOFORMAT=text/plain&I=%d&J=%d' % (
                    lay, z, col, row, tfmt, r['pos'][0], r['pos'][1]))
    raise ValueError(f)


SERVICE_STRING = {'wms.map': 'wms.map', 'wms.fi': 'wms.featureinfo', 'wms.caps': 'wms.capabilities', 'tms': 'tms',
                  'tms.layer': 'tms', 'tms.caps': 'tms', 'kml': 'kml', 'kml.doc': 'kml', 'wmts.kvp': 'wmts', 'wmts.rest': 'wmts',
                  'wmts.caps': 'wmts', 'wmts.fi.kvp': 'wmts.featureinfo', 'wmts.fi.rest': 'wmts.featureinfo'}
IMAGE_FEATURES = ('wms.map', 'tms', 'kml', 'wmts.kvp', 'wmts.rest')


def ext_relation(world, box):
    """the box of a WMS GetMap against the SRS extent of the world, as WMSServer.map decides (Auth.tla ExtContains, ExtMeets,
    Sub) -> ('none' | 'inside' | 'blank' | 'clipped', (l, r, t, bt) pixel rectangle of the pasted sub-image or None)"""
    e = world.ext
    if not e:
        return 'none', None
    x0, y0, rx, ry, w, h = box
    x1, y1 = x0 + w * rx, y0 + h * ry
    if e[0] <= x0 and e[1] <= y0 and x1 <= e[2] and y1 <= e[3]:
        return 'inside', None
    if not (e[0] < x1 and e[2] > x0 and e[1] < y1 and e[3] > y0):
        return 'blank', None
    return 'clipped', ((e[0] - x0) // rx if e[0] > x0 else 0, (e[2] - x0) // rx if e[2] < x1 else w,
                       (y1 - e[3]) // ry if e[3] < y1 else 0, (y1 - e[1]) // ry if e[1] > y0 else h)


def classify_pixels(body, lossy_ok):
    from PIL import Image
    im = Image.open(io.BytesIO(body))
    lossy = im.format == 'JPEG'
    opaque_bg = im.mode in ('RGB', 'L') or lossy
    im = im.convert('RGBA')
    wpx, hpx = im.size
    data = list(im.getdata())
    tol = 40 if lossy else 0
    palette = [(CODES[n], c) for n, c in W.COLOURS.items()]
    rows = []
    for j in range(hpx):
        row = []
        for i in range(wpx):
            r, g, b, a = data[j * wpx + i]
            code = 0
            if a == 0:
                code = 1
            elif a == 255:
                for cd, c in palette:
                    if abs(r - c[0]) <= tol and abs(g - c[1]) <= tol and abs(b - c[2]) <= tol:
                        code = cd
                        break
                else:
                    if opaque_bg and all(abs(v - w_) <= tol for v, w_ in zip((r, g, b), W.BG)):
                        code = 1
            row.append(code)
        rows.append(row)
    return rows, lossy


def observe(world, app, r, cbrec, geoms, variant, fmt='png'):
    """execute one request on the real application -> observation"""
    calls = []
    callback = make_callback(cbrec, geoms, variant, calls)
    url = url_of(world, r, fmt)
    with warnings.catch_warnings():
        warnings.simplefilter('ignore')
        resp, log, unknown = app.get(url, callback)
    f = r['f']
    obs = {'status': resp.status_int, 'ups': sorted({n for n, k in log}), 'px': [], 'infos': [], 'listing': [], 'lossy': False,
           'problems': list(unknown), 'url': url, 'ctype': resp.content_type or ''}
    kinds = {k for n, k in log}
    if kinds - ({'fi'} if f in ('wms.fi', 'wmts.fi.kvp', 'wmts.fi.rest') else {'map'}):
        obs['problems'].append('upstream requests of the wrong kind: %s' % sorted(log))
    if f == 'wms.map' and ext_relation(world, r['box'])[0] == 'blank':
        # the BBOX does not meet the extent of the request SRS: answered before the callback is asked (Auth.tla OutsideExtent)
        if calls:
            obs['problems'].append('callback called %d times for a request outside the SRS extent' % len(calls))
    elif len(calls) != 1:
        obs['problems'].append('callback called %d times' % len(calls))
    elif calls[0][0] != SERVICE_STRING[f]:
        obs['problems'].append('callback called for service %r' % calls[0][0])
    if resp.status_int == 200:
        ct = obs['ctype']
        body = resp.body
        if f in IMAGE_FEATURES:
            if not ct.startswith('image/'):
                obs['problems'].append('content type %s' % ct)
            else:
                obs['px'], obs['lossy'] = classify_pixels(body, not fmt.startswith('png'))
        elif f in ('wms.fi', 'wmts.fi.kvp', 'wmts.fi.rest'):
            obs['infos'] = sorted(set(re.findall(r'info:(\w+)', body.decode('utf8', 'replace'))))
        elif f == 'wms.caps':
            obs['listing'] = sorted(set(re.findall(r'<Layer[^>]*>\s*<Name>([^<]*)</Name>', body.decode('utf8', 'replace'))))
        elif f == 'tms.caps':
            # a layer counts as listed when ALL its tile sets are (every cached layer has two: the grid of the world and
            # W.SECOND_GRID); a layer with some of them shows as '<name>#incomplete'
            sets = {}
            for lay, grid in re.findall(r'href="[^"]*/tms/1\.0\.0/([^/"]+)/([^/"]+)"', body.decode('utf8', 'replace')):
                sets.setdefault(lay, set()).add(grid)
            obs['listing'] = sorted(lay if len(g) == 1 + len(W.SECOND_GRID) else lay + '#incomplete' for lay, g in sets.items())
        elif f == 'wmts.caps':
            obs['listing'] = sorted(set(re.findall(r'<Layer>\s*<ows:Title>[^<]*</ows:Title>\s*<ows:Abstract>[^<]*</ows:Abstract>'
                                                   r'(?:\s*<ows:WGS84BoundingBox>.*?</ows:WGS84BoundingBox>)?'
                                                   r'\s*<ows:Identifier>([^<]*)</ows:Identifier>', body.decode('utf8', 'replace'), re.S)))
        elif f in ('kml.doc', 'tms.layer'):
            obs['listing'] = [r['lay']]
    return obs


def compare(out, obs):
    """-> list of (what, detail) the observation is not allowed by the response record `out` of the spec"""
    bad = []
    if obs['problems']:
        bad.append(('harness', '; '.join(obs['problems'])[:200]))
    if obs['status'] != out['status']:
        bad.append(('status', 'answered %s, the spec says %s' % (obs['status'], out['status'])))
        return bad
    for key, what in (('ups', 'upstream'), ('info', 'info'), ('list', 'listing')):
        seen = set(obs[{'ups': 'ups', 'info': 'infos', 'list': 'listing'}[key]])
        must, may = {str(x) for x in out[key + '_must']}, {str(x) for x in out[key + '_may']}
        if seen - may:
            bad.append((what, 'unexpected-%s' % '+'.join(sorted(seen - may))))
        if must - seen:
            bad.append((what, 'missing-%s' % '+'.join(sorted(must - seen))))
    px = out['px']
    if len(px) != len(obs['px']) or any(len(a) != len(b) for a, b in zip(px, obs['px'])):
        bad.append(('pixels', 'image size %dx%d, expected %dx%d' % (len(obs['px'][0]) if obs['px'] else 0, len(obs['px']),
                                                                    len(px[0]) if px else 0, len(px))))
        return bad
    kinds = set()
    where = None
    for j, (erow, orow) in enumerate(zip(px, obs['px'])):
        for i, (m, c) in enumerate(zip(erow, orow)):
            if c and (m // c) % 2 == 1:
                continue
            if c == 0 and obs['lossy'] and not smooth(px, i, j):
                continue
            where = where or (i, j, m, c)
            if c == 0:
                kinds.add('unknown-colour')
            elif c == 1:
                kinds.add('dark-where-content-required')
            elif m == 1:
                kinds.add('content-where-dark-required')
            else:
                kinds.add('wrong-layer')
    if kinds:
        i, j, m, c = where
        bad.append(('pixels', '+'.join(sorted(kinds)) + ' (first at pixel %d,%d: saw %s, allowed %s)' % (
            i, j, NAMES_OF.get(c, 'other'), [n for n, cd in CODES.items() if (m // cd) % 2])))
    return bad


def smooth(px, i, j):
    """Trace_Auth.tla Smooth: the allowed values are one and the same single value in the 5x5 neighbourhood (jpeg answers:
    an unclassifiable colour is accepted elsewhere)"""
    m = px[j][i]
    if m not in (1, 2, 4, 8, 16):
        return False
    return all(px[jj][ii] == m for jj in range(max(0, j - 2), min(len(px), j + 3)) for ii in range(max(0, i - 2), min(len(px[j]), i + 3)))


def family(f):
    return f.split('.')[0]


DEFECT_SIG = {'kind': 'request-limit-ignored', 'where': 'authorize_tile_layer',
              'cause': 'layer-limited_to-takes-precedence-over-request-limited_to'}
DEFECT_TEXT = ('the request-wide limited_to is not applied when the layer has a limited_to of its own (pixels / feature info '
               'outside the request-wide area are served)')
# WMS GetMap reaching beyond the extent of the request SRS (services: wms: bbox_srs): the part inside the extent is rendered
# as a sub-query squeezed into a pixel rectangle with int()-truncated offsets and pasted, the limited_to masks are drawn in
# the geometry of the sub-query: content up to about 1.3 output pixels outside the permitted area
EXT_SIG = {'kind': 'srs-extent', 'cause': 'clipped-sub-image-displaced-up-to-one-pixel'}
EXT_TEXT = ('the part of the request inside the SRS extent is rendered as a sub-query whose pixel grid is displaced by up to one output '
            'pixel (bbox_position_in_image truncates the offsets, SubImageSource pastes at whole pixels) and the limited_to masks are '
            'drawn in that geometry: content is visible more than one output pixel outside the permitted area')


# ---------------------------------------------------------------------------------------------------------------
# TLC
# ---------------------------------------------------------------------------------------------------------------
class Instance(object):
    """one exhaustive instance: a world + request universe + callback universe"""

    def __init__(self, name, world, requests, auth, perms, lims, globs, entries, geoms=None, variants=('found',)):
        """variants: ('found',) | ('found', 'repaired') (tile services: both limits applied) | ('found', 'exact') (world with
        an SRS extent: the reference model whose sub-image is not displaced)"""
        self.name, self.world, self.requests = name, world, requests
        self.auth, self.perms, self.lims, self.globs, self.entries = auth, perms, lims, globs, entries
        self.geoms = geoms or CATALOGUE
        self.variants = variants
        self.other = 'repaired' if 'repaired' in variants else 'exact' if 'exact' in variants else None
        self.defect_sig, self.defect_text = (EXT_SIG, EXT_TEXT) if self.other == 'exact' else (DEFECT_SIG, DEFECT_TEXT)

    def consts(self, combine, exact=False):
        w = self.world
        kinds = FD((n, k) for n, k in w.kinds.items())
        root = tuple(n for n in w.names if n not in w.group) + (('g',) if w.group else ())
        return dict(Kinds=kinds, Root=root, Group=tuple(w.group),
                    GeomTab=FD((k, g.tla()) for k, g in self.geoms.items()),
                    GridBox=tuple(w.grid['bbox']), GridRes=tuple(w.grid['res']), TileSize=tuple(w.grid['tile_size']),
                    CombineChoices=(frozenset([True, False]) if combine is None else frozenset([bool(combine)])),
                    Ext=tuple(w.ext) if w.ext else (),
                    ExactChoices=(frozenset([True, False]) if exact is None else frozenset([bool(exact)])), Requests=frozenset(self.requests), AuthKinds=frozenset(self.auth),
                    PermOpts=frozenset(FD(map=m, featureinfo=f, tile=t) for m, f, t in self.perms),
                    LimIds=frozenset(self.lims), GlobIds=frozenset(self.globs), EntryNames=frozenset(self.entries))


def world_root(w):
    return tuple(n for n in w.names if n not in w.group) + (('g',) if w.group else ())


def run_model(ctx, inst, combine, invariants, emit, label, timeout=1500, exact=False):
    d = ctx.sub('mc-%s-%s' % (inst.name, label))
    mp, cp = tlc.write_mc(d, 'Auth', 'MC_Auth', inst.consts(combine, exact), invariants=list(invariants) + (['Emit'] if emit else []))
    r = tlc.run(mp, cp, d, workers=TLC_WORKERS, timeout=timeout, coverage=False)
    ctx.log('TLC %s/%s: %d states, %s  [%.0fs]' % (inst.name, label, r.distinct,
                                                 'violates ' + r.violated if r.violated else ('ok' if r.ok else r.error), r.wall))
    return r


def cases_of(r):
    """printed terminal states -> {key: (req, cb, out, pruned, property holds on out, path)}"""
    table = {}
    for pr in tlc.find_prints(r.out, 'case'):
        _, req, cb, out, pruned, prop, path = pr
        req, cb = norm_req(req), norm_cb(cb)
        table[case_key(req, cb)] = (req, cb, out, bool(pruned), bool(prop), tuple(str(a) for a in path))
    return table


def vacuity_guard(name, inst, r, table, need):
    """every (request, callback result) pair reaches exactly one terminal state (no stuck state, no branching), and every
    action the instance is meant to exercise was taken (action coverage from the recorded paths)"""
    nentry = (1 + len(inst.perms) * len(inst.lims)) ** len(inst.entries)
    ncb = len([a for a in inst.auth if a != 'partial']) + (nentry * len(inst.globs) if 'partial' in inst.auth else 0)
    expected = ncb * len(set(inst.requests))
    if len(table) != expected:
        raise tlc.MachineryError('%s: %d terminal states printed for %d (request, callback result) pairs' % (name, len(table), expected))
    if r.distinct != sum(len(v[5]) + 1 for v in table.values()):
        raise tlc.MachineryError('%s: %d states, but the printed paths account for %d' % (
            name, r.distinct, sum(len(v[5]) + 1 for v in table.values())))
    cov = {}
    for v in table.values():
        for a in v[5]:
            cov[a] = cov.get(a, 0) + 1
    r.coverage = {a: (n, n) for a, n in cov.items()}
    for a in need:
        if cov.get(a, 0) == 0:
            raise tlc.MachineryError('%s: action %s was never taken (coverage %r)' % (name, a, cov))


def table_guard(name, table):
    """the table must contain the situations the property speaks about (non-vacuity of the invariants)"""
    seen = set()
    for req, cb, out, pruned, prop, path in table.values():
        seen.add('status%d' % out['status'])
        f = req['f']
        for row in out['px']:
            for m in row:
                if cb['authorized'] == 'partial':
                    seen.add(family(f) + (':dark' if m == 1 else ':content' if m in (2, 4, 8, 16) else ':band'))
        if f in ('wms.fi', 'wmts.fi.kvp', 'wmts.fi.rest') and out['status'] == 200 and cb['authorized'] == 'partial':
            seen.add(family(f) + (':info' if out['info_must'] else ':noinfo'))
    return seen


# ---------------------------------------------------------------------------------------------------------------
# the exhaustive instances
# ---------------------------------------------------------------------------------------------------------------
ALLPERMS = [(m, f, t) for m in (False, True) for f in (False, True) for t in (False, True)]
S_TILE = (80, 520, 10, 10, 4, 4)          # the box of tile (2, 2, 2)
S_OFF = (75, 505, 10, 10, 6, 5)           # not aligned with the geometries
S_COARSE = (70, 490, 20, 20, 5, 4)
S_WIDE = (40, 500, 10, 10, 12, 6)


# the world with an SRS extent: edges that are no multiples of the pixel sizes in use, inside the tile grid (cached layers have
# content everywhere in the extent).  Boxes around its lower left corner (37, 43), its upper right corner (907, 431)
EXT = (37, 43, 907, 431)
X_IN = (60, 60, 10, 10, 6, 5)                 # inside
X_L = (0, 60, 10, 10, 8, 5)                   # across the left edge: columns 3 .. 7 are pasted (37 / 10 = 3.7)
X_LB = (-2, 2, 20, 20, 8, 5)                  # left and lower edge: columns 1 .. 7, rows 0 .. 1 (39 / 20 = 1.95, 59 / 20 = 2.95)
X_ALL = (-100, -60, 100, 100, 12, 6)          # all four edges: columns 1 .. 9, rows 1 .. 3
X_OUT = (1000, 100, 10, 10, 4, 4)             # outside: blank
X_RT = (860, 390, 13, 7, 6, 8)                # right and upper edge, pixels not square: columns 0 .. 2, rows 2 .. 7
X_TOUCH = (907, 100, 10, 10, 4, 4)            # touches the right edge from outside: blank
X_B = (100, 42, 33, 33, 4, 5)                 # lower edge: rows 0 .. 3 (164 / 33 = 4.97 rows inside are squeezed into 4)
X_LR = (-50, 100, 125, 25, 9, 4)              # left and right edge
EXT_CATALOGUE = {
    'Xright': Geom([(50, -300, 1500, 940)]),                            # border inside the extent, 13 units from its left edge
    'Xlow': Geom([(-300, -300, 1500, 53)]),                             # border inside the extent, 10 units above its lower edge
    'Xcross': Geom([(10, 50, 70, 90)]),                                 # across the left edge of the extent
    'Xout': Geom([(-50, -50, 30, 40)]),                                 # outside the extent, inside some requests
    'Xring': Geom([(45, 50, 140, 100)], holes=[(70, 60, 100, 80)]),     # inside the extent, with a hole
    'Xbig': Geom([(-200, -200, 1400, 800)]),                            # contains the extent
}


def instances(tier):
    thorough = tier == 'thorough'
    out = []
    # E1: one cached layer, every service
    w1 = W.World({'b': 'cache', 'c': 'cachej'}, group=())
    tiles = [(2, 2, 2), (1, 1, 1), (0, 0, 0), (2, 3, 2)] + ([(2, 2, 3), (1, 0, 1), (2, 30, 2)] if thorough else [])
    fipos = [(0, 0), (1, 1), (2, 2), (3, 1)] + ([(1, 3), (3, 3), (2, 1)] if thorough else [])

    def tile_requests(lay, full):
        rs = [mkreq('tms', lay=lay, tile=t) for t in tiles]
        rs += [mkreq(f, lay=lay, tile=t) for f in ('kml', 'wmts.kvp', 'wmts.rest') for t in (tiles if full and thorough else tiles[:2])]
        if full:
            rs += [mkreq(f, lay=lay, tile=(2, 2, 2), pos=p) for f in ('wmts.fi.kvp', 'wmts.fi.rest') for p in fipos]
            rs += [mkreq(f, lay=lay, tile=(1, 1, 1)) for f in ('tms.layer', 'kml.doc')]
            rs += [mkreq('tms.caps'), mkreq('wmts.caps')]
        return rs
    reqs = tile_requests('b', True)
    reqs += [mkreq('wms.map', ['b'], box=s) for s in ((S_TILE, S_OFF, S_COARSE) + ((S_WIDE,) if thorough else ()))]
    reqs += [mkreq('wms.fi', ['b'], box=S_TILE, pos=p) for p in fipos]
    reqs += [mkreq('wms.caps')]
    lims = ['none', 'Ghalf', 'Goff', 'Gring', 'Gfar'] + (['Gtouch', 'Gdiag', 'Gall'] if thorough else [])
    globs = ['none', 'Gtop', 'Gtouch', 'Gdiag'] + (['Goff', 'Gall', 'Gedge'] if thorough else [])
    out.append(Instance('one-layer', w1, reqs, ['full', 'none', 'unauthenticated', 'partial'], ALLPERMS, lims, globs, ['b'],
                        variants=('found', 'repaired')))
    out.append(Instance('jpeg-tiles', w1, tile_requests('c', False) + [mkreq('wms.map', ['c'], box=S_OFF), mkreq('wms.map', ['b', 'c'], box=S_OFF)],
                        ['full', 'partial'], [(True, True, True), (True, False, False), (False, False, True)],
                        ['none', 'Ghalf', 'Goff', 'Gdiag'], ['none', 'Gtop'], ['c'], variants=('found', 'repaired')))
    # E2: two layers, WMS
    w2 = W.World({'a': 'wmsT', 'b': 'cache'}, group=())
    seqs = [('a',), ('b',), ('a', 'b'), ('b', 'a')]
    reqs = [mkreq('wms.map', s, box=bx) for s in seqs for bx in (S_OFF, S_COARSE)]
    reqs += [mkreq('wms.fi', s, box=S_TILE, pos=p) for s in seqs for p in ((1, 1), (3, 1))]
    reqs += [mkreq('wms.fi', ['a'], expl=['b'], box=S_TILE, pos=(1, 1)), mkreq('wms.caps')]
    perms = [(True, False, False), (False, True, False), (True, True, True)] + ([(False, False, True), (False, False, False)] if thorough else [])
    out.append(Instance('two-layers', w2, reqs, ['full', 'none', 'unauthenticated', 'partial'], perms,
                        ['none', 'Ghalf', 'Gring'] + (['Goff'] if thorough else []), ['none', 'Gtop'] + (['Gdiag'] if thorough else []), ['a', 'b']))
    # E3: three layers with a group
    w3 = W.World({'a': 'wmsT', 'b': 'cache', 'c': 'cachej'})
    seqs = [('g',), ('a', 'g'), ('g', 'a'), ('b',), ('a', 'c'), ('g', 'b'), ('c', 'b', 'a')]
    reqs = [mkreq('wms.map', s, box=S_OFF) for s in seqs] + [mkreq('wms.fi', s, box=S_TILE, pos=(1, 1)) for s in seqs]
    reqs += [mkreq('wms.fi', ['g'], box=S_TILE, pos=(3, 1)), mkreq('wms.caps')]
    out.append(Instance('group', w3, reqs, ['full', 'none', 'partial'], [(True, True, False)] + ([(True, False, False)] if thorough else []),
                        ['none', 'Ghalf'], ['none', 'Gtop'], ['a', 'b', 'c', 'g']))
    # E4: an opaque layer on top (pruning below opaque layers precedes authorization)
    w4 = W.World({'a': 'wmsT', 'b': 'wmsO', 'c': 'cache'}, group=())
    seqs = [('a', 'b'), ('b', 'a'), ('a', 'b', 'c'), ('c', 'a', 'b'), ('b',)]
    reqs = [mkreq('wms.map', s, box=S_OFF) for s in seqs] + [mkreq('wms.fi', ('a', 'b'), box=S_TILE, pos=(1, 1)), mkreq('wms.caps')]
    out.append(Instance('opaque', w4, reqs, ['full', 'none', 'partial'], [(True, True, False)] + ([(False, True, False)] if thorough else []),
                        ['none', 'Ghalf', 'Gring'], ['none', 'Gtop'], ['a', 'b', 'c']))
    # E5: the group layer has sources of its own (then it is one layer for the authorization) and an opaque member
    w5 = W.World({'a': 'wmsT', 'b': 'wmsO'}, group=('b',), group_this='cache')
    seqs = [('g',), ('a', 'g'), ('g', 'a'), ('a', 'b'), ('b', 'g')]
    reqs = [mkreq('wms.map', s, box=S_OFF) for s in seqs] + [mkreq('wms.fi', s, box=S_TILE, pos=(1, 1)) for s in seqs[:3]] + [mkreq('wms.caps')]
    reqs += [mkreq('tms', lay='g', tile=(2, 2, 2)), mkreq('wmts.fi.rest', lay='g', tile=(2, 2, 2), pos=(1, 1)), mkreq('tms.caps')]
    out.append(Instance('group-with-sources', w5, reqs, ['full', 'partial'], [(True, True, True)] + ([(True, False, False), (False, False, True)] if thorough else []),
                        ['none', 'Goff'], ['none', 'Gtop'], ['a', 'b', 'g'], variants=('found', 'repaired')))
    # E6: the WMS service declares an extent for the request SRS (bbox_srs); GetMap / GetFeatureInfo boxes inside the extent,
    # across one, two, all four of its edges, outside (touching); areas with borders inside, outside and across the extent
    w6 = W.World({'a': 'wmsT', 'b': 'cache'}, group=(), ext=EXT)
    boxes = [X_IN, X_L, X_LB, X_ALL, X_OUT, X_RT, X_B] + ([X_TOUCH, X_LR] if thorough else [])
    seqs = [('a',), ('b',), ('a', 'b')] + ([('b', 'a')] if thorough else [])
    reqs = [mkreq('wms.map', s_, box=bx) for s_ in seqs for bx in boxes]
    reqs += [mkreq('wms.fi', s_, box=bx, pos=p) for s_ in (('a',), ('a', 'b')) for bx, p in ((X_IN, (1, 1)), (X_L, (1, 2)), (X_L, (6, 2)), (X_LB, (1, 1)),
                                                                                        (X_LB, (4, 1)), (X_OUT, (1, 1)))]
    perms = [(True, True, False)] + ([(True, False, False), (False, True, False)] if thorough else [])
    out.append(Instance('srs-extent', w6, reqs, ['full', 'none', 'unauthenticated', 'partial'], perms,
                        ['none', 'Xright', 'Xlow'] + (['Xcross', 'Xring'] if thorough else []),
                        ['none', 'Xout', 'Xring'] + (['Xlow', 'Xbig'] if thorough else []), ['a', 'b'],
                        geoms=EXT_CATALOGUE, variants=('found', 'exact')))
    return out


# ---------------------------------------------------------------------------------------------------------------
# spec -> code
# ---------------------------------------------------------------------------------------------------------------
class Apps(object):
    def __init__(self, ctx):
        self.ctx = ctx
        self.apps = {}
        self.n = 0

    def get(self, world):
        k = world.key()
        if k not in self.apps:
            self.n += 1
            self.apps[k] = W.App(world, os.path.join(self.ctx.sub('apps'), 'w%d' % self.n))
        return self.apps[k]

    def close(self):
        for a in self.apps.values():
            a.close()
        self.apps = {}


def replay_table(ctx, apps, inst, tables, label):
    """tables: {'found': table[, 'repaired' | 'exact': table]}.  Every case is executed on the real application; the
    observation must be allowed by the model of the code as found or by the other model of the instance (tile services: both
    limits applied; SRS extent: sub-image not displaced).  A response that only the model of the code as found allows, and
    on which that model violates the property, is a violation of the property by the real code.  In a world with an SRS
    extent every third WMS request names the alias code of the SRS and every fourth GetMap is also asked for as jpeg."""
    world = inst.world
    app = apps.get(world)
    table = tables['found']
    other = tables.get(inst.other) if inst.other else None
    nbad = ndefect = 0
    runs, pending = [], []
    for n, key in enumerate(sorted(table)):
        fmt = 'png+alias' if world.ext and n % 3 == 2 else 'png'
        runs.append((n, key, fmt))
        if world.ext and table[key][0]['f'] == 'wms.map' and n % 4 == 1:
            runs.append((n, key, 'jpeg'))
    for n, key, fmt in runs:
        req, cb, out, pruned, prop_ok, path = table[key]
        variant = n % len(FORMS)
        obs = observe(world, app, req, cb, inst.geoms, variant, fmt)
        ctx.cov['replayed_behaviours'] += 1
        ctx.cov['replayed_steps'] += len(path)
        ctx.count(('case', inst.name, key, fmt, obs['status'], json.dumps(obs['px']), tuple(obs['ups']), tuple(obs['infos']), tuple(obs['listing'])))
        bad = compare(out, obs)
        bad_other = compare(other[key][2], obs) if other else bad
        case = {'instance': inst.name, 'world': world_json(world), 'geoms': {k: g.json() for k, g in inst.geoms.items()},
                'req': tla.jsonable(req), 'cb': tla.jsonable(cb), 'variant': variant, 'fmt': fmt, 'url': obs['url']}
        if bad and bad_other:
            nbad += 1
            what, detail = bad[0]
            ctx.violation({'kind': 'conformance', 'feature': req['f'], 'what': what, 'detail': re.sub(r' \(first at.*', '', detail)},
                          '%s: %s %s under callback %s: %s' % (inst.name, req['f'], describe(req), describe_cb(cb), '; '.join(d for _, d in bad)),
                          case)
        elif not bad and bad_other and not prop_ok and inst.other == 'exact':
            pending.append((req, cb, obs, case))          # decided by TLC on the observation, below
        elif not bad and bad_other and not prop_ok:
            ndefect += 1
            ctx.violation(dict(inst.defect_sig, service=family(req['f'])),
                          '%s %s under callback %s: the response is the one Auth.tla (code as found) predicts and it violates the property: '
                          '%s' % (req['f'], describe(req), describe_cb(cb), inst.defect_text), case)
    if pending:
        # SRS extent: responses that the model of the code as found predicts, that the reference model does not allow and on
        # which the model of the code as found violates the property: TLC evaluates the property on the observations
        r, acc_found, acc_comb, bad = validate_events(ctx, world, inst.geoms, [event_json(world, q, c, o, inst.geoms) for q, c, o, _ in pending],
                                                      'defects-' + inst.name)
        ctx.cov['traces_validated_against_impl'] += len(pending)
        for i, (req, cb, obs, case) in enumerate(pending):
            if (i + 1) not in bad:
                continue             # differs from the reference within the tolerance of the property
            ndefect += 1
            if (i + 1) in r.bad_outside and (i + 1) not in r.bad_inside and (i + 1) in acc_found:
                ctx.violation(dict(inst.defect_sig, service=family(req['f']), what='content-outside'),
                              '%s %s under callback %s: the response is the one Auth.tla (code as found) predicts and TLC finds ClippedOutside '
                              'violated by it: %s' % (req['f'], describe(req), describe_cb(cb), inst.defect_text), case)
            else:
                ctx.violation({'kind': 'property', 'feature': req['f'], 'what': 'observation-violates-property', 'world': 'srs-extent'},
                              'TLC: the observation violates the property: %s %s under callback %s -> px %s' % (
                                  req['f'], describe(req), describe_cb(cb), obs['px']), case)
        ctx.log('%s: %d responses differ from the reference model as the model of the code as found predicts; TLC finds the property '
                'violated by %d of them' % (inst.name, len(pending), ndefect))
    ctx.log('%s/%s: %d cases (%d requests) executed on the real application, %d not allowed by the spec, %d reproduce a property '
            'violation of the model of the code as found' % (inst.name, label, len(table), len(runs), nbad, ndefect))
    return nbad, ndefect


def world_json(w):
    return {'kinds': {n: w.kinds[n] for n in w.names}, 'group': list(w.group), 'group_this': w.group_this, 'frame': w.frame,
            'ext': list(w.ext) if w.ext else None}


def world_from_json(d):
    return W.World(d['kinds'], group=tuple(d['group']), group_this=d.get('group_this'), frame=d.get('frame'), ext=d.get('ext'))


def describe(req):
    f = req['f']
    if f in ('wms.map', 'wms.fi'):
        s = 'layers=%s box=%s' % (','.join(req['ls']), list(req['box']))
        return s + (' pos=%s' % list(req['pos']) if f == 'wms.fi' else '')
    if f in ('wms.caps', 'tms.caps', 'wmts.caps'):
        return ''
    return 'layer=%s tile=%s' % (req['lay'], list(req['tile'])) + (' pos=%s' % list(req['pos']) if '.fi.' in f else '')


def describe_cb(cb):
    if cb['authorized'] != 'partial':
        return cb['authorized']
    parts = []
    for n, e in sorted(cb['layers'].items()):
        flags = ''.join(ch for ch, k in (('m', 'map'), ('f', 'featureinfo'), ('t', 'tile')) if e[k])
        parts.append('%s:%s%s' % (n, flags or '-', '' if e['lim'] == 'none' else '@' + e['lim']))
    return 'partial{%s}%s' % (' '.join(parts), '' if cb['glob'] == 'none' else ' limited_to=' + cb['glob'])


# ---------------------------------------------------------------------------------------------------------------
# code -> spec
# ---------------------------------------------------------------------------------------------------------------
def _clamped(r):
    """the rectangle cut to the inside of W.WINDOW (None when nothing is left)"""
    wx0, wy0, wx1, wy1 = W.WINDOW
    c = (max(r[0], wx0 + 1), max(r[1], wy0 + 1), min(r[2], wx1 - 1), min(r[3], wy1 - 1))
    return c if c[0] < c[2] and c[1] < c[3] else None


def random_geom(rng, focus, clamp=False):
    """random rectilinear area near the box `focus` = (x0, y0, x1, y1); clamp: rectangles are cut to the window of the
    geometries (worlds with an SRS extent: requests may reach far beyond the tile grid)"""
    x0, y0, x1, y1 = focus
    span = max(x1 - x0, y1 - y0, 40)
    k = rng.random()
    if k < 0.08:
        return Geom([(-100, -100, 1380, 740)])
    if k < 0.14:
        gx = rng.randint(600, 1200)
        return Geom([(gx + 400, 700, gx + 450, 900)])          # far away
    rects, holes = [], []
    for _ in range(rng.choice([1, 1, 2, 3])):
        if rng.random() < 0.25:     # a half plane like area through the focus
            cut = rng.randint(x0 - 5, x1 + 5)
            rects.append((-300, -300, cut, 940) if rng.random() < 0.5 else (cut, -300, 1500, 940))
            if rng.random() < 0.5:
                cut = rng.randint(y0 - 5, y1 + 5)
                rects[-1] = (-300, -300, 1500, cut) if rng.random() < 0.5 else (-300, cut, 1500, 940)
        else:
            gx0 = rng.randint(x0 - span // 2, x1)
            gy0 = rng.randint(y0 - span // 2, y1)
            rects.append((gx0, gy0, gx0 + rng.randint(1, span), gy0 + rng.randint(1, span)))
    if rng.random() < 0.3:
        r = rng.choice(rects)
        if r[2] - r[0] > 6 and r[3] - r[1] > 6:
            hx0 = rng.randint(r[0] + 1, r[2] - 3)
            hy0 = rng.randint(r[1] + 1, r[3] - 3)
            holes.append((hx0, hy0, rng.randint(hx0 + 1, r[2] - 1), rng.randint(hy0 + 1, r[3] - 1)))
    if clamp:
        rects = [c for c in map(_clamped, rects) if c] or [(100, 100, 300, 300)]
        holes = [c for c in map(_clamped, holes) if c]
    try:
        return Geom(rects, holes)
    except AssertionError:
        return Geom([rects[0]])


def random_ext_box(rng, ext, within, wmax=10, hmax=8):
    """a request box (x0, y0, rx, ry, w, h) in a chosen relation to the SRS extent, inside the rectangle `within`:
    per axis inside / across the low edge / across the high edge / across both / outside (or touching from outside).
    -> (box, relation 'inside' | 'blank' | 'clipped', number of extent edges crossed)"""
    for _ in range(2000):
        wpx, hpx = rng.randint(1, wmax), rng.randint(1, hmax)
        k = rng.random()
        if k < 0.18:
            modes = ['in', 'in']
        elif k < 0.34:
            modes = [rng.choice(['out-lo', 'out-hi', 'touch-lo', 'touch-hi']), rng.choice(['in', 'lo', 'hi', 'out-hi'])]
            rng.shuffle(modes)
        elif k < 0.60:
            modes = [rng.choice(['lo', 'hi']), 'in']
            rng.shuffle(modes)
        elif k < 0.80:
            modes = [rng.choice(['lo', 'hi']), rng.choice(['lo', 'hi'])]
        elif k < 0.88:
            modes = ['both', rng.choice(['in', 'lo', 'hi'])]
            rng.shuffle(modes)
        else:
            modes = ['both', 'both']
        rx = rng.choice([10, 20, 40, 10, 7, 13, 25, 33])
        ry = rx if rng.random() < 0.75 else rng.choice([10, 20, 9, 15, 7])
        res, org = [rx, ry], [0, 0]
        ok = True
        for ax, (mode, n) in enumerate(zip(modes, (wpx, hpx))):
            lo, hi = ext[ax], ext[ax + 2]
            if mode == 'both':
                res[ax] = (hi - lo) // n + rng.randint(1, 40)
            size = n * res[ax]
            if mode == 'in':
                rg = (lo, hi - size)
            elif mode == 'lo':
                rg = (lo - size + 1, min(lo - 1, hi - size))
            elif mode == 'hi':
                rg = (max(hi - size + 1, lo), hi - 1)
            elif mode == 'both':
                rg = (hi - size + 1, lo - 1)
            elif mode == 'out-lo':
                rg = (lo - size - 150, lo - size - 1)
            elif mode == 'out-hi':
                rg = (hi + 1, hi + 150)
            elif mode == 'touch-lo':
                rg = (lo - size, lo - size)
            else:
                rg = (hi, hi)
            rg = (max(rg[0], within[ax]), min(rg[1], within[ax + 2] - size))
            if rg[0] > rg[1]:
                ok = False
                break
            org[ax] = rng.randint(rg[0], rg[1])
        if not ok:
            continue
        box = (org[0], org[1], res[0], res[1], wpx, hpx)
        rel, sub = ext_relation(_ExtOnly(ext), box)
        if rel == 'clipped' and (sub[1] <= sub[0] or sub[3] <= sub[2]):
            continue          # the part inside the extent is thinner than a pixel row / column (sub-query of size 0: 500)
        x1, y1 = org[0] + wpx * res[0], org[1] + hpx * res[1]
        if rel == 'clipped':
            srx = (min(x1, ext[2]) - max(org[0], ext[0])) / float(sub[1] - sub[0])
            sry = (min(y1, ext[3]) - max(org[1], ext[1])) / float(sub[3] - sub[2])
        else:
            srx, sry = res
        if min(srx, sry) > MAX_RES:
            continue          # cached layers answer blank beyond max_shrink_factor (4) x the coarsest grid resolution (40)
        edges = (org[0] < ext[0] < x1) + (org[0] < ext[2] < x1) + (org[1] < ext[1] < y1) + (org[1] < ext[3] < y1)
        return box, rel, (edges if rel == 'clipped' else 0)
    raise tlc.MachineryError('no request box generated for the SRS extent %r' % (ext,))


MAX_RES = 150


class _ExtOnly(object):
    def __init__(self, ext):
        self.ext = ext


# worlds whose WMS service declares an extent for the request SRS (and for its alias code)
EXT_POOL = [
    {'kinds': {'a': 'wmsT', 'b': 'cache', 'c': 'cachej'}, 'group': ['b', 'c'], 'group_this': None, 'ext': list(EXT)},
    {'kinds': {'a': 'wmsT', 'b': 'wmsO', 'c': 'cache'}, 'group': [], 'group_this': None, 'ext': [205, 111, 1069, 599]},
    {'kinds': {'a': 'cache', 'b': 'wmsT', 'c': 'wmsT'}, 'group': ['b', 'c'], 'group_this': None, 'ext': [11, 19, 1271, 629]},
]
# requests of these worlds stay inside this rectangle (the "half planes" of random_geom end at -300 / 1500 / 940)
EXT_REQ_WINDOW = (-280, -280, 1480, 920)

WORLD_POOL = [
    {'kinds': {'a': 'wmsT', 'b': 'cache', 'c': 'cachej'}, 'group': ['b', 'c'], 'group_this': None},
    {'kinds': {'a': 'cache', 'b': 'wmsT', 'c': 'wmsT'}, 'group': ['b', 'c'], 'group_this': None},
    {'kinds': {'a': 'wmsT', 'b': 'wmsO', 'c': 'cache'}, 'group': [], 'group_this': None},
    {'kinds': {'a': 'cachej', 'b': 'cache'}, 'group': ['b'], 'group_this': 'cache'},
    {'kinds': {'a': 'wmsO', 'b': 'cache', 'c': 'wmsT'}, 'group': ['b', 'c'], 'group_this': None},
    {'kinds': {'b': 'cache', 'c': 'cachej'}, 'group': [], 'group_this': None},
]


def random_event(rng, world, geoms):
    """-> (req, cb, fmt); geometries are added to `geoms`"""
    names = list(world.names) + (['g'] if world.group else [])
    tl = world.tile_layers
    feats = ['wms.map'] * 6 + ['wms.fi'] * 3 + ['wms.caps']
    if tl:
        feats += ['tms'] * 3 + ['kml', 'wmts.kvp', 'wmts.rest', 'wmts.fi.kvp', 'wmts.fi.rest', 'wmts.fi.rest', 'tms.layer', 'kml.doc',
                  'tms.caps', 'wmts.caps']
    if world.ext:
        # (GetCapabilities is left to the other worlds: with bbox_srs the document fails with 500 when a permitted layer's
        # limited_to area misses the SRS extent - Capabilities.layer_srs_bbox, intersection None; no part of C10)
        feats = [x for x in feats if x != 'wms.caps'][::3] + ['wms.map'] * 16 + ['wms.fi'] * 5
    f = rng.choice(feats)
    fmt = 'png'
    gb, ts = W.GRID['bbox'], W.GRID['tile_size']
    if f in ('wms.map', 'wms.fi'):
        if world.ext:
            # GetMap may reach beyond the tile grid (only the part inside the extent is rendered); GetFeatureInfo ignores the
            # extent: its box stays inside the grid like in the other worlds
            box, rel, edges = random_ext_box(rng, world.ext, EXT_REQ_WINDOW if f == 'wms.map' else gb)
            x0, y0, rx, ry, wpx, hpx = box
        else:
            rx = rng.choice([10, 20, 40, 10, 7, 13, 25])
            ry = rx if rng.random() < 0.8 else rng.choice([10, 20, 9, 15])
            wpx, hpx = rng.randint(1, 10), rng.randint(1, 8)
            x0 = rng.randint(gb[0], gb[2] - wpx * rx)
            y0 = rng.randint(gb[1], gb[3] - hpx * ry)
            box = (x0, y0, rx, ry, wpx, hpx)
        ls = [rng.choice(names) for _ in range(rng.choice([1, 1, 2, 2, 3]))]
        ls = [n for i, n in enumerate(ls) if n not in ls[:i]]
        if f == 'wms.map':
            if rng.random() < 0.2:
                fmt = 'jpeg'
            req = mkreq(f, ls, box=box)
        else:
            expl = ls if rng.random() < 0.8 else [rng.choice(names)]
            req = mkreq(f, ls, expl=expl, box=box, pos=(rng.randint(0, wpx - 1), rng.randint(0, hpx - 1)))
        focus = (x0, y0, x0 + wpx * rx, y0 + hpx * ry)
        if world.ext:
            if rng.random() < 0.25:
                fmt += '+alias'
            if rel == 'clipped' and rng.random() < 0.6:
                # the borders of the areas near the visible part of the request (else: anywhere in the request box)
                e = world.ext
                focus = (max(x0, e[0]) - rx, max(y0, e[1]) - ry, min(focus[2], e[2]) + rx, min(focus[3], e[3]) + ry)
    elif f in ('wms.caps', 'tms.caps', 'wmts.caps'):
        req = mkreq(f)
        focus = (gb[2] - 100, gb[1], gb[2] + 60, gb[1] + 200) if rng.random() < 0.5 else (100, 100, 300, 300)
    else:
        lay = rng.choice(tl)
        z = rng.randint(0, len(W.GRID['res']) - (2 if f == 'kml.doc' else 1))   # the KML document of the last level is a 500 (not C10)
        res = W.GRID['res'][z]
        cols, rows = (gb[2] - gb[0]) // (res * ts[0]), tile_rows(world, z)
        col, row = rng.randint(0, cols - 1), rng.randint(0, rows - 1)
        req = mkreq(f, lay=lay, tile=(z, col, row), pos=(rng.randint(0, ts[0] - 1), rng.randint(0, ts[1] - 1)))
        x0, y1 = gb[0] + col * res * ts[0], gb[3] - row * res * ts[1]
        focus = (x0, y1 - res * ts[1], x0 + res * ts[0], y1)

    def new_geom():
        gid = 'R%d' % len(geoms)
        geoms[gid] = random_geom(rng, focus, clamp=bool(world.ext))
        return gid
    k = rng.random()
    if k < 0.08:
        cb = FD(authorized=rng.choice(['full', 'none', 'unauthenticated']), layers=FD(), glob='none')
    else:
        layers = {}
        p_absent, p_flag = (0.1, 0.9) if world.ext else (0.2, 0.75)        # (fewer refusals where the SRS extent is the subject)
        for n in names:
            if rng.random() < p_absent:
                continue
            e = dict(map=rng.random() < p_flag, featureinfo=rng.random() < p_flag, tile=rng.random() < p_flag, lim='none')
            if rng.random() < 0.45:
                e['lim'] = new_geom()
            layers[n] = FD(e)
        cb = FD(authorized='partial', layers=FD(layers), glob=new_geom() if rng.random() < 0.4 else 'none')
    return req, cb, fmt


TILE_FEATURES = ('tms', 'kml', 'wmts.kvp', 'wmts.rest', 'wmts.fi.kvp', 'wmts.fi.rest', 'tms.layer', 'kml.doc')


def tile_box(world, t):
    z, col, row = t
    gb, res, ts = world.grid['bbox'], world.grid['res'][z], world.grid['tile_size']
    return (gb[0] + col * res * ts[0], gb[3] - (row + 1) * res * ts[1], res, res, ts[0], ts[1])


def box_of(world, req):
    return tile_box(world, req['tile']) if req['f'] in TILE_FEATURES else tuple(req['box'])


def raster_json(world, req, g, side=None):
    """the raster entry of the geometry table of Auth.tla for area g and THIS request (see OGeom); side (a dict) receives the
    signed distances of the pixel centres (for reports and vacuity counters only)"""
    f = req['f']
    bx = box_of(world, req)
    cls, pt, grid = [], 'in', 'maybe'
    if f in IMAGE_FEATURES:
        cls, signed = g.classes(bx)
        if side is not None:
            side['signed'] = signed
    elif f in ('wms.fi', 'wmts.fi.kvp', 'wmts.fi.rest'):
        x0, y0, rx, ry, w, h = bx
        pt = g.point_class(x0 + req['pos'][0] * rx, y0 + h * ry - req['pos'][1] * ry, max(rx, ry))
    elif f == 'wms.caps':
        grid = g.grid_fact(world)
    return {'cls': cls, 'pt': pt, 'grid': grid}


def event_json(world, req, cb, obs, geoms, side=None):
    """side: optional dict, receives {geometry id: {'signed': distances}} for oblique geometries"""
    used = sorted(({cb['glob']} | {e['lim'] for e in cb['layers'].values()}) - {'none'})
    gs = {'Z': CATALOGUE['Gfar']}
    gs.update((g, geoms[g]) for g in used)
    return {'geoms': {g: (raster_json(world, req, v, side.setdefault(g, {}) if side is not None else None) if isinstance(v, OGeom) else
                          {'xs': [2 * x for x in v.xs], 'ys': [2 * y for y in v.ys], 'cells': [list(c) for c in sorted(v.cells)]})
                      for g, v in gs.items()},
            'req': {'f': req['f'], 'ls': list(req['ls']), 'expl': sorted(req['expl']), 'box': list(req['box']), 'pos': list(req['pos']),
                    'lay': req['lay'], 'tile': list(req['tile'])},
            'cb': {'authorized': cb['authorized'], 'glob': cb['glob'],
                   'layers': [[n, e['map'], e['featureinfo'], e['tile'], e['lim']] for n, e in sorted(cb['layers'].items())]},
            'obs': {'status': obs['status'], 'ups': obs['ups'], 'px': obs['px'], 'infos': obs['infos'], 'listing': obs['listing'],
                    'lossy': bool(obs['lossy'])}}


def validate_events(ctx, world, geoms, events, name):
    """-> (TLC result, ids (1-based) accepted by the model of the code as found, ids accepted by the model with both limits
    applied, ids whose observation violates the property); result.acc_exact: ids accepted by the reference model whose
    sub-image is not displaced (worlds with an SRS extent, GetMap reaching beyond the extent)"""
    d = ctx.sub(name)
    tf = os.path.join(d, 'batch.json')
    with open(tf, 'w') as f:
        json.dump(events, f)
    inst = Instance(name, world, [], [], [], [], [], [], geoms={'Z': CATALOGUE['Gfar']})
    mp, cp = tlc.write_mc(d, 'Trace_Auth', 'MC_Trace', inst.consts(None, None if world.ext else False), spec='TraceSpec',
                          post='TraceAccepted', invariants=['TypeOK'])
    r = tlc.run(mp, cp, d, workers=1, coverage=False, env={'TRACE_FILE': tf}, timeout=3000)
    pa, pc_, pb = tlc.find_prints(r.out, 'accepted'), tlc.find_prints(r.out, 'accepted_combined'), tlc.find_prints(r.out, 'obsbad')
    po, pi = tlc.find_prints(r.out, 'obsbad_outside'), tlc.find_prints(r.out, 'obsbad_inside')
    pe = tlc.find_prints(r.out, 'accepted_exact')
    if not pa or not pb or not pc_ or not po or not pi or not pe:
        raise tlc.MachineryError('trace validation: no verdict from TLC\n' + r.out[-2500:])
    r.bad_outside, r.bad_inside = {int(x) for x in po[-1][1]}, {int(x) for x in pi[-1][1]}
    r.acc_exact = {int(x) for x in pe[-1][1]}
    return r, {int(x) for x in pa[-1][1]}, {int(x) for x in pc_[-1][1]}, {int(x) for x in pb[-1][1]}


def ext_stats(world, req, cb, obs, fmt, stats):
    """vacuity counters of the worlds with an SRS extent (they decide nothing)"""
    f = req['f']
    if f not in ('wms.map', 'wms.fi'):
        return
    rel, sub = ext_relation(world, req['box'])
    if f == 'wms.fi':
        stats['featureinfo:box-%s' % rel] += 1
        if obs['status'] == 200 and obs['infos']:
            stats['featureinfo:answered:box-%s' % rel] += 1
        return
    x0, y0, rx, ry, w, h = req['box']
    e = world.ext
    edges = (x0 < e[0] < x0 + w * rx) + (x0 < e[2] < x0 + w * rx) + (y0 < e[1] < y0 + h * ry) + (y0 < e[3] < y0 + h * ry)
    stats['map:%s' % rel] += 1
    if rel == 'blank':
        if obs['status'] == 200 and obs['px'] and all(c == 1 for row in obs['px'] for c in row) and not obs['ups']:
            stats['map:blank-answer'] += 1
            stats['map:blank-answer:%s' % ('partial' if cb['authorized'] == 'partial' else cb['authorized'])] += 1
        return
    if rel != 'clipped' or obs['status'] != 200:
        return
    stats['map:clipped:%d-edges' % edges] += 1
    if fmt.startswith('jpeg'):
        stats['map:clipped:jpeg'] += 1
    if fmt.endswith('+alias'):
        stats['map:clipped:alias-code'] += 1
    if cb['authorized'] != 'partial':
        return
    lims = {cb['layers'][n]['lim'] for n in obs['ups'] if n in cb['layers']} - {'none'}
    if not lims and cb['glob'] == 'none':
        return
    stats['map:clipped:limit-in-force'] += 1
    if lims:
        stats['map:clipped:layer-limit'] += 1
    if cb['glob'] != 'none':
        stats['map:clipped:request-limit'] += 1
    l, r_, t, bt = sub
    inner = [c for j, row in enumerate(obs['px']) for i, c in enumerate(row) if l <= i < r_ and t <= j < bt]
    if any(c == 1 for c in inner) and any(c not in (0, 1) for c in inner):
        stats['map:clipped:limit-border-in-the-pasted-part'] += 1


def random_traces(ctx, apps, nworlds, nevents, pool=None, stats=None):
    """random requests recorded from the real application and validated by TLC; pool: WORLD_POOL (default) or EXT_POOL"""
    total = rejected = obsbad = 0
    pool = pool or WORLD_POOL
    label = 'ext' if pool is EXT_POOL else ''
    for wi in range(nworlds):
        wd = pool[wi % len(pool)]
        world = world_from_json(wd)
        app = apps.get(world)
        geoms, events, meta = {}, [], []
        for k in range(nevents):
            req, cb, fmt = random_event(ctx.rng, world, geoms)
            variant = ctx.rng.randrange(len(FORMS))
            obs = observe(world, app, req, cb, geoms, variant, fmt)
            if obs['problems']:
                ctx.violation({'kind': 'conformance', 'feature': req['f'], 'what': 'harness', 'detail': obs['problems'][0][:80]},
                              'random %s %s: %s' % (req['f'], describe(req), '; '.join(obs['problems'])[:300]), None)
            events.append(event_json(world, req, cb, obs, geoms))
            meta.append((req, cb, variant, fmt, obs))
            if world.ext and stats is not None:
                ext_stats(world, req, cb, obs, fmt, stats)
            ctx.count((label + 'event', wi, k, req['f'], obs['status'], json.dumps(obs['px']), tuple(obs['ups'])))
        r, acc_found, acc_comb, bad = validate_events(ctx, world, geoms, events, '%strace-%d' % (label, wi))
        ctx.cov['traces_validated_against_impl'] += len(events)
        ctx.cov['states'] += r.distinct
        ctx.cov['transitions'] += r.generated
        total += len(events)
        if wi == 0 and not world.ext:
            ctx.sample({'kind': 'recorded request validated by Trace_Auth', 'event': {k: v for k, v in events[0].items() if k != 'geoms'}})
        if wi == 0 and world.ext:
            some = next((e for e, m in zip(events, meta) if m[0]['f'] == 'wms.map' and ext_relation(world, m[0]['box'])[0] == 'clipped'
                         and m[1]['authorized'] == 'partial' and m[4]['status'] == 200 and len({c for row in m[4]['px'] for c in row}) > 1),
                        events[0])
            ctx.sample({'kind': 'recorded GetMap reaching beyond the SRS extent %s, validated by Trace_Auth' % list(world.ext),
                        'event': {k: v for k, v in some.items() if k != 'geoms'}})
        for i, (req, cb, variant, fmt, obs) in enumerate(meta):
            case = {'world': wd, 'geoms': {g: geoms[g].json() for g in sorted({cb['glob']} | {e['lim'] for e in cb['layers'].values()}) if g != 'none'},
                    'req': tla.jsonable(req), 'cb': tla.jsonable(cb), 'variant': variant, 'fmt': fmt, 'url': obs['url']}
            both = (req['f'] in TILE_WITH_COVERAGE and cb['authorized'] == 'partial' and cb['glob'] != 'none'
                    and req['lay'] in cb['layers'] and cb['layers'][req['lay']]['lim'] != 'none')
            accepted = (i + 1) in acc_found or (i + 1) in acc_comb or (i + 1) in r.acc_exact
            if world.ext and stats is not None and req['f'] == 'wms.map' and ext_relation(world, req['box'])[0] == 'clipped':
                stats['map:clipped:accepted-by-' + ('both-models' if (i + 1) in acc_found and (i + 1) in r.acc_exact else
                                                    'the-model-of-the-code-as-found-only' if (i + 1) in acc_found else
                                                    'the-reference-model-only' if (i + 1) in r.acc_exact else 'neither')] += 1
            if (i + 1) in bad:
                obsbad += 1
                if (world.ext and req['f'] == 'wms.map' and ext_relation(world, req['box'])[0] == 'clipped' and (i + 1) in acc_found
                        and (i + 1) not in r.acc_exact and (i + 1) in r.bad_outside and (i + 1) not in r.bad_inside):
                    ctx.violation(dict(EXT_SIG, service='wms', what='content-outside'),
                                  'recorded %s %s under callback %s: TLC finds ClippedOutside violated by the observation, which is what Auth.tla '
                                  '(code as found) predicts and the reference model does not allow: %s; px %s' % (
                                      req['f'], describe(req), describe_cb(cb), EXT_TEXT, obs['px']), case)
                elif both and (i + 1) in acc_found and (i + 1) not in acc_comb:
                    ctx.violation(dict(DEFECT_SIG, service=family(req['f'])),
                                  'recorded %s %s under callback %s: the observation violates the property (request-wide limited_to '
                                  'not applied) and is what Auth.tla (code as found) predicts' % (req['f'], describe(req), describe_cb(cb)), case)
                else:
                    ctx.violation({'kind': 'property', 'feature': req['f'], 'what': 'observation-violates-property'},
                                  'TLC: the recorded observation violates the property: %s %s under callback %s -> status %s ups %s infos %s '
                                  'listing %s px %s' % (req['f'], describe(req), describe_cb(cb), obs['status'], obs['ups'], obs['infos'],
                                                        obs['listing'], obs['px']), case)
            if not accepted:
                rejected += 1
                ctx.violation({'kind': 'trace-rejected', 'feature': req['f'], 'status': obs['status']},
                              'recorded response is not a terminal state of Auth.tla: %s %s under callback %s -> status %s ups %s infos %s '
                              'listing %s px %s' % (req['f'], describe(req), describe_cb(cb), obs['status'], obs['ups'], obs['infos'],
                                                    obs['listing'], obs['px']), case)
    ctx.log('%svalidated %d recorded requests with TLC (%d rejected, %d violate the property)' % (
        'worlds with an SRS extent: ' if label else '', total, rejected, obsbad))



# ---------------------------------------------------------------------------------------------------------------
# code -> spec, oblique worlds
# ---------------------------------------------------------------------------------------------------------------
OBLIQUE_POOL = [
    {'kinds': {'a': 'wmsT', 'b': 'cache', 'c': 'cachej'}, 'group': ['b', 'c'], 'group_this': None, 'frame': 'A'},
    {'kinds': {'b': 'cache', 'c': 'cachej'}, 'group': [], 'group_this': None, 'frame': 'B'},
    {'kinds': {'a': 'cache', 'b': 'wmsT', 'c': 'wmsO'}, 'group': ['b', 'c'], 'group_this': None, 'frame': 'C'},
    {'kinds': {'a': 'cache', 'b': 'wmsT', 'c': 'wmsO'}, 'group': ['b', 'c'], 'group_this': None, 'frame': 'B'},
    {'kinds': {'a': 'cachej', 'b': 'cache'}, 'group': ['b'], 'group_this': 'cache', 'frame': 'A'},
]
SPARSE_SIG = {'kind': 'oblique', 'cause': 'sparse-geometry-transformed-by-vertices'}


def _lonlat(frame, x, y):
    lon, lat = W.lattice_to_lonlat(frame, [x], [y])
    return float(lon[0]), float(lat[0])


def box_edges(focus):
    x0, y0, x1, y1 = focus
    return [((x0, y1), (x1, y1)), ((x0, y0), (x1, y0)), ((x0, y0), (x0, y1)), ((x1, y0), (x1, y1))]     # upper, lower, left, right


def halfplane(frame, edge, t, frac, side):
    """the half plane of the lon/lat plane whose border is parallel to the lon/lat chord of the lattice segment `edge` and runs
    at `frac` of the way from the chord (0) to the image of the edge's point at parameter t (1); side -1: the side of the chord"""
    from shapely.geometry import box, Polygon
    import math
    (ax, ay), (bx_, by) = edge
    a, b, c = _lonlat(frame, ax, ay), _lonlat(frame, bx_, by), _lonlat(frame, ax + t * (bx_ - ax), ay + t * (by - ay))
    q = (a[0] + t * (b[0] - a[0]), a[1] + t * (b[1] - a[1]))
    ln = math.hypot(b[0] - a[0], b[1] - a[1])
    u = ((b[0] - a[0]) / ln, (b[1] - a[1]) / ln)
    n = (-u[1], u[0])
    bulge = n[0] * (c[0] - q[0]) + n[1] * (c[1] - q[1])
    if bulge < 0:
        n, bulge = (-n[0], -n[1]), -bulge
    bulge = max(bulge, 1e-3)
    p0 = (q[0] + frac * bulge * n[0], q[1] + frac * bulge * n[1])
    big = 500.0
    hp = Polygon([(p0[0] - big * u[0], p0[1] - big * u[1]), (p0[0] + big * u[0], p0[1] + big * u[1]),
                  (p0[0] + big * u[0] + side * big * n[0], p0[1] + big * u[1] + side * big * n[1]),
                  (p0[0] - big * u[0] + side * big * n[0], p0[1] - big * u[1] + side * big * n[1])])
    return hp.intersection(box(*O_WINDOW))


_BULGES = {}


def bulge_table(world):
    """[(tile, edge index, bulge in pixels)]: the tiles with an edge whose image in the lon/lat plane deviates from the
    straight lon/lat chord between its corners by at least 1.8 pixels (measured in the grid SRS)"""
    import numpy as np
    if world.frame not in _BULGES:
        tab = []
        gb, ts = world.grid['bbox'], world.grid['tile_size']
        for z, res in enumerate(world.grid['res']):
            for col in range((gb[2] - gb[0]) // (res * ts[0])):
                for row in range(tile_rows(world, z)):
                    bx = tile_box(world, (z, col, row))
                    for k, (a, b) in enumerate(box_edges((bx[0], bx[1], bx[0] + bx[2] * bx[4], bx[1] + bx[3] * bx[5]))):
                        t = np.linspace(0.3, 0.7, 9)
                        lon, lat = W.lattice_to_lonlat(world.frame, [a[0], b[0]], [a[1], b[1]])
                        px, py = W.lonlat_to_lattice(world.frame, lon[0] + t * (lon[1] - lon[0]), lat[0] + t * (lat[1] - lat[0]))
                        dev = float(np.min(np.abs(py - a[1]) if a[1] == b[1] else np.abs(px - a[0]))) / res
                        if dev >= 1.8:
                            tab.append(((z, col, row), k, dev))
        _BULGES[world.frame] = tab
    return _BULGES[world.frame]


def random_oshape(rng, world, focus, m, target=None):
    """one random area of the lon/lat plane near the lattice box `focus` -> (shapely geometry, rect or None).
    target = (edge index, bulge in pixels): the border runs between the chord and the image of that edge of the focus box,
    1.2 pixels or more inside the bulge"""
    from shapely.geometry import box, Polygon
    import math
    frame = world.frame
    if target:
        poke = rng.uniform(1.25, max(1.3, target[1] - 0.15))
        return halfplane(frame, box_edges(focus)[target[0]], rng.uniform(0.4, 0.6), 1.0 - poke / target[1], -1.0), None
    x0, y0, x1, y1 = focus
    span = float(max(x1 - x0, y1 - y0))
    pole_y = -world.origin[1] / float(world.scale)
    wl, ws, we, wn = O_WINDOW

    def near(k):
        return rng.uniform(x0 - k * span, x1 + k * span), min(rng.uniform(y0 - k * span, y1 + k * span), pole_y - 3.0)

    k = rng.random()
    if k < 0.05:
        r = (wl, ws, we, wn)
        return box(*r), r
    if k < 0.09:
        r = (120.0, 60.0, 150.0, 70.0)                        # beyond the pole
        return box(*r), r
    if k < 0.27:
        # south of a parallel through a point of the upper edge (the pole side) of the focus box: for a tile that
        # straddles the meridian through the pole the parallel through the corners cuts off the middle of the edge
        px, py = (rng.uniform(x0, x1), y1 + rng.uniform(-0.5, 0.5) * m * rng.choice([0, 0, 1, 4])) if rng.random() < 0.75 else near(0.2)
        lat = _lonlat(frame, px, min(py, pole_y - 3.0))[1]
        r = (wl, ws, we, lat)
        return box(*r), r
    if k < 0.34:
        lat = _lonlat(frame, *near(0.1))[1]                   # north of a parallel
        r = (wl, lat, we, wn)
        return box(*r), r
    if k < 0.50:
        (lo0, la0), (lo1, la1) = _lonlat(frame, *near(0.6)), _lonlat(frame, *near(0.6))
        r = (min(lo0, lo1) - rng.choice([0, 0, 20]), min(la0, la1) - rng.choice([0, 0, 10]),
             max(lo0, lo1) + rng.choice([0.5, 5, 20]), max(la0, la1) + rng.choice([0.05, 0.5, 2]))
        r = (max(r[0], -179.0), max(r[1], 30.0), min(r[2], 179.0), min(r[3], wn))
        return box(*r), r
    if k < 0.80:
        # a half plane of the lon/lat plane whose border runs between the lon/lat chord of one edge of the focus box and
        # the (curved) image of that edge (frac in 0..1), cuts the chord (frac < 0) or passes beyond the curve (frac > 1)
        kk = rng.random()
        frac = rng.uniform(0.1, 0.9) if kk < 0.6 else rng.uniform(-1.5, 0.0) if kk < 0.8 else rng.uniform(1.1, 3.0)
        edge = box_edges(focus)[rng.choice([0, 0, 0, 1, 2, 3])]
        return halfplane(frame, edge, rng.uniform(0.3, 0.7), frac, -1.0 if rng.random() < 0.75 else 1.0), None
    # polygon with few vertices, star shaped (in the lattice) around a point near the focus
    cx, cy = near(0.3)
    nv = rng.choice([3, 4, 5, 6])
    angs = sorted(rng.uniform(0, 2 * math.pi) for _ in range(nv))
    pts = []
    for ang in angs:
        rad = rng.uniform(0.3, 2.0) * span
        pts.append(_lonlat(frame, cx + rad * math.cos(ang), min(cy + rad * math.sin(ang), pole_y - 3.0)))
    pg = Polygon(pts)
    if not pg.is_valid:
        pg = pg.convex_hull
    return pg, None


def random_ogeom(rng, world, focus, m, sparse, target=None):
    for _ in range(50):
        g, rect = random_oshape(rng, world, focus, m, target)
        k = rng.random() if not target else 1.0
        if k < 0.2:
            g2 = random_oshape(rng, world, focus, m)[0]       # several parts (or one, when they overlap)
            g, rect = g.union(g2), None
        elif k < 0.35:
            h = random_oshape(rng, world, focus, m)[0]        # a hole / a bite
            if h.area < g.area:
                g, rect = g.difference(h), None
        if g.is_empty or not g.is_valid or g.geom_type not in ('Polygon', 'MultiPolygon') or g.area < 1e-6:
            continue
        if g.geom_type == 'MultiPolygon':
            from shapely.geometry import MultiPolygon
            parts = [p for p in g.geoms if p.area > 1e-6]
            if not parts:
                continue
            g = parts[0] if len(parts) == 1 else MultiPolygon(parts)
        og = OGeom(world.frame, g, sparse, rect)
        try:
            og.true()
        except tlc.MachineryError:
            continue
        return og
    raise tlc.MachineryError('no valid oblique geometry generated')


def random_oblique_event(rng, world, geoms):
    """-> (req, cb, fmt, sparse); geometries (OGeom) are added to `geoms`"""
    target = None
    names = list(world.names) + (['g'] if world.group else [])
    tl = world.tile_layers
    feats = (['tms'] * 4 + ['kml'] * 2 + ['wmts.kvp'] * 2 + ['wmts.rest'] * 3 + ['wmts.fi.kvp', 'wmts.fi.rest'] + ['wms.map'] * 5
             + ['wms.fi'] * 2 + ['wms.caps', 'tms.layer'])
    f = rng.choice(feats)
    gb, ts, ress = world.grid['bbox'], world.grid['tile_size'], world.grid['res']
    pole_x = -world.origin[0] // world.scale
    if f in ('wms.map', 'wms.fi'):
        rx = rng.choice([4, 4, 2, 2, 1, 3, 5])
        ry = rx if rng.random() < 0.8 else rng.choice([2, 3, 4])
        wpx, hpx = rng.randint(4, 16), rng.randint(3, 12)
        x0 = rng.randint(gb[0], gb[2] - wpx * rx)
        if rng.random() < 0.5:         # astride the meridian through the pole, near the upper edge of the grid
            x0 = max(gb[0], min(gb[2] - wpx * rx, pole_x - rng.randint(1, wpx * rx - 1)))
            y0 = gb[3] - hpx * ry - rng.randint(0, 20)
        else:
            y0 = rng.randint(gb[1], gb[3] - hpx * ry)
        box = (x0, y0, rx, ry, wpx, hpx)
        ls = [rng.choice(names) for _ in range(rng.choice([1, 1, 2, 2, 3]))]
        ls = [n for i, n in enumerate(ls) if n not in ls[:i]]
        if f == 'wms.map':
            req = mkreq(f, ls, box=box)
        else:
            expl = ls if rng.random() < 0.8 else [rng.choice(names)]
            req = mkreq(f, ls, expl=expl, box=box, pos=(rng.randint(0, wpx - 1), rng.randint(0, hpx - 1)))
    elif f == 'wms.caps':
        req = mkreq(f)
        box = (gb[2] - 40, gb[1], 4, 4, 10, 10)
    else:
        lay = rng.choice(tl)
        z = rng.choice([0, 0, 0, 1, 1, 2]) % len(ress)
        res = ress[z]
        cols, rows = (gb[2] - gb[0]) // (res * ts[0]), tile_rows(world, z)
        col, row = rng.randint(0, cols - 1), rng.randint(0, rows - 1)
        if rng.random() < 0.5:         # the tile column astride the meridian through the pole, upper rows
            col = (pole_x - gb[0]) // (res * ts[0])
            row = rng.choice([0, 0, 0, 1, 1, 2]) % rows
        if f in ('tms', 'kml', 'wmts.kvp', 'wmts.rest') and rng.random() < 0.3 and bulge_table(world):
            # the border of the area runs through the bulge of a strongly curved tile edge, the four corners are inside
            (z, col, row), edge, dev = rng.choice(bulge_table(world))
            target = (edge, dev)
        req = mkreq(f, lay=lay, tile=(z, col, row), pos=(rng.randint(0, ts[0] - 1), rng.randint(0, ts[1] - 1)))
        box = tile_box(world, (z, col, row))
    focus = (box[0], box[1], box[0] + box[2] * box[4], box[1] + box[3] * box[5])
    sparse = rng.random() < 0.2

    def new_geom(target=None):
        gid = 'R%d' % len(geoms)
        geoms[gid] = random_ogeom(rng, world, focus, max(box[2], box[3]), sparse, target)
        return gid
    if target:
        layers = {n: FD(map=rng.random() < 0.85, featureinfo=rng.random() < 0.85, tile=rng.random() < 0.85, lim='none')
                  for n in names if n != req['lay'] and rng.random() < 0.8}
        as_glob = rng.random() < 0.4
        layers[req['lay']] = FD(map=rng.random() < 0.85, featureinfo=rng.random() < 0.85, tile=True,
                                lim='none' if as_glob else new_geom(target))
        cb = FD(authorized='partial', layers=FD(layers), glob=new_geom(target) if as_glob else 'none')
    elif rng.random() < 0.04:
        cb = FD(authorized=rng.choice(['full', 'none', 'unauthenticated']), layers=FD(), glob='none')
    else:
        layers = {}
        for n in names:
            if rng.random() < 0.15:
                continue
            e = dict(map=rng.random() < 0.85, featureinfo=rng.random() < 0.85, tile=rng.random() < 0.85, lim='none')
            if rng.random() < 0.6:
                e['lim'] = new_geom()
            layers[n] = FD(e)
        cb = FD(authorized='partial', layers=FD(layers), glob=new_geom() if rng.random() < 0.35 else 'none')
    return req, cb, 'png', sparse


def oblique_stats(world, req, cb, obs, side, stats, geoms):
    """vacuity counters of the oblique events (they decide nothing): the outcome class of tile requests under a limit, pixels
    that are "out" although they lie inside the straight lon/lat quadrilateral through the four tile corners, and tile
    requests where every applicable area contains that quadrilateral while some pixel is "out" (what seed s15 needs)"""
    import numpy as np
    import shapely
    f = req['f']
    if f not in ('tms', 'kml', 'wmts.kvp', 'wmts.rest') or obs['status'] != 200 or cb['authorized'] != 'partial' or not obs['px']:
        return
    e = cb['layers'].get(req['lay'])
    ids = [i for i in ((e['lim'] if e else 'none'), cb['glob']) if i != 'none']
    if not e or not e['tile'] or not ids:
        return
    flat = [c for row in obs['px'] for c in row]
    lit = sum(1 for c in flat if c not in (0, 1))
    dark = sum(1 for c in flat if c == 1)
    stats['outcome:' + ('contains' if dark == 0 else ('disjoint' + ('-rendered' if obs['ups'] else '-empty')) if lit == 0 else 'masked')] += 1
    signed = np.max(np.stack([side[i]['signed'] for i in ids]), axis=0)      # outside any area = outside the intersection
    out = signed > 1.0 + TOL
    stats['pixels:out'] += int(out.sum())
    x0, y0, rx, ry, w, h = tile_box(world, req['tile'])
    lon, lat = W.lattice_to_lonlat(world.frame, [x0, x0 + w * rx, x0 + w * rx, x0], [y0, y0, y0 + h * ry, y0 + h * ry])
    q4 = shapely.Polygon(list(zip(lon.tolist(), lat.tolist())))
    cx, cy = np.meshgrid(x0 + (np.arange(w) + 0.5) * rx, y0 + h * ry - (np.arange(h) + 0.5) * ry)
    plon, plat = W.lattice_to_lonlat(world.frame, cx.ravel(), cy.ravel())
    inq = shapely.contains(q4, shapely.points(plon, plat)).reshape(cx.shape)
    n = int((out & inq).sum())
    stats['pixels:out-inside-corner-quadrilateral'] += n
    if out.any():
        stats['tiles:some-pixel-out'] += 1
        if all(geoms[i].g.contains(q4) for i in ids):
            stats['tiles:areas-contain-corner-quadrilateral-but-some-pixel-out'] += 1


def oblique_traces(ctx, apps, nworlds, nevents, stats):
    """random requests in the oblique worlds, recorded from the real application and validated by TLC"""
    import numpy as np
    total = rejected = obsbad = nsparse = 0
    for wi in range(nworlds):
        wd = OBLIQUE_POOL[wi % len(OBLIQUE_POOL)]
        world = world_from_json(wd)
        app = apps.get(world)
        geoms, events, meta = {}, [], []
        t0 = time.time()
        for k in range(nevents):
            req, cb, fmt, sparse = random_oblique_event(ctx.rng, world, geoms)
            variant = ctx.rng.randrange(len(FORMS))
            obs = observe(world, app, req, cb, geoms, variant, fmt)
            if obs['problems']:
                ctx.violation({'kind': 'conformance', 'feature': req['f'], 'what': 'harness', 'detail': obs['problems'][0][:80]},
                              'random oblique %s %s: %s' % (req['f'], describe(req), '; '.join(obs['problems'])[:300]), None)
            side = {}
            events.append(event_json(world, req, cb, obs, geoms, side))
            if not sparse:
                oblique_stats(world, req, cb, obs, side, stats, geoms)
                if req['f'] in ('wms.fi', 'wmts.fi.kvp', 'wmts.fi.rest') and obs['status'] == 200 and cb['authorized'] == 'partial':
                    stats['featureinfo:answered' if obs['infos'] else 'featureinfo:nothing'] += 1
                    if any(g.get('pt') == 'out' for g in events[-1]['geoms'].values()):
                        stats['featureinfo:point-outside-an-area'] += 1
            nsparse += bool(sparse)
            meta.append((req, cb, variant, fmt, obs, sparse, side))
            ctx.count(('oevent', wi, k, req['f'], obs['status'], json.dumps(obs['px']), tuple(obs['ups'])))
        t1 = time.time()
        r, acc_found, acc_comb, bad = validate_events(ctx, world, geoms, events, 'otrace-%d' % wi)
        ctx.log('oblique world %d (frame %s): %d requests recorded [%.0fs], validated by TLC [%.0fs]' % (
            wi, world.frame, len(events), t1 - t0, time.time() - t1))
        ctx.cov['traces_validated_against_impl'] += len(events)
        ctx.cov['states'] += r.distinct
        ctx.cov['transitions'] += r.generated
        total += len(events)
        if wi == 0:
            some = next((e for e in events if e['req']['f'] == 'tms' and any(len(g.get('cls', [])) for g in e['geoms'].values())), events[0])
            rows = lambda m: [' '.join(str(c) for c in row) for row in m]          # (compact: one string per pixel row)
            ctx.sample({'kind': 'recorded request of an oblique world validated by Trace_Auth (pixel rows written as strings)',
                        'event': dict(some, geoms={g: (dict(v, cls=rows(v['cls'])) if 'cls' in v else v) for g, v in some['geoms'].items()},
                                      obs=dict(some['obs'], px=rows(some['obs']['px'])))})
        for i, (req, cb, variant, fmt, obs, sparse, side) in enumerate(meta):
            if (i + 1) not in bad and ((i + 1) in acc_found or (i + 1) in acc_comb):
                continue
            used = sorted(({cb['glob']} | {e['lim'] for e in cb['layers'].values()}) - {'none'})
            case = {'world': wd, 'geoms': {g: geoms[g].json() for g in used}, 'req': tla.jsonable(req), 'cb': tla.jsonable(cb),
                    'variant': variant, 'fmt': fmt, 'url': obs['url']}
            what = ('content-outside' if (i + 1) in r.bad_outside else 'content-missing-inside' if (i + 1) in r.bad_inside
                    else 'other' if (i + 1) in bad else 'trace-rejected')
            obsbad += (i + 1) in bad
            rejected += (i + 1) not in acc_found and (i + 1) not in acc_comb
            worst = ''
            e = cb['layers'].get(req['lay']) if req['f'] in IMAGE_FEATURES and req['f'] != 'wms.map' else None
            ids = [x for x in ((e['lim'] if e else 'none'), cb['glob']) if x != 'none' and 'signed' in side.get(x, {})]
            if e and obs['px'] and ids:
                # (report only) how far outside the applicable areas the lit pixels are, how far inside the dark ones
                px = np.array(obs['px'])
                sg = np.max(np.stack([side[x]['signed'] for x in ids]), axis=0)
                if sg.shape == px.shape:
                    lit, dark = (px != 1) & (px != 0), px == 1
                    worst = ' [%d lit pixels more than one pixel outside the area (the farthest %.1f px), %d dark pixels more than one pixel inside (the deepest %.1f px)]' % (
                        int((lit & (sg > 1 + TOL)).sum()), max(0.0, float(sg[lit].max())) if lit.any() else 0.0,
                        int((dark & (sg < -1 - TOL)).sum()), max(0.0, float(-sg[dark].min())) if dark.any() else 0.0)
            text = ('oblique world (grid %s, limited_to in EPSG:4326, %s geometries): %s %s under callback %s -> status %s ups %s infos %s; '
                    'TLC: %s%s' % (world.srs, 'SPARSE' if sparse else 'densified', req['f'], describe(req), describe_cb(cb), obs['status'],
                                   obs['ups'], obs['infos'],
                                   {'content-outside': 'ClippedOutside violated by the observation',
                                    'content-missing-inside': 'ContentInside violated by the observation',
                                    'other': 'the observation violates the property',
                                    'trace-rejected': 'the response is not a terminal state of Auth.tla'}[what], worst))
            if sparse:
                ctx.violation(dict(SPARSE_SIG, service=family(req['f']), what=what), text, case)
            else:
                ctx.violation({'kind': 'oblique-property' if (i + 1) in bad else 'oblique-trace-rejected', 'feature': req['f'], 'what': what,
                               'geometries': 'densified'}, text, case)
    ctx.log('oblique worlds: validated %d recorded requests with TLC (%d with sparse geometries; %d rejected, %d violate the property)' % (
        total, nsparse, rejected, obsbad))


TILE_WITH_COVERAGE = ('tms', 'kml', 'wmts.kvp', 'wmts.rest', 'wmts.fi.kvp', 'wmts.fi.rest')


def ext_table_guard(inst, table, stats):
    """the exhaustive instance with an SRS extent contains what it is meant to contain (non-vacuity): GetMap reaching beyond the
    extent under a layer / request limit with dark, content and band pixels in the pasted part, blank answers, cases where the
    model of the code as found violates the property"""
    seen = collections.Counter()
    for req, cb, out, pruned, prop, path in table.values():
        if req['f'] != 'wms.map':
            continue
        rel, sub = ext_relation(inst.world, req['box'])
        if rel == 'blank':
            seen['blank'] += 1
            if 'OutsideExtent' not in path or out['status'] != 200 or out['ups_may']:
                raise tlc.MachineryError('%s: a GetMap outside the SRS extent is not answered by OutsideExtent: %r' % (inst.name, path))
        if rel != 'clipped' or out['status'] != 200 or cb['authorized'] != 'partial':
            continue
        lims = {e['lim'] for e in cb['layers'].values()} - {'none'}
        if not lims and cb['glob'] == 'none':
            continue
        seen['clipped-with-limit'] += 1
        seen['clipped-with-layer-limit'] += bool(lims)
        seen['clipped-with-request-limit'] += cb['glob'] != 'none'
        l, r_, t, bt = sub
        inner = [m for j, row in enumerate(out['px']) for i, m in enumerate(row) if l <= i < r_ and t <= j < bt]
        outer = [m for j, row in enumerate(out['px']) for i, m in enumerate(row) if not (l <= i < r_ and t <= j < bt)]
        if any(m != 1 for m in outer) or not outer:
            raise tlc.MachineryError('%s: content outside the pasted rectangle in the table of the model: %r' % (inst.name, req))
        seen['pasted:dark'] += any(m == 1 for m in inner)
        seen['pasted:content'] += any(m in (2, 4, 8, 16) for m in inner)
        seen['pasted:band'] += any(m not in (1, 2, 4, 8, 16) for m in inner)
        seen['model-of-the-code-violates-the-property'] += not prop
    for need, least in (('blank', 4), ('clipped-with-limit', 100), ('clipped-with-layer-limit', 50), ('clipped-with-request-limit', 50),
                        ('pasted:dark', 20), ('pasted:content', 20), ('pasted:band', 20), ('model-of-the-code-violates-the-property', 5)):
        if seen[need] < least:
            raise tlc.MachineryError('%s: the situation %r occurs only %d times in the enumerated table (at least %d expected): vacuous check' % (
                inst.name, need, seen[need], least))
    for k, v in seen.items():
        stats['exhaustive:' + k] = v


# ---------------------------------------------------------------------------------------------------------------
def attack(ctx, apps, inst, tables, invs=('ClippedOutside', 'InfoGateOK')):
    """TLC counterexamples of the model of the code as found (ClippedOutside / InfoGateOK), replayed on the real
    application"""
    for inv in invs:
        r = run_model(ctx, inst, False, [inv], False, 'attack-' + inv, timeout=600)
        if r.violated != inv or not r.trace:
            raise tlc.MachineryError('the model of the code as found satisfies %s - vacuous? %r' % (inv, r))
        st0, stn = r.trace[0][1], r.trace[-1][1]
        req, cb, out = norm_req(st0['req']), norm_cb(st0['cb']), stn['out']
        obs = observe(inst.world, apps.get(inst.world), req, cb, inst.geoms, 1)
        ctx.cov['replayed_behaviours'] += 1
        ctx.cov['replayed_steps'] += len(r.trace)
        ctx.count(('attack', inv))
        rep = tables[inst.other][case_key(req, cb)]
        reproduced = not compare(out, obs) and bool(compare(rep[2], obs))
        ctx.log('model (code as found) violates %s on %s %s under %s: %s on the real application' % (
            inv, req['f'], describe(req), describe_cb(cb),
            'REPRODUCED' if reproduced else 'not reproduced' if compare(out, obs) else 'not decisive (within the one-pixel band)'))
        if reproduced:
            ctx.violation(dict(inst.defect_sig, service=family(req['f']), **({'what': 'content-outside'} if inst.other == 'exact' else {})),
                          'counterexample of %s found by TLC on Auth.tla (code as found) reproduced on the real application: %s %s under '
                          'callback %s: %s' % (inv, req['f'], describe(req), describe_cb(cb),
                                               inst.defect_text if inst.other == 'exact' else
                                               'serves content / feature info outside the request-wide limited_to'),
                          {'instance': inst.name, 'world': world_json(inst.world), 'geoms': {k: g.json() for k, g in inst.geoms.items()},
                           'req': tla.jsonable(req), 'cb': tla.jsonable(cb), 'variant': 1, 'fmt': 'png', 'url': obs['url']})


def run(ctx):
    thorough = ctx.tier == 'thorough'
    tlc.sany(SPEC)
    insts = instances(ctx.tier)
    apps = Apps(ctx)
    stats = collections.Counter()
    xstats = collections.Counter()
    try:
        t0 = time.time()
        seen_situations = set()
        npruned = 0
        insts_tables = []
        for inst in insts:
            tables = {}
            need = {a for a in ACTIONS if any(applies(a, q['f'], inst.world, q['box']) for q in inst.requests)}
            if 'exact' in inst.variants:
                # (M) the reference model (sub-image of a GetMap reaching beyond the SRS extent not displaced) satisfies the
                # property on the whole universe ...
                r = run_model(ctx, inst, False, BASE_INV + PROPERTY, True, 'exact', exact=True)
                if not r.ok:
                    raise tlc.MachineryError('Auth.tla (%s, reference variant): %r\n%s' % (inst.name, r, r.out[-1500:]))
                tables['exact'] = cases_of(r)
                vacuity_guard('Auth ' + inst.name, inst, r, tables['exact'], need)
                # ... the model of the code as found does not satisfy ClippedOutside; its terminal states are the table for the code
                rf = run_model(ctx, inst, False, BASE_INV + ['DeniedStaysDark', 'InfoGateOK'], True, 'found')
                if not rf.ok:
                    raise tlc.MachineryError('Auth.tla (%s, code as found): %r\n%s' % (inst.name, rf, rf.out[-1500:]))
                tables['found'] = cases_of(rf)
                vacuity_guard('Auth ' + inst.name, inst, rf, tables['found'], need)
                ctx.add_tlc('Auth %s (sub-image not displaced), property checked' % inst.name, r)
                ctx.add_tlc('Auth %s (code as found), terminal states' % inst.name, rf)
                ext_table_guard(inst, tables['found'], xstats)
            elif 'repaired' in inst.variants:
                # (M) with both limits applied the model satisfies the property on the whole universe ...
                r = run_model(ctx, inst, True, BASE_INV + PROPERTY, True, 'repaired')
                if not r.ok:
                    raise tlc.MachineryError('Auth.tla (%s, repaired variant): %r\n%s' % (inst.name, r, r.out[-1500:]))
                tables['repaired'] = cases_of(r)
                vacuity_guard('Auth ' + inst.name, inst, r, tables['repaired'], need)
                # ... the model of the code as found does not (detect_variant); its terminal states are the table for the code as found
                rf = run_model(ctx, inst, False, BASE_INV + ['DeniedStaysDark', 'ContentInside'], True, 'found')
                if not rf.ok:
                    raise tlc.MachineryError('Auth.tla (%s, code as found): %r\n%s' % (inst.name, rf, rf.out[-1500:]))
                tables['found'] = cases_of(rf)
                vacuity_guard('Auth ' + inst.name, inst, rf, tables['found'], need)
                ctx.add_tlc('Auth %s (both limits applied), property checked' % inst.name, r)
                ctx.add_tlc('Auth %s (code as found), terminal states' % inst.name, rf)
            else:
                rr = run_model(ctx, inst, False, BASE_INV + PROPERTY, True, 'model')
                if not rr.ok:
                    raise tlc.MachineryError('Auth.tla (%s): %r\n%s' % (inst.name, rr, rr.out[-1500:]))
                tables['found'] = cases_of(rr)
                vacuity_guard('Auth ' + inst.name, inst, rr, tables['found'], need)
                ctx.add_tlc('Auth %s, property checked' % inst.name, rr)
            for t in tables.values():
                if not t:
                    raise tlc.MachineryError('no cases printed by TLC for %s' % inst.name)
                seen_situations |= table_guard(inst.name, t)
                npruned += sum(1 for v in t.values() if v[3])
            for vname, t in tables.items():
                if any(not v[4] for v in t.values()) and not (vname == 'found' and inst.other in tables):
                    raise tlc.MachineryError('%s/%s: unexpected property verdicts in the printed table' % (inst.name, vname))
            insts_tables.append(tables['found'])
            if inst is insts[0]:
                attack(ctx, apps, inst, tables)
            if inst.other == 'exact' and thorough:
                attack(ctx, apps, inst, tables, invs=('ClippedOutside',))
            replay_table(ctx, apps, inst, tables, 'spec->code')
        for need in ('status200', 'status401', 'status403', 'wms:dark', 'wms:content', 'wms:band', 'tms:dark', 'tms:content', 'tms:band',
                     'wmts:dark', 'kml:band', 'wms:info', 'wms:noinfo', 'wmts:info', 'wmts:noinfo'):
            if need not in seen_situations:
                raise tlc.MachineryError('the exhaustive instances never produce the situation %r (vacuous check)' % need)
        some = sorted(tables['found'].items())[len(tables['found']) // 2][1]
        for k, v in sorted(insts_tables[0].items()):
            flat = [m for row in v[2]['px'] for m in row]
            if v[1]['authorized'] == 'partial' and 1 in flat and 4 in flat and 5 in flat and v[0]['f'] == 'tms':
                some = v
                break
        ctx.sample({'kind': 'case enumerated by TLC with the response of the spec', 'request': tla.jsonable(some[0]),
                    'callback': tla.jsonable(some[1]), 'response': tla.jsonable(some[2])})
        if npruned:
            ctx.notes.append('observation (not part of C10): in %d enumerated cases an allowed layer is missing from the picture because it '
                             'was pruned below an opaque layer BEFORE that opaque layer was denied or clipped (wms.py:107-122); the real '
                             'application conforms to the model in these cases' % npruned)
            ctx.log('observation: %d cases where a layer pruned below an opaque layer stays missing although the opaque layer is denied / clipped' % npruned)
        ctx.log('exhaustive instances done  [%.0fs]' % (time.time() - t0))

        # (T) code -> spec
        random_traces(ctx, apps, nworlds=(18 if thorough else 6), nevents=(1500 if thorough else 500))

        # (T) code -> spec, oblique worlds: polar stereographic tile grid, limited_to areas natively in EPSG:4326
        oblique_traces(ctx, apps, nworlds=(6 if thorough else 3), nevents=(800 if thorough else 300), stats=stats)
        stats['outcome:disjoint'] = stats['outcome:disjoint-empty'] + stats['outcome:disjoint-rendered']
        ctx.log('oblique worlds, tile requests under densified areas: ' + ', '.join('%s=%d' % kv for kv in sorted(stats.items())))
        for need, least in (('outcome:contains', 3), ('outcome:masked', 20), ('outcome:disjoint', 3),
                            ('pixels:out-inside-corner-quadrilateral', 200), ('featureinfo:answered', 3),
                            ('featureinfo:point-outside-an-area', 3),
                            ('tiles:areas-contain-corner-quadrilateral-but-some-pixel-out', 20)):
            if stats[need] < least:
                raise tlc.MachineryError('the oblique worlds exercised the class %r only %d times (at least %d expected): vacuous check' % (
                    need, stats[need], least))
        ctx.notes.append('oblique worlds (tile requests under densified EPSG:4326 areas on a polar stereographic grid): '
                         + ', '.join('%s=%d' % kv for kv in sorted(stats.items())))

        # (T) code -> spec, worlds whose WMS service declares an extent for the request SRS: GetMap (png, jpeg) / GetFeatureInfo
        # inside, across one, two, all four edges of the extent, outside
        random_traces(ctx, apps, nworlds=(6 if thorough else 3), nevents=(1200 if thorough else 400), pool=EXT_POOL, stats=xstats)
        ctx.log('worlds with an SRS extent: ' + ', '.join('%s=%d' % kv for kv in sorted(xstats.items())))
        for need, least in (('map:inside', 20), ('map:clipped:1-edges', 30), ('map:clipped:2-edges', 30), ('map:clipped:4-edges', 10),
                            ('map:clipped:limit-in-force', 100), ('map:clipped:layer-limit', 50), ('map:clipped:request-limit', 50),
                            ('map:clipped:limit-border-in-the-pasted-part', 40), ('map:clipped:jpeg', 10), ('map:clipped:alias-code', 10),
                            ('map:blank-answer', 20), ('map:blank-answer:partial', 10), ('featureinfo:box-inside', 3),
                            ('featureinfo:box-clipped', 10), ('featureinfo:box-blank', 5), ('featureinfo:answered:box-clipped', 3),
                            ('featureinfo:answered:box-blank', 1)):
            if xstats[need] < least:
                raise tlc.MachineryError('the worlds with an SRS extent exercised the class %r only %d times (at least %d expected): '
                                         'vacuous check' % (need, xstats[need], least))
        ctx.notes.append('worlds with an SRS extent (bbox_srs): ' + ', '.join('%s=%d' % kv for kv in sorted(xstats.items())))
    finally:
        apps.close()
    ctx.assumptions += [
        'same-SRS worlds (exhaustive instances and random requests): limited_to areas are rectilinear (unions of lattice rectangles, '
        'holes, parts touching in a corner), given as bbox, WKT, several WKT lines or shapely geometry, in the request SRS, its alias '
        'EPSG:900913, or as EPSG:4326 coordinates of the same lattice vertices (web mercator keeps axis-parallel edges axis-parallel)',
        'oblique worlds (random requests only, validated by TLC against Trace_Auth): tile grid and WMS requests in EPSG:3995 (polar '
        'stereographic; 16x16 and 32x32 pixel tiles; the pole is outside the grid, the antimeridian is not reached), limited_to areas '
        'given natively in EPSG:4326 (lon/lat rectangles, half planes, polygons with few vertices, several parts, holes; as bbox, WKT, '
        'WKT lines or shapely geometry).  An area is the polygon of the lon/lat plane with straight edges between its vertices; the '
        'pixel classes, the class of the feature-info point and "meets the grid extent" are computed by the harness with pyproj point '
        'transforms and shapely (outline densified in EPSG:4326 to a chord error of %g grid units, i.e. below 1/1000 pixel) and are '
        'INPUTS of the model; a pixel within %g pixel of the one-pixel threshold counts as boundary band, a feature-info point within '
        '%g pixel of the boundary may be answered either way.  The accuracy of pyproj itself is not decided.' % (TRUE_EPS, TOL, TOL),
        'oblique worlds: 80%% of the requests use areas handed to MapProxy with densified edges (chord error below %g grid units = '
        '%g pixel at the finest level): these must satisfy the property; 20%% use the same kind of areas with their few vertices only '
        '(e.g. a lon/lat rectangle as 4 numbers): violations there are reported under the signature %s' % (
            DENSE_EPS, DENSE_EPS, json.dumps(SPARSE_SIG, sort_keys=True)),
        'oblique worlds: WMS requests in EPSG:4326 against the polar grid, tiles containing the pole, and the exhaustive (model '
        'checked) instances are same-SRS only / not covered',
        'requests lie inside the extent of the tile grid (worlds with an SRS extent: the GetFeatureInfo boxes and the part of a GetMap '
        'inside the SRS extent do; the SRS extent lies inside the tile grid); upstreams answer every request with a flat colour; '
        'caches do not store (every rendered layer reaches its upstream)',
        'worlds with an SRS extent (services: wms: bbox_srs for EPSG:3857 and EPSG:900913; same-SRS lattice worlds only): the extent is '
        'a lattice rectangle %s (exhaustive instance) / %s (random requests) whose edges are no multiples of the pixel sizes; GetMap '
        'boxes lie inside the extent, across one, two, three or all four of its edges, or outside (also touching it from outside), '
        'inside the rectangle %s; the part of a request inside the extent is at least one pixel row and column of the sub-query '
        '(bbox_position_in_image gives a sub-query of size 0 otherwise and MapProxy answers 500 Internal Server Error, e.g. extent '
        '[35,45,905,425], BBOX=20,30,40,50 WIDTH=1 HEIGHT=1: not modelled, not part of C10) and the sub-query is not coarser than %d '
        'units per pixel (cached layers answer blank beyond 4 x the coarsest grid resolution).  The offsets of the pasted rectangle are '
        'exact in the model (integers: int() of the float quotient is the floor of the exact quotient); the centre of a pixel of the '
        'sub-query is rounded to doubled lattice units and the one-pixel band of the masks is widened by one lattice unit (sound: the '
        'model of the code allows no less than the code can do).  GetCapabilities is not requested in these worlds (with bbox_srs the '
        'document fails with 500 when the limited_to area of a permitted layer misses the SRS extent: Capabilities.layer_srs_bbox, '
        'intersection None; not part of C10)' % (list(EXT), ', '.join(str(d['ext']) for d in EXT_POOL), list(EXT_REQ_WINDOW), MAX_RES),
        'a GetMap that does not meet the SRS extent is answered with a blank image without the authorization callback being asked '
        '(also 200 instead of 401 / 403): modelled as it is (OutsideExtent), no content results',
        'ContentInside demands content only more than one pixel inside the SRS extent (the unrestricted rendering has none outside)',
        '"one pixel" is the larger of the two pixel sides; pixels whose centre is within one pixel of the boundary of an area may '
        'have either value; a feature-info point exactly on the boundary may be answered either way',
        'the query point of GetFeatureInfo is the upper left corner of pixel (I, J), as the code computes it',
        'jpeg answers: colours are classified with a tolerance of 40 per channel, blends are accepted in the boundary band only',
        'the unnamed root layer is used; a named root layer is listed in the WMS capabilities without being filtered (not part of '
        'the property: no image, feature info or upstream request results)',
    ]
    return ctx.finish('model_checking',
                      'TLC: all (request, callback result) pairs of the stated universes (1-3 layers with a group, all services); every '
                      'pair executed on the real application; distinct = distinct (case, observation) pairs plus distinct recorded '
                      'random requests (same-SRS worlds, worlds with an SRS extent, oblique worlds: polar stereographic grid, EPSG:4326 '
                      'areas)',
                      extra={'oblique_worlds': dict(stats), 'srs_extent_worlds': dict(xstats)})


def applies(action, f, world=None, box=None):
    blank = f == 'wms.map' and world is not None and ext_relation(world, box)[0] == 'blank'
    wms = f in ('wms.map', 'wms.fi') and not blank
    return {'OutsideExtent': blank,
            'CollectLayers': wms, 'CallAuthorize': wms, 'FilterActualLayers': wms, 'RenderAndMerge': f == 'wms.map' and not blank,
            'InfoGate': f == 'wms.fi', 'WmsCapabilities': f == 'wms.caps',
            'TileAuthorize': f in TILE_WITH_COVERAGE + ('tms.layer', 'kml.doc'),
            'TileRender': f in ('tms', 'kml', 'wmts.kvp', 'wmts.rest'), 'TileInfoGate': f in ('wmts.fi.kvp', 'wmts.fi.rest'),
            'TileDocument': f in ('tms.layer', 'kml.doc'), 'TileCapabilities': f in ('tms.caps', 'wmts.caps')}[action]


def replay(ctx, data):
    case = data.get('case') or {}
    if not case:
        print('nothing to replay')
        return 0
    world = world_from_json(case['world'])
    geoms = {k: (OGeom.from_json(g) if 'wkt4326' in g else Geom(g['rects'], g['holes'])) for k, g in case['geoms'].items()}
    req = norm_req(case['req'])
    cbj = case['cb']
    cb = norm_cb({'authorized': cbj['authorized'], 'glob': cbj['glob'], 'layers': cbj['layers'] if isinstance(cbj['layers'], dict) else {}})
    apps = Apps(ctx)
    try:
        obs = observe(world, apps.get(world), req, cb, geoms, case.get('variant', 0), case.get('fmt', 'png'))
        print('request :', obs['url'])
        print('callback:', describe_cb(cb))
        print('observed: status %s upstream %s infos %s listing %s' % (obs['status'], obs['ups'], obs['infos'], obs['listing']))
        for row in obs['px']:
            print('          ' + ' '.join('%-4s' % NAMES_OF.get(c, '?') for c in row))
        r, acc_found, acc_comb, bad = validate_events(ctx, world, geoms, [event_json(world, req, cb, obs, geoms)], 'replay')
        if world.ext:
            rel, sub = ext_relation(world, req['box']) if req['f'] == 'wms.map' else ('-', None)
            print('SRS extent %s: %s%s; reference model (sub-image not displaced): %s' % (
                list(world.ext), rel, ' (pasted columns %d..%d, rows %d..%d)' % (sub[0], sub[1] - 1, sub[2], sub[3] - 1) if sub else '',
                'accepted' if r.acc_exact else 'REJECTED' if rel == 'clipped' else 'not run'))
        print('Trace_Auth: %s by the model of the code as found, %s by the model with both limits applied; property on the observation: %s' % (
            'accepted' if acc_found else 'REJECTED', 'accepted' if acc_comb else 'REJECTED',
            ('VIOLATED' + (' (content outside an area)' if r.bad_outside else '') + (' (content missing well inside)' if r.bad_inside else ''))
            if bad else 'holds'))
        if world.frame:
            print('oblique world: grid %s, areas given in EPSG:4326 (%s)' % (
                world.srs, ', '.join('%s: %s' % (k, 'sparse' if g.sparse else 'densified') for k, g in sorted(geoms.items()))))
        rc = 1 if bad or not (acc_found or acc_comb or r.acc_exact) else 0
        return rc
    finally:
        apps.close()
        shutil.rmtree(ctx.workdir, ignore_errors=True)
