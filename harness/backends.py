"""Real cache backends, concrete address universes and tile payloads shared by the cache checks (C05, C06, C12, C19)."""
import io
import os
import shutil
import tempfile


def _png(pixels, size=(4, 4)):
    from PIL import Image
    img = Image.new('RGB', size)
    img.putdata(pixels)
    buf = io.BytesIO()
    img.save(buf, 'PNG')
    return buf.getvalue()


_PAY = {}


def payload(name):
    """bytes for a model value: b1..b9 distinct multi-colour PNGs, s1/s2 single-colour PNGs"""
    if name not in _PAY:
        if name.startswith('s'):
            k = int(name[1:])
            col = [(254, 0, 4), (0, 0, 200), (10, 200, 10)][k % 3]
            _PAY[name] = _png([col] * 16)
        else:
            k = int(name[1:])
            _PAY[name] = _png([((k * 37 + i * 11) % 256, (i * 29) % 256, (k * 91) % 256) for i in range(16)])
    return _PAY[name]


def name_of(data, names):
    if data is None:
        return 'none'
    for n in names:
        if payload(n) == data:
            return n
    return 'foreign:%d:%s' % (len(data), data[:12].hex())


# concrete address families: name -> (x, y, z, dims)
FAMILIES = {
    'levels': [(0, 0, 0, None), (0, 0, 1, None), (1, 0, 1, None), (0, 1, 1, None), (1, 1, 1, None), (0, 0, 2, None)],
    'bundle': [(127, 5, 8, None), (128, 5, 8, None), (5, 127, 8, None), (5, 128, 8, None), (127, 127, 8, None),
               (128, 128, 8, None)],
    'digits': [(999, 0, 12, None), (1000, 0, 12, None), (0, 999, 12, None), (0, 1000, 12, None), (9999, 1, 15, None),
               (10000, 1, 15, None)],
    'samexy': [(3, 2, 2, None), (3, 2, 3, None), (3, 2, 4, None), (2, 3, 3, None), (2, 3, 2, None), (3, 3, 2, None)],
    'dims': [(0, 0, 1, None), (0, 0, 1, {'time': 't1'}), (0, 0, 1, {'time': 't2'}), (1, 0, 1, {'time': 't1'}),
             (0, 0, 1, {'time': 't1', 'elevation': 'e1'}), (0, 0, 1, {'elevation': 'e1'})],
}


class Backend(object):
    """Factory for one backend configuration on a private directory."""

    def __init__(self, name, make, dims=False, links=False):
        self.name = name
        self._make = make
        self.dims = dims
        self.links = links
        self.dir = None

    def open(self):
        self.dir = tempfile.mkdtemp(prefix='verif-cache-')
        return self

    def new(self):
        return self._make(self.dir)

    def close(self):
        if self.dir:
            shutil.rmtree(self.dir, ignore_errors=True)
            self.dir = None


def _grid():
    from mapproxy.grid import tile_grid
    return tile_grid(3857, origin='ll')


def all_backends(extra=False):
    from mapproxy.cache.file import FileCache
    from mapproxy.cache.mbtiles import MBTilesCache, MBTilesLevelCache
    from mapproxy.cache.geopackage import GeopackageCache, GeopackageLevelCache
    from mapproxy.cache.compact import CompactCacheV1, CompactCacheV2
    bs = []
    for layout in ('tc', 'mp', 'tms', 'reverse_tms', 'quadkey', 'arcgis'):
        bs.append(Backend('file-' + layout,
                          lambda d, layout=layout: FileCache(os.path.join(d, 'c'), 'png', directory_layout=layout),
                          dims=True))
    bs.append(Backend('file-tc-symlink', lambda d: FileCache(os.path.join(d, 'c'), 'png', link_single_color_images=True),
                      dims=True, links=True))
    bs.append(Backend('file-tc-hardlink', lambda d: FileCache(os.path.join(d, 'c'), 'png',
                                                              link_single_color_images='hardlink'), dims=True, links=True))
    bs.append(Backend('mbtiles', lambda d: MBTilesCache(os.path.join(d, 'c.mbtiles'))))
    bs.append(Backend('mbtiles-ts', lambda d: MBTilesCache(os.path.join(d, 'c.mbtiles'), with_timestamps=True)))
    bs.append(Backend('sqlite-level', lambda d: MBTilesLevelCache(os.path.join(d, 'c'))))
    bs.append(Backend('geopackage', lambda d: GeopackageCache(os.path.join(d, 'c.gpkg'), _grid(), 'tiles')))
    bs.append(Backend('geopackage-level', lambda d: GeopackageLevelCache(os.path.join(d, 'c'), _grid(), 'tiles')))
    bs.append(Backend('compact-v1', lambda d: CompactCacheV1(os.path.join(d, 'c'))))
    bs.append(Backend('compact-v2', lambda d: CompactCacheV2(os.path.join(d, 'c'))))
    if extra:
        # the cache directory is reached through a symbolic link that lives at another depth than what it points to
        # (a cache moved to another volume): the links of single-colour tiles have to work from where the tiles really are
        def via_link(d):
            real = os.path.join(d, 'mnt', 'volume1', 'tiles', 'osm')
            if not os.path.isdir(real):
                os.makedirs(real)
                os.symlink(real, os.path.join(d, 'c'))
            return FileCache(os.path.join(d, 'c'), 'png', link_single_color_images=True)
        bs.append(Backend('file-tc-symlink-moved', via_link, dims=True, links=True))
    return bs


def cleanup(cache):
    if hasattr(cache, 'cleanup'):
        try:
            cache.cleanup()
        except Exception:
            pass


# ---- operations on a real backend -------------------------------------------------------------------
def _tile(addr, data=None):
    from mapproxy.cache.tile import Tile
    from mapproxy.image import ImageSource
    x, y, z, dims = addr
    if data is None:
        return Tile((x, y, z))
    return Tile((x, y, z), ImageSource(io.BytesIO(data)))


def _read(tile):
    if tile.source is None:
        return None
    buf = tile.source.as_buffer()
    buf.seek(0)
    return buf.read()


def op_store(cache, addr, data):
    cache.store_tile(_tile(addr, data), dimensions=addr[3])


def op_store_bulk(cache, pairs):
    dims = pairs[0][0][3]
    cache.store_tiles([_tile(a, d) for a, d in pairs], dimensions=dims)


def op_remove(cache, addr):
    cache.remove_tile(_tile(addr), dimensions=addr[3])


def op_remove_bulk(cache, addrs):
    cache.remove_tiles([_tile(a) for a in addrs], dimensions=addrs[0][3])


def op_load(cache, addr):
    t = _tile(addr)
    cache.load_tile(t, dimensions=addr[3])
    return _read(t)


def op_load_bulk(cache, addrs):
    ts = [_tile(a) for a in addrs]
    cache.load_tiles(ts, dimensions=addrs[0][3])
    return [_read(t) for t in ts]


def op_is_cached(cache, addr):
    return bool(cache.is_cached(_tile(addr), dimensions=addr[3]))


def project(backend, universe):
    """full map of the universe read through a FRESH cache object"""
    c = backend.new()
    try:
        return [op_load(c, a) for a in universe]
    finally:
        cleanup(c)
