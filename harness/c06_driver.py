"""Runs under strace (see engine/fsrec.py): performs the stores of a plan, each between two markers."""
import io
import json
import os
import shutil
import sys


def mark(tag):
    try:
        os.mkdir('/VERIF-MARK-%s' % tag)
    except OSError:
        pass


def main():
    from harness import backends as B
    plan = json.load(open(sys.argv[1]))
    mark('pid-%d' % os.getpid())          # (the restarted process of the harness gets the same process id)
    bks = {b.name: b for b in B.all_backends()}
    for case in plan:
        d = case['dir']
        kind = case['kind']
        if kind == 'tile':
            b = bks[case['backend']]
            b.dir = d
            c = b.new()
            for a, p in case['prior']:
                B.op_store(c, tuple(a[:3]) + (None,), B.payload(p))
            B.cleanup(c)
            shutil.copytree(d, d + '.pre', symlinks=True)
            c = b.new()
            batch = [(tuple(a[:3]) + (None,), B.payload(p)) for a, p in case['batch']]
            mark(case['id'] + '-b')
            if len(batch) == 1:
                B.op_store(c, batch[0][0], batch[0][1])
            else:
                B.op_store_bulk(c, batch)
            mark(case['id'] + '-e')
            B.cleanup(c)
        elif kind == 'legend':
            from mapproxy.cache.legend import LegendCache, Legend
            from mapproxy.image import ImageSource
            lc = LegendCache(os.path.join(d, 'legends'), 'png')
            if case['prior']:
                lc.store(Legend(ImageSource(io.BytesIO(B.payload(case['prior']))), id='leg', scale=None))
            shutil.copytree(d, d + '.pre', symlinks=True)
            leg = Legend(ImageSource(io.BytesIO(B.payload(case['new']))), id='leg', scale=None)
            mark(case['id'] + '-b')
            lc.store(leg)
            mark(case['id'] + '-e')
        elif kind == 'progress':
            from mapproxy.seed.util import ProgressStore
            fn = os.path.join(d, 'progress', 'seed.progress')
            os.makedirs(os.path.dirname(fn))
            if case['prior']:
                ps = ProgressStore(fn, continue_seed=False)
                ps.add('task', case['prior'])
                ps.write()
            shutil.copytree(d, d + '.pre', symlinks=True)
            ps = ProgressStore(fn, continue_seed=True)
            ps.add('task', case['new'])
            mark(case['id'] + '-b')
            ps.write()
            mark(case['id'] + '-e')


if __name__ == '__main__':
    main()
