"""C16 - invalid or oversized requests are refused before they cost anything.

spec/TileRefuse.tla models one tile / map request as seen at MapProxy's boundaries (request in, upstream
requests out, cache writes, response out) with the decision procedure of every service flavour transcribed in
code order.  TLC checks the property on the model for all requests of an address window per flavour; the
table of all single requests (expected response class, status, reason, upstream requests, cache writes) and
TLC-simulated multi-request behaviours are executed on the real WSGI application (spec -> code); random
request sequences on lattice grids and on the real global grids are recorded from the application and
validated by TLC against spec/trace/Trace_TileRefuse.tla with all invariants (code -> spec).
"""
import io
import json
import os
import re
import shutil

from engine import tlc, tla

SPEC = os.path.join(tlc.SPEC_DIR, 'TileRefuse.tla')
TRACE_SPEC = os.path.join(tlc.SPEC_DIR, 'trace', 'Trace_TileRefuse.tla')

HUGE_TXT = '1' + '0' * 30
BIGXY = 2 ** 31 - 1
BIGZ = 2 ** 30 - 2          # z + 1 and 2 * z stay inside TLC's integers
INVARIANTS = ['TypeOK', 'RejectedHasNoEffects', 'StoredInsideGrid', 'InvalidIsRefused', 'ValidIsServed']
ACTIONS = ['DoTileRequest', 'DoMapRequest', 'RenderLayer', 'DoFetch', 'DoStore', 'Respond', 'Forget']


# ---------------------------------------------------------------------------------------------
# worlds: one MapProxy configuration each, described twice - as constants of the model and as a
# configuration of the real application
# ---------------------------------------------------------------------------------------------
class World(object):
    def __init__(self, name, origin='ll', bbox=(0, 0, 640, 320), res=(80, 40, 20), tile_size=(4, 4), meta=(1, 1),
                 dims=(), dim_default='', cov=None, tile_limit=0, pixel_limit=0, source='tile', coarse=False,
                 global_grid=None, sqrt2=False, levels=None, srs_extent=None, mixed=False):
        self.name = name
        self.mixed = mixed       # cache with `format: mixed` (png or jpeg files, the tile set offers image/png only)
        self.srs_extent = tuple(srs_extent) if srs_extent else None     # services.wms.bbox_srs: extent of the request SRS
        self.origin = origin
        self.bbox = tuple(bbox)
        self.res = tuple(res)
        self.tile_size = tuple(tile_size)
        self.meta = tuple(meta)
        self.dims = tuple(dims)
        self.dim_default = dim_default
        self.cov = tuple(cov) if cov else None
        self.tile_limit = tile_limit
        self.pixel_limit = pixel_limit
        self.source = source
        self.coarse = coarse
        self.global_grid = global_grid
        self.sqrt2 = sqrt2
        self.skip_first = False
        if global_grid:
            n = levels or 20
            if global_grid in ('GLOBAL_MERCATOR', 'GLOBAL_WEBMERCATOR'):
                self.sizes = [(2 ** z, 2 ** z) for z in range(n)]
                self.origin = 'ul' if global_grid == 'GLOBAL_WEBMERCATOR' else 'll'
            else:
                self.sizes = [(2 ** z, max(1, 2 ** (z - 1))) for z in range(n)]
                self.origin = 'll'
            self.skip_first = True
            self.wmts = self.origin == 'ul' or global_grid == 'GLOBAL_MERCATOR'
            self.res = ()
            self.tile_size = (256, 256)
        elif sqrt2:
            # res_factor sqrt2 from res[0]: every second level is a level of the factor-2 pyramid
            self.sizes = list(levels)
            self.res = ()
            self.wmts = False
        else:
            W, H = self.bbox[2] - self.bbox[0], self.bbox[3] - self.bbox[1]
            # grid.py _calc_grids: whole pixels of the bbox, then whole tiles (a last column narrower than a pixel is dropped)
            self.sizes = [(max(1, -(-(W // r) // self.tile_size[0])), max(1, -(-(H // r) // self.tile_size[1]))) for r in self.res]
            self.wmts = self.origin == 'ul' or all(h * r * self.tile_size[1] == H for (w, h), r in zip(self.sizes, self.res))

    @property
    def levels(self):
        return len(self.sizes)

    def consts(self, universe=None, precheck=False, max_req=1):
        c = dict(GridSizes=tuple(self.sizes), Res=tuple(self.res), TileSize=self.tile_size, BBox=self.bbox,
                 GridOrigin=self.origin, SkipFirst=self.skip_first, SkipOdd=bool(self.sqrt2), WmtsOffered=self.wmts,
                 LayerFormat='png', DimValues=set(self.dims), DimDefault=self.dim_default,
                 CovBox=self.cov if self.cov else (), Meta=self.meta, TileLimit=self.tile_limit,
                 PixelLimit=self.pixel_limit, CoarseLevels=self.levels - 1 if self.coarse else 0,
                 PrecheckAllLayers=precheck, MaxReq=max_req)
        u = universe or {}
        c['Flavours'] = set(u.get('flavours', ()))
        for k, key in (('ZToks', 'z'), ('XToks', 'x'), ('YToks', 'y')):
            c[k] = '=' + tokset(u.get(key, ()))
        c['Fmts'] = set(u.get('fmts', ()))
        c['DimToks'] = set(u.get('dimtoks', ()))
        c['VaryAt'] = '={' + ', '.join('<<%s, %s>>' % (tok(a), tok(b)) for a, b in u.get('vary', ())) + '}'
        c['MapLayerSeqs'] = '={' + ', '.join(tla.to_tla(tuple(s)) for s in u.get('layerseqs', ())) + '}'
        c['MapLevels'] = set(u.get('maplevels', ()))
        c['MapOffs'] = set(u.get('mapoffs', ()))
        c['MapSizes'] = set(u.get('mapsizes', ()))
        return c


WORD_TEXTS = ['abc', '-0.5', '-1e-3', '-.9', '0.5', '1.0']
_WORDS = [0]


def tok(t):
    """python token -> TLA record.  ints, 'huge', 'neghuge', 'word'"""
    if isinstance(t, int):
        return '[k |-> "int", v |-> %d]' % t
    return '[k |-> "%s", v |-> 0]' % t


def tokset(ts):
    return '{' + ', '.join(tok(t) for t in ts) + '}'


def tok_text(t):
    if isinstance(t, int):
        return str(t)
    if t == 'word':
        # identifiers that are not whole numbers: a word, and numbers with a fraction or an exponent (whoever parses them
        # leniently - int(float(..)) - truncates -0.5 to the valid index 0)
        _WORDS[0] += 1
        return WORD_TEXTS[_WORDS[0] % len(WORD_TEXTS)]
    return {'huge': HUGE_TXT, 'neghuge': '-' + HUGE_TXT}[t]


def tok_from_tla(r):
    return int(r['v']) if r['k'] == 'int' else str(r['k'])


def tok_json(t):
    return {'k': 'int', 'v': t} if isinstance(t, int) else {'k': t, 'v': 0}


FLAVOURS = ['tms', 'tms_nw', 'tiles', 'tiles_nw', 'tiles_sw', 'kml', 'wmts_kvp', 'wmts_rest']


def window_universe(w, margin=2, flavours=FLAVOURS, maps=True, vary=True, special=True):
    """The address window of DESIGN C16: -margin .. size+margin per axis (size of the largest level), levels
    -1 .. levels+1, the huge class and non-numeric identifiers; format / dimension varied at a few addresses."""
    mw = max(s[0] for s in w.sizes)
    mh = max(s[1] for s in w.sizes)
    xs = list(range(-margin, mw + margin + 1))
    ys = list(range(-margin, mh + margin + 1))
    zs = list(range(-1, w.levels + 2))
    if special:
        xs += [BIGXY, 'huge', 'neghuge', 'word']
        ys += [BIGXY, 'huge', 'neghuge', 'word']
        zs += [BIGZ, 'huge', 'neghuge', 'word']
    u = dict(flavours=flavours, x=xs, y=ys, z=zs, fmts=['png'], dimtoks=[''], vary=[])
    if vary:
        u['fmts'] = ['png', 'jpeg']
        # besides the offered values: their spelling in the other case and DEFAULT (values are matched as they are
        # written; a value that merely looks like an offered one names another cache directory and another upstream TIME)
        u['dimtoks'] = [''] + (list(w.dims) + ['default', 'bad', w.dims[0].upper(), 'DEFAULT'] if w.dims else ['bad'])
        u['vary'] = [(0, 0), (1, 0), (mw, 0), (0, mh), (-1, 0)]
    if special:
        u['vary'] = list(u['vary'] or [(0, 0), (mw, 0)]) + [
            ('word', 0), (0, 'word'), ('word', 'word'), ('huge', 0), (0, 'huge'), ('huge', 'huge'), ('neghuge', 0),
            (0, 'neghuge'), (BIGXY, 0), (0, BIGXY)]
    if maps and w.res and w.tile_limit:
        tw = w.tile_size[0]
        u['layerseqs'] = [('fine',)]
        u['maplevels'] = list(range(w.levels))
        u['mapoffs'] = [-tw, -tw // 2, 0, tw // 2, 3 * tw]
        u['mapsizes'] = [tw // 2, tw, 2 * tw, 3 * tw, 4 * tw, 4 * tw + 2, 5 * tw] if margin > 2 else \
            [tw // 2, 2 * tw, 3 * tw, 4 * tw, 4 * tw + 2, 5 * tw]
    return u


# ---------------------------------------------------------------------------------------------
# the real application, instrumented at its boundaries
# ---------------------------------------------------------------------------------------------
SRS_OF = {None: 'EPSG:3857', 'GLOBAL_MERCATOR': 'EPSG:900913', 'GLOBAL_WEBMERCATOR': 'EPSG:3857',
          'GLOBAL_GEODETIC': 'EPSG:4326'}
_PNG_CACHE = {}


def _png(size):
    if size not in _PNG_CACHE:
        from PIL import Image
        b = io.BytesIO()
        Image.new('RGBA', size, (255, 0, 0, 255)).save(b, 'png')
        _PNG_CACHE[size] = b.getvalue()
    return _PNG_CACHE[size]


class _Resp(io.BytesIO):
    pass


class App(object):
    """One in-process MapProxy for a world.  Upstream requests (HTTPClient.open) and cache writes (store_tile
    of the cache objects) are logged; the cache directory listing is the projected cache state."""

    def __init__(self, world, workdir):
        import mapproxy.client.http as H
        from mapproxy.config.loader import ProxyConfiguration
        from mapproxy.wsgiapp import MapProxyApp
        import webtest
        import logging
        lg = logging.getLogger('mapproxy')
        if not any(isinstance(h, logging.NullHandler) for h in lg.handlers):
            lg.addHandler(logging.NullHandler())
        lg.propagate = False
        self.w = world
        self.dir = workdir
        self.cache_dir = os.path.join(workdir, 'cache')
        self.events = []          # ('fetch', (layer, bx, by, z)) / ('store', (layer, x, y, z, dim)) in real order
        self.unknown_upstream = []
        self.srs = SRS_OF[world.global_grid]
        self.srs_path = self.srs.replace(':', '').upper()
        self._H = H
        self._orig_open = H.HTTPClient.open
        app_self = self

        def fake_open(client, url, data=None, method=None):
            size = app_self._log_upstream(url)
            r = _Resp(_png(size))
            r.headers = {'Content-type': 'image/png'}
            r.code = 200
            return r
        H.HTTPClient.open = fake_open
        try:
            pc = ProxyConfiguration(self._conf(), conf_base_dir=workdir, seed=False, renderd=False)
            self.app = webtest.TestApp(MapProxyApp(pc.configured_services(), pc.base_config))
            for lay, cname in (('fine', 'cfine'), ('coarse', 'ccoarse')):
                if cname not in pc.caches:
                    continue
                for grid, extent, mgr in pc.caches[cname].caches():
                    self._wrap_cache(lay, mgr.cache)
        except Exception:
            self.close()
            raise

    def close(self):
        self._H.HTTPClient.open = self._orig_open
        shutil.rmtree(self.dir, ignore_errors=True)

    # -- configuration ------------------------------------------------------------------------
    def _conf(self):
        w = self.w
        d = self.dir
        if w.global_grid:
            grids = {'g': {'base': w.global_grid, 'num_levels': w.levels}}
        elif w.sqrt2:
            grids = {'g': {'srs': self.srs, 'bbox': list(w.bbox), 'res_factor': 'sqrt2', 'min_res': w.sqrt2,
                           'num_levels': w.levels, 'tile_size': list(w.tile_size), 'origin': w.origin}}
        else:
            grids = {'g': {'srs': self.srs, 'bbox': list(w.bbox), 'res': list(w.res), 'tile_size': list(w.tile_size),
                           'origin': w.origin}}
        sources, caches, layers = {}, {}, []
        names = [('fine', 'g')]
        if w.coarse:
            grids['gc'] = dict(grids['g'], res=list(w.res[:-1]))
            names.append(('coarse', 'gc'))
        for lay, g in names:
            if w.source == 'tile':
                src = {'type': 'tile', 'url': 'http://up-%s/%%(z)s/%%(x)s/%%(y)s.png' % lay, 'grid': g}
            else:
                src = {'type': 'wms', 'req': {'url': 'http://up-%s/service' % lay, 'layers': lay},
                       'supported_srs': [self.srs]}
            if w.cov and lay == 'fine':
                src['coverage'] = {'bbox': list(w.cov), 'srs': self.srs}
            sources['s' + lay] = src
            c = {'grids': [g], 'sources': ['s' + lay], 'meta_size': list(w.meta), 'meta_buffer': 0,
                 'cache': {'type': 'file', 'directory_layout': 'tms', 'directory': os.path.join(self.cache_dir, lay)}}
            if w.tile_limit:
                c['max_tile_limit'] = w.tile_limit
            if w.mixed:
                c['format'] = 'mixed'
                c['request_format'] = 'image/png'
            caches['c' + lay] = c
            layer = {'name': lay, 'title': lay, 'sources': ['c' + lay]}
            if w.dims and lay == 'fine':
                layer['dimensions'] = {'time': {'values': list(w.dims), 'default': w.dim_default}}
            layers.append(layer)
        if w.source != 'tile':
            # a layer fed by the WMS source itself (no cache in between): limits have to hold for it as well
            layers.append({'name': 'direct', 'title': 'direct', 'sources': ['sfine']})
        wmts = {'restful': True, 'kvp': True}
        if w.dims:
            wmts['restful_template'] = '/{Layer}/{TileMatrixSet}/{Time}/{TileMatrix}/{TileCol}/{TileRow}.{Format}'
        services = {'tms': {}, 'kml': {}, 'wmts': wmts, 'wms': {'srs': [self.srs]}}
        if w.pixel_limit:
            services['wms']['max_output_pixels'] = w.pixel_limit
        if w.srs_extent:
            services['wms']['bbox_srs'] = [{'srs': self.srs, 'bbox': list(w.srs_extent)}]
        return {
            'globals': {'image': {'paletted': False, 'resampling_method': 'nearest'},
                        'cache': {'base_dir': self.cache_dir, 'lock_dir': os.path.join(d, 'locks'),
                                  'tile_lock_dir': os.path.join(d, 'tile_locks'), 'concurrent_tile_creators': 1}},
            'services': services, 'grids': grids, 'sources': sources, 'caches': caches, 'layers': layers}

    # -- instrumentation ----------------------------------------------------------------------
    def _wrap_cache(self, lay, cache):
        orig = cache.store_tile
        log = self.events

        def store_tile(tile, dimensions=None, *a, **kw):
            res = orig(tile, dimensions, *a, **kw)
            if tile.coord is not None:
                # the dimension the tile was filed under is read off the location the cache wrote to
                m = re.search(r'(?:^|/)time-([^/]+)/', str(getattr(tile, 'location', '') or ''))
                log.append(('store', (lay,) + tuple(tile.coord) + (m.group(1) if m else '-',)))
            return res
        cache.store_tile = store_tile

    def _log_upstream(self, url):
        """log the meta block an upstream URL asks for; returns the image size to answer with"""
        w = self.w
        m = re.match(r'^http://up-(\w+)/(-?\d+)/(-?\d+)/(-?\d+)\.png$', url)
        if m:
            self.events.append(('fetch', (m.group(1), int(m.group(3)), int(m.group(4)), int(m.group(2)))))
            return tuple(w.tile_size)
        m = re.match(r'^http://up-(\w+)/service\?(.*)$', url)
        if m and w.res:
            q = dict(p.split('=', 1) for p in m.group(2).split('&') if '=' in p)
            q = {k.lower(): v for k, v in q.items()}
            try:
                box = [float(v) for v in q['bbox'].replace('%2C', ',').split(',')]
                width, height = int(q['width']), int(q['height'])
                res = (box[2] - box[0]) / width
                z = list(w.res).index(res)
                sx, sy = res * w.tile_size[0], res * w.tile_size[1]
                bx = (box[0] - w.bbox[0]) / sx
                by = (w.bbox[3] - box[3]) / sy if w.origin == 'ul' else (box[1] - w.bbox[1]) / sy
                if bx != int(bx) or by != int(by):
                    raise ValueError('not on the tile lattice')
                self.events.append(('fetch', (m.group(1), int(bx), int(by), z)))
                return (width, height)
            except (KeyError, ValueError) as ex:
                self.unknown_upstream.append('%s (%s)' % (url, ex))
                try:
                    return (int(q['width']), int(q['height']))
                except Exception:
                    return tuple(w.tile_size)
        self.unknown_upstream.append(url)
        return tuple(w.tile_size)

    def cached(self):
        """the cache content as the set of addresses whose files exist"""
        out = set()
        for lay in ('fine', 'coarse'):
            base = os.path.join(self.cache_dir, lay)
            for root, dirs, files in os.walk(base):
                for f in files:
                    rel = os.path.relpath(os.path.join(root, f), base).split(os.sep)
                    dim = '-'
                    if rel and rel[0].startswith('time-'):
                        dim = rel[0][5:]
                        rel = rel[1:]
                    ext = '.mixed' if self.w.mixed else '.png'          # (a cache in mixed mode names its files *.mixed)
                    if len(rel) == 3 and rel[2].endswith(ext):
                        try:
                            out.add((lay, int(rel[1]), int(rel[2][:-len(ext)]), int(rel[0]), dim))
                            continue
                        except ValueError:
                            pass
                    out.add((lay, 'stray:' + '/'.join(rel), 0, 0, dim))
        return out

    def reset_cache(self):
        shutil.rmtree(self.cache_dir, ignore_errors=True)

    # -- requests -----------------------------------------------------------------------------
    def url(self, r):
        w = self.w
        if r['kind'] == 'map':
            res = w.res[r['L']]
            x0 = w.bbox[0] + r['px'] * res
            y0 = w.bbox[1] + r['py'] * res
            layers = ','.join(r['ls'])
            if r.get('direct') and w.source != 'tile':
                layers = 'direct'
            return ('/service?SERVICE=WMS&REQUEST=GetMap&VERSION=1.1.1&STYLES=&SRS=%s&FORMAT=image/png&TRANSPARENT=true'
                    '&LAYERS=%s&BBOX=%d,%d,%d,%d&WIDTH=%d&HEIGHT=%d%s' % (
                        self.srs, layers, x0, y0, x0 + r['pw'] * res, y0 + r['ph'] * res, r['pw'], r['ph'], r.get('vendor', '')))
        f = r['f']
        z, x, y = tok_text(r['z']), tok_text(r['x']), tok_text(r['y'])
        fmt, d = r['fmt'], r['d']
        if f in ('tms', 'tms_nw'):
            return '/tms/1.0.0/fine/%s/%s/%s/%s.%s%s' % (self.srs_path, z, x, y, fmt, '?origin=nw' if f == 'tms_nw' else '')
        if f in ('tiles', 'tiles_nw', 'tiles_sw'):
            q = {'tiles': '', 'tiles_nw': '?origin=nw', 'tiles_sw': '?origin=sw'}[f]
            return '/tiles/fine/%s/%s/%s/%s.%s%s' % (self.srs_path, z, x, y, fmt, q)
        if f == 'kml':
            return '/kml/fine/%s/%s/%s/%s.%s' % (self.srs_path, z, x, y, fmt)
        if f == 'wmts_rest':
            dpart = (d + '/') if w.dims else ''
            return '/wmts/fine/g/%s%s/%s/%s.%s' % (dpart, z, x, y, fmt)
        if f == 'wmts_kvp':
            u = ('/service?SERVICE=WMTS&REQUEST=GetTile&VERSION=1.0.0&LAYER=fine&STYLE=&TILEMATRIXSET=g'
                 '&TILEMATRIX=%s&TILECOL=%s&TILEROW=%s&FORMAT=image/%s' % (z, x, y, fmt))
            if d:
                u += '&TIME=' + d
            return u
        raise ValueError(f)

    def request(self, r):
        del self.events[:]
        del self.unknown_upstream[:]
        resp = self.app.get(self.url(r), expect_errors=True)
        cls, reason = classify(resp, r['kind'])
        ev = list(self.events)
        ups = [a for k, a in ev if k == 'fetch']
        wrs = [a for k, a in ev if k == 'store']
        return {'cls': cls, 'status': resp.status_int, 'reason': reason, 'events': ev,
                'ups': sorted(set(ups)), 'wrs': sorted(set(wrs)), 'nups': len(ups), 'nwrs': len(wrs),
                'unknown_upstream': list(self.unknown_upstream)}


_REASONS = [('outside the bounding box', 'TileOutOfRange'), ('invalid format', 'InvalidFormat'),
            ('invalid dimension value', 'InvalidDimension'), ('invalid request', 'InvalidRequest'),
            ('unknown layer', 'UnknownLayer'), ('too many tiles', 'TooManyTiles'),
            ('image size too large', 'ImageTooLarge'), ('internal error', 'InternalError')]


def classify(resp, kind):
    ct = resp.content_type or ''
    if resp.status_int == 200 and ct.startswith('image/'):
        from PIL import Image
        img = Image.open(io.BytesIO(resp.body)).convert('RGBA')
        lo, hi = img.getchannel('A').getextrema()
        if hi == 0:
            return ('empty' if kind == 'tile' else 'blank'), '-'
        return ('tile' if kind == 'tile' else 'map'), '-'
    text = resp.body.decode('utf8', 'replace')
    for needle, name in _REASONS:
        if needle in text:
            return 'error' if resp.status_int >= 400 else 'error-with-status-%d' % resp.status_int, name
    return ('error' if resp.status_int >= 400 else 'other-%d' % resp.status_int), 'Other:' + re.sub(r'\s+', ' ', text)[:60]


# ---------------------------------------------------------------------------------------------
# worlds of the two tiers
# ---------------------------------------------------------------------------------------------
def worlds(tier):
    ws = [
        World('ll-dims', origin='ll', bbox=(0, 0, 640, 320), res=(80, 40, 20), dims=('t1', 't2'), dim_default='t1',
              tile_limit=6, pixel_limit=256),
        World('ul-meta', origin='ul', bbox=(0, 0, 640, 400), res=(80, 40, 20), meta=(3, 2), source='wms',
              tile_limit=6, pixel_limit=256),
        World('ll-cov', origin='ll', bbox=(0, 0, 640, 400), res=(80, 40, 25), cov=(10, 10, 330, 170)),
        # the WMS has an explicit extent for the request SRS (far larger than the grid: ordinary requests are not
        # clipped); oversized requests that overhang or miss it must be refused like any other oversized request
        World('ll-srs-extent', origin='ll', bbox=(0, 0, 640, 320), res=(80, 40, 20), tile_limit=6, pixel_limit=256,
              srs_extent=(-2000, -2000, 3000, 3000)),
        # a cache in mixed mode (stores png or jpeg files, offers image/png): any other format is not offered
        World('ul-mixed', origin='ul', bbox=(0, 0, 640, 320), res=(80, 40, 20), source='wms', mixed=True),
        World('gm4', global_grid='GLOBAL_MERCATOR', levels=4),
        World('gg3' if tier != 'thorough' else 'gg4', global_grid='GLOBAL_GEODETIC', levels=3 if tier != 'thorough' else 4),
    ]
    if tier == 'thorough':
        ws += [
            World('ll-meta', origin='ll', bbox=(0, 0, 640, 320), res=(80, 40, 20, 10), meta=(2, 3), source='wms',
                  tile_limit=9, pixel_limit=400),
            World('ul-dims-cov', origin='ul', bbox=(-320, -200, 320, 200), res=(80, 50, 20), dims=('t1', 't2', 't3'),
                  dim_default='t2', cov=(-310, -190, 10, 30)),
            World('sqrt2', origin='ll', bbox=(0, 0, 640, 320), sqrt2=80,
                  levels=[(2, 1), (3, 2), (4, 2), (6, 3), (8, 4)]),
            World('gw4', global_grid='GLOBAL_WEBMERCATOR', levels=4),
        ]
    return ws


def coarse_world():
    return World('two-layers', origin='ll', bbox=(0, 0, 640, 320), res=(80, 40, 20), tile_limit=6, pixel_limit=256,
                 coarse=True)


def global_worlds(tier):
    n = 20
    return [World('GLOBAL_MERCATOR', global_grid='GLOBAL_MERCATOR', levels=n),
            World('GLOBAL_GEODETIC', global_grid='GLOBAL_GEODETIC', levels=n),
            World('GLOBAL_WEBMERCATOR', global_grid='GLOBAL_WEBMERCATOR', levels=n)]


def all_worlds():
    d = {}
    for w in worlds('quick') + worlds('thorough') + [coarse_world()] + global_worlds('thorough'):
        d[w.name] = w
    return d


def coarse_universe(w):
    tw = w.tile_size[0]
    return dict(flavours=[], x=[], y=[], z=[], fmts=[], dimtoks=[], vary=[],
                layerseqs=[('fine',), ('coarse',), ('coarse', 'fine'), ('fine', 'coarse')],
                maplevels=list(range(w.levels)), mapoffs=[-tw // 2, 0, tw],
                mapsizes=[tw, 2 * tw, 3 * tw, 4 * tw, 4 * tw + 2])


# ---------------------------------------------------------------------------------------------
# TLC runs (plain functions without ctx side effects other than scratch directories: they are run in parallel)
# ---------------------------------------------------------------------------------------------
def check_model(ctx, name, w, universe, max_req, precheck=False, timeout=1500, invariants=None, workers=4, table=False):
    """exhaustive TLC run; with table=True the run also writes the table of all single requests"""
    d = ctx.sub('mc-' + name)
    inv = list(invariants if invariants is not None else INVARIANTS + ['ExpectedOK'])
    out = os.path.join(d, 'cases.json')
    mp, cp = tlc.write_mc(d, 'TileRefuse', 'MC_' + re.sub(r'\W', '_', name), w.consts(universe, precheck, max_req),
                          invariants=inv, extends=['Json', 'TLCExt'] if table else (),
                          extra_defs=('ASSUME JsonSerialize("%s", [cases |-> CaseTable])' % out) if table else '')
    r = _tlc(mp, cp, d, timeout=timeout, workers=workers)
    r.cases = None
    if table and os.path.exists(out):
        with open(out) as f:
            cases = json.load(f)['cases']
        for c in cases:
            req = c['req']
            for k in 'xyz':
                if k in req:
                    req[k] = tok_from_tla(req[k])
        cases.sort(key=lambda c: json.dumps(c['req'], sort_keys=True))
        r.cases = cases
    return r


def _tlc(mp, cp, d, **kw):
    """tlc.run with a bounded heap (many JVMs run side by side) and one retry when the JVM went away without a
    verdict (killed from outside, out of memory) - never on a violation, an evaluation error or a timeout"""
    kw.setdefault('heap', '3g')
    r = tlc.run(mp, cp, d, **kw)
    if not r.ok and not r.violated and r.generated == 0 and 'timeout' not in (r.error or '') \
            and 'Error:' not in r.out and 'rror evaluating' not in r.out:
        r = tlc.run(mp, cp, d, **kw)
    return r


def vacuity_guard(name, r, need):
    for a in need:
        if r.coverage.get(a, (0, 0))[0] == 0:
            raise tlc.MachineryError('vacuous model run %s: action %s has coverage %r' % (name, a, r.coverage.get(a)))


def simulate(ctx, w, universe, num, depth, max_req, precheck=False):
    d = ctx.sub('sim-' + w.name)
    mp, cp = tlc.write_mc(d, 'TileRefuse', 'MC_Sim', w.consts(universe, precheck, max_req))
    prefix = os.path.join(d, 'beh')
    r = _tlc(mp, cp, d, workers=1, simulate='file=%s,num=%d' % (prefix, num), depth=depth, seed=ctx.seed + 16,
             coverage=False, timeout=900, heap='2g')
    behs = [beh for f, beh in tlc.sim_traces(prefix) if len(beh) > 1]
    if not behs:
        raise tlc.MachineryError('no behaviours from TLC simulation for %s: %s' % (w.name, r.out[-1500:]))
    return behs


def project_expected(e):
    return {'cls': e['cls'], 'status': e['status'], 'reason': e['reason'],
            'ups': sorted({tuple(b[:4]) for b in e['ups']}), 'wrs': sorted(tuple(a) for a in e['wrs'])}


def describe(req):
    if req['kind'] == 'map':
        return 'map layers=%s level=%d px=%d py=%d %dx%d' % (','.join(req['ls']), req['L'], req['px'], req['py'], req['pw'], req['ph'])
    return '%s z=%s x=%s y=%s .%s%s' % (req['f'], req['z'], req['x'], req['y'], req['fmt'], (' time=' + req['d']) if req['d'] else '')


def signature(w, req, exp, obs):
    sig = {'kind': 'divergence', 'world': w.name, 'expected': '%s/%s' % (exp['cls'], exp['reason']),
           'observed': '%s/%s' % (obs['cls'], obs['reason'])}
    sig['request'] = req['f'] if req['kind'] == 'tile' else 'wms-map(%d layers)' % len(req['ls'])
    if obs['cls'] in ('error', 'empty', 'blank') and (obs['ups'] or obs['wrs']):
        sig['effects'] = 'refused-with-effects'
    elif exp['ups'] != obs['ups'] or exp['wrs'] != obs['wrs']:
        sig['effects'] = 'different-effects'
    return sig


def compare(exp, obs):
    """None or a text saying what differs (expected = model, observed = real application).

    Which error a refused request is answered with is not part of the property: when both sides refuse with an
    error and neither has effects, a different status / reason is returned as a soft difference ('note: ...')."""
    diffs = []
    for k in ('cls', 'ups', 'wrs'):
        if exp[k] != obs[k]:
            diffs.append('%s: model %s, real %s' % (k, exp[k], obs[k]))
    if obs.get('unknown_upstream'):
        diffs.append('unexpected upstream request %s' % obs['unknown_upstream'][:2])
    if obs['nups'] != len(obs['ups']) or obs['nwrs'] != len(obs['wrs']):
        diffs.append('repeated effects: %d upstream requests for %d blocks, %d writes for %d tiles' % (
            obs['nups'], len(obs['ups']), obs['nwrs'], len(obs['wrs'])))
    code = ['%s: model %s, real %s' % (k, exp[k], obs[k]) for k in ('status', 'reason') if exp[k] != obs[k]]
    if code:
        if not diffs and exp['cls'] == 'error' and not exp['ups'] and not exp['wrs']:
            return 'note: ' + '; '.join(code)
        diffs = code + diffs
    return '; '.join(diffs) or None


def soft_note(ctx, w, req, diff):
    """a refused request is refused with another error than the model says: recorded, not a violation"""
    key = '%s %s %s' % (w.name, req.get('f', 'wms-map'), diff)
    ctx._c16_soft = getattr(ctx, '_c16_soft', {})
    ctx._c16_soft[key] = ctx._c16_soft.get(key, 0) + 1
    if ctx._c16_soft[key] == 1 and len(ctx._c16_soft) <= 12:
        ctx.log('note (not a violation): %s: %s -> refused as the model says, but %s' % (w.name, describe(req), diff[6:]))


def run_table(ctx, w, app, cases, label='table'):
    """spec -> code, single requests from the empty cache"""
    bad = 0
    app.reset_cache()
    classes = {}
    for c in cases:
        req, exp = c['req'], project_expected(c['exp'])
        obs = app.request(req)
        dirty = bool(obs['wrs'])
        diff = compare(exp, obs)
        if diff and diff.startswith('note: '):
            soft_note(ctx, w, req, diff)
            diff = None
        if diff is None and (dirty or exp['wrs']):
            listing = sorted(app.cached())
            if listing != exp['wrs']:
                diff = 'cache directory holds %s, the model stored %s' % (listing[:6], exp['wrs'][:6])
            dirty = dirty or bool(listing)
        ctx.count((label, w.name, json.dumps(req, sort_keys=True)))
        ctx.cov['replayed_steps'] += 1
        classes[exp['cls'] + '/' + exp['reason']] = classes.get(exp['cls'] + '/' + exp['reason'], 0) + 1
        if diff:
            bad += 1
            ctx.violation(signature(w, req, exp, obs), '%s: %s -> %s' % (w.name, describe(req), diff),
                          {'world': w.name, 'requests': [req]})
        if dirty:
            app.reset_cache()
    ctx.cov['replayed_behaviours'] += len(cases)
    ctx.log('%s %s: %d single-request cases executed on the real application (%d differ); classes %s' % (
        label, w.name, len(cases), bad, dict(sorted(classes.items()))))
    return classes


def req_from_state(r):
    """request record of a TLC state -> python request"""
    if r['kind'] == 'tile':
        return {'kind': 'tile', 'f': str(r['f']), 'z': tok_from_tla(r['z']), 'x': tok_from_tla(r['x']),
                'y': tok_from_tla(r['y']), 'fmt': str(r['fmt']), 'd': str(r['d'])}
    return {'kind': 'map', 'ls': [str(x) for x in r['ls']], 'L': r['L'], 'px': r['px'], 'py': r['py'],
            'pw': r['pw'], 'ph': r['ph']}


def state_expectation(st):
    """the model's observation in a state right after Respond"""
    return {'cls': str(st['reply']['cls']), 'status': st['reply']['status'], 'reason': str(st['reply']['reason']),
            'ups': sorted({tuple(b[:4]) for b in st['ups']}), 'wrs': sorted(tuple(a) for a in st['wrs'])}


def replay_behaviour(ctx, w, app, beh, label):
    """spec -> code, one TLC behaviour: every request is sent when the model receives it, and when the model
    responds the real response, the upstream requests, the cache writes and the cache content must be the model's"""
    app.reset_cache()
    sent = []
    obs = None
    steps = 0
    for act, st in beh[1:]:
        steps += 1
        if act in ('DoTileRequest', 'DoMapRequest'):
            req = req_from_state(st['pend']['req'])
            sent.append(req)
            obs = app.request(req)
        elif act == 'Respond':
            exp = state_expectation(st)
            diff = compare(exp, obs)
            if diff and diff.startswith('note: '):
                soft_note(ctx, w, sent[-1], diff)
                diff = None
            if diff is None:
                listing = sorted(app.cached())
                model = sorted(tuple(a) for a in st['cached'])
                if listing != model:
                    diff = 'cache directory holds %s, the model %s' % (listing[:8], model[:8])
            if diff:
                ctx.violation(signature(w, sent[-1], exp, obs),
                              '%s: after %d requests, %s -> %s' % (w.name, len(sent), describe(sent[-1]), diff),
                              {'world': w.name, 'requests': sent})
                return steps, False
    return steps, True


# ---------------------------------------------------------------------------------------------
# code -> spec: random request sequences, recorded and validated by TLC
# ---------------------------------------------------------------------------------------------
def random_request(rng, w):
    if w.res and w.tile_limit and rng.random() < 0.3:
        tw, th = w.tile_size
        L = rng.randrange(w.levels)
        wpx = (w.bbox[2] - w.bbox[0]) // w.res[L]
        hpx = (w.bbox[3] - w.bbox[1]) // w.res[L]
        ls = ['fine']
        if w.coarse:
            ls = rng.choice([['fine'], ['coarse'], ['coarse', 'fine'], ['fine', 'coarse']])
        pw = rng.choice([1, 2, 3, 4, 5, 6, 8, 9, 10]) * tw // 2
        ph = rng.choice([1, 2, 3, 4, 5, 6, 8, 9, 10]) * th // 2
        if w.srs_extent and w.pixel_limit and rng.random() < 0.3:
            # far above the pixel limit, reaching only a few pixels into the SRS extent of the service (or missing it)
            L = 0
            r0 = w.res[0]
            pw = ph = 60
            inside = rng.choice([0, 3, 8, 12])
            ex0 = (w.srs_extent[0] - w.bbox[0]) // r0
            ey0 = (w.srs_extent[1] - w.bbox[1]) // r0
            px = ex0 - (pw - inside) if inside else ex0 - pw - 5
            py = ey0 - (ph - inside) if rng.random() < 0.7 else 0
            return {'kind': 'map', 'ls': ls, 'L': L, 'px': px, 'py': py, 'pw': pw, 'ph': ph}
        if rng.random() < 0.3 and w.pixel_limit:
            # around the pixel limit
            pw = rng.choice([w.tile_size[0] * 4, w.tile_size[0] * 4 + 1, w.tile_size[0] * 4 - 1])
            ph = max(1, w.pixel_limit // pw + rng.choice([0, 0, 1]))
        px = rng.choice([-tw, -tw // 2, 0, tw // 2, tw, rng.randrange(0, max(1, wpx)) // 2 * 2, wpx - tw, wpx - tw // 2, wpx])
        py = rng.choice([-th, -th // 2, 0, th // 2, th, rng.randrange(0, max(1, hpx)) // 2 * 2, hpx - th, hpx - th // 2, hpx])
        req = {'kind': 'map', 'ls': ls, 'L': L, 'px': px, 'py': py, 'pw': pw, 'ph': ph}
        if w.pixel_limit and pw * ph > w.pixel_limit and rng.random() < 0.6:
            # above the pixel limit: refused whatever vendor parameters come along and whatever kind of layer is asked
            # (the model decides this before it looks at the layers)
            req['vendor'] = rng.choice(['&TILED=true', '&tiled=TRUE', '&TILED=false', '&TILED=true&DPI=300', '&EXCEPTIONS=application/vnd.ogc.se_xml'])
            req['direct'] = rng.random() < 0.6
        return req
    f = rng.choice(FLAVOURS)
    k = rng.random()
    if k < 0.72:
        z = rng.randrange(w.levels)
    elif k < 0.90:
        z = rng.choice([-1, w.levels - 1, w.levels, w.levels + 1, w.levels // 2])
    else:
        z = rng.choice([BIGZ, 'huge', 'neghuge', 'word', -2 ** 31])
    # the size of the level the address will probably be checked against
    zi = z if isinstance(z, int) and 0 <= z < w.levels else rng.randrange(w.levels)
    if f in ('tms', 'tms_nw') and w.skip_first and zi + 1 < w.levels and rng.random() < 0.8:
        zi += 1
    gw, gh = w.sizes[zi]

    def coord(n):
        k = rng.random()
        if k < 0.45:
            return rng.randrange(n)
        if k < 0.9:
            return rng.choice([-2, -1, 0, 1, n - 2, n - 1, n, n + 1, 2 * n - 1, 2 * n, n // 2])
        return rng.choice([BIGXY, -BIGXY, 'huge', 'neghuge', 'word'])
    x, y = coord(gw), coord(gh)
    fmt = 'png' if rng.random() < 0.9 else rng.choice(['jpeg', 'gif', 'png8'])
    d = ''
    if f in ('wmts_kvp', 'wmts_rest'):
        if w.dims:
            d = rng.choice(list(w.dims) * 2 + ['', 'default', 'bad', 't0', rng.choice(list(w.dims)).upper(), 'Default'])
        elif f == 'wmts_kvp' and rng.random() < 0.2:
            d = 'bad'
    return {'kind': 'tile', 'f': f, 'z': z, 'x': x, 'y': y, 'fmt': fmt, 'd': d}


def record_trace(w, app, reqs):
    app.reset_cache()
    events = []
    for req in reqs:
        if req['kind'] == 'tile':
            e = dict(req, ev='tile', z=tok_json(req['z']), x=tok_json(req['x']), y=tok_json(req['y']))
        else:
            e = dict(req, ev='map')
            e.pop('vendor', None)
            e.pop('direct', None)
        e.pop('kind')
        events.append(e)
        obs = app.request(req)
        for k, a in obs['events']:
            events.append({'ev': k, ('b' if k == 'fetch' else 'a'): list(a)})
        for u in obs['unknown_upstream']:
            events.append({'ev': 'fetch', 'b': ['unknown:' + u[:80], 0, 0, 0]})
        events.append({'ev': 'respond', 'cls': obs['cls'], 'status': obs['status'], 'reason': obs['reason'],
                       'cached': [list(a) for a in sorted(app.cached())]})
    return events


def validate_traces(ctx, w, traces, precheck=False, name=None, invariants=INVARIANTS):
    """returns (TLCResult, matched lengths or None)"""
    d = ctx.sub('trace-' + (name or w.name))
    tf = os.path.join(d, 'batch.json')
    with open(tf, 'w') as f:
        json.dump(traces, f)
    mp, cp = tlc.write_mc(d, 'Trace_TileRefuse', 'MC_Trace', w.consts(None, precheck, 10 ** 6), spec='TraceSpec',
                          post='TraceAccepted', invariants=list(invariants))
    r = _tlc(mp, cp, d, workers=1, coverage=False, env={'TRACE_FILE': tf}, timeout=1800, heap='2g')
    pr = tlc.find_prints(r.out, 'matched')
    matched = None
    if pr:
        mv = pr[-1][1]
        matched = list(mv) if isinstance(mv, tuple) else [mv[k] for k in sorted(mv)]
    return r, matched


def reqs_upto(events, upto):
    """the requests of a recorded trace up to and including event index `upto`"""
    out = []
    for e in events[:upto + 1]:
        if e['ev'] == 'tile':
            out.append({'kind': 'tile', 'f': e['f'], 'z': tok_from_tla(e['z']), 'x': tok_from_tla(e['x']),
                        'y': tok_from_tla(e['y']), 'fmt': e['fmt'], 'd': e['d']})
        elif e['ev'] == 'map':
            out.append({'kind': 'map', 'ls': e['ls'], 'L': e['L'], 'px': e['px'], 'py': e['py'], 'pw': e['pw'], 'ph': e['ph']})
    return out


def invariant_signature(inv, st):
    """which request class violates `inv` in TLC state `st` (a state of a validated real trace, or of the model)"""
    req = st['reply']['req'] if st['reply']['req']['kind'] != 'none' else st['pend']['req']
    out = st['reply'] if st['reply']['req']['kind'] != 'none' else st['pend']['out']
    sig = {'kind': 'invariant', 'invariant': inv, 'outcome': '%s/%s' % (out['cls'], out['reason'])}
    if req['kind'] == 'map':
        sig['request'] = 'wms-map'
        if inv == 'RejectedHasNoEffects' and len(req['ls']) > 1 and str(out['reason']) == 'TooManyTiles':
            sig['cause'] = 'earlier-layer-rendered-before-a-later-layer-hits-max_tile_limit'
    elif req['kind'] == 'tile':
        sig['request'] = str(req['f'])
    return sig, req


def judge_traces(ctx, w, traces, precheck=False, name=None, result=None):
    """validate a batch (or take the TLC result computed in the background); report rejected traces and invariant
    violations as violations on the real code"""
    r, matched = result if result is not None else validate_traces(ctx, w, traces, precheck, name)
    if r.violated and r.violated not in ('postcondition',) and r.trace:
        st = r.trace[-1][1]
        sig, req = invariant_signature(r.violated, st)
        tid = st.get('tid', 1)
        ctx.violation(sig, '%s: the recorded execution (accepted by the trace spec so far) violates %s at %s: reply %s/%s, '
                      'upstream %s, writes %s' % (w.name, r.violated, describe(req_from_state(req)) if req['kind'] != 'none' else '-',
                                                  st['reply']['cls'], st['reply']['reason'], sorted(st['ups'])[:4], sorted(st['wrs'])[:4]),
                      {'world': w.name, 'requests': reqs_upto(traces[tid - 1], st.get('l', 1) - 1), 'precheck': precheck})
        # acceptance of the rest, without the invariants
        r, matched = validate_traces(ctx, w, traces, precheck, (name or w.name) + '-acc', invariants=())
    if matched is None:
        raise tlc.MachineryError('trace validation %s: no verdict from TLC: %r\n%s' % (w.name, r, r.out[-2000:]))
    if r.error and not r.violated:
        raise tlc.MachineryError('trace validation %s: %r\n%s' % (w.name, r, r.out[-2000:]))
    nrej = 0
    for i, m in enumerate(matched):
        if m < len(traces[i]):
            nrej += 1
            e = traces[i][m]
            reqs = reqs_upto(traces[i], m)
            last = reqs[-1] if reqs else {'kind': 'none'}
            sig = {'kind': 'trace-rejected', 'world': w.name, 'event': e['ev'],
                   'request': last.get('f', 'wms-map') if last['kind'] != 'none' else '-'}
            if e['ev'] == 'respond':
                sig['observed'] = '%s/%s' % (e['cls'], e['reason'])
            ctx.violation(sig, '%s: recorded execution is not a behaviour of TileRefuse at event %d (%s) of request %s' % (
                w.name, m, json.dumps({k: v for k, v in e.items() if k != 'cached'}), describe(last) if reqs else '-'),
                {'world': w.name, 'requests': reqs, 'precheck': precheck})
    ctx.cov['traces_validated_against_impl'] += len(traces)
    ctx.cov['states'] += r.distinct
    ctx.cov['transitions'] += r.generated
    for t in traces:
        ctx.count(('trace', w.name, len(t), json.dumps(t[0], sort_keys=True)))
    return nrej


# ---------------------------------------------------------------------------------------------
# the check
# ---------------------------------------------------------------------------------------------
def counterexample_requests(trace):
    return [req_from_state(st['pend']['req']) for act, st in trace[1:] if act in ('DoTileRequest', 'DoMapRequest')]


def confront_model_violation(ctx, w, app, r, precheck):
    """The model of the code violates an invariant: it counts only if the real application does the same."""
    reqs = counterexample_requests(r.trace)
    events = record_trace(w, app, reqs)
    ra, matched = validate_traces(ctx, w, [events], precheck, name=w.name + '-cex-acc', invariants=())
    if matched is None:
        raise tlc.MachineryError('%s: no verdict from TLC on the replayed counterexample: %r\n%s' % (w.name, ra, ra.out[-1500:]))
    accepted = matched is not None and matched[0] == len(events)
    if accepted:
        rr, _ = validate_traces(ctx, w, [events], precheck, name=w.name + '-cex')
        if rr.violated == r.violated and rr.trace:
            sig, req = invariant_signature(r.violated, rr.trace[-1][1])
            ctx.violation(sig, '%s: TLC counterexample to %s reproduced on the real application: %s -> %s' % (
                w.name, r.violated, '; '.join(describe(q) for q in reqs),
                [{k: v for k, v in e.items() if k != 'cached'} for e in events if e['ev'] in ('fetch', 'store', 'respond')][:10]),
                {'world': w.name, 'requests': reqs, 'precheck': precheck})
            return 'reproduced'
    return 'accepted-without-violation' if accepted else 'not-a-behaviour'


def small_universe(w, thorough):
    small = window_universe(w, margin=1, special=False, vary=False,
                            flavours=FLAVOURS if thorough else ['tms', 'wmts_kvp'])
    if small.get('mapsizes'):
        tw = w.tile_size[0]
        small['mapoffs'] = [-tw // 2, 0, tw]
        small['mapsizes'] = [tw, 2 * tw, 2 * tw + tw // 2] if thorough else [tw, 2 * tw + tw // 2]
        small['maplevels'] = [0, w.levels - 1]
    return small


def run(ctx):
    from concurrent.futures import ThreadPoolExecutor
    thorough = ctx.tier == 'thorough'
    tlc.sany(SPEC)
    lattice = worlds(ctx.tier)
    cw = coarse_world()
    globs = global_worlds(ctx.tier)
    pool = ThreadPoolExecutor(max_workers=8 if thorough else 6)
    try:
        # ---- phase 1: all TLC model runs start in the background -----------------------------------------
        jobs = {}
        for w in lattice:
            u = window_universe(w, margin=3 if thorough else 2)
            jobs[w.name, 'mc'] = pool.submit(check_model, ctx, w.name, w, u, 1, table=True)
        jobs[cw.name, 'as-is'] = pool.submit(check_model, ctx, cw.name + '-as-is', cw, coarse_universe(cw), 1,
                                             precheck=False, table=True, workers=1)   # one worker: same counterexample every run
        jobs[cw.name, 'precheck'] = pool.submit(check_model, ctx, cw.name + '-precheck', cw, coarse_universe(cw), 1,
                                                precheck=True, table=True)
        for w in lattice:
            jobs[w.name, 'sim'] = pool.submit(simulate, ctx, w, window_universe(w, margin=1, special=False, vary=True),
                                              40 if thorough else 10, 60, 12)
        for w in lattice:
            if thorough or w.name in ('ll-dims', 'ul-meta'):
                jobs[w.name, 'pairs'] = pool.submit(check_model, ctx, w.name + '-pairs', w, small_universe(w, thorough), 2,
                                                    invariants=INVARIANTS)
        tjobs = {}

        # ---- phase 2: the real application, world by world ------------------------------------------------
        for w in lattice:
            app = App(w, ctx.sub('app-' + w.name))
            try:
                r = jobs[w.name, 'mc'].result()
                ctx.log('TLC %s: %r' % (w.name, r))
                if r.violated in INVARIANTS and r.trace:
                    verdict = confront_model_violation(ctx, w, app, r, False)
                    if verdict != 'reproduced':
                        raise tlc.MachineryError('%s: the model violates %s but the real application does not follow the '
                                                 'counterexample (%s): the model is not faithful' % (w.name, r.violated, verdict))
                elif not r.ok:
                    raise tlc.MachineryError('TileRefuse %s: %r\n%s' % (w.name, r, r.out[-1500:]))
                else:
                    need = ['DoTileRequest', 'DoFetch', 'DoStore', 'Respond', 'Forget']
                    if w.tile_limit:
                        need += ['DoMapRequest', 'RenderLayer']
                    vacuity_guard(w.name, r, need)
                    ctx.add_tlc('TileRefuse/' + w.name, r)
                if r.cases is None:
                    raise tlc.MachineryError('%s: TLC wrote no case table\n%s' % (w.name, r.out[-1500:]))
                # (R) every single request of the window, from the empty cache
                classes = run_table(ctx, w, app, r.cases)
                for must in ['tile/-', 'error/TileOutOfRange', 'error/InvalidFormat', 'error/InvalidRequest']:
                    if must not in classes:
                        raise tlc.MachineryError('%s: no case of class %s in the table' % (w.name, must))
                if w.name == 'll-dims':
                    c = [c for c in r.cases if c['exp']['cls'] == 'tile'][7]
                    ctx.sample({'kind': 'case of the TLC table executed on the real application (%s)' % w.name,
                                'request': describe(c['req']), 'url': app.url(c['req']), 'expected': c['exp']})
                # exhaustive pairs of requests on a smaller window
                if (w.name, 'pairs') in jobs:
                    r2 = jobs[w.name, 'pairs'].result()
                    ctx.log('TLC %s pairs: %r' % (w.name, r2))
                    if r2.violated in INVARIANTS and r2.trace:
                        verdict = confront_model_violation(ctx, w, app, r2, False)
                        if verdict != 'reproduced':
                            raise tlc.MachineryError('%s: pairs model violates %s, not reproduced (%s)' % (w.name, r2.violated, verdict))
                    elif not r2.ok:
                        raise tlc.MachineryError('TileRefuse %s pairs: %r\n%s' % (w.name, r2, r2.out[-1500:]))
                    else:
                        ctx.add_tlc('TileRefuse/' + w.name + '/pairs', r2)
                # (R) longer TLC behaviours
                behs = jobs[w.name, 'sim'].result()
                for n, beh in enumerate(behs):
                    steps, ok = replay_behaviour(ctx, w, app, beh, 'sim')
                    ctx.cov['replayed_behaviours'] += 1
                    ctx.cov['replayed_steps'] += steps
                    ctx.count(('sim', w.name, n))
                if w.name == 'ul-meta':
                    ctx.sample({'kind': 'TLC behaviour replayed on the real application (%s)' % w.name,
                                'requests': [describe(req_from_state(st['pend']['req'])) for a, st in behs[0][1:]
                                             if a in ('DoTileRequest', 'DoMapRequest')][:8]})
                ctx.log('sim %s: %d TLC behaviours replayed' % (w.name, len(behs)))
                # (T) random request sequences, validated in the background
                ntr, nreq = (12, 60) if thorough else (4, 40)
                traces = [record_trace(w, app, [random_request(ctx.rng, w) for _ in range(nreq)]) for _ in range(ntr)]
                tjobs[w.name] = (w, traces, False, pool.submit(validate_traces, ctx, w, traces, False))
            finally:
                app.close()

        # two cached layers with different grids behind one WMS request
        app = App(cw, ctx.sub('app-' + cw.name))
        try:
            r = jobs[cw.name, 'as-is'].result()
            ctx.log('TLC %s (the code as it is): %r' % (cw.name, r))
            precheck = False
            if r.violated == 'RejectedHasNoEffects':
                verdict = confront_model_violation(ctx, cw, app, r, False)
                ctx.log('%s: counterexample of the as-is model on the real application: %s' % (cw.name, verdict))
                if verdict != 'reproduced':
                    precheck = True
            else:
                raise tlc.MachineryError('two-layers: the as-is model was expected to violate RejectedHasNoEffects: %r\n%s' % (
                    r, r.out[-1500:]))
            r2 = jobs[cw.name, 'precheck'].result()
            if not r2.ok:
                raise tlc.MachineryError('two-layers model with PrecheckAllLayers: %r\n%s' % (r2, r2.out[-1500:]))
            vacuity_guard(cw.name, r2, ['DoMapRequest', 'RenderLayer', 'DoFetch', 'DoStore', 'Respond'])
            if precheck:
                ctx.add_tlc('TileRefuse/' + cw.name + '/precheck', r2)
            cases = (r2 if precheck else r).cases
            if cases is None:
                raise tlc.MachineryError('%s: TLC wrote no case table' % cw.name)
            run_table(ctx, cw, app, cases)
            traces = [record_trace(cw, app, [random_request(ctx.rng, cw) for _ in range(30)]) for _ in range(6 if thorough else 3)]
            tjobs[cw.name] = (cw, traces, precheck, pool.submit(validate_traces, ctx, cw, traces, precheck))
        finally:
            app.close()

        # the real global grids
        for w in globs:
            app = App(w, ctx.sub('app-' + w.name))
            try:
                ntr, nreq = (10, 150) if thorough else (3, 80)
                traces = [record_trace(w, app, [random_request(ctx.rng, w) for _ in range(nreq)]) for _ in range(ntr)]
                served = sum(1 for t in traces for e in t if e['ev'] == 'respond' and e['cls'] == 'tile')
                refused = sum(1 for t in traces for e in t if e['ev'] == 'respond' and e['cls'] == 'error')
                if not served or not refused:
                    raise tlc.MachineryError('%s: random requests do not cover both served and refused (%d/%d)' % (
                        w.name, served, refused))
                ctx.log('%s: %d request sequences recorded, %d tiles served, %d requests refused' % (
                    w.name, len(traces), served, refused))
                tjobs[w.name] = (w, traces, False, pool.submit(validate_traces, ctx, w, traces, False))
                if w.name == 'GLOBAL_MERCATOR':
                    ctx.sample({'kind': 'request sequence recorded on GLOBAL_MERCATOR, validated by Trace_TileRefuse',
                                'events': [{k: v for k, v in e.items() if k != 'cached'} for e in traces[0][:6]]})
            finally:
                app.close()

        # ---- phase 3: verdicts of the trace validations -----------------------------------------------------
        for name, (w, traces, precheck, fut) in tjobs.items():
            nrej = judge_traces(ctx, w, traces, precheck, result=fut.result())
            ctx.log('traces %s: %d recorded request sequences validated by TLC (%d rejected)' % (name, len(traces), nrej))
    finally:
        pool.shutdown(wait=True, cancel_futures=True)
    ctx.assumptions += [
        'the lexical classes of an address component are: integer, 30-digit number, its negative, a non-numeric word; '
        'other spellings int() accepts but the path patterns do not (+1, 1_0, surrounding blanks) are not enumerated',
        'map requests are axis-parallel boxes on the half-tile lattice at the exact resolution of a grid level, in the '
        'SRS of the grid, WMS 1.1.1; the tile limit is exercised through cached layers without coverage',
        'upstream = one tile source (meta tiles 1x1) or one WMS source (meta tiles, meta_buffer 0) per cache, file cache, '
        'concurrent_tile_creators 1, no authorisation callback, no cache expiry',
        'a non-numeric or negative identifier answered with HTTP 500 (WMTS KVP int() failure, WMTS REST pattern miss) counts '
        'as an error answer: the property constrains side effects and refusal, not the error code',
        'WMTS on sqrt2 grids (level doubling vs. advertised matrices) belongs to C02 and is not configured here',
    ]
    for key, n in sorted(getattr(ctx, '_c16_soft', {}).items())[:20]:
        ctx.notes.append('refused with another error than the model says (%d cases): %s' % (n, key))
    return ctx.finish('model_checking',
                      'TLC: TileRefuse exhaustively per world for all single requests of the address window and all pairs of a '
                      'smaller window; distinct = distinct (world, request) cases of the TLC table executed on the real '
                      'application + replayed TLC behaviours + recorded request sequences validated by the trace spec')


def replay(ctx, data):
    case = data.get('case') or {}
    w = all_worlds().get(case.get('world'))
    if w is None or 'requests' not in case:
        print('replay: nothing to replay')
        return 0
    app = App(w, ctx.sub('app-replay'))
    try:
        events = record_trace(w, app, case['requests'])
        for e in events:
            print('  ', json.dumps({k: v for k, v in e.items() if k != 'cached'}))
        precheck = bool(case.get('precheck', False))
        r, matched = validate_traces(ctx, w, [events], precheck, name='replay-acc', invariants=())
        if matched is None:
            raise tlc.MachineryError('replay: no verdict from TLC\n' + r.out[-1500:])
        if matched[0] < len(events):
            print('replay: the real execution is NOT a behaviour of the model at event %d: %s' % (
                matched[0], {k: v for k, v in events[matched[0]].items() if k != 'cached'}))
            return 1
        r, matched = validate_traces(ctx, w, [events], precheck, name='replay-inv')
        if r.violated and r.violated != 'postcondition':
            print('replay: the real execution is a behaviour of the model of the code and violates %s' % r.violated)
            return 1
        print('replay: accepted, all invariants hold')
        return 0
    finally:
        app.close()
        shutil.rmtree(ctx.workdir, ignore_errors=True)
