------------------------------ MODULE FileLock ------------------------------
(***************************************************************************)
(* The lock protocol of mapproxy.util.lock.FileLock / SemLock on top of    *)
(* mapproxy.util.ext.lockfile.LockFile, one action per system call.        *)
(*                                                                         *)
(*   lock():    stop = time()+timeout                                      *)
(*              loop: fp = open(path,'w+')          -> Open                *)
(*                    flock(fp, LOCK_EX|LOCK_NB)    -> FlockOk / FlockFail *)
(*                    [fstat(fp) vs stat(path)]     -> VerifyOk/VerifyFail *)
(*                    on failure fp.close()         -> CloseFail           *)
(*                    time() < stop ? sleep : raise -> Retry / Timeout     *)
(*   unlock():  remove style: os.remove(path)       -> Unlink              *)
(*                 (descriptor and its flock live on until the LockFile    *)
(*                  object is dropped)              -> GcClose             *)
(*              keep style:   fp.close()            -> CloseUnlock         *)
(*   SemLock:   n lock files path0..path(n-1), random start slot, up to n  *)
(*              attempts per try, keep style.                              *)
(*                                                                         *)
(* flock() locks the INODE the descriptor was opened on, not whatever the  *)
(* path names when flock is called; unlink removes whatever the path names *)
(* now.  InodeCheck says whether the code compares fstat(fd) with          *)
(* stat(path) after a successful flock (the repaired code does).           *)
(*                                                                         *)
(* The janitor (mapproxy.util.lock.cleanup_lockdir, run by every 50th      *)
(* TileLocker.lock() of any process on the lock directory): removes lock   *)
(* files that were not opened for more than MaxLockTime -> Cleanup.  Every *)
(* open(path, 'w+') truncates the file and so refreshes its modification   *)
(* time (mtime); the time the inode was created (born - what the access    *)
(* time shows on a file that is never read) is not refreshed.  ExpireBy    *)
(* says which of the two the janitor looks at; the code looks at mtime.    *)
(* Assumption of the janitor, made explicit: nobody stays between open()   *)
(* and release for more than Hold <= MaxLockTime ticks (Tick is disabled   *)
(* otherwise).  The janitor's stat-then-unlink is one step here.           *)
(***************************************************************************)
EXTENDS Naturals, FiniteSets, TLC

CONSTANTS Contender,     \* set of contenders ("processes")
          NSlots,        \* 1 for FileLock, n for SemLock
          Remove,        \* BOOLEAN: remove_on_unlock
          InodeCheck,    \* BOOLEAN: verify that the path still names the locked inode
          Cycles,        \* lock/unlock cycles per contender
          Timeout,       \* timeout in clock ticks
          MaxTime,       \* clock bound
          MaxIno,        \* inode id bound (model only)
          MaxLockTime,   \* janitor: age (ticks) after which a lock file is removed; 0 = no janitor
          Hold,          \* janitor assumption: at most this many ticks between open() and release
          ExpireBy       \* "mtime" (the code) | "born"

NoOne == "none"
Slot  == 0 .. NSlots-1
Inode == 1 .. MaxIno

VARIABLES pathInode,   \* [Slot -> Inode \cup {0}]   0: path does not exist
          owner,       \* [Inode -> Contender \cup {NoOne}]  holder of the flock on that inode
          pc,          \* [Contender -> program counter]
          fd,          \* [Contender -> Inode \cup {0}]  inode of the descriptor being tried / held
          slot,        \* [Contender -> Slot] lock file being tried / held
          tries,       \* [Contender -> Nat] attempts inside the current _try_lock (SemLock)
          linger,      \* [Contender -> Inode \cup {0}] descriptor of a removed lock file, not closed yet
          deadline,    \* [Contender -> Nat]
          cycles,      \* [Contender -> Nat] remaining cycles
          now,         \* clock
          nextIno,     \* next fresh inode id
          overlap,     \* ghost: [Contender -> BOOLEAN] another contender was inside the section
                       \*        (or held the flock it asked for) at some moment of the current attempt
          stamp        \* janitor: [Slot -> [mtime, born]] of the file the path names; [Contender -> time of its open()]

vars == <<pathInode, owner, pc, fd, slot, tries, linger, deadline, cycles, now, nextIno, overlap, stamp>>

InCS(c)  == pc[c] = "cs"
Holders  == {c \in Contender : InCS(c)}

TypeOK ==
  /\ pathInode \in [Slot -> Inode \cup {0}]
  /\ owner \in [Inode -> Contender \cup {NoOne}]
  /\ pc \in [Contender -> {"idle", "try", "opened", "locked", "failclose", "failed", "sleep", "cs", "gc", "fallback",
                           "timedout", "done"}]
  /\ fd \in [Contender -> Inode \cup {0}]
  /\ linger \in [Contender -> Inode \cup {0}]

Init ==
  /\ pathInode = [s \in Slot |-> 0]
  /\ owner = [i \in Inode |-> NoOne]
  /\ pc = [c \in Contender |-> "idle"]
  /\ fd = [c \in Contender |-> 0]
  /\ slot = [c \in Contender |-> 0]
  /\ tries = [c \in Contender |-> 0]
  /\ linger = [c \in Contender |-> 0]
  /\ deadline = [c \in Contender |-> 0]
  /\ cycles = [c \in Contender |-> Cycles]
  /\ now = 0
  /\ nextIno = 1
  /\ overlap = [c \in Contender |-> FALSE]
  /\ stamp = [file |-> [s \in Slot |-> [mtime |-> 0, born |-> 0]], opened |-> [c \in Contender |-> 0]]

OthersInside(c) == \E d \in Contender \ {c} : InCS(d)

\* lock(): read the clock, compute stop_time
Begin(c) ==
  /\ pc[c] = "idle" /\ cycles[c] > 0
  /\ deadline' = [deadline EXCEPT ![c] = now + Timeout]
  /\ pc' = [pc EXCEPT ![c] = "try"]
  /\ UNCHANGED <<pathInode, owner, fd, slot, tries, linger, cycles, now, nextIno, overlap, stamp>>

\* _try_lock(): choose the start slot (random.randint for SemLock, the only slot for FileLock)
\* and open(path, 'w+'): creates the file if the path is free
Open(c, s) ==
  /\ pc[c] = "try"
  /\ IF tries[c] = 0 THEN TRUE ELSE s = (slot[c] + 1) % NSlots
  /\ LET cur == pathInode[s]
         ino == IF cur = 0 THEN nextIno ELSE cur
     IN /\ ino \in Inode
        /\ fd' = [fd EXCEPT ![c] = ino]
        /\ pathInode' = [pathInode EXCEPT ![s] = ino]
        /\ nextIno' = IF cur = 0 THEN nextIno + 1 ELSE nextIno
  /\ slot' = [slot EXCEPT ![c] = s]
  /\ tries' = [tries EXCEPT ![c] = @ + 1]
  /\ overlap' = [overlap EXCEPT ![c] = IF tries[c] = 0 THEN OthersInside(c) ELSE @ \/ OthersInside(c)]
  /\ pc' = [pc EXCEPT ![c] = "opened"]
  /\ stamp' = IF MaxLockTime = 0 THEN stamp
              ELSE [file |-> [stamp.file EXCEPT ![s] = [mtime |-> now, born |-> IF pathInode[s] = 0 THEN now ELSE @.born]],
                    opened |-> [stamp.opened EXCEPT ![c] = now]]
  /\ UNCHANGED <<owner, linger, deadline, cycles, now>>

\* a contender entering the section is seen by every attempt in progress
NoteEntry(c) == [d \in Contender |-> IF d # c /\ pc[d] \in {"opened", "locked", "failclose"} THEN TRUE ELSE overlap[d]]

\* flock(LOCK_EX|LOCK_NB) succeeds: nobody holds a flock on the inode that was OPENED
FlockOk(c) ==
  /\ pc[c] = "opened"
  /\ owner[fd[c]] = NoOne
  /\ owner' = [owner EXCEPT ![fd[c]] = c]
  /\ IF InodeCheck
       THEN /\ pc' = [pc EXCEPT ![c] = "locked"]
            /\ UNCHANGED <<overlap, tries>>
       ELSE /\ pc' = [pc EXCEPT ![c] = "cs"]
            /\ overlap' = NoteEntry(c)
            /\ tries' = [tries EXCEPT ![c] = 0]
  /\ UNCHANGED <<pathInode, fd, slot, linger, deadline, cycles, now, nextIno, stamp>>

FlockFail(c) ==
  /\ pc[c] = "opened"
  /\ owner[fd[c]] # NoOne
  /\ pc' = [pc EXCEPT ![c] = "failclose"]
  /\ overlap' = [overlap EXCEPT ![c] = TRUE]     \* some other descriptor holds the flock it asked for
  /\ UNCHANGED <<pathInode, owner, fd, slot, tries, linger, deadline, cycles, now, nextIno, stamp>>

\* repaired code: fstat(fd).st_ino = stat(path).st_ino ?
VerifyOk(c) ==
  /\ pc[c] = "locked"
  /\ pathInode[slot[c]] = fd[c]
  /\ pc' = [pc EXCEPT ![c] = "cs"]
  /\ overlap' = NoteEntry(c)
  /\ tries' = [tries EXCEPT ![c] = 0]
  /\ UNCHANGED <<pathInode, owner, fd, slot, linger, deadline, cycles, now, nextIno, stamp>>

VerifyFail(c) ==
  /\ pc[c] = "locked"
  /\ pathInode[slot[c]] # fd[c]
  /\ pc' = [pc EXCEPT ![c] = "failclose"]
  /\ UNCHANGED <<pathInode, owner, fd, slot, tries, linger, deadline, cycles, now, nextIno, overlap, stamp>>

\* fp.close() of a descriptor that did not get the lock (releases a flock taken on an orphan inode);
\* SemLock: next slot while tries < n, else LockError reaches FileLock.lock()
CloseFail(c) ==
  /\ pc[c] = "failclose"
  /\ owner' = IF owner[fd[c]] = c THEN [owner EXCEPT ![fd[c]] = NoOne] ELSE owner
  /\ fd' = [fd EXCEPT ![c] = 0]
  /\ IF tries[c] < NSlots
       THEN pc' = [pc EXCEPT ![c] = "try"] /\ UNCHANGED tries
       ELSE pc' = [pc EXCEPT ![c] = "failed"] /\ tries' = [tries EXCEPT ![c] = 0]
  /\ UNCHANGED <<pathInode, slot, linger, deadline, cycles, now, nextIno, overlap, stamp>>

\* except LockError: time() < stop_time -> sleep(step)
Retry(c) ==
  /\ pc[c] = "failed" /\ now < deadline[c]
  /\ pc' = [pc EXCEPT ![c] = "sleep"]
  /\ UNCHANGED <<pathInode, owner, fd, slot, tries, linger, deadline, cycles, now, nextIno, overlap, stamp>>

TimeoutStep(c) ==
  /\ pc[c] = "failed" /\ now >= deadline[c]
  /\ pc' = [pc EXCEPT ![c] = "timedout"]
  /\ UNCHANGED <<pathInode, owner, fd, slot, tries, linger, deadline, cycles, now, nextIno, overlap, stamp>>

Wake(c) ==
  /\ pc[c] = "sleep"
  /\ pc' = [pc EXCEPT ![c] = "try"]
  /\ UNCHANGED <<pathInode, owner, fd, slot, tries, linger, deadline, cycles, now, nextIno, overlap, stamp>>

\* unlock(), remove style: os.remove(path) removes whatever inode the path names now;
\* if the path is gone (OSError) the descriptor is closed instead (next step)
Unlink(c) ==
  /\ pc[c] = "cs" /\ Remove
  /\ IF pathInode[slot[c]] # 0
       THEN /\ pathInode' = [pathInode EXCEPT ![slot[c]] = 0]
            /\ linger' = [linger EXCEPT ![c] = fd[c]]
            /\ fd' = [fd EXCEPT ![c] = 0]
            /\ pc' = [pc EXCEPT ![c] = "gc"]
       ELSE /\ pc' = [pc EXCEPT ![c] = "fallback"]
            /\ UNCHANGED <<pathInode, linger, fd>>
  /\ UNCHANGED <<owner, cycles, slot, tries, deadline, now, nextIno, overlap, stamp>>

CloseFallback(c) ==
  /\ pc[c] = "fallback"
  /\ owner' = [owner EXCEPT ![fd[c]] = NoOne]
  /\ fd' = [fd EXCEPT ![c] = 0]
  /\ pc' = [pc EXCEPT ![c] = IF cycles[c] = 1 THEN "done" ELSE "idle"]
  /\ cycles' = [cycles EXCEPT ![c] = @ - 1]
  /\ UNCHANGED <<pathInode, slot, tries, linger, deadline, now, nextIno, overlap, stamp>>

\* the FileLock/LockFile object is dropped: the descriptor of the removed file is closed
GcClose(c) ==
  /\ pc[c] = "gc"
  /\ owner' = [owner EXCEPT ![linger[c]] = NoOne]
  /\ linger' = [linger EXCEPT ![c] = 0]
  /\ pc' = [pc EXCEPT ![c] = IF cycles[c] = 1 THEN "done" ELSE "idle"]
  /\ cycles' = [cycles EXCEPT ![c] = @ - 1]
  /\ UNCHANGED <<pathInode, fd, slot, tries, deadline, now, nextIno, overlap, stamp>>

\* unlock(), keep style: fp.close() releases the flock
CloseUnlock(c) ==
  /\ pc[c] = "cs" /\ ~Remove
  /\ owner' = [owner EXCEPT ![fd[c]] = NoOne]
  /\ fd' = [fd EXCEPT ![c] = 0]
  /\ pc' = [pc EXCEPT ![c] = IF cycles[c] = 1 THEN "done" ELSE "idle"]
  /\ cycles' = [cycles EXCEPT ![c] = @ - 1]
  /\ UNCHANGED <<pathInode, slot, tries, linger, deadline, now, nextIno, overlap, stamp>>

\* between open() and release: the descriptor is open
Attempting(c) == pc[c] \in {"opened", "locked", "cs", "failclose", "fallback"}
Tick ==
  /\ now < MaxTime
  /\ MaxLockTime > 0 => \A c \in Contender : Attempting(c) => now + 1 - stamp.opened[c] <= Hold
  /\ now' = now + 1
  /\ UNCHANGED <<pathInode, owner, pc, fd, slot, tries, linger, deadline, cycles, nextIno, overlap, stamp>>

\* cleanup_lockdir: the lock file was not opened for more than MaxLockTime
Expired(s) == (IF ExpireBy = "mtime" THEN stamp.file[s].mtime ELSE stamp.file[s].born) + MaxLockTime < now
Cleanup(s) ==
  /\ MaxLockTime > 0 /\ NSlots = 1          \* (the slot files of the semaphore do not end in the suffix the janitor looks for)
  /\ pathInode[s] # 0 /\ Expired(s)
  /\ pathInode' = [pathInode EXCEPT ![s] = 0]
  /\ UNCHANGED <<owner, pc, fd, slot, tries, linger, deadline, cycles, now, nextIno, overlap, stamp>>

Step(c) ==
  \/ Begin(c) \/ (\E s \in Slot : Open(c, s)) \/ FlockOk(c) \/ FlockFail(c) \/ VerifyOk(c) \/ VerifyFail(c)
  \/ CloseFail(c) \/ Retry(c) \/ TimeoutStep(c) \/ Wake(c) \/ Unlink(c) \/ CloseFallback(c) \/ GcClose(c)
  \/ CloseUnlock(c)

Next == (\E c \in Contender : Step(c)) \/ Tick \/ (\E s \in Slot : Cleanup(s))

Spec == Init /\ [][Next]_vars
FairSpec == Spec /\ \A c \in Contender : WF_vars(Step(c))

-----------------------------------------------------------------------------
(* Properties (C07) *)

\* at most one contender inside the section (at most n for the n-slot semaphore)
MutualExclusion == Cardinality(Holders) <= NSlots

\* every contender inside the section holds the flock on the inode its lock file names
HolderOwnsPath == \A c \in Contender : InCS(c) => owner[fd[c]] = c

\* a failed attempt (all its flock/verify steps) overlapped with another holder; and a timeout is
\* raised only at or after the deadline and only after such a failed attempt
AttemptFailSound == [][\A c \in Contender : (pc[c] # "failed" /\ pc'[c] = "failed") => overlap[c]]_vars
TimeoutSound     == [][\A c \in Contender : (pc'[c] = "timedout" /\ pc[c] # "timedout")
                                              => (now >= deadline[c] /\ overlap[c])]_vars

\* a released lock can be taken again: whenever a contender asks for the flock while nobody is
\* inside, nobody is mid-attempt on the same inode and nothing lingers on it, it gets it
Quiet(c) == \A d \in Contender \ {c} : pc[d] \in {"idle", "done", "timedout", "sleep", "failed", "try"} /\ linger[d] = 0
RelockPossible == \A c \in Contender : (pc[c] = "opened" /\ Quiet(c)) => owner[fd[c]] \in {NoOne}

\* liveness (no timeouts configured): every contender finishes all its cycles
AllDone == \A c \in Contender : pc[c] \in {"done", "timedout"}
\* nothing gets stuck: some contender can move unless all are finished
DeadlockFree == AllDone \/ ENABLED (\E c \in Contender : Step(c))
Termination == <>AllDone
=============================================================================
