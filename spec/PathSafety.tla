----------------------------- MODULE PathSafety -----------------------------
(***************************************************************************)
(* C09 - serving requests never touches files outside the cache and lock   *)
(* directories.                                                            *)
(*                                                                         *)
(* A string is the sequence of its "/"-separated segments ("a/../b" is     *)
(* <<"a", "..", "b">>, "" is <<"">>, "/x" is <<"", "x">>): the separator   *)
(* inside a value is a sequence longer than one, the absolute marker is a  *)
(* leading empty segment.  Loc transcribes mapproxy/cache/path.py          *)
(* (dimensions_part + the layout functions) with os.path.join as it is;    *)
(* Norm resolves dot segments lexically; Under(root, p) says that the      *)
(* normalised path stays below the root.                                   *)
(*                                                                         *)
(* The request pipeline is one action per decision of the code.  Every     *)
(* action consumes the part of the (attacker chosen) request that the code *)
(* looks at in that step:                                                  *)
(*   Receive      dispatch to a service (flow)                             *)
(*   PopPath      multiapp.py: first path segment -> <conf dir>/<seg>.yaml *)
(*   LayerLookup  layer names are dictionary keys only                     *)
(*   DimsWMS      request/wms/__init__.py _get_dimensions -> MapQuery ->   *)
(*                CacheMapLayer -> TileManager: every TIME/ELEVATION/DIM_* *)
(*                parameter of the query string, unchecked                 *)
(*   DimsChecked  service/tile.py checked_dimensions (tile services)       *)
(*   CoordWMS     grid.get_affected_tiles: coordinates inside the grid     *)
(*   LimitTile    service/tile.py internal_tile_coord + grid.limit_tile    *)
(*   Lock, Store  TileLocker.lock_filename, cache location of the tile     *)
(*                                                                         *)
(* Sanitise = "raw" is dimensions_part as found (the value is inserted as  *)
(* it is), "nosep" is the repaired function (separators inside a part are  *)
(* replaced, so a part is one segment).                                    *)
(***************************************************************************)
EXTENDS Integers, Sequences, FiniteSets, TLC

CONSTANTS
  Root,       \* cache directory (absolute segment sequence)
  LockRoot,   \* tile lock directory
  ConfRoot,   \* multiapp: directory with the project configurations
  Projects,   \* multiapp: names of existing projects
  Backend,    \* "file" | "single" (one database file) | "level" (one database per level) | "compact"
  Layout,     \* file backend: "tc" | "mp" | "tms" | "reverse_tms" | "quadkey" | "arcgis"
  Sanitise,   \* "raw" | "nosep"
  Ext,        \* file extension of tiles ("png"); for "single": the file name; for "level": the extension
  Levels,     \* number of grid levels; level z has 2^z x 2^z tiles, origin lower left
  Layers,     \* configured layer names
  DimConf,    \* configured dimensions of the layer: sequence of [key, values (set of strings), default]
  Tok,        \* segment alphabet of attacker strings
  MaxSegs,    \* longest attacker string (in segments)
  Keys,       \* parameter names the attacker may send: [segs, class] with class "predef"|"custom"|"other"
  KeyOrder,   \* all of Keys in the order of Python's sorted() on the lower-cased names
  MaxDims,    \* how many dimension parameters one WMS request may carry
  Idx,        \* tile indices the attacker may send (negative and huge ones included)
  LockId,     \* lock_cache_id of the cache
  Flows       \* subset of {"wms", "tms", "kml", "wmts_kvp", "wmts_rest", "multiapp"}

VARIABLES pc, req, cdims, coord, out, touched
vars == <<pc, req, cdims, coord, out, touched>>

None == "none"

-----------------------------------------------------------------------------
(* strings *)
Str == UNION {[1 .. n -> Tok] : n \in 1 .. MaxSegs}
Lit(s) == <<s>>
Last(s) == s[Len(s)]
Front(s) == SubSeq(s, 1, Len(s) - 1)
Glue(a, b) == Front(a) \o <<Last(a) \o b[1]>> \o Tail(b)        \* string concatenation a + b

RECURSIVE JoinWith(_, _)
JoinWith(sep, s) == IF Len(s) = 1 THEN s[1] ELSE s[1] \o sep \o JoinWith(sep, Tail(s))

(* os.path.join (posixpath) *)
IsAbs(p) == Len(p) >= 2 /\ p[1] = ""
Join2(p, q) == IF IsAbs(q) THEN q
               ELSE IF p = <<"">> THEN q
               ELSE IF Last(p) = "" THEN Front(p) \o q
               ELSE p \o q
RECURSIVE JoinAll(_)
JoinAll(ps) == IF Len(ps) = 1 THEN ps[1] ELSE JoinAll(<<Join2(ps[1], ps[2])>> \o SubSeq(ps, 3, Len(ps)))

(* lexical normalisation of an absolute path: the segments below "/".  Scanned from the right: a ".." cancels *)
(* the nearest name to its left, what is left over at "/" is dropped (posixpath.normpath).                  *)
RECURSIVE NormR(_, _, _, _)
NormR(p, i, skip, acc) ==
  IF i = 0 THEN acc
  ELSE LET s == p[i] IN
       IF s = "" \/ s = "." THEN NormR(p, i - 1, skip, acc)
       ELSE IF s = ".." THEN NormR(p, i - 1, skip + 1, acc)
       ELSE IF skip > 0 THEN NormR(p, i - 1, skip - 1, acc)
       ELSE NormR(p, i - 1, 0, <<s>> \o acc)
Norm(p) == NormR(p, Len(p), 0, <<>>)
Under(root, p) == LET r == Norm(root)  n == Norm(p) IN Len(n) >= Len(r) /\ SubSeq(n, 1, Len(r)) = r

-----------------------------------------------------------------------------
(* numbers as the code prints them (all numbers that reach a location are >= 0) *)
RECURSIVE NDigits(_, _)
NDigits(n, base) == IF n < base THEN 1 ELSE 1 + NDigits(n \div base, base)
RECURSIVE Zeros(_)
Zeros(k) == IF k <= 0 THEN "" ELSE "0" \o Zeros(k - 1)
Dec(n) == ToString(n)
Pad(n, w) == Zeros(w - NDigits(n, 10)) \o Dec(n)                  \* "%0wd"
HexDigit == <<"0", "1", "2", "3", "4", "5", "6", "7", "8", "9", "a", "b", "c", "d", "e", "f">>
RECURSIVE HexStr(_)
HexStr(n) == IF n < 16 THEN HexDigit[n + 1] ELSE HexStr(n \div 16) \o HexDigit[(n % 16) + 1]
Hex(n, w) == Zeros(w - NDigits(n, 16)) \o HexStr(n)               \* "%0wx"
RECURSIVE Pow2(_)
Pow2(k) == IF k = 0 THEN 1 ELSE 2 * Pow2(k - 1)
Bit(n, i) == (n \div Pow2(i)) % 2
RECURSIVE QuadKey(_, _, _)
QuadKey(x, y, i) == IF i <= 0 THEN "" ELSE Dec(Bit(x, i - 1) + 2 * Bit(y, i - 1)) \o QuadKey(x, y, i - 1)

-----------------------------------------------------------------------------
(* mapproxy/cache/path.py *)
PartRaw(k, v) == Glue(Glue(k, Lit("-")), v)                       \* k + "-" + str(value)
Part(k, v) == IF Sanitise = "raw" THEN PartRaw(k, v) ELSE Lit(JoinWith("_", PartRaw(k, v)))

\* dims: sequence of <<key segments, value segments>> in the order of dim_keys
DimPart(dims) == IF Len(dims) = 0 THEN <<"">> ELSE JoinAll([i \in 1 .. Len(dims) |-> Part(dims[i][1], dims[i][2])])

FileLocL(layout, dims, c) ==
  LET x == c[1]  y == c[2]  z == c[3]  dp == DimPart(dims) IN
  CASE layout = "tc" ->
         JoinAll(<<Root, dp, Lit(Pad(z, 2)),
                   Lit(Pad(x \div 1000000, 3)), Lit(Pad((x \div 1000) % 1000, 3)), Lit(Pad(x % 1000, 3)),
                   Lit(Pad(y \div 1000000, 3)), Lit(Pad((y \div 1000) % 1000, 3)),
                   Lit(Pad(y % 1000, 3) \o "." \o Ext)>>)
    [] layout = "mp" ->
         JoinAll(<<Root, dp, Lit(Pad(z, 2)),
                   Lit(Pad(x \div 10000, 4)), Lit(Pad(x % 10000, 4)),
                   Lit(Pad(y \div 10000, 4)), Lit(Pad(y % 10000, 4) \o "." \o Ext)>>)
    [] layout = "tms" ->
         JoinAll(<<Root, dp, Lit(Dec(z)), Lit(Dec(x)), Lit(Dec(y) \o "." \o Ext)>>)
    [] layout = "reverse_tms" ->
         JoinAll(<<Root, dp, Lit(Dec(y)), Lit(Dec(x)), Lit(Dec(z) \o "." \o Ext)>>)
    [] layout = "quadkey" ->
         JoinAll(<<Root, dp, Lit(QuadKey(x, y, z) \o "." \o Ext)>>)
    [] layout = "arcgis" ->
         JoinAll(<<Root, dp, Lit("L" \o Pad(z, 2)), Lit("R" \o Hex(y, 8)), Lit("C" \o Hex(x, 8) \o "." \o Ext)>>)

FileLoc(dims, c) == FileLocL(Layout, dims, c)

\* backends that do not support dimensions ignore them (mbtiles / sqlite / geopackage / compact)
Loc(dims, c) ==
  LET x == c[1]  y == c[2]  z == c[3] IN
  CASE Backend = "file"    -> FileLoc(dims, c)
    [] Backend = "single"  -> Join2(Root, Lit(Ext))
    [] Backend = "level"   -> Join2(Root, Lit(Dec(z) \o "." \o Ext))
    [] Backend = "compact" -> JoinAll(<<Root, Lit("L" \o Pad(z, 2)),
                                        Lit("R" \o Hex((y \div 128) * 128, 4) \o "C" \o Hex((x \div 128) * 128, 4)
                                            \o ".bundle")>>)

\* mapproxy/cache/base.py TileLocker.lock_filename
LockName(c) == Join2(LockRoot, Lit(LockId \o "-" \o Dec(c[1]) \o "-" \o Dec(c[2]) \o "-" \o Dec(c[3]) \o ".lck"))

\* mapproxy/multiapp.py DirectoryConfLoader.filename_from_app_name
ConfFile(name) == Join2(ConfRoot, Lit(name \o ".yaml"))

-----------------------------------------------------------------------------
(* grid *)
InGrid(c) == /\ c[3] >= 0 /\ c[3] < Levels
             /\ c[1] >= 0 /\ c[2] >= 0 /\ c[1] < Pow2(c[3]) /\ c[2] < Pow2(c[3])
Flip(c) == <<c[1], Pow2(c[3]) - 1 - c[2], c[3]>>
\* (an operator with an argument: TLC evaluates constant definitions eagerly, trace validation uses large grids)
GridTilesOf(n) == {<<x, y, z>> \in (0 .. Pow2(n - 1) - 1) \X (0 .. Pow2(n - 1) - 1) \X (0 .. n - 1) : InGrid(<<x, y, z>>)}

(* dimension parameters *)
DimKeys == {k \in Keys : k.class # "other"}          \* the regular expression of _get_dimensions
KeySets == {K \in SUBSET Keys : Cardinality(K) <= MaxDims}
Sorted(K) == SelectSeq(KeyOrder, LAMBDA k : k \in K /\ k.class = "predef")
             \o SelectSeq(KeyOrder, LAMBDA k : k \in K /\ k.class = "custom")
\* request dimensions: a function from a small set of keys to strings
ReqDims == UNION {[K -> Str] : K \in KeySets}

TileFlows == {"tms", "kml", "wmts_kvp", "wmts_rest"}
Rejects == {"reject_layer", "reject_dim", "reject_tile", "notfound"}

NoReq == [flow |-> None, layer |-> <<>>, dims |-> <<>>, tile |-> <<>>, path |-> <<>>]

Init == /\ pc = "start" /\ req = NoReq /\ cdims = <<>> /\ coord = <<>> /\ out = "pending" /\ touched = {}

Receive(f) ==
  /\ pc = "start"
  /\ req' = [req EXCEPT !.flow = f]
  /\ pc' = IF f = "multiapp" THEN "pop" ELSE "layer"
  /\ UNCHANGED <<cdims, coord, out, touched>>

\* Request.pop_path: path.lstrip('/') and split at the first separator; then
\* `app_name not in self.apps and not self.loader.app_available(app_name)` looks at <conf dir>/<name>.yaml
RECURSIVE LStrip(_)
LStrip(p) == IF p = <<>> THEN p ELSE IF p[1] = "" THEN LStrip(Tail(p)) ELSE p
PopPath(p) ==
  /\ pc = "pop"
  /\ req' = [req EXCEPT !.path = p]
  /\ LET rest == LStrip(p) IN
       IF rest = <<>>
         THEN /\ out' = "index" /\ touched' = touched
         ELSE /\ touched' = touched \cup {[kind |-> "conf", path |-> ConfFile(rest[1])]}
              /\ out' = IF rest[1] \in Projects THEN "dispatch" ELSE "notfound"
  /\ pc' = "done"
  /\ UNCHANGED <<cdims, coord>>

\* self.layers[name] / `name in self.layers`: the name never becomes part of a path.  In the path based
\* services the layer is one URL segment, a name with a separator cannot even be written down.
LayerLookup(l) ==
  /\ pc = "layer"
  /\ req' = [req EXCEPT !.layer = l]
  /\ IF Len(l) = 1 /\ l[1] \in Layers
       THEN pc' = "dims" /\ out' = out
       ELSE pc' = "done" /\ out' = "reject_layer"
  /\ UNCHANGED <<cdims, coord, touched>>

WmsCDims(ds) == LET S == Sorted({k \in DOMAIN ds : k \in DimKeys})
                IN IF S = <<>> THEN <<>> ELSE [i \in 1 .. Len(S) |-> <<S[i].segs, ds[S[i]]>>]

\* WMS: every parameter matching (?i)^dim_|^(time|elevation)$ goes into MapQuery.dimensions and from there,
\* unchecked, to TileManager.load_tile_coords(dimensions=...)
DimsWMS(ds) ==
  /\ pc = "dims" /\ req.flow = "wms"
  /\ req' = [req EXCEPT !.dims = ds]
  /\ cdims' = WmsCDims(ds)
  /\ pc' = "coord"
  /\ UNCHANGED <<coord, out, touched>>

\* tile services: TileLayer.checked_dimensions; TMS and KML requests carry no dimensions at all
ReqValue(ds, key) == LET K == {k \in DOMAIN ds : k.segs = <<key>>} IN
                     IF K = {} THEN <<>> ELSE ds[CHOOSE k \in K : TRUE]      \* <<>>: parameter absent
Checked(ds, i) ==    \* value for the i-th configured dimension or None when the request is refused
  LET d == DimConf[i]  v == ReqValue(ds, d.key) IN
  IF v = <<>> THEN d.default
  ELSE IF Len(v) = 1 /\ v[1] \in d.values THEN v[1]
  ELSE IF v = <<"">> \/ v = <<"default">> THEN d.default
  ELSE None
DimsChecked(ds) ==
  /\ pc = "dims" /\ req.flow \in TileFlows
  /\ req.flow \in {"tms", "kml"} => DOMAIN ds = {}
  \* REST: the keys are the template variables, a value is one URL segment matching [\w_.,:-]+
  /\ req.flow = "wmts_rest" => /\ DOMAIN ds = {k \in Keys : \E i \in 1 .. Len(DimConf) : k.segs = <<DimConf[i].key>>}
                               /\ \A k \in DOMAIN ds : Len(ds[k]) = 1 /\ ds[k][1] # ""
  /\ req' = [req EXCEPT !.dims = ds]
  /\ IF \E i \in 1 .. Len(DimConf) : Checked(ds, i) = None
       THEN /\ out' = "reject_dim" /\ pc' = "done" /\ cdims' = cdims
       ELSE /\ cdims' = LET S == Sorted({k \in Keys : \E i \in 1 .. Len(DimConf) : k.segs = <<DimConf[i].key>>})
                            val(k) == Checked(ds, CHOOSE i \in 1 .. Len(DimConf) : DimConf[i].key = k.segs[1])
                        IN [i \in 1 .. Len(S) |-> <<S[i].segs, Lit(val(S[i]))>>]
            /\ pc' = "coord" /\ out' = out
  /\ UNCHANGED <<coord, touched>>

\* WMS: grid.get_affected_tiles only yields coordinates of the grid
CoordWMS(c) ==
  /\ pc = "coord" /\ req.flow = "wms"
  /\ InGrid(c)
  /\ req' = [req EXCEPT !.tile = c]
  /\ coord' = c /\ pc' = "lock"
  /\ UNCHANGED <<cdims, out, touched>>

\* tile services: internal_tile_coord (z < 0 refused), limit_tile, flip for services with origin nw
LimitTile(x, y, z) ==
  /\ pc = "coord" /\ req.flow \in TileFlows
  /\ req' = [req EXCEPT !.tile = <<x, y, z>>]
  /\ IF InGrid(<<x, y, z>>)
       THEN /\ coord' = IF req.flow \in {"wmts_kvp", "wmts_rest"} THEN Flip(<<x, y, z>>) ELSE <<x, y, z>>
            /\ pc' = "lock" /\ out' = out
       ELSE /\ coord' = coord /\ pc' = "done" /\ out' = "reject_tile"
  /\ UNCHANGED <<cdims, touched>>

\* the tiles are not cached: lock, fetch, store (a cached tile touches the location only).  A map request
\* with meta tiles touches a set of coordinates of the grid, a tile request its one coordinate.
LockSet(C) ==
  /\ pc = "lock"
  /\ touched' = touched \cup {[kind |-> "lock", path |-> LockName(c)] : c \in C}
  /\ pc' = "store"
  /\ UNCHANGED <<req, cdims, coord, out>>
StoreSet(C) ==
  /\ pc = "store"
  /\ touched' = touched \cup {[kind |-> "file", path |-> Loc(cdims, c)] : c \in C}
  /\ out' = "served" /\ pc' = "done"
  /\ UNCHANGED <<req, cdims, coord>>
Lock == LockSet({coord})
Store == StoreSet({coord})

LayerStr == Str \cup {Lit(n) : n \in Layers}
When(cond, S) == IF cond THEN S ELSE {}       \* keeps TLC from enumerating inputs of steps that are not enabled
DoReceive     == \E f \in Flows : Receive(f)
DoPopPath     == \E p \in When(pc = "pop", Str) : PopPath(p)
DoLayerLookup == \E l \in When(pc = "layer", LayerStr) : LayerLookup(l)
DoDimsWMS     == \E ds \in When(pc = "dims" /\ req.flow = "wms", ReqDims) : DimsWMS(ds)
DoDimsChecked == \E ds \in When(pc = "dims" /\ req.flow # "wms", ReqDims) : DimsChecked(ds)
DoCoordWMS    == \E c \in When(pc = "coord" /\ req.flow = "wms", GridTilesOf(Levels)) : CoordWMS(c)
DoLimitTile   == \E x \in When(pc = "coord" /\ req.flow # "wms", Idx), y \in Idx, z \in Idx : LimitTile(x, y, z)

Next == DoReceive \/ DoPopPath \/ DoLayerLookup \/ DoDimsWMS \/ DoDimsChecked \/ DoCoordWMS \/ DoLimitTile
        \/ Lock \/ Store

Spec == Init /\ [][Next]_vars

\* req is the history of consumed inputs; only the flow is read by later steps
View == <<pc, req.flow, cdims, coord, out, touched>>

-----------------------------------------------------------------------------
(* properties *)
RootOf(kind) == CASE kind = "file" -> Root [] kind = "lock" -> LockRoot [] kind = "conf" -> ConfRoot
SafeTouch(t) == Under(RootOf(t.kind), t.path)

\* C09: whatever the request, every touched path stays below the directory configured for it
Safe == \A t \in touched : SafeTouch(t)
SafeWMS == req.flow = "wms" => Safe
SafeOther == req.flow # "wms" => Safe

\* a refused request has not touched the cache or the locks
RejectedTouchNothing == out \in Rejects => \A t \in touched : t.kind = "conf"

\* only values that passed the filter of the flow reach the location function
OnlyCheckedValues ==
  (req.flow \in TileFlows /\ pc \in {"coord", "lock", "store", "done"} /\ out \notin Rejects) =>
     \A i \in 1 .. Len(cdims) : \E j \in 1 .. Len(DimConf) :
        /\ cdims[i][1] = <<DimConf[j].key>>
        /\ Len(cdims[i][2]) = 1 /\ cdims[i][2][1] \in DimConf[j].values \cup {DimConf[j].default}
CoordInGrid == coord # <<>> => InGrid(coord)

TypeOK == /\ pc \in {"start", "pop", "layer", "dims", "coord", "lock", "store", "done"}
          /\ out \in Rejects \cup {"pending", "served", "index", "dispatch"}
          /\ (pc = "done") = (out # "pending")
=============================================================================
