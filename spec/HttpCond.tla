------------------------------ MODULE HttpCond ------------------------------
(***************************************************************************)
(* Validators and conditional requests of the tile services (C20).         *)
(*                                                                         *)
(* One tile cache (mapproxy.cache.tile.TileManager on a file cache or a    *)
(* timestamped sqlite cache) is read through the tile handlers             *)
(*   TMS       mapproxy/service/tile.py  TileServer.map                    *)
(*   WMTS      mapproxy/service/wmts.py  WMTSServer.tile (KVP and REST)    *)
(*   KML       mapproxy/service/kml.py   KMLServer.map                     *)
(*   WMS-C     mapproxy/service/wms.py   WMSServer.map with tiled=true     *)
(* which all end in Response.cache_headers + Response.make_conditional     *)
(* (mapproxy/response.py).                                                 *)
(*                                                                         *)
(* A request is one action; which one depends on what the tile manager     *)
(* finds (TileManager._load_tile_coords):                                  *)
(*   GetCached   tile present and not expired: validators from the store   *)
(*   GetCreate   tile missing or expired, upstream answers: the tile (and  *)
(*               with meta tiles all its siblings) is (re)written          *)
(*   GetError    tile missing or expired, upstream fails and on_error maps *)
(*               the failure to a fill image with cache: False             *)
(* Environment: Rewrite (a seeder re-creates the tile), Expire (the        *)
(* refresh_before threshold moves to now), Tick.                           *)
(*                                                                         *)
(* Time is counted in half seconds (clock, mtimes); HTTP dates and the     *)
(* sqlite backend only keep whole seconds (m \div 2).  Writing tiles takes *)
(* time: GetCreate and Rewrite advance the clock by one.                   *)
(*                                                                         *)
(* How the (timestamp, size, cacheable) triple that the handlers read      *)
(* travels from the tile creator to the handler differs per creation path  *)
(* and is what the constants CopyInfo / ResetStamp / BranchFlavours        *)
(* describe:                                                               *)
(*   CopyInfo = FALSE   _load_tile_coords copies only `.source` of tiles   *)
(*                      created through the meta-tile / bulk path          *)
(*   ResetStamp = FALSE _create_single_tile keeps timestamp of the expired *)
(*                      tile it replaces (tile_buffer: `if not timestamp`) *)
(*   BranchFlavours     handlers with `if tile.cacheable .. else no_cache` *)
(* All TRUE / all flavours is the repaired code; the property (bottom of   *)
(* the module) holds for it and fails for every other combination.         *)
(***************************************************************************)
EXTENDS Integers, FiniteSets, TLC

CONSTANTS Tiles,          \* tile ids
          MetaOf,         \* [Tiles -> SUBSET Tiles]: tiles of the same meta tile (including the tile itself)
          Flavours,       \* subset of {"tms", "wmts_kvp", "wmts_rest", "kml", "wmsc", "wmsc2"}; "wmsc2": a WMS-C request
                          \* (tiled=true) for TWO cached layers - the tile under test below a layer of transparent
                          \* tiles that never change: a merged answer
          Backend,        \* "file" (mtime with sub-second part) | "sqlite" (last_modified in whole seconds)
          Path,           \* "single" | "meta" | "bulk": how the tile manager creates tiles
          CopyInfo, ResetStamp, BranchFlavours,
          Lenient,        \* BOOLEAN: admit 304 as well where If-Modified-Since equals the Last-Modified second (see Respond)
          MaxClock,       \* bound of the clock (half seconds)
          Sizes,          \* size classes of tile bodies
          LinkedSizes     \* size classes of tiles that the store keeps as symbolic links to a shared image (file cache
                          \* with link_single_color_images: tiles of one colour): read back, their size is the size of
                          \* the link (class 0, the same for all of them), their time stamp that of the link itself

VARIABLES cache,          \* [Tiles -> NoTile or [m, s, v]]: mtime (half seconds), size class, content version
          prev,           \* [Tiles -> NoTile or entry]: the entry replaced by the last rewrite (what a client may still hold)
          clock,          \* now, in half seconds
          thr,            \* refresh_before threshold in whole seconds: tiles with m \div 2 <= thr are expired
          ver,            \* content version the upstream serves next
          served,         \* [Tiles -> NoServed or [etag, lm, body]]: validators sent from the cache since the last rewrite
          issued,         \* ETags the server has sent so far (what a client can really hold)
          resp            \* the last step and, for requests, the response

vars == <<cache, prev, clock, thr, ver, served, issued, resp>>

NoTile   == [m |-> -1, s |-> -1, v |-> -1]
NoServed == [etag |-> <<-9, -9>>, lm |-> -9, body |-> -9]

\* ETags are pairs; the real strings are bound to them by first occurrence
NN     == <<-1, -1>>      \* md5("NoneNone"): ETag built from timestamp None and size None
NONE_E == <<-2, -2>>      \* no ETag header
GARB   == <<-3, -3>>      \* an ETag the server never issued
NOHDR  == <<-4, -4>>      \* no If-None-Match header
Etag(ts, size) == <<ts, size>>

\* request headers: inm = an ETag or NOHDR; ims = whole seconds, -1 absent, -2 malformed date, -3 a well-formed date long
\* before any tile (before 1970): never a reason for 304
NoCond == [inm |-> NOHDR, ims |-> -1]

Disk(s) == IF s \in LinkedSizes THEN 0 ELSE s        \* size (class) of a tile as the store reports it
StoreTime(c) == IF Backend = "sqlite" THEN 2 * (c \div 2) ELSE c
Stale(e)  == e # NoTile /\ (e.m \div 2) <= thr
Fresh(t)  == cache[t] # NoTile /\ ~Stale(cache[t])
Created(t) == IF Path = "single" THEN {t} ELSE MetaOf[t]

\* a merged answer is no stored tile: LayerMerger.merge hands on "cacheable or not", never the CacheInfo of one of its
\* layers, so the WMS sends no validators (and nothing to match a conditional request against)
HandlerKind(f) == IF f = "wmsc2" THEN "novalid"
                  ELSE IF f \in BranchFlavours THEN "branch"
                  ELSE IF f = "wmsc" THEN "wmsc_both" ELSE "nobranch"

(***************************************************************************)
(* Response.cache_headers + make_conditional as called by the handlers.    *)
(* info = [ts, size, cacheable] as the handler reads it (-1 = None).       *)
(***************************************************************************)
Resp(f, t, h, info, bodyv, phase, lenient) ==
  LET kind   == HandlerKind(f)
      useVal == kind # "novalid" /\ (kind # "branch" \/ info.cacheable)
      etag   == IF useVal THEN Etag(info.ts, info.size) ELSE NONE_E
      ts     == IF useVal THEN info.ts ELSE -1
      lm     == IF ts = -1 THEN -1 ELSE ts \div 2
      cc     == IF kind = "novalid" THEN (IF info.cacheable THEN "none" ELSE "nostore")
                ELSE IF ~useVal THEN "nostore"
                ELSE IF kind = "wmsc_both" /\ ~info.cacheable THEN "both" ELSE "public"
      nm     == \/ etag # NONE_E /\ h.inm # NOHDR /\ h.inm = etag
                \/ ts # -1 /\ h.ims >= 0 /\ ts <= 2 * h.ims
                \/ lenient /\ ts # -1 /\ h.ims = lm
  IN [act |-> "Get", f |-> f, t |-> t, h |-> h, phase |-> phase,
      status |-> IF nm THEN 304 ELSE 200, etag |-> etag, lm |-> lm,
      body |-> IF nm THEN -1 ELSE bodyv, cc |-> cc, prevserved |-> served[t]]

\* The code compares the stored time including its sub-second part with the whole seconds of If-Modified-Since,
\* so a client that sends back the Last-Modified it received gets the body again when the tile was written at a
\* fraction of a second.  Answering 304 there is equally sound; the model admits both (tolerance, not a decision).
\* Lenient = FALSE is the code as it is (used for counterexamples and for behaviours to replay).
Respond(f, t, h, info, bodyv, phase) ==
  {Resp(f, t, h, info, bodyv, phase, FALSE)} \cup (IF Lenient THEN {Resp(f, t, h, info, bodyv, phase, TRUE)} ELSE {})

Step(a, t) == [act |-> a, f |-> "-", t |-> t, h |-> NoCond, phase |-> "-", status |-> 0, etag |-> NONE_E,
               lm |-> -1, body |-> -1, cc |-> "-", prevserved |-> NoServed]

Init ==
  /\ cache = [t \in Tiles |-> NoTile] /\ prev = [t \in Tiles |-> NoTile]
  /\ clock = 2 /\ thr = 0 /\ ver = 1
  /\ served = [t \in Tiles |-> NoServed]
  /\ issued = {}
  /\ resp = Step("Init", CHOOSE t \in Tiles : TRUE)

GetCached(f, t, h) ==
  /\ Fresh(t)
  /\ LET info == [ts |-> cache[t].m, size |-> Disk(cache[t].s), cacheable |-> TRUE]
     IN \E r \in Respond(f, t, h, info, cache[t].v, "cached") :
        /\ resp' = r /\ issued' = issued \cup {r.etag}
        /\ served' = IF f = "wmsc2" THEN served       \* (not an answer with the tile: says nothing about its validators)
                      ELSE [served EXCEPT ![t] = [etag |-> r.etag, lm |-> r.lm,
                                                  body |-> IF r.status = 200 THEN r.body ELSE served[t].body]]
  /\ UNCHANGED <<cache, prev, clock, thr, ver>>

\* what the tile object carries before creation: metadata of the expired tile, if there is one
PreTs(t)   == IF cache[t] = NoTile THEN -1 ELSE cache[t].m
PreSize(t) == IF cache[t] = NoTile THEN -1 ELSE Disk(cache[t].s)

Rewritten(t, s) == [u \in Tiles |-> IF u \in Created(t) THEN [m |-> StoreTime(clock), s |-> s, v |-> ver] ELSE cache[u]]
PrevAfter(t)    == [u \in Tiles |-> IF u \in Created(t) /\ cache[u] # NoTile THEN cache[u] ELSE prev[u]]

\* Time moves on when tiles are written (clock' = clock + 1 in GetCreate and Rewrite): two writes never read the
\* same clock value, as with a real clock.  At the one-second granularity of sqlite two versions written within
\* one second still get the same stored timestamp and (mtime, size) validators cannot tell them apart, so a tile
\* is not rewritten within the stored time unit in which it was written.
NotTwiceAtOnce(t) == \A u \in Created(t) : cache[u] = NoTile \/ StoreTime(clock) > cache[u].m

GetCreate(f, t, h, s) ==
  /\ ~Fresh(t)
  /\ NotTwiceAtOnce(t) /\ clock < MaxClock
  /\ LET info == IF Path = "single"
                   THEN [ts |-> IF ResetStamp \/ PreTs(t) = -1 THEN clock ELSE PreTs(t), size |-> s, cacheable |-> TRUE]
                 ELSE IF CopyInfo THEN [ts |-> clock, size |-> s, cacheable |-> TRUE]
                 ELSE [ts |-> PreTs(t), size |-> PreSize(t), cacheable |-> TRUE]
     IN \E r \in Respond(f, t, h, info, ver, IF cache[t] = NoTile THEN "create" ELSE "refresh") :
           resp' = r /\ issued' = issued \cup {r.etag}
  /\ cache' = Rewritten(t, s) /\ prev' = PrevAfter(t)
  /\ served' = [u \in Tiles |-> IF u \in Created(t) THEN NoServed ELSE served[u]]
  /\ ver' = ver + 1 /\ clock' = clock + 1
  /\ UNCHANGED thr

GetError(f, t, h) ==
  /\ ~Fresh(t)
  /\ LET info == IF Path = "single"
                   THEN [ts |-> IF ResetStamp THEN -1 ELSE PreTs(t), size |-> IF ResetStamp THEN -1 ELSE PreSize(t),
                         cacheable |-> FALSE]
                 ELSE IF CopyInfo THEN [ts |-> -1, size |-> -1, cacheable |-> FALSE]
                 ELSE [ts |-> PreTs(t), size |-> PreSize(t), cacheable |-> TRUE]
     IN \E r \in Respond(f, t, h, info, 0, "error") : resp' = r /\ issued' = issued \cup {r.etag}
  /\ UNCHANGED <<cache, prev, clock, thr, ver, served>>

\* a seeder (another process) removes and re-creates the tile; never twice within one stored time unit
Rewrite(t, s) ==
  /\ cache[t] # NoTile
  /\ NotTwiceAtOnce(t) /\ clock < MaxClock
  /\ cache' = Rewritten(t, s) /\ prev' = PrevAfter(t)
  /\ served' = [u \in Tiles |-> IF u \in Created(t) THEN NoServed ELSE served[u]]
  /\ ver' = ver + 1 /\ clock' = clock + 1
  /\ resp' = [Step("Rewrite", t) EXCEPT !.body = s]
  /\ UNCHANGED <<thr, issued>>

Expire ==
  /\ thr # clock \div 2
  /\ thr' = clock \div 2
  /\ resp' = Step("Expire", CHOOSE t \in Tiles : TRUE)
  /\ UNCHANGED <<cache, prev, clock, ver, served, issued>>

Tick ==
  /\ clock < MaxClock
  /\ clock' = clock + 1
  /\ resp' = Step("Tick", CHOOSE t \in Tiles : TRUE)
  /\ UNCHANGED <<cache, prev, thr, ver, served, issued>>

(***************************************************************************)
(* Conditional headers worth distinguishing in a state: the validators of  *)
(* the stored tile, of the tile it replaced, NN, an unknown ETag; dates    *)
(* one second below / at / above every second that matters; a malformed    *)
(* date; INM and IMS together.                                             *)
(***************************************************************************)
\* (with sqlite the response that created a tile at an odd half second carried ETag(m + 1, s))
EtagsOf(e)  == IF e = NoTile THEN {} ELSE {Etag(e.m, e.s), Etag(e.m, Disk(e.s))} \cup (IF Backend = "sqlite" THEN {Etag(e.m + 1, e.s)} ELSE {})
EtagsFor(t) == {GARB, NN} \cup EtagsOf(cache[t]) \cup EtagsOf(prev[t])
SecsFor(t)  == LET base == {clock \div 2} \cup (IF cache[t] # NoTile THEN {cache[t].m \div 2} ELSE {})
                                          \cup (IF prev[t] # NoTile THEN {prev[t].m \div 2} ELSE {})
               IN {d \in UNION {{b - 1, b, b + 1} : b \in base} : d >= 0}
StaleEtags(t) == {GARB} \cup (IF prev[t] # NoTile THEN {Etag(prev[t].m, prev[t].s), Etag(prev[t].m, Disk(prev[t].s))} ELSE {})
NearSecs(t)   == LET b == IF cache[t] # NoTile THEN cache[t].m \div 2 ELSE clock \div 2
                 IN {d \in {b - 1, b, b + 1} : d >= 0}
Hdrs(t) == {NoCond, [inm |-> NOHDR, ims |-> -2], [inm |-> NOHDR, ims |-> -3]}
           \cup {[inm |-> e, ims |-> -1] : e \in EtagsFor(t)}
           \cup {[inm |-> NOHDR, ims |-> d] : d \in SecsFor(t)}
           \cup {[inm |-> e, ims |-> d] : e \in StaleEtags(t), d \in NearSecs(t)}
           \cup {[inm |-> e, ims |-> -2] : e \in EtagsFor(t) \ {GARB}}

DoGetCached == \E f \in Flavours, t \in Tiles : \E h \in Hdrs(t) : GetCached(f, t, h)
DoGetCreate == \E f \in Flavours, t \in Tiles, s \in Sizes : \E h \in Hdrs(t) : GetCreate(f, t, h, s)
DoGetError  == \E f \in Flavours, t \in Tiles : \E h \in Hdrs(t) : GetError(f, t, h)
DoRewrite   == \E t \in Tiles, s \in Sizes : Rewrite(t, s)

Next == DoGetCached \/ DoGetCreate \/ DoGetError \/ DoRewrite \/ Expire \/ Tick

Spec == Init /\ [][Next]_vars

(***************************************************************************)
(* Behaviours for replay (tlc -simulate): one random request per step, so  *)
(* that requests do not crowd out the environment actions, and only ETags  *)
(* a client has really received (or NN / an unknown one).                  *)
(***************************************************************************)
\* (and no If-Modified-Since on the tolerance boundary, where the model does not decide the status)
OnBoundary(t, d) == \/ clock % 2 = 1 /\ d = clock \div 2
                    \/ cache[t] # NoTile /\ cache[t].m % 2 = 1 /\ d = cache[t].m \div 2
SimHdrs(t) == {h \in Hdrs(t) : h.inm \in issued \cup {NOHDR, GARB, NN} /\ ~OnBoundary(t, h.ims)}
SimGet == \E f \in {RandomElement(Flavours)}, t \in {RandomElement(Tiles)}, s \in {RandomElement(Sizes)} :
             \E h \in {RandomElement(SimHdrs(t))} :
                GetCached(f, t, h) \/ GetCreate(f, t, h, s) \/ GetError(f, t, h)
SimNext == SimGet \/ SimGet \/ (\E t \in {RandomElement(Tiles)}, s \in {RandomElement(Sizes)} : Rewrite(t, s)) \/ Expire \/ Tick
SimSpec == Init /\ [][SimNext]_vars

----------------------------------------------------------------------------
(* The property, stated on the response and the store after the request.  *)

IsGet == resp.act = "Get"
Cur   == cache[resp.t]
\* the answer is the tile (a merged answer - wmsc2 - is made of it and has no validators of its own: never 304, the body
\* current, no-store on errors; the clauses about the validators of the tile do not speak about it)
IsTile == IsGet /\ resp.f # "wmsc2"

\* repeated requests served from the cache receive identical validators and bodies until the tile is rewritten
StableValidators ==
  (IsTile /\ resp.phase = "cached" /\ resp.prevserved # NoServed) =>
     /\ resp.etag = resp.prevserved.etag /\ resp.lm = resp.prevserved.lm
     /\ (resp.status = 200 /\ resp.prevserved.body >= 0) => resp.body = resp.prevserved.body

\* a 200 response carries the tile as stored
BodyCurrent ==
  (IsGet /\ resp.status = 200 /\ resp.phase # "error") => resp.body = Cur.v

\* a request with the current ETag is answered 304 without body
INMCurrent ==
  (IsTile /\ resp.phase = "cached" /\ resp.h.inm = Etag(Cur.m, Disk(Cur.s))) => resp.status = 304 /\ resp.body = -1

\* 304 only if the client's validator matches the tile as stored now
Sound304 ==
  (IsGet /\ resp.status = 304) =>
     /\ resp.body = -1
     /\ resp.phase # "error"
     /\ Cur # NoTile
     /\ \/ resp.h.inm = Etag(Cur.m, Disk(Cur.s))
        \/ resp.h.ims >= 0 /\ resp.h.ims >= Cur.m \div 2

\* tiles that must not be cached are sent with no-store (and nothing that allows caching)
Uncacheable ==
  (IsGet /\ resp.phase = "error") => resp.cc = "nostore"

StatusOK == IsGet => resp.status \in {200, 304}
\* a merged answer is never 304 and names no validators
MergedPlain == (IsGet /\ resp.f = "wmsc2") => (resp.status = 200 /\ resp.etag = NONE_E /\ resp.lm = -1)

\* the exhaustive configurations explore the store (VIEW core) and check the property on every
\* transition (TLC evaluates action properties for all successors, also those that reach a known state)
\* (issued does not influence Next, resp is a function of the transition)
core == <<cache, prev, clock, thr, ver, served>>
Property == StatusOK /\ StableValidators /\ BodyCurrent /\ INMCurrent /\ Sound304 /\ Uncacheable /\ MergedPlain
AlwaysStatusOK         == [][StatusOK']_vars
AlwaysStableValidators == [][StableValidators']_vars
AlwaysBodyCurrent      == [][BodyCurrent']_vars
AlwaysINMCurrent       == [][INMCurrent']_vars
AlwaysSound304         == [][Sound304']_vars
AlwaysUncacheable      == [][Uncacheable']_vars
AlwaysMergedPlain      == [][MergedPlain']_vars

TypeOK ==
  /\ clock \in 2 .. MaxClock /\ thr \in 0 .. (MaxClock \div 2)
  /\ \A t \in Tiles : cache[t] = NoTile \/ (cache[t].m \in 0 .. MaxClock /\ cache[t].s \in Sizes /\ cache[t].v \in 1 .. ver)
=============================================================================
