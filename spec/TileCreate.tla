----------------------------- MODULE TileCreate -----------------------------
(***************************************************************************)
(* Concurrent requests for uncached tiles (C08): the protocol of           *)
(* mapproxy.cache.tile.TileManager._load_tile_coords and                   *)
(* TileCreator._create_meta_tile / _create_single_tile, one action per     *)
(* cache call, lock operation and upstream call:                           *)
(*                                                                         *)
(*   BulkLoad      cache.load_tiles(all requested tiles)                   *)
(*   CheckTile     is_cached(tile) for each requested tile, in order       *)
(*                 (a tile loaded by BulkLoad counts as cached)            *)
(*   -> group the missing tiles into meta tiles (first occurrence order)   *)
(*   for each meta tile, one after the other:                              *)
(*     TryLock     lock named after the MAIN tile of the meta tile         *)
(*     RecheckTile is_cached for each tile of the meta tile, under the     *)
(*                 lock, stopping at the first miss                        *)
(*     Fetch       one upstream request for the whole meta tile            *)
(*     StoreOne    store each split tile (file cache: one file at a time)  *)
(*     Unlock                                                              *)
(*     or, when everything was cached at the recheck:                      *)
(*     UnlockCached, LoadAfter (cache.load_tiles outside the lock)         *)
(*   Respond                                                               *)
(*                                                                         *)
(* Without meta tiling every tile is its own meta tile.  The lock is an    *)
(* abstract mutex here: its implementation is FileLock.tla (C07).          *)
(* Recheck = FALSE and LockOnMain = FALSE model two broken variants that   *)
(* the property must reject.                                               *)
(***************************************************************************)
EXTENDS Naturals, Sequences, FiniteSets, TLC

CONSTANTS Request,     \* set of request ids
          Tile,        \* set of tile ids
          MetaOf,      \* [Tile -> meta tile id]
          TilesOf,     \* [meta id -> sequence of its tiles, in meta_tile.tiles order]
          Wants,       \* [Request -> sequence of requested tiles]
          LateHitLoads,\* BOOLEAN: a tile that BulkLoad missed but is_cached finds (another request stored it in
                       \*          between) gets loaded.  FALSE = the original code with a file cache: is_cached only
                       \*          tests for the file, the tile is neither created nor loaded and is delivered empty
          SinglePath,  \* BOOLEAN: no meta tiling: _create_single_tile loads an already cached tile UNDER the lock
          Recheck,     \* BOOLEAN: re-check under the lock (the code does)
          LockOnMain   \* BOOLEAN: lock named after the main tile (the code does); FALSE: after the first wanted tile

Meta == {MetaOf[t] : t \in Tile}
NoOne == "none"
Range(q) == {q[i] : i \in 1 .. Len(q)}

VARIABLES cache,     \* set of tiles stored in the cache
          lock,      \* [lock name -> Request \cup {NoOne}]
          fetches,   \* [Meta -> Nat]  upstream requests per meta tile
          pc,        \* [Request -> ...]
          loaded,    \* [Request -> set of tiles obtained from the cache]
          ci,        \* [Request -> index into Wants / TilesOf while checking]
          todo,      \* [Request -> sequence of meta tiles still to create]
          storing,   \* [Request -> sequence of tiles still to be stored]
          got,       \* [Request -> set of tiles obtained by creating / loading after waiting]
          resp       \* [Request -> set of tiles delivered]

vars == <<cache, lock, fetches, pc, loaded, ci, todo, storing, got, resp>>

\* lock name used for meta tile m by request r.  The name is a function of the meta tile of the STORE: it is the same in
\* every process (no dependence on hash seeds) and for every cache definition that writes to that store (two
\* configurations, a seeding configuration with names of its own) - harness/c08.py lock_names compares the lock files
\* that freshly started processes derive.
LockName(r, m) == IF LockOnMain THEN <<"meta", m>>
                  ELSE <<"tile", CHOOSE t \in Range(Wants[r]) : MetaOf[t] = m>>
LockNames == {<<"meta", m>> : m \in Meta} \cup {<<"tile", t>> : t \in Tile}

Init ==
  /\ cache = {} /\ lock = [n \in LockNames |-> NoOne] /\ fetches = [m \in Meta |-> 0]
  /\ pc = [r \in Request |-> "start"] /\ loaded = [r \in Request |-> {}] /\ ci = [r \in Request |-> 1]
  /\ todo = [r \in Request |-> <<>>] /\ storing = [r \in Request |-> <<>>]
  /\ got = [r \in Request |-> {}] /\ resp = [r \in Request |-> {}]

BulkLoad(r) ==
  /\ pc[r] = "start"
  /\ loaded' = [loaded EXCEPT ![r] = cache \cap Range(Wants[r])]
  /\ pc' = [pc EXCEPT ![r] = "check"] /\ ci' = [ci EXCEPT ![r] = 1]
  /\ UNCHANGED <<cache, lock, fetches, todo, storing, got, resp>>

AfterCheck(r, td) == IF td = <<>> THEN "respond" ELSE "lock"

CheckTile(r) ==
  /\ pc[r] = "check"
  /\ LET t == Wants[r][ci[r]]
         missing == t \notin loaded[r] /\ t \notin cache
         td == IF missing /\ MetaOf[t] \notin Range(todo[r]) THEN Append(todo[r], MetaOf[t]) ELSE todo[r]
     IN /\ todo' = [todo EXCEPT ![r] = td]
        /\ loaded' = IF LateHitLoads /\ t \notin loaded[r] /\ t \in cache THEN [loaded EXCEPT ![r] = @ \cup {t}] ELSE loaded
        /\ IF ci[r] = Len(Wants[r])
             THEN pc' = [pc EXCEPT ![r] = AfterCheck(r, td)] /\ ci' = [ci EXCEPT ![r] = 1]
             ELSE pc' = pc /\ ci' = [ci EXCEPT ![r] = @ + 1]
  /\ UNCHANGED <<cache, lock, fetches, storing, got, resp>>

CurMeta(r) == todo[r][1]

TryLock(r) ==
  /\ pc[r] = "lock"
  /\ lock[LockName(r, CurMeta(r))] = NoOne
  /\ lock' = [lock EXCEPT ![LockName(r, CurMeta(r))] = r]
  /\ pc' = [pc EXCEPT ![r] = IF Recheck THEN "recheck" ELSE "fetch"] /\ ci' = [ci EXCEPT ![r] = 1]
  /\ UNCHANGED <<cache, fetches, loaded, todo, storing, got, resp>>

RecheckTile(r) ==
  /\ pc[r] = "recheck"
  /\ LET q == TilesOf[CurMeta(r)]
         t == q[ci[r]]
     IN IF t \notin cache
          THEN pc' = [pc EXCEPT ![r] = "fetch"] /\ ci' = ci
          ELSE IF ci[r] = Len(q)
                 THEN pc' = [pc EXCEPT ![r] = "unlock_cached"] /\ ci' = ci
                 ELSE pc' = pc /\ ci' = [ci EXCEPT ![r] = @ + 1]
  /\ UNCHANGED <<cache, lock, fetches, loaded, todo, storing, got, resp>>

Fetch(r) ==
  /\ pc[r] = "fetch"
  /\ fetches' = [fetches EXCEPT ![CurMeta(r)] = @ + 1]
  /\ storing' = [storing EXCEPT ![r] = TilesOf[CurMeta(r)]]
  /\ pc' = [pc EXCEPT ![r] = "store"]
  /\ UNCHANGED <<cache, lock, loaded, ci, todo, got, resp>>

StoreOne(r) ==
  /\ pc[r] = "store"
  /\ cache' = cache \cup {storing[r][1]}
  /\ storing' = [storing EXCEPT ![r] = Tail(@)]
  /\ pc' = [pc EXCEPT ![r] = IF Len(storing[r]) = 1 THEN "unlock" ELSE "store"]
  /\ UNCHANGED <<lock, fetches, loaded, ci, todo, got, resp>>

NextMeta(r) == IF Len(todo[r]) = 1 THEN "respond" ELSE "lock"

Unlock(r) ==
  /\ pc[r] = "unlock"
  /\ lock' = [lock EXCEPT ![LockName(r, CurMeta(r))] = NoOne]
  /\ got' = [got EXCEPT ![r] = @ \cup Range(TilesOf[CurMeta(r)])]      \* the split tiles are returned
  /\ todo' = [todo EXCEPT ![r] = Tail(@)]
  /\ pc' = [pc EXCEPT ![r] = NextMeta(r)]
  /\ UNCHANGED <<cache, fetches, loaded, ci, storing, resp>>

UnlockCached(r) ==
  /\ pc[r] = "unlock_cached" /\ ~SinglePath
  /\ lock' = [lock EXCEPT ![LockName(r, CurMeta(r))] = NoOne]
  /\ pc' = [pc EXCEPT ![r] = "load_after"]
  /\ UNCHANGED <<cache, fetches, loaded, ci, todo, storing, got, resp>>

LoadAfter(r) ==
  /\ pc[r] = "load_after"
  /\ got' = [got EXCEPT ![r] = @ \cup (Range(TilesOf[CurMeta(r)]) \cap cache)]
  /\ todo' = [todo EXCEPT ![r] = Tail(@)]
  /\ pc' = [pc EXCEPT ![r] = NextMeta(r)]
  /\ UNCHANGED <<cache, lock, fetches, loaded, ci, storing, resp>>

\* single-tile path: `else: self.cache.load_tile(tile)` inside the `with lock` block
LoadUnderLock(r) ==
  /\ pc[r] = "unlock_cached" /\ SinglePath
  /\ got' = [got EXCEPT ![r] = @ \cup (Range(TilesOf[CurMeta(r)]) \cap cache)]
  /\ pc' = [pc EXCEPT ![r] = "unlock_loaded"]
  /\ UNCHANGED <<cache, lock, fetches, loaded, ci, todo, storing, resp>>

UnlockLoaded(r) ==
  /\ pc[r] = "unlock_loaded"
  /\ lock' = [lock EXCEPT ![LockName(r, CurMeta(r))] = NoOne]
  /\ todo' = [todo EXCEPT ![r] = Tail(@)]
  /\ pc' = [pc EXCEPT ![r] = NextMeta(r)]
  /\ UNCHANGED <<cache, fetches, loaded, ci, storing, got, resp>>

Respond(r) ==
  /\ pc[r] = "respond"
  /\ resp' = [resp EXCEPT ![r] = (loaded[r] \cup got[r]) \cap Range(Wants[r])]
  /\ pc' = [pc EXCEPT ![r] = "done"]
  /\ UNCHANGED <<cache, lock, fetches, loaded, ci, todo, storing, got>>

Step(r) == \/ BulkLoad(r) \/ CheckTile(r) \/ TryLock(r) \/ RecheckTile(r) \/ Fetch(r) \/ StoreOne(r)
           \/ Unlock(r) \/ UnlockCached(r) \/ LoadAfter(r) \/ LoadUnderLock(r) \/ UnlockLoaded(r) \/ Respond(r)
Next == \E r \in Request : Step(r)
Spec == Init /\ [][Next]_vars
FairSpec == Spec /\ \A r \in Request : WF_vars(Step(r))

-----------------------------------------------------------------------------
AllDone == \A r \in Request : pc[r] = "done"
\* the upstream is asked once per meta tile, not once per request
FetchOncePerMeta == \A m \in Meta : fetches[m] <= 1
\* every response contains every requested tile (each with the content of its own address: contents are a
\* function of the address in the model; the harness checks the pixels)
ResponsesComplete == \A r \in Request : pc[r] = "done" => resp[r] = Range(Wants[r])
\* the cache ends up holding exactly the tiles of the fetched meta tiles
FinalCacheExact == AllDone => cache = UNION {Range(TilesOf[m]) : m \in {x \in Meta : fetches[x] > 0}}
CacheOnlyFetched == cache \subseteq UNION {Range(TilesOf[m]) : m \in {x \in Meta : fetches[x] > 0}}
\* at most one request creates a given meta tile at a time
OneCreator == \A m \in Meta : Cardinality({r \in Request : pc[r] \in {"fetch", "store", "unlock"} /\ todo[r] # <<>> /\ CurMeta(r) = m}) <= 1
\* requests for different meta tiles do not block each other: whoever waits, waits for a holder working on
\* the SAME meta tile, and nobody holds two locks
NoCrossBlocking ==
  /\ \A r \in Request : pc[r] = "lock" /\ lock[LockName(r, CurMeta(r))] # NoOne =>
        LET h == lock[LockName(r, CurMeta(r))] IN todo[h] # <<>> /\ CurMeta(h) = CurMeta(r)
  /\ \A r \in Request : Cardinality({n \in LockNames : lock[n] = r}) <= 1
NoStuck == AllDone \/ ENABLED Next
Termination == <>AllDone
=============================================================================
