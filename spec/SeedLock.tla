------------------------------ MODULE SeedLock ------------------------------
(***************************************************************************)
(* "One seeding process per cache": mapproxy.seed.cachelock.CacheLocker    *)
(* (a ticket queue in a SQLite table, one row <<cache, pid>> per waiting   *)
(* or holding process, ordered by creation time) together with the task    *)
(* loop of mapproxy.seed.seeder.seed() that uses it:                       *)
(*                                                                         *)
(*   while active_tasks:                                                   *)
(*     task = active_tasks[-1]; wait = len(active_tasks) == 1              *)
(*     try:  with locker.lock(task.cache, no_block=not wait): seed_task()  *)
(*     except CacheLockedError: move the task to the end of the queue      *)
(*     else: active_tasks.pop()                                            *)
(*                                                                         *)
(* Each `with _exclusive_db_cursor()` block is one SQLite transaction      *)
(* (isolation level EXCLUSIVE) and therefore one action:                   *)
(*   Attempt(p)   _add_lock + _poll: insert the ticket unless present;     *)
(*                scan the tickets of the cache in order: the own ticket   *)
(*                before any ticket of a live process -> the lock is       *)
(*                obtained; tickets of dead processes are deleted on the   *)
(*                way.  Otherwise: blocking -> sleep and retry,            *)
(*                non-blocking -> CacheLockedError; THE TICKET STAYS.      *)
(*   Work(p)      seed_task                                                *)
(*   Release(p)   _remove_lock                                             *)
(*   Crash(p)     the process dies (its tickets stay in the table)         *)
(***************************************************************************)
EXTENDS Naturals, Sequences, FiniteSets, TLC

CONSTANTS Proc,        \* process ids
          Tasks,       \* [Proc -> sequence of cache names] in the order seed() works on them
          MaxCrashes,
          Variant      \* "code";
                       \* "own-anywhere": a broken _poll that the properties must reject (the own ticket counts even
                       \*    behind the ticket of a live process);
                       \* "delete-ends-scan": the code as found - deleting the ticket of a dead process through the
                       \*    cursor that is being iterated ended the scan (repaired: the rows are fetched first)

Cache == UNION {{Tasks[p][i] : i \in 1 .. Len(Tasks[p])} : p \in Proc}

VARIABLES rows,     \* the table: sequence of [cache, pid], in order of creation
          queue,    \* [Proc -> remaining tasks, head = the one tried next]
          pc,       \* [Proc -> "pick" | "working" | "release" | "done" | "dead"]
          ncrash,
          last      \* observation: result of the last Attempt: [p, cache, got]
vars == <<rows, queue, pc, ncrash, last>>

Alive(p) == pc[p] # "dead"
Has(rs, c, p) == \E i \in 1 .. Len(rs) : rs[i] = [cache |-> c, pid |-> p]
Without(rs, S) == SelectSeq(rs, LAMBDA r : r \notin S)      \* delete the rows in S

\* _poll: scan the tickets of cache c in order.  Returns <<got, rows to delete>>
RECURSIVE Scan(_, _, _, _, _)
Scan(rs, c, p, active, dead) ==
  IF rs = <<>> THEN <<~active, dead>>
  ELSE LET r == Head(rs) IN
       IF r.cache # c THEN Scan(Tail(rs), c, p, active, dead)
       ELSE IF (~active \/ Variant = "own-anywhere") /\ r.pid = p THEN <<TRUE, dead>>
       ELSE IF ~Alive(r.pid) THEN (IF Variant = "delete-ends-scan" THEN <<~active, dead \cup {r}>>
                                   ELSE Scan(Tail(rs), c, p, active, dead \cup {r}))
       ELSE Scan(Tail(rs), c, p, TRUE, dead)

Init ==
  /\ rows = <<>> /\ queue = Tasks /\ ncrash = 0
  /\ pc = [p \in Proc |-> IF Tasks[p] = <<>> THEN "done" ELSE "pick"]
  /\ last = [p |-> "none", cache |-> "none", got |-> FALSE]

Attempt(p) ==
  /\ pc[p] = "pick"
  /\ LET c == Head(queue[p])
         wait == Len(queue[p]) = 1
         rs1 == IF Has(rows, c, p) THEN rows ELSE Append(rows, [cache |-> c, pid |-> p])
         res == Scan(rs1, c, p, FALSE, {})
     IN /\ rows' = Without(rs1, res[2])
        /\ last' = [p |-> p, cache |-> c, got |-> res[1]]
        /\ IF res[1] THEN pc' = [pc EXCEPT ![p] = "working"] /\ UNCHANGED queue
           ELSE IF wait THEN UNCHANGED <<pc, queue>>                 \* time.sleep(polltime), again
           ELSE /\ queue' = [queue EXCEPT ![p] = Append(Tail(@), Head(@))]      \* CacheLockedError: try the next task
                /\ UNCHANGED pc
  /\ UNCHANGED ncrash

Work(p) ==
  /\ pc[p] = "working"
  /\ pc' = [pc EXCEPT ![p] = "release"]
  /\ UNCHANGED <<rows, queue, ncrash, last>>

Release(p) ==
  /\ pc[p] = "release"
  /\ rows' = Without(rows, {[cache |-> Head(queue[p]), pid |-> p]})
  /\ queue' = [queue EXCEPT ![p] = Tail(@)]
  /\ pc' = [pc EXCEPT ![p] = IF Len(queue[p]) = 1 THEN "done" ELSE "pick"]
  /\ UNCHANGED <<ncrash, last>>

Crash(p) ==
  /\ pc[p] \in {"pick", "working", "release"} /\ ncrash < MaxCrashes
  /\ pc' = [pc EXCEPT ![p] = "dead"] /\ ncrash' = ncrash + 1
  /\ UNCHANGED <<rows, queue, last>>

Step(p) == Attempt(p) \/ Work(p) \/ Release(p)
Next == \E p \in Proc : Step(p) \/ Crash(p)
Spec == Init /\ [][Next]_vars
FairSpec == Spec /\ \A p \in Proc : WF_vars(Step(p))

-----------------------------------------------------------------------------
Holding(p, c) == pc[p] \in {"working", "release"} /\ Head(queue[p]) = c
\* at most one live process seeds a cache
Mutex == \A c \in Cache : Cardinality({p \in Proc : Holding(p, c)}) <= 1
\* the holder owns the first ticket of a live process for its cache; every ticket belongs to a task still to do
FirstLive(c) == LET I == {i \in 1 .. Len(rows) : rows[i].cache = c /\ Alive(rows[i].pid)} IN
                IF I = {} THEN "none" ELSE rows[CHOOSE i \in I : \A j \in I : i <= j].pid
HolderIsFirst == \A p \in Proc, c \in Cache : Holding(p, c) => FirstLive(c) = p
TicketsBelong == \A i \in 1 .. Len(rows) : Alive(rows[i].pid) =>
                    \E k \in 1 .. Len(queue[rows[i].pid]) : queue[rows[i].pid][k] = rows[i].cache
NoDuplicateTickets == \A i, j \in 1 .. Len(rows) : rows[i] = rows[j] => i = j
\* a finished process leaves no ticket behind (a ticket of a live process that will never come back would block
\* everybody else for ever)
NoTicketLeak == \A p \in Proc : pc[p] = "done" => \A i \in 1 .. Len(rows) : rows[i].pid # p
\* nobody overtakes: a live process that queued earlier for a cache is served before one that queued later
NoOvertaking == [][\A p \in Proc : (pc[p] = "pick" /\ pc'[p] = "working") =>
                      LET c == Head(queue[p]) IN
                      \A i \in 1 .. Len(rows') : (rows'[i].cache = c /\ pc'[rows'[i].pid] # "dead" /\ rows'[i].pid # p) =>
                          \E j \in 1 .. Len(rows') : rows'[j] = [cache |-> c, pid |-> p] /\ j < i]_vars
AllDone == \A p \in Proc : pc[p] \in {"done", "dead"}
NoStuck == AllDone \/ ENABLED Next
\* every live process gets all its tasks done, whatever crashes
Termination == <>AllDone
=============================================================================
