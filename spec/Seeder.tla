------------------------------- MODULE Seeder -------------------------------
(***************************************************************************)
(* C11 - the seeding walk of mapproxy/seed/seeder.py and its progress      *)
(* bookkeeping, written to be bound to the code:                           *)
(*                                                                         *)
(*   TileWalker.walk/_walk/_filter_subtiles   -> EnterRoot, Enter, Report, *)
(*        NoIntersect, StepDown, SkipProcessed, StepUp, Dedup, Process,    *)
(*        LeafForward, FinalReport                                         *)
(*   SeedProgress (step_down, can_skip, already_processed,                 *)
(*        current_progress_identifier)        -> lp, lpl, old, CanSkip,    *)
(*        CurId                                                            *)
(*   ProgressLog.log_progress / ProgressStore -> saved; the time throttle  *)
(*        is the nondeterministic parameter `save` of Report/FinalReport   *)
(*   seed()                                   -> Continue (old := saved)   *)
(*   limit_sub_bbox                           -> Limit                     *)
(*   the 64-entry per-level deque             -> dedup                     *)
(*                                                                         *)
(* The recursion of _walk is an explicit stack of frames.  Geometry is not *)
(* computed here: a "world" (one grid + meta size + coverage + levels +    *)
(* skip_geoms_for_last_levels) supplies, computed by the harness from the  *)
(* real grid and coverage objects,                                         *)
(*   aff[<<level, box>>]  = result of MetaGrid.get_affected_level_tiles    *)
(*   tile[<<x,y,z>>]      = meta tile bbox, coverage.contains/intersects   *)
(* and, computed INDEPENDENTLY of grid walk and walker (brute force over   *)
(* all meta tiles of the seeded levels with an exact intersection test),   *)
(*   must, mustcoarse, allowed  (see CompleteRunExact, NoOutside below).   *)
(* Boxes are 4-tuples of integers (lattice coordinates, or ranks of the    *)
(* float coordinates for recorded real grids: max/min commute with ranks). *)
(*                                                                         *)
(* One run of mapproxy-seed works on several tasks one after the other     *)
(* (one seed entry with several caches and grids is several tasks).  This  *)
(* module describes ONE task; the composition is that tasks are            *)
(* independent - per task, a run over several tasks hands over what a run  *)
(* of that task alone hands over, and every task has a progress identity   *)
(* of its own (harness/c11.py several_tasks_case runs both on tasks built  *)
(* by the real seed configuration, with a real progress store).            *)
(***************************************************************************)
EXTENDS Integers, Sequences, FiniteSets, TLC, Json, IOUtils

CONSTANTS MaxInterrupts,   \* how often a run may be interrupted
          LastRunSaves,    \* "both": the throttle is free in every run; "yes": a run that cannot be
                           \* interrupted any more always saves (sound reduction: saved is never read again)
          Excused,         \* world ids whose CompleteRunExact violation has been reported already
          Planned          \* TRUE: interruption points are fixed at Init (for -simulate), FALSE: any moment

Worlds   == JsonDeserialize(IOEnv.WORLD_FILE)
WorldIds == 1 .. Len(Worlds)

VARIABLES wid,      \* the world
          phase,    \* "run" | "crashed" | "done"
          ctl,      \* "start" | "walk" | "final" | "end"
          stack,    \* frames of _walk
          lp, lpl,  \* SeedProgress.level_progresses (NoneP = None), .level_progresses_level
          old,      \* SeedProgress.old_level_progresses
          saved,    \* content of the progress store for this task (NoneP = nothing / None)
          handed,   \* meta tiles given to the worker pool in this run, in order
          before,   \* set of meta tiles handed in earlier (interrupted) runs
          dedup,    \* TileWalker.seeded_tiles: level -> sequence, most recent first, at most 64
          nint,     \* interruptions so far
          plan, steps

vars == <<wid, phase, ctl, stack, lp, lpl, old, saved, handed, before, dedup, nint, plan, steps>>

NoTile == <<-1, -1, -1>>
NoneP  == << <<-1, -1>> >>
DequeLen == 64
CONTAINS == -1
INTERSECTS == 1
NONE == 0

W == Worlds[wid]
Range(s) == {s[k] : k \in DOMAIN s}
Min(a, b) == IF a < b THEN a ELSE b
Max(a, b) == IF a > b THEN a ELSE b

Aff(l, b)   == W.aff[ToString(<<l, b[1], b[2], b[3], b[4]>>)]
TileInfo(t) == W.tile[ToString(t)]
Levels      == W.levels
MaxLevel    == Levels[Len(Levels)]

\* mapproxy/seed/util.py limit_sub_bbox
Limit(b, s) == <<Max(b[1], s[1]), Max(b[2], s[2]), Min(b[3], s[3]), Min(b[4], s[4])>>

\* TileWalker.__init__
ReportTill == IF Len(Levels) >= 4 THEN Levels[Len(Levels) - 1] ELSE Levels[Len(Levels)]

\* SeedTask.intersects / _filter_subtiles
Inter(t, all) ==
  IF all THEN CONTAINS
  ELSE IF TileInfo(t).con THEN CONTAINS
  ELSE IF TileInfo(t).int THEN INTERSECTS
  ELSE NONE

Nil == [t |-> NoTile, x |-> NONE]
Sub(t, all) == IF t = NoTile THEN Nil
               ELSE LET x == Inter(t, all) IN IF x = NONE THEN Nil ELSE [t |-> t, x |-> x]

\* SeedProgress.can_skip: python compares the (i, total) tuples lexicographically
PairLt(a, b) == a[1] < b[1] \/ (a[1] = b[1] /\ a[2] < b[2])
RECURSIVE Zip(_, _, _)
Zip(o, c, k) ==
  IF k > Len(o) \/ k > Len(c) THEN FALSE      \* zip_longest: one side None -> False; both exhausted -> False
  ELSE IF PairLt(o[k], c[k]) THEN FALSE
  ELSE IF PairLt(c[k], o[k]) THEN TRUE
  ELSE Zip(o, c, k + 1)
CanSkip(o, c) ==
  IF c = NoneP THEN FALSE
  ELSE IF o = NoneP THEN FALSE
  ELSE IF o = <<>> THEN TRUE
  ELSE Zip(o, c, 1)

AlreadyProcessed == CanSkip(old, lp)
\* SeedProgress.current_progress_identifier
CurId == IF AlreadyProcessed \/ lp = NoneP THEN old ELSE lp

\* a new frame: the head of _walk up to the loop
NewFrame(box, lvIn, L, all) ==
  LET a    == Aff(L, box)
      all2 == all \/ Len(lvIn) < W.skip
      proc == L \in Range(lvIn)
      lv2  == IF proc THEN Tail(lvIn) ELSE lvIn
  IN [lvl |-> L, box |-> box, lv |-> lv2, proc |-> proc, total |-> a.total,
      subs |-> [k \in 1 .. Len(a.tiles) |-> Sub(a.tiles[k], all2)], i |-> 1,
      pc |-> IF proc /\ L <= ReportTill THEN "report" ELSE "loop"]

Top == stack[Len(stack)]
Cur == Top.subs[Top.i]
SetTop(f) == [stack EXCEPT ![Len(stack)] = f]

\* the loop of the top frame moves to its next subtile; a finished frame returns to its caller, which is
\* inside `with step_down` and leaves it next (StepUp)
Adv(stk) ==
  LET n == Len(stk)
      f == stk[n]
  IN IF f.i < Len(f.subs) THEN [stk EXCEPT ![n] = [f EXCEPT !.i = f.i + 1, !.pc = "loop"]]
     ELSE IF n = 1 THEN <<>>
     ELSE [k \in 1 .. n - 1 |-> IF k = n - 1 THEN [stk[k] EXCEPT !.pc = "stepup"] ELSE stk[k]]

Goto(stk) == /\ stack' = stk
             /\ ctl' = IF stk = <<>> THEN "final" ELSE "walk"

\* (IF-THEN-ELSE, not a disjunction: TLC would split a disjunction inside an action into separate branches)
PlanHere == IF nint < Len(plan) THEN steps = plan[nint + 1] ELSE FALSE
Running == phase = "run" /\ (IF Planned THEN ~PlanHere ELSE TRUE)
Tick == steps' = IF Planned THEN steps + 1 ELSE steps

SaveChoices == IF LastRunSaves = "yes" /\ nint >= MaxInterrupts THEN {TRUE} ELSE BOOLEAN

-----------------------------------------------------------------------------
Init ==
  /\ wid \in WorldIds
  /\ phase = "run" /\ ctl = "start" /\ stack = <<>>
  /\ lp = NoneP /\ lpl = 0 /\ old = NoneP /\ saved = NoneP
  /\ handed = <<>> /\ before = {} /\ nint = 0
  /\ dedup = [l \in 0 .. Worlds[wid].levels[Len(Worlds[wid].levels)] |-> <<>>]
  /\ plan \in (IF Planned THEN Range(Worlds[wid].plans) ELSE {<<>>})
  /\ steps = 0

\* TileWalker.walk: already_processed() is False while level_progresses is None; first _walk call
EnterRoot ==
  /\ Running /\ ctl = "start"
  /\ ~AlreadyProcessed
  /\ Goto(<<NewFrame(W.root, Levels, 0, FALSE)>>)
  /\ Tick
  /\ UNCHANGED <<wid, phase, lp, lpl, old, saved, handed, before, dedup, nint, plan>>

\* report_progress -> ProgressLog.log_progress; `save` is the decision of the time throttle
Report(save) ==
  /\ Running /\ ctl = "walk" /\ Top.pc = "report"
  /\ saved' = IF save THEN CurId ELSE saved
  /\ Goto(SetTop([Top EXCEPT !.pc = "loop"]))
  /\ Tick
  /\ UNCHANGED <<wid, phase, lp, lpl, old, handed, before, dedup, nint, plan>>

\* `if subtile is None: step_forward(total_subtiles); continue`
NoIntersect ==
  /\ Running /\ ctl = "walk" /\ Top.pc = "loop" /\ Cur.t = NoTile
  /\ Goto(Adv(stack))
  /\ Tick
  /\ UNCHANGED <<wid, phase, lp, lpl, old, saved, handed, before, dedup, nint, plan>>

\* `with self.seed_progress.step_down(i, total_subtiles)` (entry)
StepDown ==
  /\ Running /\ ctl = "walk" /\ Top.pc = "loop" /\ Cur.t # NoTile /\ Top.lv # <<>>
  /\ lp' = Append(SubSeq(IF lp = NoneP THEN <<>> ELSE lp, 1, lpl), <<Top.i - 1, Top.total>>)
  /\ lpl' = lpl + 1
  /\ Goto(SetTop([Top EXCEPT !.pc = "decide"]))
  /\ Tick
  /\ UNCHANGED <<wid, phase, old, saved, handed, before, dedup, nint, plan>>

\* `if already_processed(): step_forward()`
SkipProcessed ==
  /\ Running /\ ctl = "walk" /\ Top.pc = "decide" /\ AlreadyProcessed
  /\ Goto(SetTop([Top EXCEPT !.pc = "stepup"]))
  /\ Tick
  /\ UNCHANGED <<wid, phase, lp, lpl, old, saved, handed, before, dedup, nint, plan>>

\* `else: self._walk(limit_sub_bbox(cur_bbox, sub_bbox), levels, current_level+1, intersection == CONTAINS)`
Enter ==
  /\ Running /\ ctl = "walk" /\ Top.pc = "decide" /\ ~AlreadyProcessed
  /\ Goto(Append(stack, NewFrame(Limit(Top.box, TileInfo(Cur.t).box), Top.lv, Top.lvl + 1, Cur.x = CONTAINS)))
  /\ Tick
  /\ UNCHANGED <<wid, phase, lp, lpl, old, saved, handed, before, dedup, nint, plan>>

\* leaving `with step_down`; `if not process: continue`
StepUp ==
  /\ Running /\ ctl = "walk" /\ Top.pc = "stepup"
  /\ lpl' = lpl - 1
  /\ lp' = IF lpl - 1 = 0 THEN <<>> ELSE lp          \* deeper entries stay (stale) until the next step_down
  /\ IF Top.proc THEN Goto(SetTop([Top EXCEPT !.pc = "proc"])) ELSE Goto(Adv(stack))
  /\ Tick
  /\ UNCHANGED <<wid, phase, old, saved, handed, before, dedup, nint, plan>>

AtProc == ctl = "walk" /\ (Top.pc = "proc" \/ (Top.pc = "loop" /\ Cur.t # NoTile /\ Top.lv = <<>>))
AfterProc == IF Top.lv = <<>> THEN SetTop([Top EXCEPT !.pc = "fwd"]) ELSE Adv(stack)

\* `if subtile in self.seeded_tiles[current_level]: ... continue`
Dedup ==
  /\ Running /\ AtProc /\ Cur.t \in Range(dedup[Top.lvl])
  /\ Goto(AfterProc)
  /\ Tick
  /\ UNCHANGED <<wid, phase, lp, lpl, old, saved, handed, before, dedup, nint, plan>>

\* appendleft + worker_pool.process([subtile])   (every tile is uncached: all are handed over)
Process ==
  /\ Running /\ AtProc /\ Cur.t \notin Range(dedup[Top.lvl])
  /\ dedup' = [dedup EXCEPT ![Top.lvl] = SubSeq(<<Cur.t>> \o @, 1, Min(DequeLen, Len(@) + 1))]
  /\ handed' = Append(handed, Cur.t)
  /\ Goto(AfterProc)
  /\ Tick
  /\ UNCHANGED <<wid, phase, lp, lpl, old, saved, before, nint, plan>>

\* `if not levels: step_forward(total_subtiles)`
LeafForward ==
  /\ Running /\ ctl = "walk" /\ Top.pc = "fwd"
  /\ Goto(Adv(stack))
  /\ Tick
  /\ UNCHANGED <<wid, phase, lp, lpl, old, saved, handed, before, dedup, nint, plan>>

\* walk(): the report after _walk returned, or after StopProcess was caught
FinalReport(save) ==
  /\ Running /\ ctl \in {"final", "final_stop"}
  /\ saved' = IF save THEN CurId ELSE saved
  /\ ctl' = "end" /\ phase' = IF ctl = "final" THEN "done" ELSE "stopped"
  /\ Tick
  /\ UNCHANGED <<wid, stack, lp, lpl, old, handed, before, dedup, nint, plan>>

\* graceful stop: SeedProgress.running() answers False at the head of _walk (after the optional progress report,
\* before the loop).  If the level is one of the seeded levels the progress is reported once more (StopReport), then
\* StopProcess unwinds all frames.  The exits of `with step_down` are NOT run by the unwinding (the statements after
\* the yield of the context manager are skipped): level_progresses keeps the path to the point of the stop, and
\* that is what walk() reports last (FinalReport from "final_stop") and what a continued run starts from.
AtHead == ~Planned /\ phase = "run" /\ ctl = "walk" /\ Top.pc = "loop" /\ Top.i = 1 /\ nint < MaxInterrupts
StopReport(save) ==
  /\ AtHead /\ Top.proc
  /\ saved' = IF save THEN CurId ELSE saved
  /\ stack' = <<>> /\ ctl' = "final_stop"
  /\ Tick
  /\ UNCHANGED <<wid, phase, lp, lpl, old, handed, before, dedup, nint, plan>>
StopSilent ==
  /\ AtHead /\ ~Top.proc
  /\ stack' = <<>> /\ ctl' = "final_stop"
  /\ Tick
  /\ UNCHANGED <<wid, phase, lp, lpl, old, saved, handed, before, dedup, nint, plan>>
\* the stopped process ends; what survives is what survives an interruption
StoppedExit ==
  /\ phase = "stopped"
  /\ phase' = "crashed" /\ ctl' = "start" /\ stack' = <<>>
  /\ lp' = NoneP /\ lpl' = 0 /\ old' = NoneP
  /\ before' = before \cup Range(handed) /\ handed' = <<>>
  /\ dedup' = [l \in DOMAIN dedup |-> <<>>]
  /\ nint' = nint + 1 /\ steps' = 0
  /\ UNCHANGED <<wid, saved, plan>>

\* the process dies (KeyboardInterrupt, SeedInterrupted, kill): only the progress file and the work handed
\* over so far survive
\* (also after the final report: mapproxy-seed removes the progress file only after all tasks are done)
Interrupt ==
  /\ phase \in {"run", "done"} /\ nint < MaxInterrupts
  /\ IF Planned THEN PlanHere ELSE TRUE
  /\ phase' = "crashed" /\ ctl' = "start" /\ stack' = <<>>
  /\ lp' = NoneP /\ lpl' = 0 /\ old' = NoneP
  /\ before' = before \cup Range(handed) /\ handed' = <<>>
  /\ dedup' = [l \in DOMAIN dedup |-> <<>>]
  /\ nint' = nint + 1 /\ steps' = 0
  /\ UNCHANGED <<wid, saved, plan>>

\* seed(): start_progress = progress_store.get(task.id); SeedProgress(old_progress_identifier=start_progress)
Continue ==
  /\ phase = "crashed"
  /\ phase' = "run" /\ old' = saved
  /\ UNCHANGED <<wid, ctl, stack, lp, lpl, saved, handed, before, dedup, nint, plan, steps>>

Next ==
  \/ EnterRoot \/ Enter \/ NoIntersect \/ StepDown \/ SkipProcessed \/ StepUp \/ Dedup \/ Process \/ LeafForward
  \/ \E s \in SaveChoices : Report(s)
  \/ \E s \in SaveChoices : FinalReport(s)
  \/ Interrupt \/ Continue
  \/ \E s \in SaveChoices : StopReport(s)
  \/ StopSilent \/ StoppedExit

Spec == Init /\ [][Next]_vars

-----------------------------------------------------------------------------
(* The set of tiles an uninterrupted run hands over, defined by recursion over the pyramid, without stack,  *)
(* progress, duplicates filter: the reference for ResumeCovers and a cross-check of the state machine.     *)
RECURSIVE WalkSet(_, _, _, _)
WalkSet(box, lvIn, L, all) ==
  LET a    == Aff(L, box)
      all2 == all \/ Len(lvIn) < W.skip
      proc == L \in Range(lvIn)
      lv2  == IF proc THEN Tail(lvIn) ELSE lvIn
      S    == {k \in 1 .. Len(a.tiles) : a.tiles[k] # NoTile /\ Inter(a.tiles[k], all2) # NONE}
  IN UNION {(IF proc THEN {a.tiles[k]} ELSE {}) \cup
            (IF lv2 # <<>>
               THEN WalkSet(Limit(box, TileInfo(a.tiles[k]).box), lv2, L + 1, Inter(a.tiles[k], all2) = CONTAINS)
               ELSE {}) : k \in S}
FullSet == WalkSet(W.root, Levels, 0, FALSE)

Must       == Range(W.must)         \* meta tile inset by 1/10 pixel of ITS level overlaps the coverage
MustCoarse == Range(W.mustcoarse)   \* ... inset by 1/10 pixel of level 0, inside the tile matrix of every coarser level
Allowed    == Range(W.allowed)      \* meta tile (with skip_geoms: some geometry-tested ancestor) at least touches it
HandedNow  == Range(handed)
HandedAll  == before \cup HandedNow

TypeOK ==
  /\ phase \in {"run", "crashed", "done", "stopped"} /\ ctl \in {"start", "walk", "final", "final_stop", "end"}
  /\ lpl \in 0 .. MaxLevel + 1 /\ nint \in 0 .. MaxInterrupts
  /\ (ctl = "walk") = (stack # <<>>)
  /\ (ctl = "final_stop" \/ phase = "stopped") \/
       lpl = (IF stack = <<>> THEN 0
              ELSE Len(stack) - (IF Top.pc \in {"decide", "stepup"} THEN 0 ELSE 1))

\* nothing outside the coverage is ever requested
NoOutside == HandedAll \subseteq Allowed

\* a run that completes without interruption has requested every selected tile
CompleteRunExact  == (phase = "done" /\ nint = 0 /\ wid \notin Excused) => Must \subseteq HandedNow
CompleteRunCoarse == (phase = "done" /\ nint = 0) => MustCoarse \subseteq HandedNow
WalkIsFull        == (phase = "done" /\ nint = 0) => HandedNow = FullSet
\* lists every world with a miss in one TLC run (always TRUE)
MissReport == (phase = "done" /\ nint = 0 /\ ~(Must \subseteq HandedNow))
                  => PrintT(<<"missed", wid, Must \ HandedNow>>)

\* interrupted (any number of times, anywhere, with any saved progress) and continued: nothing is lost
ResumeCovers == (phase = "done" /\ nint > 0) => FullSet \subseteq HandedAll
\* a run never hands over something an uninterrupted run would not
ResumeNoExtra == (phase \in {"done", "crashed"}) => HandedAll \subseteq FullSet

\* identifiers are saved only as exact entry paths
ReportedPathExact == (ctl = "walk" /\ Top.pc = "report") => (lp = NoneP \/ Len(lp) = lpl)
SavedShape == saved = NoneP \/ Len(saved) <= MaxLevel
=============================================================================
