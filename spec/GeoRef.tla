------------------------------- MODULE GeoRef -------------------------------
(***************************************************************************)
(* Map content and feature-info queries land at the right place (C01), for *)
(* requests that need no non-affine reprojection, in the lattice world.    *)
(*                                                                         *)
(* A map request is <<x0, y0, x1, y1, w, h>> (bbox in lattice units,       *)
(* output size in pixels).  The response is observed through a             *)
(* position-encoding upstream: every output pixel decodes to               *)
(* <<level, cx, cy>> - the cell (counted from the grid's lower-left        *)
(* corner at that level's resolution) whose content it shows - or to       *)
(* <<-1, 0, 0>> (background / transparent).                                *)
(*                                                                         *)
(* Discrete skeleton transcribed from the code (mapproxy/layer.py          *)
(* CacheMapLayer._image, grid.get_affected_bbox_and_level): the level is   *)
(* closest_level(request resolution); no tiles (blank image) when the      *)
(* request does not intersect the grid bbox or its resolution exceeds      *)
(* res[0] * max_shrink_factor.  What happens between tiles and output      *)
(* pixels (mosaic offsets, crop vs. resample) is stated declaratively:     *)
(* the content shown is the upstream content of the pixel's ground         *)
(* location to within 1.5 output pixels.                                   *)
(***************************************************************************)
EXTENDS Lattice

\* request resolution as a fraction (numerator, denominator), x and y
RxN(q) == q[3] - q[1]
RxD(q) == q[5]
RyN(q) == q[4] - q[2]
RyD(q) == q[6]

\* get_affected_bbox_and_level raises NoTiles -> blank response
NoTiles(g, q) ==
  \/ ~Intersects(g.bbox, <<q[1], q[2], q[3], q[4]>>)
  \/ RxN(q) > Res(g, 0) * g.ms * RxD(q)            \* res > resolutions[0] * max_shrink_factor

ExpectedLevels(g, q) == ClosestLevels(g, RxN(q), RxD(q))
\* a request reaching beyond the extent is clipped first; its clipped form may then be too coarse (blank answer):
\* possible only if the original request is already coarser than res[0]
NoTilesPossible(g, q) == RxN(q) > Res(g, 0) * RxD(q) \/ RyN(q) > Res(g, 0) * RyD(q)

\* ground position of the centre of output pixel (i, j) (i from the left, j from the top), times 2*w resp. 2*h
\* to stay in integers:  cx2w = 2*w*x_centre
PixCX(q, i) == 2 * RxD(q) * q[1] + (2 * i + 1) * RxN(q)          \* = 2*w * centre_x
PixCY(q, j) == 2 * RyD(q) * q[4] - (2 * j + 1) * RyN(q)          \* = 2*h * centre_y
\* centre of cell (cx, cy) of level l, times 2
CellCX(g, l, cx) == 2 * g.bbox[1] + (2 * cx + 1) * Res(g, l)
CellCY(g, l, cy) == 2 * g.bbox[2] + (2 * cy + 1) * Res(g, l)


\* distance from the pixel centre to the shown cell (a rectangle of the level's resolution) <= 1.5 output pixels.
\* Everything times 2*w resp. 2*h:  cell = [c0, c1] with 2*w*c0 = 2*w*(bbox.x0 + cx*res), pixel centre = PixCX
Max3(a, b, c) == Max(a, Max(b, c))
DistX(g, q, i, l, cx) == Max3(0, 2 * RxD(q) * (g.bbox[1] + cx * Res(g, l)) - PixCX(q, i),
                                 PixCX(q, i) - 2 * RxD(q) * (g.bbox[1] + (cx + 1) * Res(g, l)))
DistY(g, q, j, l, cy) == Max3(0, 2 * RyD(q) * (g.bbox[2] + cy * Res(g, l)) - PixCY(q, j),
                                 PixCY(q, j) - 2 * RyD(q) * (g.bbox[2] + (cy + 1) * Res(g, l)))
\* h2 = tolerance in half output pixels (3 = one and a half pixels)
NearX(g, q, i, l, cx, h2) == DistX(g, q, i, l, cx) <= h2 * RxN(q)
NearY(g, q, j, l, cy, h2) == DistY(g, q, j, l, cy) <= h2 * RyN(q)

\* pixel centre inside the extent by more than k output pixels / outside by more than k output pixels
\* (k counts HALF pixels)
InsideBy(g, q, i, j, k) ==
  /\ PixCX(q, i) - k * RxN(q) >= 2 * RxD(q) * g.bbox[1] /\ PixCX(q, i) + k * RxN(q) <= 2 * RxD(q) * g.bbox[3]
  /\ PixCY(q, j) - k * RyN(q) >= 2 * RyD(q) * g.bbox[2] /\ PixCY(q, j) + k * RyN(q) <= 2 * RyD(q) * g.bbox[4]
OutsideBy(g, q, i, j, k) ==
  \/ PixCX(q, i) + k * RxN(q) < 2 * RxD(q) * g.bbox[1] \/ PixCX(q, i) - k * RxN(q) > 2 * RxD(q) * g.bbox[3]
  \/ PixCY(q, j) + k * RyN(q) < 2 * RyD(q) * g.bbox[2] \/ PixCY(q, j) - k * RyN(q) > 2 * RyD(q) * g.bbox[4]

\* the request rectangle lies inside the layer extent: then the code's level choice and NoTiles conditions apply
\* to the request as given (otherwise the code first clips the request to the extent, which changes its
\* resolution, and C01 says nothing about the level)
Contained(ext, q) == ext[1] <= q[1] /\ q[3] <= ext[3] /\ ext[2] <= q[2] /\ q[4] <= ext[4]

\* Tolerance: one and a half output pixels for requests inside the layer extent.  A request reaching beyond the
\* extent is answered from a clipped sub-request whose size is rounded to whole pixels and whose offset is
\* truncated (bbox_position_in_image: int()); the statement's "about one and a half" is read as two pixels there.
Tol(ext, q) == IF Contained(ext, q) THEN 3 ELSE 4

\* get_affected_level_tiles insets the request by 1/10 pixel OF THE LEVEL: a tile touched by less than that is
\* not loaded, so when zooming in beyond the finest level the pixels within that strip of the request edge stay
\* blank.  The strip is part of the tolerance as long as it is not wider than the tolerance itself.
InInsetStrip(g, q, i, j) ==
  \E l \in Levels(g) :
    LET d == Res(g, l) \div 10 IN
    /\ 2 * d * RxD(q) <= 3 * RxN(q) /\ 2 * d * RyD(q) <= 3 * RyN(q)          \* strip no wider than 1.5 output pixels
    /\ \/ PixCX(q, i) <= 2 * RxD(q) * (q[1] + d) \/ PixCX(q, i) >= 2 * RxD(q) * (q[3] - d)
       \/ PixCY(q, j) <= 2 * RyD(q) * (q[2] + d) \/ PixCY(q, j) >= 2 * RyD(q) * (q[4] - d)

\* C01 for one output pixel: obs = <<level, cx, cy>>.  `ext` is the layer extent (grid bbox or source coverage)
PixelOK(g, ext, q, i, j, obs) ==
  LET ge == [g EXCEPT !.bbox = ext]
      h2 == Tol(ext, q)
  IN
  IF Contained(ext, q) /\ NoTiles(g, q) THEN obs[1] = -1
  ELSE /\ obs[1] # -1 => /\ obs[1] \in Levels(g)
                         /\ Contained(ext, q) => obs[1] \in ExpectedLevels(g, q)
                         /\ NearX(g, q, i, obs[1], obs[2], h2) /\ NearY(g, q, j, obs[1], obs[3], h2)
                         /\ ~OutsideBy(ge, q, i, j, h2)          \* nothing is shown outside the layer extent
       /\ obs[1] = -1 => \/ ~InsideBy(ge, q, i, j, h2)          \* nothing deep inside the extent is left blank ...
                         \/ InInsetStrip(g, q, i, j)
                         \/ (~Contained(ext, q) /\ NoTilesPossible(g, q))

\* ---- requests in another reference system than the grid ----
\* p = [gx, gy, fx, fy]: where the centre of the output pixel lies in the coordinates of the grid, and how far one output
\* pixel reaches there (all in 1/1000 lattice units; the two differ from pixel to pixel - a Mercator pixel covers less
\* and less degrees towards the poles).  obs = <<level, cx, cy>> as above.  One and a half output pixels, measured with
\* the pixel's own extent; nothing shown outside the layer extent, nothing blank inside it (two pixels: the request is
\* answered from tiles cut at the extent, as for requests reaching beyond it above).
ReprojDist(c0, c1, v) == Max3(0, c0 - v, v - c1)
ReprojPixelOK(g, exts, bound, p, obs) ==
  LET l  == obs[1]
      x0 == 1000 * (g.bbox[1] + obs[2] * Res(g, l))        x1 == 1000 * (g.bbox[1] + (obs[2] + 1) * Res(g, l))
      y0 == 1000 * (g.bbox[2] + obs[3] * Res(g, l))        y1 == 1000 * (g.bbox[2] + (obs[3] + 1) * Res(g, l))
      \* what the layer covers is a union of rectangles (one for a grid or a bbox coverage); its extent `bound` is their
      \* bounding box.  Tiles that meet the coverage are fetched whole (a coverage does not clip unless it is told to):
      \* inside the extent content may be shown outside the coverage, it has to be the content of that place all the same
      in(k)  == \E ext \in exts :
                /\ p.gx - k * p.fx >= 1000 * ext[1] /\ p.gx + k * p.fx <= 1000 * ext[3]
                /\ p.gy - k * p.fy >= 1000 * ext[2] /\ p.gy + k * p.fy <= 1000 * ext[4]
      out(k) == \/ p.gx + k * p.fx < 1000 * bound[1] \/ p.gx - k * p.fx > 1000 * bound[3]
                \/ p.gy + k * p.fy < 1000 * bound[2] \/ p.gy - k * p.fy > 1000 * bound[4]
  IN /\ p.fx > 0 /\ p.fy > 0
     /\ l # -1 => /\ l \in Levels(g)
                  /\ 2 * ReprojDist(x0, x1, p.gx) <= 3 * p.fx
                  /\ 2 * ReprojDist(y0, y1, p.gy) <= 3 * p.fy
                  /\ ~out(2)
     /\ l = -1 => ~in(2)

\* a feature-info request in another reference system than the source supports (WMSInfoClient._get_transformed_query):
\* p as above for the clicked pixel; the upstream is asked about pixel (ui, uj) of an image of uw x uh pixels, that pixel
\* covers the rectangle r = <<x0, y0, x1, y1>> on the grid (1/1000 lattice units).  The pixel asked about exists, and its
\* area lies within one client pixel of the clicked point.
ReprojInfoOK(p, uw, uh, ui, uj, r) ==
  /\ uw >= 1 /\ uh >= 1 /\ ui \in 0 .. uw - 1 /\ uj \in 0 .. uh - 1
  /\ p.fx > 0 /\ p.fy > 0
  /\ ReprojDist(r[1], r[3], p.gx) <= p.fx
  /\ ReprojDist(r[2], r[4], p.gy) <= p.fy

\* a request that is exactly one stored tile returns that tile unresampled: every pixel shows its own cell
IsOneTile(g, q) == \E l \in Levels(g) : \E t \in InGridTiles(g, l) :
                      TileBBox(g, t) = <<q[1], q[2], q[3], q[4]>> /\ q[5] = g.tw /\ q[6] = g.th
OwnCell(g, q, i, j, obs) ==
  /\ obs[1] # -1
  /\ Res(g, obs[1]) * RxD(q) = RxN(q)
  /\ g.bbox[1] + obs[2] * Res(g, obs[1]) = q[1] + i * Res(g, obs[1])
  /\ g.bbox[2] + (obs[3] + 1) * Res(g, obs[1]) = q[4] - j * Res(g, obs[1])

\* ---- feature info ----
\* client clicks pixel (ci, cj) of request q; upstream is asked for pixel (ui, uj) of request u (same SRS or
\* axis-swapped alias): the two pixel centres denote the same ground point within one client pixel
InfoOK(q, ci, cj, u, ui, uj) ==
  /\ Abs(PixCX(u, ui) * RxD(q) - PixCX(q, ci) * RxD(u)) <= 2 * RxN(q) * RxD(u)
  /\ Abs(PixCY(u, uj) * RyD(q) - PixCY(q, cj) * RyD(u)) <= 2 * RyN(q) * RyD(u)
=============================================================================
