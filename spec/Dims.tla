-------------------------------- MODULE Dims --------------------------------
(***************************************************************************)
(* Caching layers with dimensions (doc/caching_layer_dimensions.rst;       *)
(* mapproxy/service/wms.py update_query_with_fwd_params,                   *)
(* mapproxy/service/tile.py checked_dimensions, mapproxy/cache/tile.py,    *)
(* mapproxy/cache/file.py tile_location, mapproxy/client/wms.py): a layer  *)
(* with a dimension (TIME, ELEVATION, ...), a WMS source that forwards the *)
(* parameter, a file cache that keeps one tree of tiles per value.         *)
(*                                                                         *)
(* The cache is a set of (tile, key) pairs; a key is a value of the        *)
(* dimension, "none" (no value: the tiles outside every dimension          *)
(* directory) or "other" (a value that is not in the configured list).     *)
(* What the upstream paints depends on the value it is asked for - Up(k)   *)
(* is simply k - so the picture of an answer tells which value it shows.   *)
(*                                                                         *)
(* A request: service, tile, value class                                   *)
(*   wms   any value is forwarded as it is; without a value nothing is     *)
(*         forwarded and the tiles outside the dimension directories are   *)
(*         used                                                            *)
(*   wmts  (KVP) a listed value; no value or "default": the default of the *)
(*         layer; anything else is refused                                 *)
(*   rest  (WMTS RESTful, URL template with a variable for the dimension)  *)
(*         like wmts, the value is a path segment                          *)
(*   tms   has no dimensions: the default of the layer                     *)
(* A tile that the sources do not deliver at its own level (resolution     *)
(* range of the source) is made of other tiles (downscale_tiles /          *)
(* upscale_tiles): Children[t].  Variant = "asfound": these tiles are      *)
(* looked up, fetched and stored WITHOUT the dimension (the recursion of   *)
(* TileManager._scaled_tile drops it).                                     *)
(*                                                                         *)
(* The capabilities documents (WMS 1.1.1 / 1.3.0, WMTS KVP, WMTS RESTful   *)
(* with the default URL template) list the dimension with its values and   *)
(* its default: Caps(doc).  CapsBroken: the documents that are answered    *)
(* with an internal error instead (as found: both WMTS documents - the     *)
(* template looks the dimension up in the variables of a custom RESTful    *)
(* URL template).                                                          *)
(***************************************************************************)
EXTENDS Naturals, FiniteSets, TLC

CONSTANTS Tiles,        \* tile ids
          MetaOf,       \* [Tiles -> SUBSET Tiles]: the tiles created together with a tile (its meta tile, itself included)
          Children,     \* [Tiles -> SUBSET Tiles]: {} - the sources deliver the tile; else the tiles it is made of
          Targets,      \* \subseteq Tiles: the tiles that requests address
          Values,       \* configured values of the dimension
          Default,      \* \in Values
          Variant,      \* "asfound" | "repaired"
          CapsBroken    \* \subseteq CapsDocs

Keys == Values \cup {"none", "other"}
Svc == {"wms", "wmts", "rest", "tms"}
ValueClass == Values \cup {"absent", "default", "other"}
CapsDocs == {"wms111", "wms130", "wmts_kvp", "wmts_rest"}

VARIABLES store,   \* SUBSET (Tiles \X Keys): tiles in the cache
          stale,   \* \subseteq store: written before the refresh time of the cache
          last     \* the last step
vars == <<store, stale, last>>

NoStep == [op |-> "none", svc |-> "-", t |-> "-", d |-> "-", key |-> "-", out |-> "-", fetched |-> {}, listed |-> {}, dflt |-> "-"]
Init == store = {} /\ stale = {} /\ last = NoStep

\* the key a request works with
EffKey(svc, d) ==
  CASE svc = "wms"  -> IF d = "absent" THEN "none" ELSE IF d = "default" THEN "refused" ELSE d    \* ("default" is not a WMS notion: not sent)
    [] svc = "wmts" -> IF d \in Values THEN d ELSE IF d \in {"absent", "default"} THEN Default ELSE "refused"
    \* WMTS RESTful with a URL template that has a variable for the dimension: the value is a path segment ("default" stands for
    \* the default of the layer, it cannot be left out)
    [] svc = "rest" -> IF d \in Values THEN d ELSE IF d = "default" THEN Default ELSE "refused"
    [] OTHER        -> IF d = "absent" THEN Default ELSE "refused"                                  \* tms: no way to say a value

Leaves(t) == IF Children[t] = {} THEN {t} ELSE Children[t]
Fresh(t, k) == <<t, k>> \in store /\ <<t, k>> \notin stale

Request(svc, t, d) ==
  LET k  == EffKey(svc, d)
      ck == IF Variant = "asfound" /\ Children[t] # {} THEN "none" ELSE k     \* the key the tiles are handled with
      missing == {c \in Leaves(t) : ~Fresh(c, ck)}
      created == UNION {MetaOf[c] : c \in missing}
  IN /\ svc = "wms" => d # "default"          \* (the class "default" does not exist for the WMS)
     /\ svc = "tms" => d = "absent"           \* (a TMS request cannot say a value)
     /\ svc = "rest" => d # "absent"          \* (a RESTful request cannot leave the path segment out)
     /\ IF k = "refused"
          THEN /\ last' = [NoStep EXCEPT !.op = "req", !.svc = svc, !.t = t, !.d = d, !.key = k, !.out = "refused"]
               /\ UNCHANGED <<store, stale>>
          ELSE /\ store' = store \cup (created \X {ck})
               /\ stale' = stale \ (created \X {ck})
               /\ last' = [NoStep EXCEPT !.op = "req", !.svc = svc, !.t = t, !.d = d, !.key = k, !.out = ck,
                                            !.fetched = {<<MetaOf[c], ck>> : c \in missing}]

\* the refresh time of the cache passes a stored tile
Expire(t, k) ==
  /\ <<t, k>> \in store \ stale
  /\ stale' = stale \cup {<<t, k>>}
  /\ last' = [NoStep EXCEPT !.op = "expire", !.t = t, !.key = k]
  /\ UNCHANGED store

\* a capabilities document is requested
Caps(doc) ==
  /\ last' = IF doc \in CapsBroken THEN [NoStep EXCEPT !.op = "caps", !.svc = doc, !.out = "error"]
             ELSE [NoStep EXCEPT !.op = "caps", !.svc = doc, !.out = "ok", !.listed = Values, !.dflt = Default]
  /\ UNCHANGED <<store, stale>>

Next == \/ \E doc \in CapsDocs : Caps(doc)
        \/ \E svc \in Svc, t \in Targets, d \in ValueClass : Request(svc, t, d)
        \/ \E t \in Tiles, k \in Keys : Expire(t, k)
Spec == Init /\ [][Next]_vars

-----------------------------------------------------------------------------
IsReq == last.op = "req"
\* the answer shows the value that was asked for (never the tiles of another value)
Isolation == IsReq => last.out \in {"refused", last.key}
\* the upstream is asked for that value only
FetchCarriesKey == IsReq => \A f \in last.fetched : f[2] = last.key
\* a request changes nothing but the tree of its own value
OwnTreeOnly == [][last'.op = "req" => (store' \ store) \subseteq (Tiles \X {last'.key})]_vars
\* a value that the layer does not list costs nothing on the tile services
RefusedCostsNothing == [][(last'.op = "req" /\ last'.out = "refused") => (last'.fetched = {} /\ store' = store)]_vars
\* what is in the cache and fresh is not fetched again; what is missing or stale is fetched once
FetchedWhatWasMissing ==
  [][(last'.op = "req" /\ last'.out # "refused") =>
        last'.fetched = {<<MetaOf[c], last'.key>> : c \in {c \in Leaves(last'.t) : ~Fresh(c, last'.key)}}]_vars
\* every capabilities document lists the dimension, its values and its default
CapsListTheDimension == last.op = "caps" => (last.out = "ok" /\ last.listed = Values /\ last.dflt = Default)
TypeOK == store \subseteq Tiles \X Keys /\ stale \subseteq store
=============================================================================
