------------------------------- MODULE Bundle -------------------------------
(***************************************************************************)
(* mapproxy.cache.compact: ArcGIS compact cache bundles V1 (.bundle +      *)
(* .bundlx) and V2 (.bundle), at the level of file offsets, and            *)
(* mapproxy.script.defrag.defrag_compact_cache.                            *)
(*                                                                         *)
(* A tile (x, y, z) lives in bundle (z, y div 128, x div 128), slot        *)
(* (x mod 128, y mod 128).  A store appends a record (4-byte size + data)  *)
(* at the end of the bundle file and then publishes its offset in the      *)
(* slot's index entry; a remove zeroes the index entry; nothing is ever    *)
(* overwritten in place.                                                   *)
(*   V1: index entry = offset of the size field; initial entries point     *)
(*       into a table of zero sizes inside the bundle header area;         *)
(*       header: [2] largest tile, [4] 4*number of tiles, [5] bundle size  *)
(*   V2: index entry = (offset of the data, size); empty = (0, 0) after a  *)
(*       remove, (4, 0) initially; header: max record size, file size      *)
(* Offsets are computed exactly, so the state of the model can be compared *)
(* with an independent parse of the real files after every operation.      *)
(***************************************************************************)
EXTENDS Naturals, Sequences, FiniteSets, TLC

CONSTANTS Version,     \* 1 or 2
          BundleId,    \* set of bundle ids
          Slot,        \* set of slot ids (a few of the 128 x 128)
          Lin,         \* [Slot -> Nat]  V1: x*128 + y (initial index entry = 60 + 4*Lin)
          Rank,        \* [Slot -> Nat]  order in which defrag re-stores slots: y*128 + x
          Bytes,       \* tile payload ids
          LenOf,       \* [Bytes -> Nat] payload length in bytes
          MinBytes,    \* set of min_bytes values offered to Defrag
          MinPermille  \* set of min_percent values (in 1/1000) offered to Defrag

None == "none"
Addr == BundleId \X Slot

InitSize == IF Version = 1 THEN 60 + 65536 ELSE 64 + 131072
Overhead == InitSize

VARIABLES present,   \* [BundleId -> BOOLEAN]           bundle file exists
          haveidx,   \* [BundleId -> BOOLEAN]           V1: .bundlx exists (V2: same as present)
          index,     \* [BundleId -> [Slot -> <<off, size>>]]   (V1: size component unused, kept 0)
          recs,      \* [BundleId -> Seq(<<pos, len, bytes>>)]  records in file order; pos = offset of the size field
          fsize,     \* [BundleId -> Nat]               bundle file size
          hmax,      \* [BundleId -> Nat]               header: largest tile (V1 starts at 16)
          hcount,    \* [BundleId -> Nat]               V1 header[4]
          hsize,     \* [BundleId -> Nat]               V1 header[5] / V2 file size field
          store,     \* ghost: [Addr -> Bytes \cup {None}]
          reply

vars == <<present, haveidx, index, recs, fsize, hmax, hcount, hsize, store, reply>>

NoReply == [op |-> "init", args |-> <<>>, val |-> <<>>]
Rep(op, args, val) == [op |-> op, args |-> args, val |-> val]

EmptyIndex == [s \in Slot |-> IF Version = 1 THEN <<60 + 4 * Lin[s], 0>> ELSE <<4, 0>>]

Init ==
  /\ present = [b \in BundleId |-> FALSE]
  /\ haveidx = [b \in BundleId |-> FALSE]
  /\ index = [b \in BundleId |-> EmptyIndex]
  /\ recs = [b \in BundleId |-> <<>>]
  /\ fsize = [b \in BundleId |-> InitSize]
  /\ hmax = [b \in BundleId |-> IF Version = 1 THEN 16 ELSE 0]
  /\ hcount = [b \in BundleId |-> 0]
  /\ hsize = [b \in BundleId |-> InitSize]
  /\ store = [a \in Addr |-> None]
  /\ reply = NoReply

\* --- reading, as the code does ---
RecAt(b, pos) == LET hits == {i \in 1 .. Len(recs[b]) : recs[b][i][1] = pos} IN
                 IF hits = {} THEN <<>> ELSE recs[b][CHOOSE i \in hits : TRUE]
\* V1: size field at the index offset (0 inside the zero table / when the entry is 0 -> missing)
SizeAtV1(b, off) == IF off = 0 THEN 0 ELSE IF RecAt(b, off) = <<>> THEN 0 ELSE RecAt(b, off)[2]
Read(b, s) ==
  IF ~present[b] THEN None
  ELSE IF Version = 1
         THEN IF SizeAtV1(b, index[b][s][1]) = 0 THEN None ELSE RecAt(b, index[b][s][1])[3]
         ELSE IF index[b][s][2] = 0 THEN None ELSE RecAt(b, index[b][s][1] - 4)[3]

Max(a, c) == IF a > c THEN a ELSE c

\* state of one bundle threaded through a batch: <<index, recs, fsize, hmax, hcount, hsize>>
One(S, s, d) ==
  LET len == LenOf[d]
      pos == S[3]
      isNew == IF Version = 1 THEN (S[1][s][1] = 0 \/ (LET h == {i \in 1 .. Len(S[2]) : S[2][i][1] = S[1][s][1]} IN h = {}))
               ELSE TRUE
  IN IF Version = 1
       THEN <<[S[1] EXCEPT ![s] = <<pos, 0>>], Append(S[2], <<pos, len, d>>), pos + 4 + len,
              Max(S[4], len), IF isNew THEN S[5] + 4 ELSE S[5], S[6] + len + 4>>
       ELSE <<[S[1] EXCEPT ![s] = <<pos + 4, len>>], Append(S[2], <<pos, len, d>>), pos + 4 + len,
              Max(S[4], len), S[5], pos + 4 + len>>

RECURSIVE Many(_, _)
Many(S, ps) == IF ps = <<>> THEN S ELSE Many(One(S, ps[1][1], ps[1][2]), Tail(ps))
RECURSIVE ApplyAll(_, _, _)
ApplyAll(st, b, ps) == IF ps = <<>> THEN st ELSE ApplyAll([st EXCEPT ![<<b, ps[1][1]>>] = ps[1][2]], b, Tail(ps))

Tuple(b) == <<index[b], recs[b], fsize[b], hmax[b], hcount[b], hsize[b]>>
Commit(b, S) ==
  /\ index' = [index EXCEPT ![b] = S[1]] /\ recs' = [recs EXCEPT ![b] = S[2]] /\ fsize' = [fsize EXCEPT ![b] = S[3]]
  /\ hmax' = [hmax EXCEPT ![b] = S[4]] /\ hcount' = [hcount EXCEPT ![b] = S[5]] /\ hsize' = [hsize EXCEPT ![b] = S[6]]

\* store_tiles of tiles that all live in bundle b (one lock, one open file): ps = seq of <<slot, bytes>>
StoreBulk(b, ps) ==
  /\ present' = [present EXCEPT ![b] = TRUE]
  /\ haveidx' = [haveidx EXCEPT ![b] = TRUE]
  /\ Commit(b, Many(Tuple(b), ps))
  /\ store' = ApplyAll(store, b, ps)
  /\ reply' = Rep("store", <<b, ps>>, <<>>)

Store(b, s, d) == StoreBulk(b, <<<<s, d>>>>)

\* remove_tile: zero the index entry (creates the files if they do not exist yet)
Remove(b, s) ==
  /\ present' = IF Version = 1 THEN present ELSE [present EXCEPT ![b] = TRUE]   \* V1 creates only the .bundlx
  /\ haveidx' = [haveidx EXCEPT ![b] = TRUE]
  /\ index' = [index EXCEPT ![b][s] = <<0, 0>>]
  /\ store' = [store EXCEPT ![<<b, s>>] = None]
  /\ reply' = Rep("remove", <<b, s>>, <<>>)
  /\ UNCHANGED <<recs, fsize, hmax, hcount, hsize>>

\* load_tile; V1 side effect: BundleV1.load_tiles constructs BundleDataV1 once the index file exists, and that
\* constructor creates an empty bundle file when there is none
Load(b, s) ==
  /\ reply' = Rep("load", <<b, s>>, <<Read(b, s)>>)
  /\ present' = IF Version = 1 /\ haveidx[b] THEN [present EXCEPT ![b] = TRUE] ELSE present
  /\ UNCHANGED <<haveidx, index, recs, fsize, hmax, hcount, hsize, store>>

\* --- defragmentation ---
Live(b) == {s \in Slot : Read(b, s) # None}
RECURSIVE SumLen(_, _)
SumLen(b, S) == IF S = {} THEN 0 ELSE LET s == CHOOSE x \in S : TRUE IN LenOf[Read(b, s)] + 4 + SumLen(b, S \ {s})
Estimate(b) == SumLen(b, Live(b)) + Overhead                 \* Bundle.size()[0]
\* skip iff fragmentation < min_percent or fragmented bytes < min_bytes
Skip(b, mb, mp) == \/ (fsize[b] - Estimate(b)) * 1000 < mp * fsize[b]
                   \/ fsize[b] - Estimate(b) < mb
RECURSIVE Sorted(_)
Sorted(S) == IF S = {} THEN <<>> ELSE LET s == CHOOSE x \in S : \A y \in S : Rank[x] <= Rank[y] IN <<s>> \o Sorted(S \ {s})
Pairs(b, q) == [i \in 1 .. Len(q) |-> <<q[i], Read(b, q[i])>>]
FreshTuple == <<EmptyIndex, <<>>, InitSize, IF Version = 1 THEN 16 ELSE 0, 0, InitSize>>

DefragOne(b, mb, mp) ==   \* new tuple and presence for bundle b
  IF ~present[b] \/ Skip(b, mb, mp) THEN <<Tuple(b), present[b]>>
  ELSE IF Live(b) = {} THEN <<FreshTuple, FALSE>>              \* nothing stored: bundle files removed
  ELSE <<Many(FreshTuple, Pairs(b, Sorted(Live(b)))), TRUE>>

Defrag(mb, mp) ==
  /\ index' = [b \in BundleId |-> DefragOne(b, mb, mp)[1][1]]
  /\ recs' = [b \in BundleId |-> DefragOne(b, mb, mp)[1][2]]
  /\ fsize' = [b \in BundleId |-> DefragOne(b, mb, mp)[1][3]]
  /\ hmax' = [b \in BundleId |-> DefragOne(b, mb, mp)[1][4]]
  /\ hcount' = [b \in BundleId |-> DefragOne(b, mb, mp)[1][5]]
  /\ hsize' = [b \in BundleId |-> DefragOne(b, mb, mp)[1][6]]
  /\ present' = [b \in BundleId |-> DefragOne(b, mb, mp)[2]]
  /\ haveidx' = [b \in BundleId |-> IF ~present[b] \/ Skip(b, mb, mp) THEN haveidx[b] ELSE DefragOne(b, mb, mp)[2]]
  /\ reply' = Rep("defrag", <<mb, mp>>, <<>>)
  /\ UNCHANGED store

SeqsUpTo(S, n) == UNION {[1 .. k -> S] : k \in 1 .. n}

Next ==
  \/ \E b \in BundleId, s \in Slot, d \in Bytes : Store(b, s, d)
  \/ \E b \in BundleId, ps \in SeqsUpTo(Slot \X Bytes, 2) : Len(ps) = 2 /\ StoreBulk(b, ps)
  \/ \E b \in BundleId, s \in Slot : Remove(b, s) \/ Load(b, s)
  \/ \E mb \in MinBytes, mp \in MinPermille : Defrag(mb, mp)

Spec == Init /\ [][Next]_vars

\* model-checking variant: loads do not change the files, AbsOK states what they would return
DefragMC(mb, mp) == (\E b \in BundleId : present[b]) /\ Defrag(mb, mp)
NextMC ==
  \/ \E b \in BundleId, s \in Slot, d \in Bytes : Store(b, s, d)
  \/ \E b \in BundleId, ps \in SeqsUpTo(Slot \X Bytes, 2) : Len(ps) = 2 /\ ps[1][1] # ps[2][1] /\ StoreBulk(b, ps)
  \/ \E b \in BundleId, s \in Slot : Remove(b, s)
  \/ \E mb \in MinBytes, mp \in MinPermille : DefragMC(mb, mp)
SpecMC == Init /\ [][NextMC]_vars

-----------------------------------------------------------------------------
\* C19: every index entry is empty or points at a complete record inside the file whose size matches
EntryOK(b, s) ==
  LET e == index[b][s] IN
  IF Version = 1
    THEN \/ e[1] = 0
         \/ e[1] < InitSize                                      \* initial entry into the zero-size table
         \/ /\ RecAt(b, e[1]) # <<>>
            /\ e[1] + 4 + RecAt(b, e[1])[2] <= fsize[b]
    ELSE \/ e[2] = 0
         \/ /\ RecAt(b, e[1] - 4) # <<>>
            /\ RecAt(b, e[1] - 4)[2] = e[2]
            /\ e[1] + e[2] <= fsize[b]
StructurallyValid == \A b \in BundleId : present[b] => \A s \in Slot : EntryOK(b, s)

\* records tile the file without gaps or overlaps after the fixed header/index area
RECURSIVE Contig(_, _, _)
Contig(q, i, pos) == IF i > Len(q) THEN pos ELSE IF q[i][1] # pos THEN 0 ELSE Contig(q, i + 1, pos + 4 + q[i][2])
RecordsContiguous == \A b \in BundleId : Contig(recs[b], 1, InitSize) = fsize[b]

AbsOK == \A b \in BundleId, s \in Slot : Read(b, s) = store[<<b, s>>]
ReplyOK == reply.op = "load" => reply.val[1] = store[<<reply.args[1], reply.args[2]>>]

\* header bookkeeping
HeaderOK == \A b \in BundleId : present[b] =>
              /\ hsize[b] = fsize[b]
              /\ \A i \in 1 .. Len(recs[b]) : recs[b][i][2] <= hmax[b]

\* the fragmentation estimate counts exactly the live records plus the fixed overhead, and never
\* exceeds the file size
EstimateOK == \A b \in BundleId : present[b] => Estimate(b) <= fsize[b]

\* defragmentation changes no tile and no file grows
DefragPreserves == [][reply'.op = "defrag" =>
                        /\ \A b \in BundleId, s \in Slot : Read(b, s)' = Read(b, s)
                        /\ \A b \in BundleId : fsize'[b] <= fsize[b]
                        /\ \A b \in BundleId : (present'[b] /\ ~Skip(b, reply'.args[1], reply'.args[2])) => fsize'[b] = Estimate(b)
                    ]_vars
=============================================================================
