------------------------------ MODULE Offline ------------------------------
(***************************************************************************)
(* A cache with several sources, some of which have no picture for a tile  *)
(* (the tile lies outside the source's coverage) or are `seed_only`        *)
(* (disabled while serving: "this source will always return a blank        *)
(* image", asked only by mapproxy-seed - the offline mode of MapProxy).    *)
(* TileCreator._query_sources asks every source; a source without a        *)
(* picture raises BlankImage and is left out of the merge.                 *)
(*                                                                         *)
(*   store    tile -> Absent or the set of sources whose pictures are in   *)
(*            the stored tile ({} = a blank tile)                          *)
(*   reply    the last operation: what was answered, which sources were    *)
(*            asked upstream                                               *)
(*                                                                         *)
(* Variant = "asfound": with two or more sources, a tile NO source has a   *)
(* picture for is merged from nothing into a blank image and STORED (with  *)
(* one source nothing is stored).  In offline mode every request for an    *)
(* uncached tile then leaves a blank tile in the cache, which a later seed *)
(* run takes for cached and skips.  Variant = "repaired": nothing is       *)
(* stored for such a tile, whatever the number of sources.                 *)
(***************************************************************************)
EXTENDS Naturals, FiniteSets, TLC

CONSTANTS Tiles, NSrc, Delivers, SeedOnly, Variant
\* Delivers: [1 .. NSrc -> SUBSET Tiles] tiles inside the coverage of each source;  SeedOnly: [1 .. NSrc -> BOOLEAN]

Src == 1 .. NSrc
Absent == [cached |-> FALSE, srcs |-> {}]
Pic(S) == [cached |-> TRUE, srcs |-> S]

VARIABLES store, reply
vars == <<store, reply>>

NoReply == [op |-> "none", t |-> "none", pic |-> {}, asked |-> {}, stored |-> {}]
Init == store = [t \in Tiles |-> Absent] /\ reply = NoReply

\* the sources that take part in creating tile t: in serving mode the seed_only ones are switched off
Contributing(t, seeding) == {i \in Src : t \in Delivers[i] /\ (seeding \/ ~SeedOnly[i])}
StoresBlank == Variant = "asfound" /\ NSrc >= 2

\* TileManager.load_tile_coords for one uncached tile: -> the new entry of the store
Created(t, seeding) ==
  LET c == Contributing(t, seeding) IN
  IF c # {} THEN Pic(c) ELSE IF StoresBlank THEN Pic({}) ELSE Absent

\* a tile request while serving
Request(t) ==
  IF store[t].cached
    THEN /\ reply' = [op |-> "request", t |-> t, pic |-> store[t].srcs, asked |-> {}, stored |-> {}]
         /\ UNCHANGED store
    ELSE LET e == Created(t, FALSE) IN
         /\ store' = [store EXCEPT ![t] = e]
         /\ reply' = [op |-> "request", t |-> t, pic |-> e.srcs, asked |-> Contributing(t, FALSE),
                      stored |-> IF e.cached THEN {t} ELSE {}]

\* mapproxy-seed over all tiles: tiles that are cached are skipped, the others are created with every source
Seed ==
  LET todo == {t \in Tiles : ~store[t].cached} IN
  /\ store' = [t \in Tiles |-> IF t \in todo THEN Created(t, TRUE) ELSE store[t]]
  /\ reply' = [op |-> "seed", t |-> "all", pic |-> {}, asked |-> UNION {Contributing(t, TRUE) : t \in todo},
               stored |-> {t \in todo : Created(t, TRUE).cached}]

Remove(t) ==
  /\ store[t].cached
  /\ store' = [store EXCEPT ![t] = Absent]
  /\ reply' = [NoReply EXCEPT !.op = "remove", !.t = t]

Next == (\E t \in Tiles : Request(t) \/ Remove(t)) \/ Seed
Spec == Init /\ [][Next]_vars

-----------------------------------------------------------------------------
\* nothing made of no picture at all is ever stored
NeverStoresBlank == \A t \in Tiles : store[t].cached => store[t].srcs # {}
\* sources that are seed_only are not asked while serving; nobody is asked about a tile outside its coverage
OnlyAskedWhatDelivers ==
  [][/\ reply'.op = "request" => \A i \in reply'.asked : ~SeedOnly[i] /\ reply'.t \in Delivers[i]
     /\ reply'.op = "seed" => \A i \in reply'.asked : \E t \in Tiles : t \in Delivers[i] /\ ~store[t].cached]_vars
\* after a seed run every tile some source has a picture for is in the cache and shows a picture
SeedLeavesNoHole ==
  [][reply'.op = "seed" => \A t \in Tiles : (\E i \in Src : t \in Delivers[i]) => (store'[t].cached /\ store'[t].srcs # {})]_vars
\* serving in offline mode (every source seed_only) neither asks anybody nor changes the cache
OfflineIsReadOnly ==
  [][(reply'.op = "request" /\ \A i \in Src : SeedOnly[i]) => (store' = store /\ reply'.asked = {})]_vars
\* what is answered is what is in the cache afterwards (or nothing is, and the answer is blank)
AnswerIsStored ==
  [][reply'.op = "request" =>
       IF store'[reply'.t].cached THEN reply'.pic = store'[reply'.t].srcs ELSE reply'.pic = {}]_vars
TypeOK == \A t \in Tiles : store[t].srcs \subseteq Src /\ (~store[t].cached => store[t].srcs = {})
=============================================================================
