-------------------------- MODULE Trace_Rescale --------------------------
(***************************************************************************)
(* Histories recorded from a real TileManager built by the configuration   *)
(* loader (harness/rescale.py): original tiles put into / removed from the *)
(* cache backend and load_tile_coords requests.  Logged with each request: *)
(* the picture of every answered tile (origin of what is shown in each     *)
(* cell, read from the pixels), the number of backend loads per tile, the  *)
(* upstream requests, the rescaled tiles stored; after every step the      *)
(* pictures of all stored tiles.                                           *)
(***************************************************************************)
EXTENDS Rescale, Json, IOUtils, TLCExt

Batch == JsonDeserialize(IOEnv.TRACE_FILE)
NTraces == Len(Batch)
VARIABLES tid, l
tvars == <<vars, tid, l>>
Tr == Batch[tid]
E  == Tr[l]

TraceInit == Init /\ tid \in 1 .. NTraces /\ l = 1

SetOf(q) == {q[i] : i \in 1 .. Len(q)}
LoadsMatch == /\ \A i \in 1 .. Len(E.loads) : /\ E.loads[i][1] \in DOMAIN reply'.loads
                                              /\ reply'.loads[E.loads[i][1]] = E.loads[i][2]
              /\ DOMAIN reply'.loads = {E.loads[i][1] : i \in 1 .. Len(E.loads)}
StoreMatch == /\ \A i \in 1 .. Len(E.store) : PicSeq(store'[E.store[i][1]], E.store[i][1]) = E.store[i][2]
              /\ {t \in Tile : store'[t] # Absent} = {E.store[i][1] : i \in 1 .. Len(E.store)}

Ev ==
  \/ /\ E.op = "request" /\ Request(E.tiles)
     /\ reply'.err = E.err
     /\ E.err \/ (reply'.pics = E.pics /\ LoadsMatch /\ reply'.fetched = SetOf(E.fetched) /\ reply'.wrote = SetOf(E.wrote))
  \/ E.op = "put" /\ Put(E.tiles[1])
  \/ E.op = "remove" /\ Remove(E.tiles[1])

TraceNext ==
  /\ l <= Len(Tr)
  /\ Ev
  /\ E.err \/ StoreMatch
  /\ l' = l + 1 /\ tid' = tid
  /\ TLCSet(2, [TLCGet(2) EXCEPT ![tid] = IF @ > l THEN @ ELSE l])
  /\ (l = Len(Tr)) => TLCSet(1, TLCGet(1) \cup {tid})

TraceSpec == TraceInit /\ [][TraceNext]_tvars
ASSUME TLCSet(1, {}) /\ TLCSet(2, [t \in 1 .. NTraces |-> 0])
TraceAccepted == PrintT(<<"matched", TLCGet(2)>>) /\ TLCGet(1) = 1 .. NTraces
=============================================================================
