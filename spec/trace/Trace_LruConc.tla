--------------------------- MODULE Trace_LruConc ---------------------------
(***************************************************************************)
(* Schedules recorded from the real MultiMapProxy.proj_app + LRU under the *)
(* baton scheduler (harness/lruconc.py): one event per dict / deque / lock *)
(* operation with the key and the two containers read after it.            *)
(***************************************************************************)
EXTENDS LruConc, Json, IOUtils, TLCExt

Batch == JsonDeserialize(IOEnv.TRACE_FILE)
NTraces == Len(Batch)
VARIABLES tid, l
tvars == <<vars, tid, l>>
Tr == Batch[tid]
E  == Tr[l]
SetOf(q) == {q[i] : i \in 1 .. Len(q)}

TraceInit == Init /\ tid \in 1 .. NTraces /\ l = 1

Step(t) ==
  \/ E.ev = "contains" /\ (GContains(t) \/ SContains(t))
  \/ E.ev = "read" /\ GRead(t) /\ err'[t] = "none"
  \/ E.ev = "read_fail" /\ GRead(t) /\ err'[t] # "none"
  \/ E.ev = "remove" /\ (GRemove(t) \/ SRemove(t))
  \/ E.ev = "append" /\ (GAppend(t) \/ SAppend(t))
  \/ E.ev = "store" /\ SStore(t)
  \/ E.ev = "check" /\ SCheck(t)
  \/ E.ev = "pop" /\ SPop(t) /\ err'[t] = "none"
  \/ E.ev = "pop_fail" /\ SPop(t) /\ err'[t] # "none"
  \/ E.ev = "del" /\ SDel(t) /\ err'[t] = "none"
  \/ E.ev = "del_fail" /\ SDel(t) /\ err'[t] # "none"
  \/ E.ev = "lock_ok" /\ Lock(t)
  \/ E.ev = "unlock" /\ Unlock(t)
  \* not steps of the model: a busy lock, the end of a thread
  \/ E.ev = "lock_busy" /\ pc[t] = "lock" /\ mutex # NoOne /\ UNCHANGED vars
  \/ E.ev = "done" /\ pc[t] = "done" /\ UNCHANGED vars
  \/ E.ev = "failed" /\ pc[t] = "failed" /\ UNCHANGED vars

TraceNext ==
  /\ l <= Len(Tr)
  /\ Step(E.t)
  /\ (E.ev \notin {"lock_ok", "unlock", "lock_busy", "done", "failed"}) => Free(E.t)
  /\ values' = SetOf(E.values) /\ lastUsed' = E.lastUsed
  /\ l' = l + 1 /\ tid' = tid
  /\ TLCSet(2, [TLCGet(2) EXCEPT ![tid] = IF @ > l THEN @ ELSE l])
  /\ (l = Len(Tr)) => TLCSet(1, TLCGet(1) \cup {tid})

TraceSpec == TraceInit /\ [][TraceNext]_tvars
ASSUME TLCSet(1, {}) /\ TLCSet(2, [t \in 1 .. NTraces |-> 0])
TraceAccepted == PrintT(<<"matched", TLCGet(2)>>) /\ TLCGet(1) = 1 .. NTraces
=============================================================================
