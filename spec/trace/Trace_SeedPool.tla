-------------------------- MODULE Trace_SeedPool --------------------------
(***************************************************************************)
(* Schedules recorded from the real TileWorkerPool / TileSeedWorker /      *)
(* exp_backoff under the baton scheduler (harness/seedpool.py): one event  *)
(* per queue operation, piece of work, give-up, join, with the queue and   *)
(* the created / lost lists after the step.                                *)
(***************************************************************************)
EXTENDS SeedPool, Json, IOUtils, TLCExt

Batch == JsonDeserialize(IOEnv.TRACE_FILE)
NTraces == Len(Batch)
VARIABLES tid, l
tvars == <<vars, tid, l>>
Tr == Batch[tid]
E  == Tr[l]
SetOf(q) == {q[i] : i \in 1 .. Len(q)}

TraceInit == Init /\ tid \in 1 .. NTraces /\ l = 1

Ev ==
  \/ E.t = "walker" /\ E.ev = "put" /\ E.item # "stop" /\ Put
  \/ E.t = "walker" /\ E.ev = "put" /\ E.item = "stop" /\ PutNone
  \/ E.t = "walker" /\ E.ev = "put_full" /\ E.item # "stop" /\ PutFull
  \/ E.t = "walker" /\ E.ev = "put_full" /\ E.item = "stop" /\ NoneFull
  \/ E.t = "walker" /\ E.ev = "allhanded" /\ AllHanded
  \/ E.t = "walker" /\ E.ev = "join" /\ Join /\ WSeq[ji] = E.item
  \/ E.t = "walker" /\ E.ev = "raised" /\ raised /\ UNCHANGED vars
  \/ E.t = "walker" /\ E.ev = "end" /\ ppc = "end" /\ UNCHANGED vars
  \/ E.t \in Worker /\ E.ev = "get" /\ Get(E.t) /\ Head(queue) = E.item
  \/ E.t \in Worker /\ E.ev = "work" /\ Work(E.t) /\ witem[E.t] = E.item /\ E.item \notin Bad
  \/ E.t \in Worker /\ E.ev = "giveup" /\ Work(E.t) /\ witem[E.t] = E.item /\ E.item \in Bad
  \/ E.t \in Worker /\ E.ev = "exit" /\ ~Alive(E.t) /\ UNCHANGED vars

TraceNext ==
  /\ l <= Len(Tr)
  /\ /\ Ev
     /\ /\ queue' = E.queue /\ done' = SetOf(E.done) /\ lost' = SetOf(E.lost)
        /\ l' = l + 1 /\ tid' = tid
        /\ TLCSet(2, [TLCGet(2) EXCEPT ![tid] = IF @ > l THEN @ ELSE l])
        /\ (l = Len(Tr)) => TLCSet(1, TLCGet(1) \cup {tid})

TraceSpec == TraceInit /\ [][TraceNext]_tvars
ASSUME TLCSet(1, {}) /\ TLCSet(2, [t \in 1 .. NTraces |-> 0])
TraceAccepted == PrintT(<<"matched", TLCGet(2)>>) /\ TLCGet(1) = 1 .. NTraces
=============================================================================
