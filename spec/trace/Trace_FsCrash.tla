--------------------------- MODULE Trace_FsCrash ---------------------------
(***************************************************************************)
(* The raw operation sequence recorded (strace) from one real store,       *)
(* abstracted to the steps of FsCrash, must be a behaviour of the writer   *)
(* program of its mechanism - this transfers CrashSafe from the model to   *)
(* the recorded sequence.  Events: "unlink", "create_tmp", "write_tmp",    *)
(* "rename", "shared", "link", "append" (slot), "index" (slot), "meta".    *)
(***************************************************************************)
EXTENDS FsCrash, Json, IOUtils, TLCExt

Tr == JsonDeserialize(IOEnv.TRACE_FILE)
VARIABLE l
tvars == <<vars, l>>
E == Tr[l]

TraceInit == Init /\ l = 1

Step ==
  \/ /\ E.ev = "meta" /\ UNCHANGED vars                                   \* header/metadata fields: not read by readers
  \/ /\ E.ev = "unlink" /\ (AtomicStep \/ LinkStep) /\ target' = "absent"
  \/ /\ E.ev = "create_tmp" /\ AtomicStep /\ tmp' = "empty"
  \/ /\ E.ev = "write_tmp" /\ AtomicStep /\ tmp' = "complete"
  \/ /\ E.ev = "rename" /\ AtomicStep /\ target' = "new"
  \/ /\ E.ev = "shared" /\ LinkStep /\ shared' = "complete" /\ pc' = 2
  \/ /\ E.ev = "skip_shared" /\ LinkStep /\ pc = 1 /\ pc' = 2 /\ UNCHANGED shared
  \/ /\ E.ev = "skip_unlink" /\ LinkStep /\ pc = 2 /\ pc' = 3 /\ UNCHANGED target
  \/ /\ E.ev = "link" /\ LinkStep /\ target' = "newlink"
  \/ /\ E.ev = "append" /\ BundleStep /\ Slots[napp + 1] = E.slot /\ recs'[E.slot] = "complete" /\ UNCHANGED idx
  \/ /\ E.ev = "index" /\ BundleStep /\ idx[E.slot] = "old" /\ idx'[E.slot] = "new" /\ UNCHANGED recs

TraceNext == l <= Len(Tr) /\ Step /\ l' = l + 1
TraceSpec == TraceInit /\ [][TraceNext]_tvars
TraceAccepted == TLCGet("stats").diameter - 1 = Len(Tr)
TraceFinished == (l = Len(Tr) + 1) => Finished
=============================================================================
