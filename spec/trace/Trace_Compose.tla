--------------------------- MODULE Trace_Compose ---------------------------
(***************************************************************************)
(* Validates GetMap requests recorded from the real WMS service against    *)
(* Compose.  One event = one request: stack (the full description of the   *)
(* requested layers, bottom first), o (request options) and obs (status,   *)
(* the pixel of every region of the answer, flatness of the regions, the   *)
(* upstream requests in order).  The machine of Compose is started with    *)
(* the recorded request; the event is accepted when the terminal state has *)
(* the observed picture (within Tol) and the observed upstream log.  The   *)
(* property is evaluated on every observation on its own (ObsOK: the       *)
(* observed picture is Full(stack, o)) without stopping at the first       *)
(* failure.  Batch acceptance by POSTCONDITION.                            *)
(***************************************************************************)
EXTENDS Compose, Json, IOUtils, TLCExt

Batch == JsonDeserialize(IOEnv.TRACE_FILE)
N == Len(Batch)

VARIABLE tid
tvars == <<st, tid>>

SeqSet(q) == {q[k] : k \in 1 .. Len(q)}
ToOpt(j) == [tr |-> j.tr, bg |-> j.bg, zones |-> SeqSet(j.zones), res |-> j.res]
ToSrc(j) == [id |-> j.id, kind |-> j.kind, op |-> j.op, cov |-> j.cov, clip |-> j.clip, url |-> j.url, rng |-> j.rng,
             col |-> j.col, ssrs |-> j.ssrs]
ToLayer(j) == [name |-> j.name, srcs |-> [k \in 1 .. Len(j.srcs) |-> ToSrc(j.srcs[k])], rng |-> j.rng]
StackOf(e) == [k \in 1 .. Len(e.stack) |-> ToLayer(e.stack[k])]
ToLog(u) == [k \in 1 .. Len(u) |-> [ls |-> u[k].ls, tr |-> u[k].tr, sub |-> u[k].sub]]

\* the observation is the terminal state s of the model
Match(obs, s) ==
  /\ obs.status = s.status
  /\ \/ s.status = 500
     \/ /\ obs.flat
        /\ ToLog(obs.ups) = s.ups
        /\ DOMAIN obs.px = Regions(s.o)
        /\ \A r \in Regions(s.o) : Close(obs.px[r], s.out[r])

\* the property on the observation alone
ObsOK(obs, stack, o) ==
  /\ obs.status = 200 /\ obs.flat
  /\ DOMAIN obs.px = Regions(o)
  /\ \A r \in Regions(o) : CloseT(obs.px[r], FullPx(stack, o, r), TolOf(stack))

TraceInit ==
  /\ tid \in 1 .. N
  /\ st = Begin(StackOf(Batch[tid]), ToOpt(Batch[tid].o))

TraceNext ==
  /\ Next
  /\ tid' = tid
  /\ (st'.pc = "done" /\ Match(Batch[tid].obs, st')) => TLCSet(1, TLCGet(1) \cup {tid})
  /\ (st'.pc = "done" /\ ~ObsOK(Batch[tid].obs, st'.stack, st'.o)) =>
         /\ TLCSet(2, TLCGet(2) \cup {tid})
         /\ PrintT(<<"obsbad", tid, st'.path>>)

TraceSpec == TraceInit /\ [][TraceNext]_tvars

ASSUME TLCSet(1, {}) /\ TLCSet(2, {})

TraceAccepted ==
  /\ PrintT(<<"accepted", TLCGet(1)>>)
  /\ PrintT(<<"obsbadset", TLCGet(2)>>)
  /\ TLCGet(1) = 1 .. N
  /\ TLCGet(2) = {}
=============================================================================
