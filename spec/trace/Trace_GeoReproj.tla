-------------------------- MODULE Trace_GeoReproj --------------------------
(***************************************************************************)
(* Map requests in ANOTHER reference system than the grid (EPSG:4326 on an *)
(* EPSG:3857 grid and the reverse), recorded from a real MapProxyApp on a  *)
(* lattice grid with a position-encoding upstream (harness/c01.py,         *)
(* reprojected_phase), in the order in which one process answered them.    *)
(* Per output pixel: the decoded provenance <<level, cx, cy>> as for       *)
(* Trace_GeoRef and - computed by the harness with the closed formulas of  *)
(* the two projections, not by MapProxy - <<gx, gy, fx, fy>>: the ground   *)
(* location of the pixel centre in the coordinates of the grid and the     *)
(* extent of the pixel there, in 1/1000 lattice units.                     *)
(* Checked with GeoRef.ReprojPixelOK: C01 for a reprojected request.       *)
(* infos: feature-info requests in the other reference system and the      *)
(* request each caused upstream (the source speaks the SRS of the grid     *)
(* only): the clicked pixel as above, the upstream image size, the pixel   *)
(* asked about and the rectangle it covers on the grid -                   *)
(* GeoRef.ReprojInfoOK.                                                    *)
(***************************************************************************)
EXTENDS GeoRef, Json, IOUtils, TLCExt

Data == JsonDeserialize(IOEnv.TRACE_FILE)
G == [ul |-> Data.grid.ul, bbox |-> Data.grid.bbox, tw |-> Data.grid.tw, th |-> Data.grid.th, res |-> Data.grid.res,
      sn |-> Data.grid.sn, sd |-> Data.grid.sd, ms |-> Data.grid.ms, thr |-> Data.grid.thr]
Exts == {<<Data.exts[i][1], Data.exts[i][2], Data.exts[i][3], Data.exts[i][4]>> : i \in 1 .. Len(Data.exts)}
Bound == <<Data.bound[1], Data.bound[2], Data.bound[3], Data.bound[4]>>
O3(o) == <<o[1], o[2], o[3]>>
P4(p) == [gx |-> p[1], gy |-> p[2], fx |-> p[3], fy |-> p[4]]

BadPixels(c) == {k \in 1 .. Len(c.px) : ~ReprojPixelOK(G, Exts, Bound, P4(c.at[k]), O3(c.px[k]))}
MapOK(c) == Len(c.px) = c.w * c.h /\ Len(c.at) = c.w * c.h /\ BadPixels(c) = {}
BadMaps == {i \in 1 .. Len(Data.maps) : ~MapOK(Data.maps[i])}
R4(r) == <<r[1], r[2], r[3], r[4]>>
InfoCaseOK(c) == ReprojInfoOK(P4(c.at), c.uw, c.uh, c.ui, c.uj, R4(c.r))
BadInfos == {i \in 1 .. Len(Data.infos) : ~InfoCaseOK(Data.infos[i])}
First(S) == IF S = {} THEN 0 ELSE CHOOSE i \in S : \A j \in S : i <= j
ASSUME PrintT(<<"verdict", [map |-> First(BadMaps), nmap |-> Cardinality(BadMaps),
                            badpx |-> IF BadMaps = {} THEN {} ELSE BadPixels(Data.maps[First(BadMaps)]),
                            info |-> First(BadInfos), ninfo |-> Cardinality(BadInfos),
                            shown |-> Cardinality({i \in 1 .. Len(Data.maps) : \E k \in 1 .. Len(Data.maps[i].px) : Data.maps[i].px[k][1] # -1})]>>)
VARIABLE dummy
TraceSpec == dummy = 0 /\ [][UNCHANGED dummy]_dummy
=============================================================================
