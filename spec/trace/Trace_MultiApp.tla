-------------------------- MODULE Trace_MultiApp --------------------------
(***************************************************************************)
(* Histories recorded from a real MultiMapProxy on a directory of real     *)
(* configuration files (harness/multiapp.py): requests (status, version of *)
(* the configuration the answer was rendered from, read from the answer),  *)
(* file writes and removals; after every step the LRU dictionary of the    *)
(* real object (order, time stamps recorded with each application).        *)
(***************************************************************************)
EXTENDS MultiApp, Json, IOUtils, TLCExt

Batch == JsonDeserialize(IOEnv.TRACE_FILE)
NTraces == Len(Batch)
VARIABLES tid, l
tvars == <<vars, tid, l>>
Tr == Batch[tid]
E  == Tr[l]
\* logged per cached project: name, recorded stamp of the project file, recorded stamp of the base file (0: not included)
LruTimes(q) == [i \in 1 .. Len(q) |-> <<q[i][1], q[i][2], q[i][3]>>]
TimesOf(q) == [i \in 1 .. Len(q) |-> <<q[i].proj, q[i].mtime, q[i].bmtime>>]

TraceInit == Init /\ tid \in 1 .. NTraces /\ l = 1

Ev ==
  \/ E.op = "request" /\ Request(E.p) /\ last'.status = E.status /\ last'.ver = E.ver /\ last'.bver = E.bver
  \/ E.op = "write" /\ WriteConf(E.p, E.m)
  \/ E.op = "writebase" /\ WriteBase(E.m)
  \/ E.op = "remove" /\ RemoveConf(E.p)

TraceNext ==
  /\ l <= Len(Tr)
  /\ Ev
  /\ TimesOf(lru') = LruTimes(E.lru)
  /\ l' = l + 1 /\ tid' = tid
  /\ TLCSet(2, [TLCGet(2) EXCEPT ![tid] = IF @ > l THEN @ ELSE l])
  /\ (l = Len(Tr)) => TLCSet(1, TLCGet(1) \cup {tid})

TraceSpec == TraceInit /\ [][TraceNext]_tvars
ASSUME TLCSet(1, {}) /\ TLCSet(2, [t \in 1 .. NTraces |-> 0])
TraceAccepted == PrintT(<<"matched", TLCGet(2)>>) /\ TLCGet(1) = 1 .. NTraces
=============================================================================
