-------------------------- MODULE Trace_MetaTile --------------------------
(***************************************************************************)
(* For one grid and a batch of (meta size, buffer, tile) cases:            *)
(*  (1) the declarative statement MetaOK holds for the transcription,      *)
(*  (2) the MetaTile object the real MetaGrid built equals the             *)
(*      transcription (bbox, size, main tile, tile list, crop offsets),    *)
(*  (3) what the real TileManager stored under every creation strategy     *)
(*      (decoded with a position-encoding upstream) satisfies C04:         *)
(*      position error within the tolerance the transcription grants, no   *)
(*      background deep inside the extent, one upstream request per meta   *)
(*      tile and all its tiles stored together.                            *)
(***************************************************************************)
EXTENDS MetaTile, Json, IOUtils, TLCExt

Data == JsonDeserialize(IOEnv.TRACE_FILE)
G == [ul |-> Data.grid.ul, bbox |-> Data.grid.bbox, tw |-> Data.grid.tw, th |-> Data.grid.th, res |-> Data.grid.res,
      sn |-> Data.grid.sn, sd |-> Data.grid.sd, ms |-> Data.grid.ms, thr |-> Data.grid.thr]

T3(q) == <<q[1], q[2], q[3]>>
B4(q) == <<q[1], q[2], q[3], q[4]>>
P2(q) == <<q[1], q[2]>>
SetOfTiles(q) == {T3(q[k]) : k \in 1 .. Len(q)}

RealOK(c) ==
  LET M == Meta(G, P2(c.ms), c.buf, T3(c.t)) IN
  /\ T3(c.real.main) = M.main
  /\ B4(c.real.bbox) = M.bbox
  /\ P2(c.real.size) \in M.sizes
  /\ Len(c.real.tiles) = Len(M.tiles)
  /\ \A k \in 1 .. Len(M.tiles) : T3(c.real.tiles[k]) = M.tiles[k] /\ P2(c.real.crop[k]) = M.crop[k]

InGrid(S) == {t \in S : LimitTile(G, t)}
MetaTileSet(c) == LET M == Meta(G, P2(c.ms), c.buf, T3(c.t)) IN {M.tiles[k] : k \in 1 .. Len(M.tiles)} \ {NoTile}
\* tiles of the bounding rectangle of a request set (minimal meta tile)
BoundRect(q) ==
  LET S == SetOfTiles(q)
      x0 == CHOOSE x \in {t[1] : t \in S} : \A t \in S : x <= t[1]
      x1 == CHOOSE x \in {t[1] : t \in S} : \A t \in S : x >= t[1]
      y0 == CHOOSE y \in {t[2] : t \in S} : \A t \in S : y <= t[2]
      y1 == CHOOSE y \in {t[2] : t \in S} : \A t \in S : y >= t[2]
      l == (CHOOSE t \in S : TRUE)[3]
  IN [tiles |-> {<<x, y, l>> : x \in x0 .. x1, y \in y0 .. y1},
      bbox |-> Merge(TileBBox(G, <<x0, y0, l>>), TileBBox(G, <<x1, y1, l>>))]

StratOK(c, o) ==
  LET r == Res(G, c.t[3])
      M == Meta(G, P2(c.ms), c.buf, T3(c.t))
      trunc == CASE o.s = "single" -> FALSE
                 [] o.s \in {"bulk", "bulkholes"} -> FALSE
                 [] o.s = "minimal" -> Buffered(G, BoundRect(o.req).bbox, c.t[3], c.buf)[2] # <<c.buf, c.buf, c.buf, c.buf>>
                 [] OTHER -> Truncated(M, c.buf)
      tol == IF trunc THEN r ELSE 0
      expected == CASE o.s = "single" -> {T3(c.t)}
                    [] o.s = "minimal" -> InGrid(BoundRect(o.req).tiles)
                    \* bulk creation asks for every tile on its own; tiles the source has no picture for are not stored
                    [] o.s = "bulkholes" -> MetaTileSet(c) \ SetOfTiles(o.holes)
                    [] OTHER -> MetaTileSet(c)
  IN /\ Abs(o.ex) <= tol /\ Abs(o.ey) <= tol /\ (tol = 0 => o.spread = 0)
     /\ o.bg_inside = 0
     /\ o.foreign = 0
     /\ SetOfTiles(o.stored) = expected
     /\ o.nstore = 1
     /\ o.nreq = (IF o.s \in {"bulk", "bulkholes"} THEN Cardinality(MetaTileSet(c)) ELSE 1)

CaseOK(c) ==
  /\ MetaOK(G, P2(c.ms), c.buf, T3(c.t))
  /\ RealOK(c)
  /\ \A k \in 1 .. Len(c.obs) : StratOK(c, c.obs[k])

\* which clause fails (for the report)
Why(c) == IF ~MetaOK(G, P2(c.ms), c.buf, T3(c.t)) THEN "statement-vs-transcription"
          ELSE IF ~RealOK(c) THEN "real-metatile-vs-transcription"
          ELSE "stored-tiles"

BadSet == {i \in 1 .. Len(Data.cases) : ~CaseOK(Data.cases[i])}
FirstBad == IF BadSet = {} THEN 0 ELSE CHOOSE i \in BadSet : \A j \in BadSet : i <= j
ASSUME PrintT(<<"verdict", [first |-> FirstBad, count |-> Cardinality(BadSet),
                            why |-> IF FirstBad = 0 THEN "" ELSE Why(Data.cases[FirstBad])]>>)

VARIABLE dummy
TraceSpec == dummy = 0 /\ [][UNCHANGED dummy]_dummy
=============================================================================
