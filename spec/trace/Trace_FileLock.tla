--------------------------- MODULE Trace_FileLock ---------------------------
(***************************************************************************)
(* Validates executions recorded from the real FileLock / SemLock under    *)
(* the baton scheduler against FileLock.tla.  One JSON file holds a batch  *)
(* of traces that share the configuration constants; every event carries   *)
(* its arguments and the projected state (path -> inode id, contenders     *)
(* inside the section) observed after the step.                            *)
(***************************************************************************)
EXTENDS FileLock, Sequences, Json, IOUtils, TLCExt

Batch == JsonDeserialize(IOEnv.TRACE_FILE)      \* sequence of traces; a trace is a sequence of events
NTraces == Len(Batch)

VARIABLES tid, l
tvars == <<vars, tid, l>>

Tr == Batch[tid]
E  == Tr[l]

Max(a, b) == IF a > b THEN a ELSE b

\* registers: 1 = set of accepted traces, 2 = [trace -> longest matched prefix]
TraceInit ==
  /\ Init
  /\ tid \in 1 .. NTraces
  /\ l = 1

ObsOK ==   \* projected state logged with the event = state of the model after the step
  /\ \A s \in Slot : pathInode'[s] = E.path[s + 1]
  /\ {c \in Contender : pc'[c] = "cs"} = {E.inside[i] : i \in 1 .. Len(E.inside)}
  /\ now' = E.now

\* the repaired code verifies the inode with fstat/stat; when the harness saw no separate verify call
\* the verification is taken together with what the code did next
VerifyOkEnter(c) == pc[c] = "locked" /\ VerifyOk(c)
VerifyFailClose(c) ==
  /\ pc[c] = "locked" /\ pathInode[slot[c]] # fd[c]
  /\ owner' = [owner EXCEPT ![fd[c]] = NoOne]
  /\ fd' = [fd EXCEPT ![c] = 0]
  /\ IF tries[c] < NSlots
       THEN pc' = [pc EXCEPT ![c] = "try"] /\ UNCHANGED tries
       ELSE pc' = [pc EXCEPT ![c] = "failed"] /\ tries' = [tries EXCEPT ![c] = 0]
  /\ UNCHANGED <<pathInode, slot, linger, deadline, cycles, now, nextIno, overlap, stamp>>

Ev(c) ==
  \/ /\ E.ev = "clock" /\ E.now = now
     /\ Begin(c) \/ Retry(c) \/ TimeoutStep(c)
  \/ /\ E.ev = "open"
     /\ Open(c, E.slot) /\ fd'[c] = E.ino
  \/ E.ev = "flock_ok" /\ FlockOk(c)
  \/ E.ev = "flock_fail" /\ FlockFail(c)
  \/ E.ev = "verify" /\ ((E.same /\ VerifyOk(c)) \/ (~E.same /\ VerifyFail(c)))
  \/ E.ev = "close" /\ (CloseFail(c) \/ CloseUnlock(c) \/ GcClose(c) \/ CloseFallback(c) \/ VerifyFailClose(c))
  \/ E.ev = "unlink" /\ Unlink(c)
  \/ E.ev = "wake" /\ Wake(c)
  \/ E.ev = "enter" /\ ((pc[c] = "cs" /\ UNCHANGED vars) \/ VerifyOkEnter(c))
  \/ E.ev = "timeout_raised" /\ pc[c] = "timedout" /\ UNCHANGED vars

TraceNext ==
  /\ l <= Len(Tr)
  /\ \/ E.ev = "tick" /\ Tick
     \/ E.ev = "cleanup" /\ IF E.removed THEN Cleanup(0)
                                        ELSE (pathInode[0] = 0 \/ ~Expired(0)) /\ UNCHANGED vars
     \/ E.ev \notin {"tick", "cleanup"} /\ Ev(E.c)
  /\ ObsOK
  /\ l' = l + 1
  /\ tid' = tid
  /\ TLCSet(2, [TLCGet(2) EXCEPT ![tid] = Max(@, l)])
  /\ (l = Len(Tr)) => TLCSet(1, TLCGet(1) \cup {tid})

TraceSpec == TraceInit /\ [][TraceNext]_tvars

ASSUME TLCSet(1, {}) /\ TLCSet(2, [t \in 1 .. NTraces |-> 0])

TraceAccepted ==
  /\ PrintT(<<"matched", TLCGet(2)>>)
  /\ TLCGet(1) = 1 .. NTraces
=============================================================================
