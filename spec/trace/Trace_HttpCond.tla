--------------------------- MODULE Trace_HttpCond ---------------------------
(***************************************************************************)
(* Validates histories recorded from the real WSGI application against     *)
(* HttpCond.  One JSON file holds a batch of traces; every event is        *)
(*   ev   "get" | "rewrite" | "expire" | "tick"                            *)
(*   get: f (flavour), t (tile), inm (observed ETag id: 0 none, -1 an      *)
(*        unknown ETag, -2 the string md5("NoneNone"), k > 0 the k-th      *)
(*        distinct ETag string the server has sent), ims (seconds, -1      *)
(*        absent, -2 malformed), s (size class the upstream would serve),  *)
(*        up ("none": upstream not contacted, "ok", "fail"), and the       *)
(*        observed status, etag (id), lm, body, cc                         *)
(*   rewrite: t, s                                                         *)
(*   obs  the store read back after the step: tile -> <<m, s, v>>          *)
(* ETag strings are opaque: they are bound to the model's ETags in order   *)
(* of first occurrence (variable bind) and must stay in bijection.         *)
(* The property (all invariants of HttpCond) is evaluated by TLC on every  *)
(* step of every accepted trace; what fails is collected in register 3.    *)
(***************************************************************************)
EXTENDS HttpCond, Sequences, Json, IOUtils, TLCExt

Batch == JsonDeserialize(IOEnv.TRACE_FILE)
NTraces == Len(Batch)

VARIABLES tid, l, bind
tvars == <<cache, prev, clock, thr, ver, served, issued, resp, tid, l, bind>>

Tr == Batch[tid]
E  == Tr[l]
Max(a, b) == IF a > b THEN a ELSE b
RangeOf(q) == {q[i] : i \in 1 .. Len(q)}

TraceInit == Init /\ tid \in 1 .. NTraces /\ l = 1 /\ bind = <<>>

EtagOfId(k) == IF k = 0 THEN NOHDR ELSE IF k = -2 THEN NN
               ELSE IF k \in 1 .. Len(bind) THEN bind[k] ELSE GARB
HdrOf(e) == [inm |-> EtagOfId(e.inm), ims |-> e.ims]

EtagObserved(e) ==
  IF e.etag = 0 THEN resp'.etag = NONE_E /\ bind' = bind
  ELSE IF e.etag = -2 THEN resp'.etag = NN /\ bind' = bind
  ELSE IF e.etag \in 1 .. Len(bind) THEN resp'.etag = bind[e.etag] /\ bind' = bind
  ELSE /\ e.etag = Len(bind) + 1
       /\ resp'.etag \notin ({NONE_E, NN} \cup RangeOf(bind))
       /\ bind' = Append(bind, resp'.etag)

TraceGet ==
  /\ E.ev = "get"
  /\ \/ E.up = "none" /\ GetCached(E.f, E.t, HdrOf(E))
     \/ E.up = "ok"   /\ GetCreate(E.f, E.t, HdrOf(E), E.s)
     \/ E.up = "fail" /\ GetError(E.f, E.t, HdrOf(E))
  /\ resp'.status = E.status /\ resp'.lm = E.lm /\ resp'.body = E.body /\ resp'.cc = E.cc
  /\ EtagObserved(E)

TraceEnv ==
  /\ \/ E.ev = "rewrite" /\ Rewrite(E.t, E.s)
     \/ E.ev = "expire"  /\ Expire
     \/ E.ev = "tick"    /\ Tick
  /\ bind' = bind

ObsOK == \A t \in Tiles : cache'[t] = [m |-> E.obs[t][1], s |-> E.obs[t][2], v |-> E.obs[t][3]]

PropNames == {"StatusOK", "StableValidators", "BodyCurrent", "INMCurrent", "Sound304", "Uncacheable"}
Holds(n) == CASE n = "StatusOK" -> StatusOK [] n = "StableValidators" -> StableValidators
              [] n = "BodyCurrent" -> BodyCurrent [] n = "INMCurrent" -> INMCurrent
              [] n = "Sound304" -> Sound304 [] n = "Uncacheable" -> Uncacheable
Failing == {n \in PropNames : ~Holds(n)}

TraceNext ==
  /\ l <= Len(Tr)
  /\ (TraceGet \/ TraceEnv)
  /\ ObsOK
  /\ l' = l + 1 /\ tid' = tid
  /\ TLCSet(2, [TLCGet(2) EXCEPT ![tid] = Max(@, l)])
  /\ TLCSet(3, TLCGet(3) \cup {<<tid, l, n, resp'.phase>> : n \in Failing'})
  /\ TLCSet(4, TLCGet(4) \cup {<<resp'.act, resp'.phase, resp'.status>>})
  /\ (l = Len(Tr)) => TLCSet(1, TLCGet(1) \cup {tid})

TraceSpec == TraceInit /\ [][TraceNext]_tvars

ASSUME TLCSet(1, {}) /\ TLCSet(2, [t \in 1 .. NTraces |-> 0]) /\ TLCSet(3, {}) /\ TLCSet(4, {})

TraceAccepted ==
  /\ PrintT(<<"matched", TLCGet(2)>>)
  /\ PrintT(<<"failing", TLCGet(3)>>)
  /\ PrintT(<<"phases", TLCGet(4)>>)
  /\ TLCGet(1) = 1 .. NTraces
=============================================================================
