-------------------------- MODULE Trace_MapProxy --------------------------
(***************************************************************************)
(* Mixed workloads recorded from a real MapProxyApp on a lattice grid      *)
(* (tile requests through every service flavour, contained WMS GetMap      *)
(* requests, level clean-ups), validated against the composition           *)
(* MapProxy.tla: after every client request the set of tiles in the cache  *)
(* directory and the upstream requests it caused must be what the model    *)
(* says, with all cross-cutting invariants evaluated on every step.        *)
(***************************************************************************)
EXTENDS MapProxy, Json, IOUtils, TLCExt

Batch == JsonDeserialize(IOEnv.TRACE_FILE)
NTraces == Len(Batch)
VARIABLES tid, l
tvars == <<mvars, tid, l>>
Tr == Batch[tid]
E  == Tr[l]
T3(q) == <<q[1], q[2], q[3]>>
Q6(q) == <<q[1], q[2], q[3], q[4], q[5], q[6]>>
B4(q) == <<q[1], q[2], q[3], q[4]>>
TileSet(q) == {T3(q[k]) : k \in 1 .. Len(q)}

TraceInit == MInit /\ tid \in 1 .. NTraces /\ l = 1

Op ==
  \/ E.op = "tile" /\ TileReq(E.f, T3(E.a))
  \/ E.op = "map" /\ MapReq(Q6(E.q))
  \/ E.op = "cleanup" /\ CleanupLevel(E.level)

ObsOK ==
  /\ last'.ok = E.ok
  /\ cache' = TileSet(E.cache)
  \* the meta tiles of one request are created by concurrent workers: the upstream requests are compared as sets
  /\ Len(fetched') = Len(E.up)
  /\ {<<fetched'[k].l, fetched'[k].bbox>> : k \in 1 .. Len(fetched')} = {<<E.up[k].l, B4(E.up[k].bbox)>> : k \in 1 .. Len(E.up)}

TraceNext ==
  /\ l <= Len(Tr)
  /\ Op
  /\ ObsOK
  /\ l' = l + 1 /\ tid' = tid
  /\ TLCSet(2, [TLCGet(2) EXCEPT ![tid] = IF @ > l THEN @ ELSE l])
  /\ (l = Len(Tr)) => TLCSet(1, TLCGet(1) \cup {tid})

TraceSpec == TraceInit /\ [][TraceNext]_tvars
ASSUME TLCSet(1, {}) /\ TLCSet(2, [t \in 1 .. NTraces |-> 0])
TraceAccepted == PrintT(<<"matched", TLCGet(2)>>) /\ TLCGet(1) = 1 .. NTraces
=============================================================================
