------------------------- MODULE Trace_WmsVersion -------------------------
(***************************************************************************)
(* Sequences of GetCapabilities requests with all kinds of VERSION values  *)
(* sent to one real MapProxy application (harness/wmsversion.py); logged:  *)
(* the requested version and the version of the document that came back.   *)
(***************************************************************************)
EXTENDS WmsVersion, Json, IOUtils, TLCExt

Batch == JsonDeserialize(IOEnv.TRACE_FILE)
NTraces == Len(Batch)
VARIABLES tid, l
tvars == <<vars, tid, l>>
Tr == Batch[tid]
E  == Tr[l]

TraceInit == Init /\ tid \in 1 .. NTraces /\ l = 1
TraceNext ==
  /\ l <= Len(Tr)
  /\ Request(E.req) /\ last'.ans = E.ans
  /\ l' = l + 1 /\ tid' = tid
  /\ TLCSet(2, [TLCGet(2) EXCEPT ![tid] = IF @ > l THEN @ ELSE l])
  /\ (l = Len(Tr)) => TLCSet(1, TLCGet(1) \cup {tid})

TraceSpec == TraceInit /\ [][TraceNext]_tvars
ASSUME TLCSet(1, {}) /\ TLCSet(2, [t \in 1 .. NTraces |-> 0])
TraceAccepted == PrintT(<<"matched", TLCGet(2)>>) /\ TLCGet(1) = 1 .. NTraces
=============================================================================
