-------------------------- MODULE Trace_TileAddr --------------------------
(***************************************************************************)
(* For one real app (lattice grid, layer extent): the capabilities the     *)
(* real services publish equal the model's, every advertised address that  *)
(* was requested returned the ground rectangle the model's address mapping *)
(* says (decoded from a position-encoding upstream), and that rectangle is *)
(* the one a client computes from the REAL capabilities (C02 itself).      *)
(***************************************************************************)
EXTENDS TileAddr, Json, IOUtils, TLCExt

Data == JsonDeserialize(IOEnv.TRACE_FILE)
G == [ul |-> Data.grid.ul, bbox |-> Data.grid.bbox, tw |-> Data.grid.tw, th |-> Data.grid.th, res |-> Data.grid.res,
      sn |-> Data.grid.sn, sd |-> Data.grid.sd, ms |-> Data.grid.ms, thr |-> Data.grid.thr,
      sf |-> Data.grid.sf, so |-> Data.grid.so]
Local == ~G.sf /\ ~G.so
T3(q) == <<q[1], q[2], q[3]>>
B4(q) == <<q[1], q[2], q[3], q[4]>>

\* --- capabilities = model ---
TmsCapOK ==
  /\ Data.tms.w = G.tw /\ Data.tms.h = G.th
  /\ Len(Data.tms.sets) = Cardinality(TmsOrders(G))
  /\ \A i \in 1 .. Len(Data.tms.sets) : Data.tms.sets[i][1] = i - 1 /\ Data.tms.sets[i][2] = Res(G, TmsLevel(G, i - 1))
TmsOriginOK == Data.tms.origin[1] = G.bbox[1] /\ Data.tms.origin[2] = G.bbox[2]
WmtsCapOK ==
  /\ Data.wmts.offered = Offered(G, "wmts")
  /\ Data.wmts.offered =>
       /\ Len(Data.wmts.matrices) = NLevels(G)
       /\ \A i \in 1 .. NLevels(G) :
            LET m == Data.wmts.matrices[i] IN
            /\ m.res = Res(G, i - 1) /\ m.tw = G.tw /\ m.th = G.th
            /\ <<m.mw, m.mh>> = GridSize(G, i - 1)
            /\ <<m.tlx, m.tly>> = TopLeft(G, i - 1)

\* WMS-C TileSet of the layer = model (resolutions of the public levels, tile size); its BoundingBox is Data.wmsc.box
WmscCapOK ==
  Data.wmsc.offered =>
    /\ Data.wmsc.w = G.tw /\ Data.wmsc.h = G.th
    /\ Len(Data.wmsc.res) = Cardinality(TmsOrders(G))
    /\ \A i \in 1 .. Len(Data.wmsc.res) : Data.wmsc.res[i] = Res(G, TmsLevel(G, i - 1))
WBox == B4(Data.wmsc.box)

\* --- tiles ---
\* client rectangle computed from the REAL capabilities
RealClient(c) ==
  IF c.f = "wmsc"
    THEN LET r == Data.wmsc.res[c.a[3] + 1] IN
         <<WBox[1] + c.a[1] * Data.wmsc.w * r, WBox[2] + c.a[2] * Data.wmsc.h * r,
           WBox[1] + (c.a[1] + 1) * Data.wmsc.w * r, WBox[2] + (c.a[2] + 1) * Data.wmsc.h * r>>
  ELSE IF c.f \in {"wmts", "tms_nw"}
    THEN LET m == Data.wmts.matrices[c.a[3] + 1] IN
         <<m.tlx + c.a[1] * m.tw * m.res, m.tly - (c.a[2] + 1) * m.th * m.res,
           m.tlx + (c.a[1] + 1) * m.tw * m.res, m.tly - c.a[2] * m.th * m.res>>
    ELSE LET upp == Data.tms.sets[c.a[3] + 1][2] IN
         <<Data.tms.origin[1] + c.a[1] * Data.tms.w * upp, Data.tms.origin[2] + c.a[2] * Data.tms.h * upp,
           Data.tms.origin[1] + (c.a[1] + 1) * Data.tms.w * upp, Data.tms.origin[2] + (c.a[2] + 1) * Data.tms.h * upp>>

\* "kmlbox": the LatLonBox a KML super-overlay document publishes next to the image link of tile a = the tile that link serves
Binding(c) == IF c.f = "kmlbox" THEN B4(c.rect) = Served(G, "kml", T3(c.a))
              ELSE IF c.f = "wmsc" THEN B4(c.rect) = ServedWMSC(G, WBox, T3(c.a))
              ELSE B4(c.rect) = Served(G, c.f, T3(c.a))            \* real address mapping = model
\* an advertised WMS-C address the real service refused: the model predicts exactly these refusals
RefusedBinding(c) == ServedWMSC(G, WBox, T3(c.a)) = NoRect
BadRefused == {i \in 1 .. Len(Data.refused) : ~RefusedBinding(Data.refused[i])}
\* C02 on observed values.  /tiles?origin=nw has no capabilities of its own (compared with the WMTS matrices when
\* WMTS is offered); KML has none either (TMS convention, only meaningful without a profile level shift)
Property(c) == ((c.f # "tms_nw" \/ Data.wmts.offered) /\ (c.f # "kml" \/ Local) /\ c.f # "kmlbox") => B4(c.rect) = RealClient(c)

BadBinding == {i \in 1 .. Len(Data.tiles) : ~Binding(Data.tiles[i])}
BadProperty == {i \in 1 .. Len(Data.tiles) : ~Property(Data.tiles[i])}
BadPropertyOf(f) == {i \in BadProperty : Data.tiles[i].f = f}
WmscModelOK == Data.wmsc.offered => (WmscConsistent(G, WBox) <=> WmscExpect(G, WBox))
First(S) == IF S = {} THEN 0 ELSE CHOOSE i \in S : \A j \in S : i <= j

\* --- pure model statement for this grid: characterisation of when capabilities and addresses agree ---
ModelOK == Local => \A f \in Flavours : CapConsistent(G, G.bbox, f) <=> Expect(G, G.bbox, f)
CrossOK == Local => \A l \in Levels(G) : Offered(G, "wmts") => CrossService(G, l)

ASSUME PrintT(<<"verdict", [tmscap |-> TmsCapOK, tmsorigin |-> TmsOriginOK, wmtscap |-> WmtsCapOK, model |-> ModelOK, cross |-> CrossOK,
                            binding |-> First(BadBinding), nbinding |-> Cardinality(BadBinding),
                            property |-> [f \in Flavours \cup {"wmsc"} |-> First(BadPropertyOf(f))], nproperty |-> Cardinality(BadProperty),
                            wmsccap |-> WmscCapOK, wmscmodel |-> WmscModelOK, wmscexpect |-> (Data.wmsc.offered => WmscExpect(G, WBox)),
                            refusedbinding |-> First(BadRefused),
                            expect_tms |-> Expect(G, G.bbox, "tms")]>>)
VARIABLE dummy
TraceSpec == dummy = 0 /\ [][UNCHANGED dummy]_dummy
=============================================================================
