--------------------------- MODULE Trace_Reseed ---------------------------
(***************************************************************************)
(* Histories of real mapproxy-seed calls (harness/reseed.py): kind of the  *)
(* call (to the end / broken seed configuration / interrupted at the k-th  *)
(* hand-over), its outcome, the tiles fetched; after every step the time   *)
(* of the reseed file, whether the progress file exists, the time stamps   *)
(* of the tiles.                                                           *)
(***************************************************************************)
EXTENDS Reseed, Json, IOUtils, TLCExt

Batch == JsonDeserialize(IOEnv.TRACE_FILE)
NTraces == Len(Batch)
VARIABLES tid, l
tvars == <<vars, tid, l>>
Tr == Batch[tid]
E  == Tr[l]
SetOf(q) == {q[i] : i \in 1 .. Len(q)}

TraceInit == Init /\ tid \in 1 .. NTraces /\ l = 1

Ev ==
  \/ E.kind = "tick" /\ Tick(E.k)
  \/ E.kind = "delete" /\ DeleteF
  \/ E.kind = "error" /\ (CallError \/ CallNoNeed)
  \/ E.kind = "end" /\ (CallEnd \/ CallNoNeed)
  \* an interruption planned for a hand-over that never comes: the call runs to the end
  \/ E.kind = "stop" /\ (CallStop(E.k) \/ CallNoNeed \/ (E.k >= Cardinality(Todo) /\ CallEnd))

Obs ==
  /\ E.op = "call" => (last'.out = E.out /\ last'.seeded = SetOf(E.seeded) /\ ~E.dup)
  /\ F' = E.F /\ P' = E.P
  /\ \A u \in Unit : stamp'[u] = E.stamp[u]

TraceNext ==
  /\ l <= Len(Tr)
  /\ Ev /\ Obs
  /\ l' = l + 1 /\ tid' = tid
  /\ TLCSet(2, [TLCGet(2) EXCEPT ![tid] = IF @ > l THEN @ ELSE l])
  /\ (l = Len(Tr)) => TLCSet(1, TLCGet(1) \cup {tid})

TraceSpec == TraceInit /\ [][TraceNext]_tvars
ASSUME TLCSet(1, {}) /\ TLCSet(2, [t \in 1 .. NTraces |-> 0])
TraceAccepted == PrintT(<<"matched", TLCGet(2)>>) /\ TLCGet(1) = 1 .. NTraces
=============================================================================
