-------------------------- MODULE Trace_WmsCaps --------------------------
(***************************************************************************)
(* GetMap requests sent to a real MapProxy application for every           *)
(* combination the capabilities of each version list (and for values they  *)
(* do not list), with the class of the answer: "image" + content type of a *)
(* picture that decodes in that format with the requested size,            *)
(* "exception" for a service exception document (harness/wmscaps.py).      *)
(***************************************************************************)
EXTENDS WmsCaps, Json, IOUtils, TLCExt

Batch == JsonDeserialize(IOEnv.TRACE_FILE)
NTraces == Len(Batch)
VARIABLES tid, l
tvars == <<vars, tid, l>>
Tr == Batch[tid]
E  == Tr[l]

TraceInit == Init /\ tid \in 1 .. NTraces /\ l = 1
Ev == \/ E.op = "map" /\ GetMap(E.v, E.f, E.s, E.l) /\ last'.out = E.out /\ last'.ct = E.ct
      \/ E.op = "info" /\ GetInfo(E.v, E.l, E.ql) /\ last'.out = E.out

TraceNext ==
  /\ l <= Len(Tr)
  /\ Ev
  /\ l' = l + 1 /\ tid' = tid
  /\ TLCSet(2, [TLCGet(2) EXCEPT ![tid] = IF @ > l THEN @ ELSE l])
  /\ (l = Len(Tr)) => TLCSet(1, TLCGet(1) \cup {tid})

TraceSpec == TraceInit /\ [][TraceNext]_tvars
ASSUME TLCSet(1, {}) /\ TLCSet(2, [t \in 1 .. NTraces |-> 0])
ASSUME PrintT(<<"caps", [configured_is_advertised |-> ConfiguredIsAdvertised, advertised_is_configured |-> AdvertisedIsConfigured]>>)
TraceAccepted == PrintT(<<"matched", TLCGet(2)>>) /\ TLCGet(1) = 1 .. NTraces
=============================================================================
