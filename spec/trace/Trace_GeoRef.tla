--------------------------- MODULE Trace_GeoRef ---------------------------
(***************************************************************************)
(* Observations recorded from a real MapProxyApp on a lattice grid with a  *)
(* position-encoding upstream, validated against GeoRef.tla:               *)
(*  maps:  request, decoded provenance of every output pixel, upstream log *)
(*  infos: client feature-info request and the upstream request it caused  *)
(***************************************************************************)
EXTENDS GeoRef, Json, IOUtils, TLCExt

Data == JsonDeserialize(IOEnv.TRACE_FILE)
G == [ul |-> Data.grid.ul, bbox |-> Data.grid.bbox, tw |-> Data.grid.tw, th |-> Data.grid.th, res |-> Data.grid.res,
      sn |-> Data.grid.sn, sd |-> Data.grid.sd, ms |-> Data.grid.ms, thr |-> Data.grid.thr]
Ext == <<Data.ext[1], Data.ext[2], Data.ext[3], Data.ext[4]>>
Q6(q) == <<q[1], q[2], q[3], q[4], q[5], q[6]>>
O3(o) == <<o[1], o[2], o[3]>>

MapOK(c) ==
  LET q == Q6(c.q) IN
  /\ Len(c.px) = q[5] * q[6]
  \* a request that is exactly one stored tile returns that tile unresampled (pixel-identical to the tile service)
  /\ (IsOneTile(G, q) /\ Contained(Ext, q)) => c.onetile # "differs"
  /\ \A k \in 1 .. Len(c.px) :
        LET i == (k - 1) % q[5]   j == (k - 1) \div q[5] IN
        /\ PixelOK(G, Ext, q, i, j, O3(c.px[k]))
        /\ TRUE
  \* skeleton: every upstream request made for this map request is at the resolution of an admissible level
  /\ Contained(Ext, q) => \A n \in 1 .. Len(c.up) :
        LET u == Q6(c.up[n]) IN
        \E l \in ExpectedLevels(G, q) :
           \/ RxN(u) = Res(G, l) * RxD(u) /\ RyN(u) = Res(G, l) * RyD(u)
           \* a request cut at the edge of the source coverage: the cut rectangle is asked for with a whole number of
           \* pixels (bbox_position_in_image rounds), so its resolution is off by less than one pixel over its length
           \/ /\ u[1] = Ext[1] \/ u[2] = Ext[2] \/ u[3] = Ext[3] \/ u[4] = Ext[4]
              /\ Ext[1] <= u[1] /\ u[3] <= Ext[3] /\ Ext[2] <= u[2] /\ u[4] <= Ext[4]
              /\ Abs((u[3] - u[1]) - Res(G, l) * u[5]) <= Res(G, l)
              /\ Abs((u[4] - u[2]) - Res(G, l) * u[6]) <= Res(G, l)
  /\ (Contained(Ext, q) /\ NoTiles(G, q)) => Len(c.up) = 0

InfoCaseOK(c) == InfoOK(Q6(c.q), c.ci, c.cj, Q6(c.u), c.ui, c.uj)

BadMaps == {i \in 1 .. Len(Data.maps) : ~MapOK(Data.maps[i])}
BadInfos == {i \in 1 .. Len(Data.infos) : ~InfoCaseOK(Data.infos[i])}
First(S) == IF S = {} THEN 0 ELSE CHOOSE i \in S : \A j \in S : i <= j
BadPixels(c) == LET q == Q6(c.q) IN
  {k \in 1 .. Len(c.px) : ~PixelOK(G, Ext, q, (k - 1) % q[5], (k - 1) \div q[5], O3(c.px[k]))}
ASSUME PrintT(<<"verdict", [map |-> First(BadMaps), nmap |-> Cardinality(BadMaps),
                            why |-> IF BadMaps = {} THEN <<>> ELSE
                                 LET c == Data.maps[First(BadMaps)]  q == Q6(c.q) IN
                                 <<Len(c.px) = q[5] * q[6], IsOneTile(G, q), Contained(Ext, q), c.onetile, NoTiles(G, q), Len(c.up)>>,
                            badpx |-> IF BadMaps = {} THEN {} ELSE BadPixels(Data.maps[First(BadMaps)]),
                            info |-> First(BadInfos), ninfo |-> Cardinality(BadInfos)]>>)
VARIABLE dummy
TraceSpec == dummy = 0 /\ [][UNCHANGED dummy]_dummy
=============================================================================
