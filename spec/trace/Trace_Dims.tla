----------------------------- MODULE Trace_Dims -----------------------------
(***************************************************************************)
(* Histories of requests (WMS, WMTS, TMS) with all classes of dimension    *)
(* values recorded from a real MapProxy application with a file cache      *)
(* (harness/dims.py); logged per step: the request, what came back (the    *)
(* value the picture shows, or "refused"), the upstream requests (meta     *)
(* tile and TIME value) and the tiles found in the cache directory         *)
(* afterwards, per dimension directory.                                    *)
(***************************************************************************)
EXTENDS Dims, Json, IOUtils, TLCExt, Sequences

Batch == JsonDeserialize(IOEnv.TRACE_FILE)
NTraces == Len(Batch)
VARIABLES tid, l
tvars == <<vars, tid, l>>
Tr == Batch[tid]
E  == Tr[l]
ToSet(q) == {q[i] : i \in 1 .. Len(q)}

TraceInit == Init /\ tid \in 1 .. NTraces /\ l = 1
TraceNext ==
  /\ l <= Len(Tr)
  /\ \/ /\ E.op = "req"
        /\ Request(E.svc, E.t, E.d)
        /\ last'.out = E.out
        /\ last'.fetched = {<<ToSet(f.meta), f.key>> : f \in ToSet(E.fetched)}
     \/ E.op = "expire" /\ Expire(E.t, E.key)
     \/ /\ E.op = "caps" /\ Caps(E.svc)
        /\ last'.out = E.out /\ last'.listed = ToSet(E.listed) /\ last'.dflt = E.dflt
  /\ store' = {<<p[1], p[2]>> : p \in ToSet(E.store)}
  /\ l' = l + 1 /\ tid' = tid
  /\ TLCSet(2, [TLCGet(2) EXCEPT ![tid] = IF @ > l THEN @ ELSE l])
  /\ (l = Len(Tr)) => TLCSet(1, TLCGet(1) \cup {tid})

TraceSpec == TraceInit /\ [][TraceNext]_tvars
ASSUME TLCSet(1, {}) /\ TLCSet(2, [t \in 1 .. NTraces |-> 0])
TraceAccepted == PrintT(<<"matched", TLCGet(2)>>) /\ TLCGet(1) = 1 .. NTraces
=============================================================================
