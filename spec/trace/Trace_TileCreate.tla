------------------------- MODULE Trace_TileCreate -------------------------
(***************************************************************************)
(* Validates schedules recorded from real TileManagers (baton scheduler)   *)
(* against TileCreate.tla.  One event per cache call, lock operation and   *)
(* upstream call, with arguments, result and the observed state (tiles in  *)
(* the cache directory, upstream requests per meta tile).                  *)
(***************************************************************************)
EXTENDS TileCreate, Json, IOUtils, TLCExt

Batch == JsonDeserialize(IOEnv.TRACE_FILE)
NTraces == Len(Batch)
VARIABLES tid, l
tvars == <<vars, tid, l>>
Tr == Batch[tid]
E  == Tr[l]
SetOf(q) == {q[i] : i \in 1 .. Len(q)}

TraceInit == Init /\ tid \in 1 .. NTraces /\ l = 1

Ev(r) ==
  \/ /\ E.ev = "load_tiles" /\ (BulkLoad(r) \/ LoadAfter(r))
  \/ /\ E.ev = "is_cached"
     /\ \/ CheckTile(r) /\ Wants[r][ci[r]] = E.tile
              /\ E.res = (E.tile \in loaded[r] \/ E.tile \in cache)
        \/ RecheckTile(r) /\ TilesOf[CurMeta(r)][ci[r]] = E.tile /\ E.res = (E.tile \in cache)
  \/ /\ E.ev = "load_tile"                                  \* single tile loads
     /\ \/ LoadUnderLock(r)
        \/ pc[r] = "check" /\ UNCHANGED vars                \* late hit: the tile found by is_cached is loaded
        \/ pc[r] \in {"lock", "respond"} /\ UNCHANGED vars  \* (the same, logged after the last CheckTile)
  \/ /\ E.ev = "lock_ok" /\ TryLock(r)
  \/ /\ E.ev = "lock_busy" /\ pc[r] = "lock" /\ lock[LockName(r, CurMeta(r))] # NoOne /\ UNCHANGED vars
  \/ /\ E.ev = "fetch" /\ Fetch(r) /\ CurMeta(r) = E.meta
  \/ /\ E.ev = "store_tile" /\ StoreOne(r) /\ storing[r][1] = E.tile
  \/ /\ E.ev = "unlock" /\ (Unlock(r) \/ UnlockCached(r) \/ UnlockLoaded(r))
  \/ /\ E.ev = "respond" /\ Respond(r) /\ resp'[r] = SetOf(E.delivered)

ObsOK ==
  /\ cache' = SetOf(E.cache)
  /\ \A m \in Meta : fetches'[m] = E.fetches[m]

TraceNext ==
  /\ l <= Len(Tr)
  /\ Ev(E.r)
  /\ ObsOK
  /\ l' = l + 1 /\ tid' = tid
  /\ TLCSet(2, [TLCGet(2) EXCEPT ![tid] = IF @ > l THEN @ ELSE l])
  /\ (l = Len(Tr)) => TLCSet(1, TLCGet(1) \cup {tid})

TraceSpec == TraceInit /\ [][TraceNext]_tvars
ASSUME TLCSet(1, {}) /\ TLCSet(2, [t \in 1 .. NTraces |-> 0])
TraceAccepted == PrintT(<<"matched", TLCGet(2)>>) /\ TLCGet(1) = 1 .. NTraces
=============================================================================
