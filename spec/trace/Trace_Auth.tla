----------------------------- MODULE Trace_Auth -----------------------------
(***************************************************************************)
(* Validates requests recorded from the real MapProxy WSGI application     *)
(* against Auth.  One event = one request under one callback result:       *)
(*   req  the request (feature, layers, box / tile, query pixel)           *)
(*   cb   the callback result (authorized, layers as rows                  *)
(*        <<name, map, featureinfo, tile, limited_to id>>, glob)           *)
(*   obs  what was observed: status, upstream requests (layer names),      *)
(*        pixel codes per row (0 = unclassifiable colour), feature info    *)
(*        layers, listed layers, lossy (jpeg answer)                       *)
(* The machine of Auth is started with the recorded request and callback   *)
(* result and run to its terminal state; the event is accepted when the    *)
(* observation is one the terminal state allows (Match).  Independently    *)
(* the property (DeniedStaysDark, ClippedOutside, ContentInside, InfoGate) *)
(* is evaluated on every recorded observation itself (ObsOK).  Every event *)
(* carries the geometries its callback result refers to (geoms); the       *)
(* invariant TypeOK checks them to be well formed.  A geometry is either   *)
(* a set of lattice cells {xs, ys, cells} or, for requests recorded in an  *)
(* oblique world (polar stereographic grid, EPSG:4326 areas), a raster     *)
(* {cls, pt, grid} made for this request (see Auth).  In a world whose WMS  *)
(* service declares an extent for the request SRS (constant Ext) a GetMap  *)
(* that reaches beyond the extent is run through both variants of the      *)
(* sub-image geometry (exact in ExactChoices; register 6: accepted by the  *)
(* reference without displacement).  Batch acceptance by                   *)
(* POSTCONDITION; registers 4 / 5 tell which part of the property a bad    *)
(* observation violates (content outside / content missing inside).        *)
(***************************************************************************)
EXTENDS Auth, Json, IOUtils, TLCExt

Batch == JsonDeserialize(IOEnv.TRACE_FILE)
N == Len(Batch)

VARIABLES tid, obs
tvars == <<req, cb, pc, actual, authz, cov, out, path, geo, combine, exact, tid, obs>>

SetOf(s) == {s[i] : i \in 1 .. Len(s)}
Seq2(s) == <<s[1], s[2]>>
Seq3(s) == <<s[1], s[2], s[3]>>
Seq6(s) == <<s[1], s[2], s[3], s[4], s[5], s[6]>>
SeqOf(s) == [i \in 1 .. Len(s) |-> s[i]]

ReqOf(e) == [f |-> e.f, ls |-> SeqOf(e.ls), expl |-> SetOf(e.expl), box |-> Seq6(e.box), pos |-> Seq2(e.pos),
             lay |-> e.lay, tile |-> Seq3(e.tile)]
CbOf(e) == [authorized |-> e.authorized,
            layers |-> [n \in {e.layers[i][1] : i \in 1 .. Len(e.layers)} |->
                          LET row == e.layers[CHOOSE i \in 1 .. Len(e.layers) : e.layers[i][1] = n]
                          IN [map |-> row[2], featureinfo |-> row[3], tile |-> row[4], lim |-> row[5]]],
            glob |-> e.glob]

\* the geometries of the event: object id -> {xs, ys, cells: [[i, j], ...]}  or  {cls: [[c, ...], ...], pt, grid}
GeoOf(gs) == [id \in DOMAIN gs |->
                IF "cls" \in DOMAIN gs[id]
                  THEN [cls |-> [j \in 1 .. Len(gs[id].cls) |-> SeqOf(gs[id].cls[j])], pt |-> gs[id].pt, grid |-> gs[id].grid]
                  ELSE [xs |-> SeqOf(gs[id].xs), ys |-> SeqOf(gs[id].ys),
                        cells |-> {<<gs[id].cells[k][1], gs[id].cells[k][2]>> : k \in 1 .. Len(gs[id].cells)}]]

\* the observation as a response record of Auth (what was seen is what "may" have been produced)
ObsOut(o) == [status |-> o.status, ups_must |-> SetOf(o.ups), ups_may |-> SetOf(o.ups),
              px |-> [j \in 1 .. Len(o.px) |-> [i \in 1 .. Len(o.px[j]) |-> o.px[j][i]]],
              info_must |-> SetOf(o.infos), info_may |-> SetOf(o.infos),
              list_must |-> SetOf(o.listing), list_may |-> SetOf(o.listing)]

Pure(m) == m \in {1, 2, 4, 8, 16}
\* jpeg answers: chroma subsampling and ringing blend colours over two pixels; an unclassifiable colour (code 0) is accepted
\* where the allowed values are not one and the same value in the 5x5 neighbourhood
Smooth(r, i, j) ==
  /\ Pure(r.px[j][i])
  /\ \A jj \in (j - 2) .. (j + 2) : \A ii \in (i - 2) .. (i + 2) :
        (jj \in 1 .. Len(r.px) /\ ii \in 1 .. Len(r.px[j])) => r.px[jj][ii] = r.px[j][i]
Match(o, r) ==
  /\ o.status = r.status
  /\ r.ups_must \subseteq SetOf(o.ups) /\ SetOf(o.ups) \subseteq r.ups_may
  /\ r.info_must \subseteq SetOf(o.infos) /\ SetOf(o.infos) \subseteq r.info_may
  /\ r.list_must \subseteq SetOf(o.listing) /\ SetOf(o.listing) \subseteq r.list_may
  /\ Len(o.px) = Len(r.px)
  /\ \A j \in 1 .. Len(o.px) :
       /\ Len(o.px[j]) = Len(r.px[j])
       /\ \A i \in 1 .. Len(o.px[j]) :
            LET c == o.px[j][i] IN
            \/ c \in {1, 2, 4, 8, 16} /\ (r.px[j][i] \div c) % 2 = 1
            \/ c = 0 /\ o.lossy /\ ~Smooth(r, i, j)

\* the property on the observation alone (req and cb are the recorded ones)
ObsOK(o) == LET r == ObsOut(o) IN
  /\ o.status \in {200, 401, 403}
  /\ DeniedStaysDarkOn(r) /\ ClippedOutsideOn(r) /\ InfoGateOn(r)
  /\ o.lossy \/ ContentInsideOn(r)
  /\ o.lossy => ContentInsideOn([r EXCEPT !.px = [j \in DOMAIN r.px |-> [i \in DOMAIN r.px[j] |->
                                   IF r.px[j][i] = 0 THEN Mask({RefTop}) ELSE r.px[j][i]]]])

InsideOK(o) == LET r == ObsOut(o) IN
  /\ o.lossy \/ ContentInsideOn(r)
  /\ o.lossy => ContentInsideOn([r EXCEPT !.px = [j \in DOMAIN r.px |-> [i \in DOMAIN r.px[j] |->
                                   IF r.px[j][i] = 0 THEN Mask({RefTop}) ELSE r.px[j][i]]]])

\* (the batch is deserialized once: LET values are evaluated at most once)
TraceInit ==
  LET B == Batch IN
  \E t \in 1 .. Len(B) :
    /\ tid = t /\ obs = B[t].obs
    /\ req = ReqOf(B[t].req) /\ cb = CbOf(B[t].cb)
    /\ pc = "start" /\ actual = <<>> /\ authz = [all |-> FALSE, lims |-> <<>>] /\ cov = {} /\ out = NoOut /\ path = <<>>
    /\ geo = GeoOf(B[t].geoms) /\ combine \in CombineChoices
    /\ exact \in (IF Clipped(ReqOf(B[t].req)) THEN ExactChoices ELSE {FALSE})

\* the property is evaluated on the observation in the first step (req and cb are state by then)
TraceNext ==
  /\ Next
  /\ UNCHANGED <<tid, obs>>
  /\ (pc = "start" /\ ~ObsOK(obs)) => TLCSet(2, TLCGet(2) \cup {tid})
  /\ (pc = "start" /\ obs.status = 200 /\ ~ClippedOutsideOn(ObsOut(obs))) => TLCSet(4, TLCGet(4) \cup {tid})
  /\ (pc = "start" /\ obs.status = 200 /\ ~InsideOK(obs)) => TLCSet(5, TLCGet(5) \cup {tid})
  /\ (pc' = "done" /\ Match(obs, out')) =>
        LET k == IF exact THEN 6 ELSE IF combine THEN 3 ELSE 1 IN TLCSet(k, TLCGet(k) \cup {tid})

TraceSpec == TraceInit /\ [][TraceNext]_tvars

ASSUME TLCSet(1, {}) /\ TLCSet(2, {}) /\ TLCSet(3, {}) /\ TLCSet(4, {}) /\ TLCSet(5, {}) /\ TLCSet(6, {})

\* register 1: events accepted by the model of the code as found, 3: by the model with both limits applied,
\* 6: by the reference model whose sub-image is not displaced (GetMap reaching beyond the SRS extent only),
\* 2: events whose observation violates the property (4: content outside an area, 5: content missing well inside)
TraceAccepted ==
  /\ PrintT(<<"accepted", TLCGet(1)>>)
  /\ PrintT(<<"accepted_combined", TLCGet(3)>>)
  /\ PrintT(<<"accepted_exact", TLCGet(6)>>)
  /\ PrintT(<<"obsbad", TLCGet(2)>>)
  /\ PrintT(<<"obsbad_outside", TLCGet(4)>>)
  /\ PrintT(<<"obsbad_inside", TLCGet(5)>>)
  /\ TLCGet(1) \cup TLCGet(3) \cup TLCGet(6) = 1 .. N
  /\ TLCGet(2) = {}
=============================================================================
