--------------------------- MODULE Trace_Cleanup ---------------------------
(***************************************************************************)
(* Validates executions of the real mapproxy.seed.cleanup.cleanup()        *)
(* (recorded by harness/c12.py) as behaviours of Cleanup.tla and evaluates *)
(* the invariants of C12 on every state of every recorded execution.       *)
(*                                                                         *)
(* One trace = one cleanup run on one real cache.  Events (field ev):      *)
(*   backend   the measured feature record of the cache (first event)      *)
(*   store     a, c          tile a stored with time class c               *)
(*   junk      j             non-tile file j created                       *)
(*   configure levels, mode, cov, dry, refresh; res = "task" | "refused";  *)
(*             all, complete, tlevels = what the real CleanupTask carries  *)
(*   strategy  which = "dir" | "bulk" | "walk"  (the procedure cleanup()   *)
(*             entered, seen by interposition)                             *)
(*   raises    level          level_location(level) raised                 *)
(*   cleanup_directory level  + present, junk: listing after the call      *)
(*   bulk      level          + present: listing after the call            *)
(*   process   tiles          batch handed to TileWorkerPool.process       *)
(*   done      present, junk  listing after cleanup() returned             *)
(* Removals by the pool workers are not observable one by one: Worker is   *)
(* a step that consumes no event.                                          *)
(*                                                                         *)
(* Registers: 1 = accepted trace ids, 2 = events matched per trace,        *)
(* 3 = invariants violated in some state of the trace.                     *)
(***************************************************************************)
EXTENDS Cleanup, Json, IOUtils, TLCExt

Batch == JsonDeserialize(IOEnv.TRACE_FILE)
NTraces == Len(Batch)

VARIABLES tid, l
tvars == <<vars, tid, l>>

Tr == Batch[tid]
E  == Tr[l]
Max(a, b) == IF a > b THEN a ELSE b
Range(q) == {q[i] : i \in 1 .. Len(q)}

UnderT(e, z) == UNION {Range(u[2]) : u \in {v \in Range(e.under) : v[1] = z}}
UnderJ(e, z) == UNION {Range(u[3]) : u \in {v \in Range(e.under) : v[1] = z}}
BkOf(e) == [name |-> e.name, hasLevelLoc |-> e.hasLevelLoc, raises |-> Range(e.raises),
            probe |-> e.probe, probeRaises |-> e.probeRaises,
            underT |-> [z \in Levels |-> UnderT(e, z) \cap Addr], underJ |-> [z \in Levels |-> UnderJ(e, z) \cap JunkIds],
            hasBulk |-> e.hasBulk, supportsTs |-> e.supportsTs, storesTs |-> e.storesTs,
            cacheRuleWins |-> e.cacheRuleWins]

TraceInit ==
  /\ tid \in 1 .. NTraces /\ l = 2
  /\ bk = BkOf(Batch[tid][1])
  /\ tiles = [a \in Addr |-> None] /\ junk = {}
  /\ task = NoTask /\ before = [a \in Addr |-> None] /\ junk0 = {} /\ free = {}
  /\ pc = "populate" /\ strategy = "-" /\ todo = <<>> /\ visited = {} /\ queue = <<>>

Obs(e) == Range(e.present) \cap Addr

Step(e) ==
  \/ e.ev = "store" /\ Store(e.a, e.c)
  \/ e.ev = "junk" /\ PutJunk(e.j)
  \/ /\ e.ev = "configure"
     /\ Configure([levels |-> Range(e.levels), mode |-> e.mode, cov |-> e.cov, dry |-> e.dry, refresh |-> e.refresh])
     /\ (e.res = "refused") <=> (pc' = "refused")
     /\ pc' = "choose" => (task'.all = e.all /\ task'.complete = e.complete /\ task'.levels = Range(e.tlevels))
  \/ e.ev = "strategy" /\ ChooseStrategy /\ strategy' = e.which
  \/ e.ev = "raises" /\ LevelLocationRaises(e.level)
  \/ /\ e.ev = "cleanup_directory"
     /\ CleanupDirectoryR(e.level, Present \ Obs(e))
     /\ Present' = Obs(e) /\ junk' = Range(e.junk)
  \/ /\ e.ev = "bulk"
     /\ BulkDeleteR(e.level, Present \ Obs(e))
     /\ Present' = Obs(e)
  \/ /\ e.ev = "process"
     /\ LET h == Range(e.tiles) \cap Addr
        IN  /\ h # {}
            /\ \E m \in {Main(a) : a \in h} : WalkProcessH(m, h)
  \/ /\ e.ev = "done"
     /\ LevelsFinish \/ WalkFinish
     /\ Present = Obs(e) /\ junk = Range(e.junk)

Violated == {n \in {"NeverRemovesProtected", "RemovesAllExpired", "NoCrash", "RefusedUntouched"} :
               \/ n = "NeverRemovesProtected" /\ ~NeverRemovesProtected
               \/ n = "RemovesAllExpired" /\ ~RemovesAllExpired
               \/ n = "NoCrash" /\ ~NoCrash
               \/ n = "RefusedUntouched" /\ ~RefusedUntouched}

TraceNext ==
  /\ l <= Len(Tr)
  /\ tid' = tid
  /\ \/ Step(E) /\ l' = l + 1 /\ TLCSet(2, [TLCGet(2) EXCEPT ![tid] = Max(@, l)])
     \/ Worker /\ l' = l
  /\ TLCSet(3, [TLCGet(3) EXCEPT ![tid] = @ \cup Violated'])
  /\ (l' = Len(Tr) + 1) => TLCSet(1, TLCGet(1) \cup {tid})

TraceSpec == TraceInit /\ [][TraceNext]_tvars

ASSUME TLCSet(1, {}) /\ TLCSet(2, [t \in 1 .. NTraces |-> 1]) /\ TLCSet(3, [t \in 1 .. NTraces |-> {}])

TraceAccepted ==
  /\ PrintT(<<"matched", TLCGet(2)>>)
  /\ PrintT(<<"violated", TLCGet(3)>>)
  /\ TLCGet(1) = 1 .. NTraces
=============================================================================
