-------------------------- MODULE Trace_SeedLock --------------------------
(***************************************************************************)
(* Schedules recorded from the real seed() loop with the real CacheLocker  *)
(* (harness/seedlock.py), validated against SeedLock.tla: one event per    *)
(* SQLite transaction / seed_task / crash, with the complete table read    *)
(* back from the SQLite file after the step.                               *)
(***************************************************************************)
EXTENDS SeedLock, Json, IOUtils, TLCExt

Batch == JsonDeserialize(IOEnv.TRACE_FILE)
NTraces == Len(Batch)
VARIABLES tid, l
tvars == <<vars, tid, l>>
Tr == Batch[tid]
E  == Tr[l]
RowsOf(q) == [i \in 1 .. Len(q) |-> [cache |-> q[i][1], pid |-> q[i][2]]]

TraceInit == Init /\ tid \in 1 .. NTraces /\ l = 1

Ev ==
  \/ /\ E.ev = "attempt" /\ Attempt(E.p)
     /\ last'.got = E.got /\ (E.got => last'.cache = E.cache)
  \/ E.ev = "work" /\ Work(E.p)
  \/ E.ev = "release" /\ Release(E.p)
  \/ E.ev = "crash" /\ Crash(E.p)

TraceNext ==
  /\ l <= Len(Tr)
  /\ Ev
  /\ rows' = RowsOf(E.rows)
  /\ E.done = (pc'[E.p] = "done")
  /\ l' = l + 1 /\ tid' = tid
  /\ TLCSet(2, [TLCGet(2) EXCEPT ![tid] = IF @ > l THEN @ ELSE l])
  /\ (l = Len(Tr)) => TLCSet(1, TLCGet(1) \cup {tid})

TraceSpec == TraceInit /\ [][TraceNext]_tvars
ASSUME TLCSet(1, {}) /\ TLCSet(2, [t \in 1 .. NTraces |-> 0])
TraceAccepted == PrintT(<<"matched", TLCGet(2)>>) /\ TLCGet(1) = 1 .. NTraces
=============================================================================
