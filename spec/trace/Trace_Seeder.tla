---------------------------- MODULE Trace_Seeder ----------------------------
(***************************************************************************)
(* Validates executions recorded from the real seed()/TileWalker/          *)
(* SeedProgress/ProgressLog/ProgressStore against Seeder.tla.              *)
(* WORLD_FILE: the worlds (pyramid relation measured on the real grid and  *)
(* coverage, independent must/mustnot sets); TRACE_FILE: a batch of traces *)
(* [w |-> world index, ev |-> events].  One event per visible spec action: *)
(*   enter(level, box, n)   MetaGrid.get_affected_level_tiles was called   *)
(*   report                 ProgressLog.log_progress returned              *)
(*   step_down(i, n) / step_up / step_forward(n)   SeedProgress calls      *)
(*   process(t)             a (meta) tile was handed to the worker pool    *)
(*   interrupt / continue(old)      (report events carry `stopping`: the  *)
(*                                   graceful stop has been noticed)       *)
(* every event carries the projected state observed after it:              *)
(*   lp, lpl (level_progresses, level_progresses_level),                   *)
(*   saved (identifier read back from the real progress file), nh (number  *)
(*   of hand-overs of the current run).                                    *)
(* The duplicate filter (Dedup) has no observable call: it is a silent     *)
(* step.  Invariants of Seeder are evaluated on every state.               *)
(***************************************************************************)
EXTENDS Seeder, TLCExt

Batch == JsonDeserialize(IOEnv.TRACE_FILE)
NTraces == Len(Batch)

VARIABLES tid, l
tvars == <<vars, tid, l>>

Tr == Batch[tid].ev
E  == Tr[l]

TraceInit ==
  /\ tid \in 1 .. NTraces
  /\ Init
  /\ wid = Batch[tid].w
  /\ l = 1

ObsOK ==
  /\ lp' = E.lp /\ lpl' = E.lpl /\ saved' = E.saved /\ Len(handed') = E.nh

Visible ==
  \/ /\ E.ev = "enter"
     /\ EnterRoot \/ Enter
     /\ stack'[Len(stack')].lvl = E.level /\ stack'[Len(stack')].box = E.box /\ stack'[Len(stack')].total = E.n
  \/ /\ E.ev = "report" /\ ~E.stopping
     /\ \E s \in BOOLEAN : Report(s) \/ (ctl = "final" /\ FinalReport(s))
  \/ /\ E.ev = "report" /\ E.stopping                 \* running() has answered False
     /\ \E s \in BOOLEAN : StopReport(s) \/ (ctl = "final_stop" /\ FinalReport(s))
  \/ /\ E.ev = "step_forward"
     /\ \/ NoIntersect /\ E.n = Top.total
        \/ SkipProcessed /\ E.n = 1
        \/ LeafForward /\ E.n = Top.total
  \/ /\ E.ev = "step_down"
     /\ StepDown /\ E.i = Top.i - 1 /\ E.n = Top.total
  \/ E.ev = "step_up" /\ StepUp
  \/ /\ E.ev = "process"
     /\ Process /\ handed'[Len(handed')] = E.t
  \/ E.ev = "interrupt" /\ (Interrupt \/ StoppedExit)
  \/ /\ E.ev = "continue"
     /\ Continue /\ old' = E.old

TraceNext ==
  /\ l <= Len(Tr)
  /\ \/ /\ Visible
        /\ ObsOK
        /\ l' = l + 1 /\ tid' = tid
        /\ TLCSet(2, [TLCGet(2) EXCEPT ![tid] = Max(@, l)])
        /\ (l = Len(Tr)) => TLCSet(1, TLCGet(1) \cup {tid})
     \/ /\ Dedup
        /\ UNCHANGED <<tid, l>>
     \/ /\ E.ev = "report" /\ E.stopping /\ StopSilent     \* stop at a level that is not seeded: no report of its own
        /\ UNCHANGED <<tid, l>>

TraceSpec == TraceInit /\ [][TraceNext]_tvars

ASSUME TLCSet(1, {}) /\ TLCSet(2, [t \in 1 .. NTraces |-> 0])

TraceAccepted ==
  /\ PrintT(<<"matched", TLCGet(2)>>)
  /\ TLCGet(1) = 1 .. NTraces
=============================================================================
