-------------------------- MODULE Trace_Offline --------------------------
(***************************************************************************)
(* Histories recorded from a real MapProxy application and the real        *)
(* seed_task on one cache directory (harness/offline.py): tile requests    *)
(* while serving (which sources' bands the answered image shows, which     *)
(* upstreams were asked), seed runs, removals; after every step the bands  *)
(* of every stored tile.                                                   *)
(***************************************************************************)
EXTENDS Offline, Sequences, Json, IOUtils, TLCExt

Batch == JsonDeserialize(IOEnv.TRACE_FILE)
NTraces == Len(Batch)
VARIABLES tid, l
tvars == <<vars, tid, l>>
Tr == Batch[tid]
E  == Tr[l]
SetOf(q) == {q[i] : i \in 1 .. Len(q)}

TraceInit == Init /\ tid \in 1 .. NTraces /\ l = 1

StoreMatch ==
  /\ {t \in Tiles : store'[t].cached} = {E.store[i][1] : i \in 1 .. Len(E.store)}
  /\ \A i \in 1 .. Len(E.store) : store'[E.store[i][1]].srcs = SetOf(E.store[i][2])

Ev ==
  \/ E.op = "request" /\ Request(E.t) /\ reply'.pic = SetOf(E.pic) /\ reply'.asked = SetOf(E.asked)
  \/ E.op = "seed" /\ Seed /\ reply'.asked = SetOf(E.asked)
  \/ E.op = "remove" /\ Remove(E.t)

TraceNext ==
  /\ l <= Len(Tr)
  /\ Ev /\ StoreMatch
  /\ l' = l + 1 /\ tid' = tid
  /\ TLCSet(2, [TLCGet(2) EXCEPT ![tid] = IF @ > l THEN @ ELSE l])
  /\ (l = Len(Tr)) => TLCSet(1, TLCGet(1) \cup {tid})

TraceSpec == TraceInit /\ [][TraceNext]_tvars
ASSUME TLCSet(1, {}) /\ TLCSet(2, [t \in 1 .. NTraces |-> 0])
TraceAccepted == PrintT(<<"matched", TLCGet(2)>>) /\ TLCGet(1) = 1 .. NTraces
=============================================================================
