---------------------------- MODULE Trace_Expiry ----------------------------
(***************************************************************************)
(* Validates histories recorded from the real TileManager / seed_task      *)
(* against Expiry.tla.  One event per spec action:                         *)
(*   op     request | seed | tick | touch | set | fail | recover | remove  *)
(*   tiles  (request) requested tile names, in order                       *)
(*   rule   (set, seed) [kind, arg]                                        *)
(*   d      (tick) ticks of half a second                                  *)
(*   kind, served  (request) "ok" with the served versions / "error"       *)
(*   cache  tile -> <<mtime in ticks (-1: absent), version>> read back     *)
(*          through a fresh cache object                                   *)
(*   delta  upstream requests made by this action: <<unit, ok>>            *)
(*   vc     1: every version of the upstream has a picture of its own;     *)
(*          2: versions 2k and 2k + 1 have the same picture (a refresh     *)
(*          often brings the picture that is stored already) - the         *)
(*          versions read from pictures are the odd one of the two         *)
(* The batch is a JSON array of traces; acceptance = every trace consumed  *)
(* to its end (POSTCONDITION); the action properties of Expiry are         *)
(* evaluated on every recorded step (PROPERTY lines of the cfg).           *)
(***************************************************************************)
EXTENDS Expiry, Json, IOUtils, TLCExt

Batch == JsonDeserialize(IOEnv.TRACE_FILE)
NTraces == Len(Batch)

VARIABLES tid, l
tvars == <<cache, rule, fileM, up, clock, log, reply, steps, tid, l>>

Tr == Batch[tid]
E  == Tr[l]
Max(a, b) == IF a > b THEN a ELSE b
RuleOf(j) == [kind |-> j.kind, arg |-> j.arg]
Rep(v) == IF E.vc = 2 /\ v > 0 THEN (v \div 2) * 2 + 1 ELSE v

TraceInit == Init /\ tid \in 1 .. NTraces /\ l = 1

Op ==
  \/ E.op = "request" /\ Request(E.tiles) /\ reply'.kind = E.kind
     /\ [i \in DOMAIN reply'.served |-> Rep(reply'.served[i])] = E.served
  \/ E.op = "seed"    /\ SeedRefresh(RuleOf(E.rule))
  \/ E.op = "tick"    /\ Tick(E.d)
  \/ E.op = "touch"   /\ TouchThresholdFile
  \/ E.op = "set"     /\ Configure(RuleOf(E.rule))
  \/ E.op = "fail"    /\ UpstreamFail
  \/ E.op = "recover" /\ UpstreamRecover
  \/ E.op = "remove"  /\ RemoveTile(E.tile)
  \/ E.op = "backdate" /\ Backdate(E.tile)

ObsOK ==
  /\ \A t \in Tiles : cache'[t].m = E.cache[t][1] /\ Rep(cache'[t].v) = E.cache[t][2]
  /\ Len(log') = Len(log) + Len(E.delta)
  /\ \A i \in 1 .. Len(E.delta) : log'[Len(log) + i].u = E.delta[i][1] /\ log'[Len(log) + i].ok = E.delta[i][2]

TraceNext ==
  /\ l <= Len(Tr)
  /\ Op
  /\ ObsOK
  /\ l' = l + 1 /\ tid' = tid
  /\ TLCSet(2, [TLCGet(2) EXCEPT ![tid] = Max(@, l)])
  /\ (l = Len(Tr)) => TLCSet(1, TLCGet(1) \cup {tid})

TraceSpec == TraceInit /\ [][TraceNext]_tvars

ASSUME TLCSet(1, {}) /\ TLCSet(2, [t \in 1 .. NTraces |-> 0])

TraceAccepted ==
  /\ PrintT(<<"matched", TLCGet(2)>>)
  /\ TLCGet(1) = 1 .. NTraces
=============================================================================
