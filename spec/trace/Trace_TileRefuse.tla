------------------------- MODULE Trace_TileRefuse -------------------------
(***************************************************************************)
(* Validates request sequences recorded from the real MapProxy WSGI        *)
(* application against TileRefuse.  One event per observable step:         *)
(*   tile / map  - a request arrives (flavour, address tokens, ...)        *)
(*   fetch       - an upstream request for a meta block (HTTPClient.open)  *)
(*   store       - a cache write (store_tile of the cache object)          *)
(*   respond     - the HTTP response (class, status, reason) and the cache *)
(*                 content read back from the cache directory              *)
(* RenderLayer (the next WMS layer starts) and Forget are not observable   *)
(* and are taken silently.  A batch of traces is validated per TLC run;    *)
(* acceptance is the POSTCONDITION.                                        *)
(***************************************************************************)
EXTENDS TileRefuse, Json, IOUtils, TLCExt

Batch == JsonDeserialize(IOEnv.TRACE_FILE)
NTraces == Len(Batch)

VARIABLES tid, l
tvars == <<cached, pend, ups, wrs, reply, nreq, tid, l>>

Tr == Batch[tid]
E  == Tr[l]

SetOf(s) == {s[i] : i \in 1 .. Len(s)}
Block4(b) == <<b[1], b[2], b[3], b[4]>>

TraceInit == Init /\ tid \in 1 .. NTraces /\ l = 1

Event ==
  \/ E.ev = "tile"    /\ TileRequest(E.f, E.z, E.x, E.y, E.fmt, E.d)
  \/ E.ev = "map"     /\ MapRequest(E.ls, E.L, E.px, E.py, E.pw, E.ph)
  \/ E.ev = "fetch"   /\ \E b \in pend.need : Block4(b) = Block4(E.b) /\ Fetch(b)
  \/ E.ev = "store"   /\ Store(<<E.a[1], E.a[2], E.a[3], E.a[4], E.a[5]>>)
  \/ E.ev = "respond" /\ Respond
                      /\ reply'.cls = E.cls
                      \* which error a refused request gets is not part of the property
                      /\ (E.cls # "error" => (reply'.status = E.status /\ reply'.reason = E.reason))
                      /\ cached = SetOf(E.cached)

Consume ==
  /\ l <= Len(Tr)
  /\ Event
  /\ l' = l + 1 /\ tid' = tid
  /\ TLCSet(2, [TLCGet(2) EXCEPT ![tid] = IF @ > l THEN @ ELSE l])
  /\ (l = Len(Tr)) => TLCSet(1, TLCGet(1) \cup {tid})

Silent == (RenderLayer \/ Forget) /\ UNCHANGED <<tid, l>>

TraceNext == Consume \/ Silent

TraceSpec == TraceInit /\ [][TraceNext]_tvars

ASSUME TLCSet(1, {}) /\ TLCSet(2, [t \in 1 .. NTraces |-> 0])

TraceAccepted ==
  /\ PrintT(<<"matched", TLCGet(2)>>)
  /\ TLCGet(1) = 1 .. NTraces
=============================================================================
