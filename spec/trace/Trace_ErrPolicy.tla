-------------------------- MODULE Trace_ErrPolicy --------------------------
(***************************************************************************)
(* Histories recorded from a real MapProxy application                     *)
(* (harness/errpolicy.py): tile requests (status, number of the upstream   *)
(* answer shown in the answered picture, 0 = fill image, whether the       *)
(* upstream was asked), the refresh threshold moving past everything       *)
(* stored, upstream failure and recovery; after every step version and     *)
(* staleness of every stored tile.                                         *)
(***************************************************************************)
EXTENDS ErrPolicy, Sequences, Json, IOUtils, TLCExt

Batch == JsonDeserialize(IOEnv.TRACE_FILE)
NTraces == Len(Batch)
VARIABLES tid, l
tvars == <<vars, tid, l>>
Tr == Batch[tid]
E  == Tr[l]

TraceInit == Init /\ tid \in 1 .. NTraces /\ l = 1

StoreMatch ==
  /\ {t \in Tiles : store'[t].there} = {E.store[i][1] : i \in 1 .. Len(E.store)}
  /\ \A i \in 1 .. Len(E.store) : store'[E.store[i][1]].ver = E.store[i][2] /\ store'[E.store[i][1]].stale = E.store[i][3]

Ev ==
  \/ /\ E.op = "request" /\ Request(E.t)
     /\ reply'.status = E.status /\ reply'.asked = E.asked /\ (E.status = "ok" => reply'.ver = E.ver)
  \/ E.op = "expire" /\ ExpireAll
  \/ E.op = "remove" /\ Remove(E.t)
  \/ E.op = "fail" /\ Fail
  \/ E.op = "recover" /\ Recover

TraceNext ==
  /\ l <= Len(Tr)
  /\ Ev /\ StoreMatch
  /\ l' = l + 1 /\ tid' = tid
  /\ TLCSet(2, [TLCGet(2) EXCEPT ![tid] = IF @ > l THEN @ ELSE l])
  /\ (l = Len(Tr)) => TLCSet(1, TLCGet(1) \cup {tid})

TraceSpec == TraceInit /\ [][TraceNext]_tvars
ASSUME TLCSet(1, {}) /\ TLCSet(2, [t \in 1 .. NTraces |-> 0])
TraceAccepted == PrintT(<<"matched", TLCGet(2)>>) /\ TLCGet(1) = 1 .. NTraces
=============================================================================
