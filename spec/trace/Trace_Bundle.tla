---------------------------- MODULE Trace_Bundle ----------------------------
(***************************************************************************)
(* Validates histories recorded from the real CompactCacheV1/V2 (and the   *)
(* real defrag function) against Bundle.tla.  Every event carries the      *)
(* state of the files as parsed by an independent byte-level parser.       *)
(***************************************************************************)
EXTENDS Bundle, Json, IOUtils, TLCExt

Batch == JsonDeserialize(IOEnv.TRACE_FILE)
NTraces == Len(Batch)

VARIABLES tid, l
tvars == <<vars, tid, l>>
Tr == Batch[tid]
E  == Tr[l]

TraceInit == Init /\ tid \in 1 .. NTraces /\ l = 1

PairSeq(ps) == [i \in 1 .. Len(ps) |-> <<ps[i][1], ps[i][2]>>]

Op ==
  \/ E.op = "store"  /\ StoreBulk(E.b, PairSeq(E.ps))
  \/ E.op = "remove" /\ Remove(E.b, E.s)
  \/ E.op = "load"   /\ Load(E.b, E.s) /\ reply'.val[1] = E.val
  \/ E.op = "defrag" /\ Defrag(E.mb, E.mp)

\* parsed files = model state
ObsOK ==
  \A b \in BundleId :
    LET o == E.obs[b] IN
    /\ present'[b] = o.present
    /\ haveidx'[b] = o.haveindex
    /\ o.present =>
         /\ fsize'[b] = o.fsize
         /\ hmax'[b] = o.hmax /\ hsize'[b] = o.hsize
         /\ (Version = 1 => hcount'[b] = o.hcount)
         /\ Len(recs'[b]) = Len(o.recs)
         /\ \A i \in 1 .. Len(o.recs) : recs'[b][i] = <<o.recs[i][1], o.recs[i][2], o.recs[i][3]>>
    /\ (o.present \/ o.haveindex) => \A s \in Slot : index'[b][s] = <<o.index[s][1], o.index[s][2]>>
    /\ o.foreign = 0                    \* no index entry outside the slots in use was touched

TraceNext ==
  /\ l <= Len(Tr)
  /\ Op
  /\ ObsOK
  /\ l' = l + 1 /\ tid' = tid
  /\ TLCSet(2, [TLCGet(2) EXCEPT ![tid] = IF @ > l THEN @ ELSE l])
  /\ (l = Len(Tr)) => TLCSet(1, TLCGet(1) \cup {tid})

TraceSpec == TraceInit /\ [][TraceNext]_tvars
ASSUME TLCSet(1, {}) /\ TLCSet(2, [t \in 1 .. NTraces |-> 0])
TraceAccepted == PrintT(<<"matched", TLCGet(2)>>) /\ TLCGet(1) = 1 .. NTraces
=============================================================================
