----------------------------- MODULE Trace_Pool -----------------------------
(***************************************************************************)
(* Validates executions recorded from the real mapproxy.util.async_        *)
(* ThreadPool under the baton scheduler against Pool.tla.  One JSON file   *)
(* holds a batch of recorded calls; every call has a header (number of     *)
(* items, failing items, mode, pool size, entry point) and one event per   *)
(* scheduler step: who moved, the Queue operation (or item call / thread   *)
(* start) that was executed, and the projected state observed after it     *)
(* (both queues, unfinished_tasks, what the caller received so far, the    *)
(* exception that reached the caller, where every worker stands).          *)
(* A recorded execution may hold several calls on one pool object: the     *)
(* event "newcall" carries the header of the next call.                    *)
(***************************************************************************)
EXTENDS Pool, Json, IOUtils, TLCExt

Batch == JsonDeserialize(IOEnv.TRACE_FILE)
NTraces == Len(Batch)

VARIABLES tid, l
tvars == <<vars, tid, l>>

Tr == Batch[tid]
E  == Tr.ev[l]

Max(a, b) == IF a > b THEN a ELSE b
ToSet(s) == {s[i] : i \in 1 .. Len(s)}

TraceInit ==
  /\ tid \in 1 .. NTraces
  /\ l = 1
  /\ n = Tr.n /\ fail = ToSet(Tr.fail) /\ raiseMode = Tr.raise /\ size = Tr.size /\ entry = Tr.entry
  /\ n \in MinN .. MaxN /\ size \in Sizes /\ entry \in Entries /\ fail \subseteq Items(n)
  /\ cpc = "call" /\ ci = 0 /\ phase = 0 /\ culprit = None /\ buf = {} /\ nextR = 0 /\ out = <<>> /\ raised = None
  /\ taskQ = <<>> /\ unfinished = 0 /\ resultQ = <<>>
  /\ wn = [k \in WLoc |-> 0] /\ hold = [i \in Ids |-> "-"]
  /\ base = 0 /\ calls = 1 /\ threads = 0

\* the operation the caller is about to execute at each program point
COp ==
  CASE cpc = "call" -> <<"start", "-">>
    [] cpc \in {"single", "seq"} -> <<"call", "-">>
    [] cpc \in {"put", "putNone"} -> <<"put", "task">>
    [] cpc \in {"emptyT", "fEmptyT"} -> <<"empty", "task">>
    [] cpc \in {"emptyR", "fEmptyR"} -> <<"empty", "result">>
    [] cpc = "get" -> <<"get", "result">>
    [] cpc = "join" -> <<"join", "task">>
    [] cpc = "fGetT" -> <<"get_nowait", "task">>
    [] cpc = "fDoneT" -> <<"task_done", "task">>
    [] cpc = "fGetR" -> <<"get_nowait", "result">>
    [] cpc = "fDoneR" -> <<"task_done", "result">>
    [] cpc = "done" -> <<"newcall", "-">>
    [] OTHER -> <<"-", "-">>

Ev ==
  \/ /\ E.c = "consumer"
     /\ <<E.op, E.q>> = COp
     /\ IF E.op = "newcall" THEN NewCallWith(E.call.n, ToSet(E.call.fail), E.call.raise, E.call.entry) ELSE Consumer
  \/ /\ E.c # "consumer"
     /\ \/ E.op = "start" /\ WStart
        \/ E.op = "get" /\ E.q = "task" /\ (WGetTask \/ WGetNone)
        \/ E.op = "put" /\ E.q = "result" /\ E.item >= 0 /\ WPut(E.item)
        \/ E.op = "task_done" /\ E.q = "task" /\ E.item >= 0 /\ WTaskDone(E.item)
        \/ E.op = "task_done" /\ E.q = "task" /\ E.item < 0 /\ WExit

ObsOK ==   \* projected state logged with the event = state of the model after the step
  /\ taskQ' = E.tq
  /\ resultQ' = E.rq
  /\ unfinished' = E.unf
  /\ E.hasout => out' = E.out
  /\ raised' = E.raised
  /\ (cpc' = "done") = E.done
  /\ wn' = [k \in WLoc |-> E.wn[k]]
  /\ \A i \in Ids : hold'[i] = (IF i < Len(E.hold) THEN E.hold[i + 1] ELSE "-")

TraceNext ==
  /\ l <= Len(Tr.ev)
  /\ Ev
  /\ ObsOK
  /\ l' = l + 1
  /\ tid' = tid
  /\ TLCSet(2, [TLCGet(2) EXCEPT ![tid] = Max(@, l)])
  /\ (l = Len(Tr.ev)) => TLCSet(1, TLCGet(1) \cup {tid})

TraceSpec == TraceInit /\ [][TraceNext]_tvars

ASSUME TLCSet(1, {}) /\ TLCSet(2, [t \in 1 .. NTraces |-> 0])

\* a recorded call that stopped because the scheduler found nobody able to move ends in a state that the model
\* must agree is quiescent; the invariant StuckFree then fails on it
TraceAccepted ==
  /\ PrintT(<<"matched", TLCGet(2)>>)
  /\ TLCGet(1) = 1 .. NTraces
=============================================================================
