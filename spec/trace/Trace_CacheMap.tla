--------------------------- MODULE Trace_CacheMap ---------------------------
(***************************************************************************)
(* Validates histories recorded from real cache backends against CacheMap. *)
(* Each event: op, args (address names; for store_bulk pairs), val (what   *)
(* the backend returned per requested address) and obs (the full projected *)
(* map address -> bytes read back through a fresh cache object).           *)
(***************************************************************************)
EXTENDS CacheMap, Json, IOUtils, TLCExt, TLC

Batch == JsonDeserialize(IOEnv.TRACE_FILE)
NTraces == Len(Batch)

VARIABLES tid, l
tvars == <<store, reply, tid, l>>

Tr == Batch[tid]
E  == Tr[l]
Max(a, b) == IF a > b THEN a ELSE b

TraceInit == Init /\ tid \in 1 .. NTraces /\ l = 1

Pairs(ps) == [i \in 1 .. Len(ps) |-> <<ps[i][1], ps[i][2]>>]

Op ==
  \/ E.op = "store"      /\ Store(E.args[1], E.args[2])
  \/ E.op = "store_bulk" /\ StoreBulk(Pairs(E.args))
  \/ E.op = "remove"     /\ Remove(E.args[1])
  \/ E.op = "remove_bulk" /\ RemoveBulk(E.args)
  \/ E.op = "load"       /\ Load(E.args[1]) /\ reply'.val = E.val
  \/ E.op = "load_bulk"  /\ LoadBulk(E.args) /\ reply'.val = E.val
  \/ E.op = "is_cached"  /\ IsCached(E.args[1]) /\ reply'.val = E.val

ObsOK == \A a \in Addr : store'[a] = E.obs[a]

TraceNext ==
  /\ l <= Len(Tr)
  /\ Op
  /\ ObsOK
  /\ l' = l + 1 /\ tid' = tid
  /\ TLCSet(2, [TLCGet(2) EXCEPT ![tid] = Max(@, l)])
  /\ (l = Len(Tr)) => TLCSet(1, TLCGet(1) \cup {tid})

TraceSpec == TraceInit /\ [][TraceNext]_tvars

ASSUME TLCSet(1, {}) /\ TLCSet(2, [t \in 1 .. NTraces |-> 0])

TraceAccepted ==
  /\ PrintT(<<"matched", TLCGet(2)>>)
  /\ TLCGet(1) = 1 .. NTraces
=============================================================================
