--------------------------- MODULE Trace_Dispatch ---------------------------
(***************************************************************************)
(* Validates requests recorded from the real WSGI application against      *)
(* Dispatch.  One event = one request: op, p (the class vector the driver  *)
(* concretised) and obs (the projected response).  The machine of Dispatch *)
(* is started with the recorded vector; the event is accepted when one of  *)
(* its terminal states has the observed response class.  The property is   *)
(* evaluated on every recorded observation (ObsOK) without stopping at the *)
(* first failure.  Batch acceptance by POSTCONDITION.                      *)
(***************************************************************************)
EXTENDS Dispatch, Json, IOUtils, TLCExt

Batch == JsonDeserialize(IOEnv.TRACE_FILE)
N == Len(Batch)

VARIABLE tid
tvars == <<req, pc, out, resp, tid>>

Range(s) == {s[n] : n \in DOMAIN s}
EchoSet(o) == {<<e[1], e[2]>> : e \in Range(o.echo)}
BadSet(o) == Range(o.bad)

\* the observed response is the response class r of the model
Match(o, r) ==
  /\ o.raised = r.raised
  /\ \/ o.raised = "yes"
     \/ /\ o.st = r.st /\ o.ct = r.ct /\ o.kind = r.kind /\ o.skel = r.skel /\ o.code = r.code /\ o.size = r.size
        /\ EchoSet(o) \subseteq {<<s[1], s[3]>> : s \in r.slots}
        /\ BadSet(o) = r.bad

\* the property on the observation alone
ObsOK(o) ==
  /\ o.raised = "no"                                   \* AlwaysResponds
  /\ o.st \in 200 .. 599
  /\ BadSet(o) = {}                                    \* header syntax, MarkupFixed, NoLeak, image decodes as declared
  /\ \A e \in EchoSet(o) : e[2] \notin {"markup", "comment"}
  /\ o.kind = "image" => o.size # "none"

TraceInit ==
  /\ tid \in 1 .. N
  /\ req = [op |-> Batch[tid].op, p |-> Batch[tid].p]
  /\ pc = "wsgiapp" /\ out = None /\ resp = NoResp
  /\ (~ObsOK(Batch[tid].obs)) => TLCSet(2, TLCGet(2) \cup {tid})

TraceNext ==
  /\ Next
  /\ tid' = tid
  /\ (pc' = "sent" /\ Match(Batch[tid].obs, resp')) => TLCSet(1, TLCGet(1) \cup {tid})

TraceSpec == TraceInit /\ [][TraceNext]_tvars

ASSUME TLCSet(1, {}) /\ TLCSet(2, {})

TraceAccepted ==
  /\ PrintT(<<"accepted", TLCGet(1)>>)
  /\ PrintT(<<"obsbad", TLCGet(2)>>)
  /\ TLCGet(1) = 1 .. N
  /\ TLCGet(2) = {}
=============================================================================
