---------------------------- MODULE Trace_Source ----------------------------
(***************************************************************************)
(* Validates executions recorded from the real MapProxy against Source.    *)
(* One trace is one WMS GetMap request on layers with direct sources, or   *)
(* one get_map call of a source made by a tile manager.  Events:           *)
(*   map     the request as sent by the driver (layer names, query, all    *)
(*           extra request parameters)                                     *)
(*   render  LayerRenderer.render: the sources handed over and the query's *)
(*           dimensions (observed)                                         *)
(*   call    get_map of one source outside a LayerRenderer (observed)      *)
(*   getmap  get_map of a (possibly combined) source begins: its layers    *)
(*           and the SRS code the query carries at that moment             *)
(*   result  get_map ends: outcome class and the URLs given to             *)
(*           HTTPClient.open in between, parsed                            *)
(*   done    the request / call is over                                    *)
(* Gates and negotiation are internal steps of the model (silent).         *)
(* Reprojected requests carry the verdict of the pyproj oracle about       *)
(* "bbox inside the coverage extent" (inext); OracleInExtent evaluates it. *)
(* A batch of traces is validated per TLC run; acceptance is the           *)
(* POSTCONDITION.                                                          *)
(***************************************************************************)
EXTENDS Source, Json, IOUtils, TLCExt

Batch == JsonDeserialize(IOEnv.TRACE_FILE)
NTraces == Len(Batch)

VARIABLES tid, l
tvars == <<pc, q, todo, cur, sent, outs, case, tid, l>>

Tr == Batch[tid]
E  == Tr[l]

SetOf(s) == {s[i] : i \in 1 .. Len(s)}

Query(j) == [srs |-> j.srs, bbox |-> j.bbox, size |-> j.size, fmt |-> j.fmt, dims |-> SetOf(j.dims),
             exact |-> j.exact, rel |-> j.rel]
Req(j)   == [kind |-> j.kind, m |-> j.m, host |-> j.host, srs |-> j.srs, fmt |-> j.fmt, exact |-> j.exact,
             bbox |-> j.bbox, size |-> j.size, dims |-> SetOf(j.dims), tile |-> j.tile]
Reqs(js) == [i \in 1 .. Len(js) |-> Req(js[i])]

OutClass(o) == IF o \in {"blank:res", "blank:cov", "blank:size"} THEN "blank" ELSE o

TraceInit == Init /\ tid \in 1 .. NTraces /\ l = 1

Finishing == TileCheck \/ ResGate \/ CovGate \/ Extent \/ TileGet
Internal  == TileCheck \/ ResGate \/ CovGate \/ Negotiate

Event ==
  \/ E.ev = "map"    /\ MapRequest(E.l, Query(E.q))
  \/ E.ev = "render" /\ FilterLayers /\ todo' = E.srcs /\ q'.dims = SetOf(E.dims)
  \/ E.ev = "call"   /\ Call(E.s, Query(E.q))
  \/ E.ev = "getmap" /\ StartUnit /\ cur'.m = E.m /\ q.srs = E.srs
  \/ E.ev = "result" /\ Finishing /\ pc' = "next"
                     /\ OutClass(outs'[Len(outs')]) = E.out
                     /\ sent' = sent \o Reqs(E.sent)
  \/ E.ev = "done"   /\ Done

Consume ==
  /\ l <= Len(Tr)
  /\ Event
  /\ l' = l + 1 /\ tid' = tid
  /\ TLCSet(2, [TLCGet(2) EXCEPT ![tid] = IF @ > l THEN @ ELSE l])
  /\ (l = Len(Tr)) => TLCSet(1, TLCGet(1) \cup {tid})

Silent == /\ (Combine \/ (Internal /\ pc' # "next"))
          /\ UNCHANGED <<tid, l>>

TraceNext == Consume \/ Silent

TraceSpec == TraceInit /\ [][TraceNext]_tvars

\* the oracle's verdict on every request observed so far
OracleInExtent ==
  \A k \in 1 .. l - 1 : (k <= Len(Tr) /\ Tr[k].ev = "result") =>
     \A i \in 1 .. Len(Tr[k].sent) : Tr[k].sent[i].inext

ASSUME TLCSet(1, {}) /\ TLCSet(2, [t \in 1 .. NTraces |-> 0])

TraceAccepted ==
  /\ PrintT(<<"matched", TLCGet(2)>>)
  /\ TLCGet(1) = 1 .. NTraces
=============================================================================
