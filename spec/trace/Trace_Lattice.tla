--------------------------- MODULE Trace_Lattice ---------------------------
(***************************************************************************)
(* For one grid: (1) the declarative statements of C03 hold for the        *)
(* operational transcription on every case of the batch, and (2) what the  *)
(* real TileGrid returned for the same case (exact regime `a`, awkward     *)
(* similarity regime `b`, both mapped back to lattice integers) equals the *)
(* transcription.  The batch is a JSON file written by the harness.        *)
(***************************************************************************)
EXTENDS Lattice, Json, IOUtils, TLCExt

Data == JsonDeserialize(IOEnv.TRACE_FILE)
G == [ul |-> Data.grid.ul, bbox |-> Data.grid.bbox, tw |-> Data.grid.tw, th |-> Data.grid.th, res |-> Data.grid.res,
      sn |-> Data.grid.sn, sd |-> Data.grid.sd, ms |-> Data.grid.ms, thr |-> Data.grid.thr]

T3(q) == <<q[1], q[2], q[3]>>
B4(q) == <<q[1], q[2], q[3], q[4]>>
TileSeq(q) == [k \in 1 .. Len(q) |-> T3(q[k])]

\* --- grid level ---
GridOK ==
  /\ \A l \in Levels(G) :
        /\ <<Data.sizes[l + 1][1], Data.sizes[l + 1][2]>> = GridSize(G, l)
        /\ NeighboursShareEdges(G, l) /\ CoversBBox(G, l) /\ NoSuperfluousTiles(G, l)
        /\ FlipInvolution(G, l) /\ FlipPreservesBBox(G, l)
  /\ Data.supports_ll = SupportsOrigin(G, FALSE)
  /\ Data.supports_ul = SupportsOrigin(G, TRUE)

\* --- points: [p: [x, y, l], a: tile, b: tile] ---
PointOK(c) ==
  LET px == c.p[1]  py == c.p[2]  l == c.p[3] IN
  /\ PointInItsTile(G, px, py, l)
  /\ T3(c.a) = TileAt(G, px, py, l)
  /\ InClosed(px, py, TileBBox(G, T3(c.b)))            \* awkward regime: on an edge either neighbour is right

\* --- tiles: [t: [x, y, l], a: bbox, b: bbox, fa: flipped tile] ---
TileOK(c) ==
  /\ B4(c.a) = TileBBox(G, T3(c.t))
  /\ B4(c.b) = TileBBox(G, T3(c.t))
  /\ T3(c.fa) = FlipTile(G, T3(c.t))

\* --- rectangles: [r: bbox, l: level, a: [bbox, nx, ny, tiles], b: same or "skip"] ---
SameAffected(o, a) ==
  /\ o.nx = a.nx /\ o.ny = a.ny
  /\ TileSeq(o.tiles) = a.tiles
  /\ (a.nx >= 1 /\ a.ny >= 1) => B4(o.bbox) = a.bbox
RectOK(c) ==
  LET a == Affected(G, B4(c.r), c.l) IN
  /\ AffectedOK(G, B4(c.r), c.l)
  /\ SameAffected(c.a, a)
  /\ c.bskip \/ SameAffected(c.b, a)

\* --- resolutions: [rn, rd, a: level, b: level or -1 when skipped (exact tie)] ---
ResOK(c) ==
  /\ ClosestLevelOK(G, c.rn, c.rd)
  /\ c.a = ClosestLevelWith(G, c.rn, c.rd, 1)
  /\ c.b = -1 \/ c.b \in ClosestLevels(G, c.rn, c.rd)

\* --- request rectangles with an output size: [r: bbox, rn, rd, a: level or -1 (NoTiles), b: level, -1, or -2 when skipped] ---
BBLOK(c) ==
  /\ BBoxLevelOK(G, B4(c.r), c.rn, c.rd)
  /\ c.a = BBoxLevelWith(G, B4(c.r), c.rn, c.rd, 1)
  /\ c.b = -2 \/ c.b \in BBoxLevels(G, B4(c.r), c.rn, c.rd)

Bad(kind, S, P(_)) == {i \in 1 .. Len(S) : ~P(S[i])}
FirstBad(S, P(_)) == LET b == Bad("x", S, P) IN IF b = {} THEN 0 ELSE CHOOSE i \in b : \A j \in b : i <= j

Verdict ==
  [grid |-> GridOK,
   point |-> FirstBad(Data.points, PointOK),
   tile |-> FirstBad(Data.tiles, TileOK),
   rect |-> FirstBad(Data.rects, RectOK),
   res |-> FirstBad(Data.ress, ResOK),
   bbl |-> FirstBad(Data.bbls, BBLOK)]

ASSUME PrintT(<<"verdict", Verdict>>)

VARIABLE dummy
TraceSpec == dummy = 0 /\ [][UNCHANGED dummy]_dummy
=============================================================================
