------------------------- MODULE Trace_PathSafety -------------------------
(***************************************************************************)
(* Validates requests recorded from the real WSGI application against      *)
(* PathSafety.  One trace = one request: the harness logs one event per    *)
(* pipeline action with the part of the request that action consumes, the  *)
(* events "lock" and "store" only when the application served the request, *)
(* and finally "done" with what was observed: the outcome class and every  *)
(* path the interpreter touched below the sandbox while the request was    *)
(* served (audit events; raw, not normalised segment sequences).           *)
(*                                                                         *)
(* Accepted iff the model takes the same decisions (a refused request is   *)
(* refused at "done", a served one passes Lock and Store) and every        *)
(* touched path is one the model computes for this request: a leaf must be *)
(* equal to a lock name / location of one of the candidate coordinates,    *)
(* a directory must be a prefix of one.  The safety predicate of C09 is    *)
(* evaluated on the OBSERVED paths of every accepted trace (register 3).   *)
(***************************************************************************)
EXTENDS PathSafety, Json, IOUtils, TLCExt

Batch == JsonDeserialize(IOEnv.TRACE_FILE)
NTraces == Len(Batch)

VARIABLES tid, l, cands
tvars == <<vars, tid, l, cands>>

Tr == Batch[tid]
E  == Tr[l]
Max(a, b) == IF a > b THEN a ELSE b
Range(s) == {s[i] : i \in 1 .. Len(s)}

TraceInit == Init /\ tid \in 1 .. NTraces /\ l = 1 /\ cands = {}

\* [[key, value], ...] -> function key -> value
DsOf(pairs) == [k \in {pairs[i][1] : i \in 1 .. Len(pairs)} |->
                  pairs[CHOOSE i \in 1 .. Len(pairs) : pairs[i][1] = k][2]]

IsPrefix(p, q) == Len(p) <= Len(q) /\ SubSeq(q, 1, Len(p)) = p

ModelPaths(kind) == {t.path : t \in {u \in touched : u.kind = kind}}
AllModelPaths == {t.path : t \in touched}

Predicted(t) ==
  CASE t.op = "leaf" -> t.path \in ModelPaths(t.kind)
    [] t.op = "dir"  -> \E q \in AllModelPaths : IsPrefix(t.path, q)

ObsClass == IF out \in {"reject_layer", "reject_dim", "reject_tile"} THEN "rejected" ELSE out

DirSafe(p) == \E r \in {Root, LockRoot, ConfRoot} : Under(r, p) \/ IsPrefix(Norm(p), Norm(r))
ObservedSafe(t) == IF t.op = "leaf" THEN Under(RootOf(t.kind), t.path) ELSE DirSafe(t.path)

Tile3(t) == <<t[1], t[2], t[3]>>

Step ==
  \/ /\ E.ev = "receive"
     /\ Receive(E.flow)
     /\ UNCHANGED cands
  \/ /\ E.ev = "pop"
     /\ PopPath(E.path)
     /\ UNCHANGED cands
  \/ /\ E.ev = "layer"
     /\ LayerLookup(E.layer)
     /\ UNCHANGED cands
  \/ /\ E.ev = "dims"
     /\ req.flow = "wms"
     /\ DimsWMS(DsOf(E.dims))
     /\ UNCHANGED cands
  \/ /\ E.ev = "dims"
     /\ req.flow # "wms"
     /\ DimsChecked(DsOf(E.dims))
     /\ UNCHANGED cands
  \/ /\ E.ev = "tile"
     /\ LimitTile(E.tile[1], E.tile[2], E.tile[3])
     /\ (\A c \in Range(E.cands) : InGrid(c) /\ c[3] = E.tile[3])       \* the other tiles of the meta tile
     /\ cands' = (IF InGrid(Tile3(E.tile)) THEN {coord'} \cup Range(E.cands) ELSE {})
  \/ /\ E.ev = "coords"
     /\ Len(E.cands) >= 1
     /\ (\A c \in Range(E.cands) : InGrid(c))
     /\ pc = "coord"
     /\ req.flow = "wms"
     /\ req' = [req EXCEPT !.tile = E.cands[1]]
     /\ coord' = E.cands[1]
     /\ pc' = "lock"
     /\ cands' = Range(E.cands)
     /\ UNCHANGED <<cdims, out, touched>>
  \/ /\ E.ev \in {"dims", "tile", "coords"}        \* refused before: this part of the request is not consumed
     /\ pc = "done"
     /\ UNCHANGED <<vars, cands>>
  \/ /\ E.ev = "lock"
     /\ LockSet(cands)
     /\ UNCHANGED cands
  \/ /\ E.ev = "store"
     /\ StoreSet(cands)
     /\ UNCHANGED cands
  \/ /\ E.ev = "done"
     /\ pc = "done"
     /\ E.out = ObsClass
     /\ (\A t \in Range(E.touches) : Predicted(t)) = TRUE     \* "= TRUE": evaluated as a value, no branching on witnesses
     /\ (IF \E u \in Range(E.touches) : ~ObservedSafe(u) THEN TLCSet(3, TLCGet(3) \cup {tid}) ELSE TRUE)
     /\ UNCHANGED <<vars, cands>>

TraceNext ==
  /\ l <= Len(Tr)
  /\ Step
  /\ l' = l + 1 /\ tid' = tid
  /\ TLCSet(2, [TLCGet(2) EXCEPT ![tid] = Max(@, l)])

TraceSpec == TraceInit /\ [][TraceNext]_tvars

ASSUME TLCSet(2, [t \in 1 .. NTraces |-> 0]) /\ TLCSet(3, {})

TraceAccepted ==
  /\ PrintT(<<"matched", TLCGet(2)>>)
  /\ PrintT(<<"unsafe", TLCGet(3)>>)
  /\ \A t \in 1 .. NTraces : TLCGet(2)[t] = Len(Batch[t])
=============================================================================
