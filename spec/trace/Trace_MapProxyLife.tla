------------------------ MODULE Trace_MapProxyLife ------------------------
(***************************************************************************)
(* Histories recorded from a real MapProxy instance living through tile    *)
(* requests (conditional or not), map requests, seed and clean-up tasks,   *)
(* restarts and idle time (harness/life.py), validated against the         *)
(* composition over time MapProxyLife.tla: after every operation the       *)
(* complete cache (address, time stamp, content version of every tile      *)
(* file), the upstream requests and the reply must be what the model says, *)
(* with all invariants and action properties evaluated on every step.      *)
(***************************************************************************)
EXTENDS MapProxyLife, Json, IOUtils, TLCExt

Batch == JsonDeserialize(IOEnv.TRACE_FILE)
NTraces == Len(Batch)
VARIABLES tid, l
tvars == <<lvars, tid, l>>
Tr == Batch[tid]
E  == Tr[l]
T3(q) == <<q[1], q[2], q[3]>>
Q6(q) == <<q[1], q[2], q[3], q[4], q[5], q[6]>>
B4(q) == <<q[1], q[2], q[3], q[4]>>
StoreOf(q) == [t \in {T3(q[k]) : k \in 1 .. Len(q)} |->
                 LET k == CHOOSE k \in 1 .. Len(q) : T3(q[k]) = t IN [stamp |-> q[k][4], ver |-> q[k][5]]]

TraceInit == LInit /\ tid \in 1 .. NTraces /\ l = 1

Op ==
  \/ E.op = "tile" /\ TileReq(E.f, T3(E.a), E.cond)
  \/ E.op = "map" /\ MapReq(Q6(E.q))
  \/ E.op = "seed" /\ SeedLevel(E.level, E.th)
  \/ E.op = "cleanup" /\ CleanupLevel(E.level, E.th)
  \/ E.op = "restart" /\ Restart(E.th)
  \/ E.op = "tick" /\ Tick

ObsOK ==
  /\ clock = E.clock
  /\ last'.status = E.status /\ last'.ver = E.ver
  /\ store' = StoreOf(E.store)
  \* upstream requests compared as sets (the seed walks the grid in its own order)
  /\ Len(fetched') = Len(E.up)
  /\ {<<fetched'[k].l, fetched'[k].bbox>> : k \in 1 .. Len(fetched')} = {<<E.up[k].l, B4(E.up[k].bbox)>> : k \in 1 .. Len(E.up)}

\* diagnosis: LIFE_DEBUG_AT=<event number> prints what the model expects there instead of comparing
DebugHere == ToString(l) = IOEnv.LIFE_DEBUG_AT
TraceNext ==
  /\ l <= Len(Tr)
  /\ Op
  /\ IF DebugHere THEN PrintT(<<"debug", last', fetched', store'>>) ELSE ObsOK
  /\ l' = l + 1 /\ tid' = tid
  /\ TLCSet(2, [TLCGet(2) EXCEPT ![tid] = IF @ > l THEN @ ELSE l])
  /\ (l = Len(Tr)) => TLCSet(1, TLCGet(1) \cup {tid})

TraceSpec == TraceInit /\ [][TraceNext]_tvars
ASSUME TLCSet(1, {}) /\ TLCSet(2, [t \in 1 .. NTraces |-> 0])
TraceAccepted == PrintT(<<"matched", TLCGet(2)>>) /\ TLCGet(1) = 1 .. NTraces
=============================================================================
