------------------------------ MODULE FsCrash ------------------------------
(***************************************************************************)
(* Crash safety of tile stores (C06).  A store is the sequence of raw      *)
(* file-system operations the code issues (after user-space buffering);    *)
(* the process may die after any prefix, and the write in flight may be    *)
(* torn.  After the crash a fresh reader looks at the files.               *)
(*                                                                         *)
(* Three mechanisms are modelled, each as a little program counter:        *)
(*  "atomic": mapproxy.util.fs.write_atomic - create <name>.tmp-N, write,  *)
(*            rename over the target (file cache tiles, legend cache, seed *)
(*            progress file, bundle/index initialisation)                  *)
(*  "link":   FileCache._store_single_color_tile - (write_atomic of the    *)
(*            shared colour file if missing), unlink the tile location,    *)
(*            symlink/link it to the colour file; and FileCache._store on  *)
(*            a location that is a symlink: unlink, then write_atomic      *)
(*  "bundle": compact cache - append the record (size field + data) at the *)
(*            end of the bundle file, THEN publish its offset in the index *)
(*            entry (V1: 5 bytes in the .bundlx, V2: 8 bytes in the bundle *)
(*            file), then update header fields                             *)
(* Torn-write model (the process dies, the kernel survives): an appending  *)
(* or freshly created file may end with any byte prefix of the write in    *)
(* flight; a small in-place overwrite (an index entry) is atomic.  Under a *)
(* power-loss model with 512-byte sector atomicity a 5-byte V1 index entry *)
(* that straddles a sector boundary could be torn: the constant Straddle   *)
(* lets TLC show what that would mean (garbage); the check itself uses     *)
(* Straddle = {} because the property speaks of a dying process.           *)
(***************************************************************************)
EXTENDS Naturals, Sequences, FiniteSets, TLC

CONSTANTS Mechanism,   \* "atomic", "link", "relink" (plain store over a symlink), "bundle"
          Slots,       \* bundle slots written by the batch, in order (sequence); other mechanisms: <<"t">>
          OldState,    \* [slot -> "none" | "old" | "oldlink"]  prior content of each address
          SharedInit,  \* "absent" | "complete": does the shared single-colour file exist before the store
          Straddle,    \* set of slots whose index entry could be torn (only under a power-loss sector model, see below)
          IndexFirst   \* BOOLEAN: (a broken writer) publishes the index entry before appending the record

Slot == {Slots[i] : i \in 1 .. Len(Slots)}

VARIABLES pc,       \* position in the writer program
          napp,     \* bundle: number of records appended so far
          tmp,      \* atomic: "absent" | "empty" | "partial" | "complete"
          target,   \* atomic/link: what the tile location holds: "none" | "old" | "oldlink" | "new" | "newlink" | "absent"
          shared,   \* link: shared colour file: "absent" | "complete" | "partial"
          recs,     \* bundle: [slot -> "absent" | "partial" | "complete"]  the NEW record of each slot
          idx,      \* bundle: [slot -> "old" | "new" | "mixed"]              index entry
          crashed

vars == <<pc, napp, tmp, target, shared, recs, idx, crashed>>

Init ==
  /\ pc = 1 /\ tmp = "absent" /\ shared = SharedInit /\ crashed = FALSE /\ napp = 0
  /\ target = OldState[Slots[1]]
  /\ recs = [s \in Slot |-> "absent"]
  /\ idx = [s \in Slot |-> "old"]

\* ---------------- atomic: create tmp, write, rename ----------------
AtomicStep ==
  /\ Mechanism \in {"atomic", "relink"}
  /\ \/ /\ Mechanism = "relink" /\ pc = 1 /\ target = "oldlink"      \* _store: unlink the symlink first
        /\ target' = "absent" /\ pc' = 2 /\ UNCHANGED <<tmp, shared, recs, idx>>
     \/ /\ (Mechanism = "atomic" /\ pc = 1) \/ (Mechanism = "relink" /\ pc = 2)
        /\ tmp' = "empty" /\ pc' = 3 /\ UNCHANGED <<target, shared, recs, idx>>
     \/ /\ pc = 3 /\ tmp' \in {"partial", "complete"}                  \* write (possibly torn when we crash)
        /\ pc' = (IF tmp' = "complete" THEN 4 ELSE 99) /\ UNCHANGED <<target, shared, recs, idx>>
     \/ /\ pc = 4 /\ tmp = "complete" /\ target' = "new" /\ tmp' = "absent"   \* rename
        /\ pc' = 5 /\ UNCHANGED <<shared, recs, idx>>
  /\ UNCHANGED <<crashed, napp>>

\* ---------------- link: shared file (atomic), unlink, link ----------------
LinkStep ==
  /\ Mechanism = "link"
  /\ \/ /\ pc = 1 /\ shared = "absent" /\ shared' = "complete"         \* write_atomic of the colour file: one
        /\ pc' = 2 /\ UNCHANGED <<tmp, target, recs, idx>>              \* atomic step for readers of `shared`
     \/ /\ pc = 1 /\ shared # "absent" /\ pc' = 2 /\ UNCHANGED <<tmp, target, shared, recs, idx>>
     \/ /\ pc = 2 /\ target # "none" /\ target' = "absent"             \* unlink whatever is there
        /\ pc' = 3 /\ UNCHANGED <<tmp, shared, recs, idx>>
     \/ /\ pc = 2 /\ target = "none" /\ pc' = 3 /\ UNCHANGED <<tmp, target, shared, recs, idx>>
     \/ /\ pc = 3 /\ target' = "newlink" /\ pc' = 4 /\ UNCHANGED <<tmp, shared, recs, idx>>
  /\ UNCHANGED <<crashed, napp>>

\* ---------------- bundle: for each slot of the batch: append record, publish index ----------------
\* records are appended in batch order; the index entry of a slot is written (flushed) at some point AFTER
\* its record is complete - buffered index writes may be flushed later than the next append (V1 keeps them in
\* the buffer of the .bundlx file).  IndexFirst models a broken writer that may publish before appending.
AppendRec ==
  /\ napp < Len(Slots)
  /\ LET s == Slots[napp + 1] IN
     \E how \in {"partial", "complete"} :
        /\ recs' = [recs EXCEPT ![s] = how]
        /\ IF how = "complete" THEN napp' = napp + 1 /\ pc' = pc
                               ELSE napp' = napp /\ pc' = 99         \* a partial write is only observable by crashing
  /\ UNCHANGED idx
Publish(s) ==
  /\ idx[s] = "old"
  /\ IndexFirst \/ recs[s] = "complete"
  /\ \/ idx' = [idx EXCEPT ![s] = "new"] /\ pc' = pc
     \/ s \in Straddle /\ idx' = [idx EXCEPT ![s] = "mixed"] /\ pc' = 99      \* torn index entry
  /\ UNCHANGED <<recs, napp>>
BundleStep ==
  /\ Mechanism = "bundle"
  /\ AppendRec \/ \E s \in Slot : Publish(s)
  /\ UNCHANGED <<tmp, target, shared, crashed>>

Crash == ~crashed /\ crashed' = TRUE /\ UNCHANGED <<pc, napp, tmp, target, shared, recs, idx>>

Next == (~crashed /\ pc # 99 /\ (AtomicStep \/ LinkStep \/ BundleStep)) \/ Crash
Spec == Init /\ [][Next]_vars

-----------------------------------------------------------------------------
\* what a fresh reader returns for address s after the crash: "none" | "old" | "new" | "garbage"
ReadFile ==
  CASE target \in {"none", "absent"} -> "none"
    [] target = "old" -> "old"
    [] target = "oldlink" -> "old"
    [] target = "new" -> "new"
    [] target = "newlink" -> IF shared = "complete" THEN "new" ELSE IF shared = "absent" THEN "none" ELSE "garbage"
ReadBundle(s) ==
  CASE idx[s] = "old" -> IF OldState[s] = "none" THEN "none" ELSE "old"
    [] idx[s] = "new" -> IF recs[s] = "complete" THEN "new" ELSE "garbage"
    [] idx[s] = "mixed" -> "garbage"
Read(s) == IF Mechanism = "bundle" THEN ReadBundle(s) ELSE ReadFile

\* C06: previous content, or complete new content, or missing - missing only if there was nothing before or
\* a linked single-colour tile is involved in the replacement; never garbage
MayBeMissing(s) == OldState[s] = "none" \/ Mechanism \in {"link", "relink"}
CrashSafe == \A s \in Slot :
   /\ Read(s) # "garbage"
   /\ Read(s) = "none" => MayBeMissing(s)
   /\ Read(s) = "old" => OldState[s] # "none"
\* a finished store is visible
Finished == CASE Mechanism = "bundle" -> napp = Len(Slots) /\ \A s \in Slot : idx[s] = "new"
              [] Mechanism = "link" -> pc = 4
              [] OTHER -> pc = 5
Durable == Finished => \A s \in Slot : Read(s) = "new"
=============================================================================
