------------------------------- MODULE Source -------------------------------
(***************************************************************************)
(* C17 - upstream servers are only asked for what they are configured to   *)
(* support.                                                                *)
(*                                                                         *)
(* A model of what MapProxy does between "a map query reaches a source"    *)
(* and "URLs are handed to the HTTP client", transcribed in code order from *)
(*   service/wms.py   WMSServer.map (renders_query filter of every WMS      *)
(*                    layer, update_query_with_fwd_params), LayerRenderer   *)
(*                    .render -> combined_layers                            *)
(*   source/wms.py    WMSSource.get_map (res_range gate, coverage gate),    *)
(*                    _get_map (format, SRS code of an equal SRS, extent),  *)
(*                    _get_sub_query, _get_transformed, _is_compatible,     *)
(*                    combined_layer                                        *)
(*   client/wms.py    WMSClient._query_req (dimensions_for_params),         *)
(*                    combined_client                                       *)
(*   srs.py           PreferredSrcSRS.preferred_src / SupportedSRS.best_srs *)
(*   grid.py          ResolutionRange.contains, bbox_intersects,            *)
(*                    bbox_contains, TileGrid.get_affected_tiles,           *)
(*                    closest_level, tile, _create_tile_list, _calc_grids   *)
(*   image/__init__   bbox_position_in_image                                *)
(*   layer.py         MapQuery.dimensions_for_params, MapExtent.contains,   *)
(*                    merge_layer_res_ranges                                *)
(*   source/tile.py   TiledSource.get_map                                   *)
(*                                                                         *)
(* Geometry is exact integer geometry ("lattice" queries: integer bboxes in *)
(* SRS that are equal to the SRS of the coverage / grid, EPSG:3857 and its  *)
(* alias EPSG:900913).  Queries that need a reprojection carry the relation *)
(* of their bbox to each source's coverage and resolution range as facts    *)
(* (q.rel, established by an oracle outside the model); the model then      *)
(* decides everything discrete: contact or not, SRS, format, dimensions.    *)
(***************************************************************************)
EXTENDS Integers, Sequences, FiniteSets, TLC

CONSTANTS
  Src,               \* source id -> configuration record:
                     \*   kind "wms":  host, srs (supported_srs, sequence of codes), fmts (supported_formats),
                     \*                ofmt (image_opts.format, "" = none), cov, minres, maxres (0 = none),
                     \*                fwd (forward_req_params, lower case), opq (an opacity is configured)
                     \*   kind "tile": host, grid [srs, bbox, res, ts, ul], cov, minres, maxres
                     \*   cov = [on, srs, bbox, hole]; lattice: coordinates are integers the model computes with
  Groups,            \* WMS layer name -> sequence of source ids (its `sources:`)
  SrsClass,          \* SRS code -> class: SRS.__eq__ compares proj definitions (EPSG:3857 = EPSG:900913)
  LatLong,           \* the codes with is_latlong
  Preferred,         \* globals.srs.preferred_src_proj: target code -> sequence of codes
  DimLike,           \* request parameters WMSMapRequest picks as dimensions by itself (time, elevation, dim_*)
  CombineChecksRes,  \* FALSE: combined_layer as it is (res_range of the members is dropped)
  BestSrsFromList,   \* FALSE: preferred_src as it is (returns the SRS object of the rule, not the supported one)
  CombineChecksCodes,\* FALSE: _is_compatible as it is (supported_srs lists compared by SRS equality, not by code)
  WritesSharedQuery, \* TRUE: as it was - _get_map assigns the supported spelling of the SRS to the MapQuery it was given, which
                     \*   the following sources / layers of the request see (and race on, see SharedQuery.tla); FALSE: it works
                     \*   on a query of its own
  MissingSrsListCrashes, \* TRUE: as it is - comparing a source without supported_srs with one that has raises
  MapCases,          \* sequence of sets of <<sequence of layer names, query>> explored by the model checker (WMS GetMap)
  CallCases          \* sequence of sets of <<source id, query>> explored by the model checker (get_map of one source,
                     \* e.g. called by a tile manager)

VARIABLES
  pc,      \* where the code is
  q,       \* the MapQuery (shared by all layers of a request; _get_map assigns query.srs)
  todo,    \* map request: the requested layer names; then the render units still to do
  cur,     \* the unit being rendered, with the values negotiated so far
  sent,    \* the upstream requests emitted so far (sequence)
  outs,    \* outcome per finished unit
  case     \* what was asked (the query as it arrived): [kind, l, s, q]

vars == <<pc, q, todo, cur, sent, outs, case>>

---------------------------------------------------------------------------
Max(a, b) == IF a > b THEN a ELSE b
Min(a, b) == IF a < b THEN a ELSE b
Abs(a)    == IF a < 0 THEN -a ELSE a
CeilDiv(a, b) == (a + b - 1) \div b
Range(s)  == {s[i] : i \in 1 .. Len(s)}
Cls(code) == SrsClass[code]
BW(b) == b[3] - b[1]
BH(b) == b[4] - b[2]

NoQuery == [srs |-> "", bbox |-> <<0, 0, 0, 0>>, size |-> <<0, 0>>, fmt |-> "", dims |-> {}, exact |-> TRUE, rel |-> <<>>]
NoUnit  == [m |-> <<>>, gate |-> FALSE, fmt |-> "", mode |-> "", srs |-> ""]

HasRange(s) == Src[s].minres # 0 \/ Src[s].maxres # 0
HasCov(s)   == Src[s].cov.on

---------------------------------------------------------------------------
\* geometry: exact on the lattice, facts of the oracle otherwise

\* grid.py ResolutionRange.contains (not latlong): min_res + 1e-6 <= x_res or y_res -> False; max_res > x_res or y_res -> False
RangeOK(minres, maxres, qq) ==
  LET w == BW(qq.bbox)  h == BH(qq.bbox)  sw == qq.size[1]  sh == qq.size[2] IN
  /\ (minres # 0 => ~(w > minres * sw \/ h > minres * sh))
  /\ (maxres # 0 => ~(w < maxres * sw \/ h < maxres * sh))

ResOK(s, qq) == IF qq.exact THEN RangeOK(Src[s].minres, Src[s].maxres, qq) ELSE qq.rel[s].res = "in"

\* bbox_intersects / bbox_contains
Meets(a, b)  == a[1] < b[3] /\ a[3] > b[1] /\ a[2] < b[4] /\ a[4] > b[2]
Inside(outer, inner) == outer[1] <= inner[1] /\ outer[3] >= inner[3] /\ outer[2] <= inner[2] /\ outer[4] >= inner[4]

\* a coverage that is not a rectangle: the box without the interior of `hole` (a geometry; touching counts as meeting)
HoleOn(s) == Src[s].cov.hole # <<0, 0, 0, 0>>
MeetsClosed(a, b) == a[1] <= b[3] /\ a[3] >= b[1] /\ a[2] <= b[4] /\ a[4] >= b[2]
InsideStrict(outer, inner) == outer[1] < inner[1] /\ outer[3] > inner[3] /\ outer[2] < inner[2] /\ outer[4] > inner[4]
CovMeets(s, qq)    == IF qq.exact
                        THEN IF HoleOn(s) THEN MeetsClosed(Src[s].cov.bbox, qq.bbox) /\ ~InsideStrict(Src[s].cov.hole, qq.bbox)
                                          ELSE Meets(Src[s].cov.bbox, qq.bbox)
                        ELSE qq.rel[s].cov # "disjoint"
CovContains(s, qq) == IF qq.exact THEN Inside(Src[s].cov.bbox, qq.bbox) ELSE qq.rel[s].cov = "inside"

\* image/__init__.py bbox_position_in_image(bbox, size, src_bbox): int() of non-negative pixel coordinates
SubQuery(b, sz, e) ==
  LET w  == sz[1]  h == sz[2]
      o0 == IF e[1] > b[1] THEN ((e[1] - b[1]) * w) \div BW(b) ELSE 0
      o1 == IF e[2] > b[2] THEN ((b[4] - e[2]) * h) \div BH(b) ELSE h
      o2 == IF e[3] < b[3] THEN ((e[3] - b[1]) * w) \div BW(b) ELSE w
      o3 == IF e[4] < b[4] THEN ((b[4] - e[4]) * h) \div BH(b) ELSE 0
  IN [size |-> <<Abs(o2 - o0), Abs(o1 - o3)>>,
      bbox |-> <<Max(b[1], e[1]), Max(b[2], e[2]), Min(b[3], e[3]), Min(b[4], e[4])>>]

---------------------------------------------------------------------------
\* source/wms.py _get_map: format
NegFormat(c, qq) ==
  LET f0 == IF c.ofmt # "" THEN c.ofmt ELSE qq.fmt IN
  IF c.fmts # <<>> /\ f0 \notin Range(c.fmts) THEN c.fmts[1] ELSE f0

\* srs.py PreferredSrcSRS.preferred_src(target, available)
FirstWith(seq, P(_)) == CHOOSE i \in 1 .. Len(seq) : P(seq[i]) /\ \A j \in 1 .. i - 1 : ~P(seq[j])
InClasses(code, seq) == \E i \in 1 .. Len(seq) : Cls(seq[i]) = Cls(code)
Supported(code, seq) == seq[FirstWith(seq, LAMBDA a : Cls(a) = Cls(code))]
BestSrs(target, avail) ==
  IF InClasses(target, avail) THEN (IF BestSrsFromList THEN Supported(target, avail) ELSE target)
  ELSE IF target \in DOMAIN Preferred /\ \E i \in 1 .. Len(Preferred[target]) : InClasses(Preferred[target][i], avail)
       THEN LET p == Preferred[target][FirstWith(Preferred[target], LAMBDA a : InClasses(a, avail))]
            IN IF BestSrsFromList THEN Supported(p, avail) ELSE p
  ELSE IF \E i \in 1 .. Len(avail) : (avail[i] \in LatLong) = (target \in LatLong)
       THEN avail[FirstWith(avail, LAMBDA a : (a \in LatLong) = (target \in LatLong))]
  ELSE avail[1]

\* source/wms.py _get_map: SRS ("srs can be equal while still having a different srs_code")
NegSrs(c, qq) ==
  IF c.srs = <<>> THEN [mode |-> "asis", srs |-> qq.srs]
  ELSE IF InClasses(qq.srs, c.srs) THEN [mode |-> "direct", srs |-> Supported(qq.srs, c.srs)]
  ELSE [mode |-> "transform", srs |-> BestSrs(qq.srs, c.srs)]

---------------------------------------------------------------------------
\* service/wms.py: WMSLayer.renders_query with merge_layer_res_ranges, update_query_with_fwd_params
SetMax(S) == CHOOSE x \in S : \A y \in S : y <= x
SetMin(S) == CHOOSE x \in S : \A y \in S : y >= x
MergedMin(g) == IF \E s \in Range(g) : Src[s].minres = 0 THEN 0 ELSE SetMax({Src[s].minres : s \in Range(g)})
MergedMax(g) == IF \E s \in Range(g) : Src[s].maxres = 0 THEN 0 ELSE SetMin({Src[s].maxres : s \in Range(g)})
Renders(gname, qq) ==
  LET g == Groups[gname] IN
  IF qq.exact THEN RangeOK(MergedMin(g), MergedMax(g), qq)
  ELSE IF Len(g) = 1 THEN (HasRange(g[1]) => ResOK(g[1], qq))
  ELSE Assert(FALSE, "reprojected queries are modelled for single-source layers only")

RECURSIVE RenderList(_, _)
RenderList(l, qq) == IF l = <<>> THEN <<>>
                     ELSE (IF Renders(Head(l), qq) THEN Groups[Head(l)] ELSE <<>>) \o RenderList(Tail(l), qq)

\* the request's own dimensions plus every request parameter some rendered layer forwards
FwdDims(srcs, qq) == (qq.dims \cap DimLike) \cup (qq.dims \cap UNION {Src[s].fwd : s \in Range(srcs)})

\* source/wms.py _is_compatible + client/wms.py combined_client; u = what has been combined so far
SameSrsList(a, b) == /\ Len(a) = Len(b)
                     /\ \A i \in 1 .. Len(a) : IF CombineChecksCodes THEN a[i] = b[i] ELSE Cls(a[i]) = Cls(b[i])
SameCov(a, b) == /\ a.on = b.on
                 /\ a.on => (Cls(a.srs) = Cls(b.srs) /\ a.bbox = b.bbox /\ a.hole = b.hole)      \* (the same geometry)
Compatible(u, b, qq) ==
  LET h == u.m[1]  a == Src[h]  c == Src[b] IN
  /\ a.kind = "wms" /\ c.kind = "wms"
  /\ ~a.opq /\ ~c.opq
  /\ SameSrsList(a.srs, c.srs)
  /\ a.fmts = c.fmts
  /\ SameCov(a.cov, c.cov)
  /\ (qq.dims \cap a.fwd) = (qq.dims \cap c.fwd)
  /\ CombineChecksRes => /\ (u.gate /\ HasRange(h)) => ResOK(h, qq)
                         /\ HasRange(b) => ResOK(b, qq)
  /\ a.host = c.host

Unit1(s) == [m |-> <<s>>, gate |-> TRUE]
\* `self.supported_srs != other.supported_srs` compares a SupportedSRS object with the empty list a source without
\* supported_srs carries: SupportedSRS.__eq__ raises AttributeError and the whole request fails (nothing is sent)
Crashes(u, b) ==
  LET a == Src[u.m[1]]  c == Src[b] IN
  MissingSrsListCrashes /\ a.kind = "wms" /\ c.kind = "wms" /\ ~a.opq /\ ~c.opq /\ ((a.srs = <<>>) # (c.srs = <<>>))
RECURSIVE Fold(_, _, _)
Fold(units, rest, qq) ==       \* <<>> = crashed
  IF rest = <<>> THEN units
  ELSE LET last == units[Len(units)]  b == Head(rest) IN
       IF Crashes(last, b) THEN <<>>
       ELSE IF Compatible(last, b, qq)
       THEN Fold([units EXCEPT ![Len(units)] = [m |-> Append(last.m, b), gate |-> FALSE]], Tail(rest), qq)
       ELSE Fold(Append(units, Unit1(b)), Tail(rest), qq)
\* combined_layers(layers, query); the combined WMSSource gets res_range=None
CombinedLayers(srcs, qq) == IF srcs = <<>> THEN <<>> ELSE Fold(<<Unit1(srcs[1])>>, Tail(srcs), qq)
CombineCrashes(srcs, qq) == srcs # <<>> /\ CombinedLayers(srcs, qq) = <<>>

---------------------------------------------------------------------------
\* upstream requests
MapReq(u, c, srs, fmt, qq, bbox, size) ==
  [kind |-> "map", m |-> u.m, host |-> c.host, srs |-> srs, fmt |-> fmt, exact |-> qq.exact,
   bbox |-> bbox, size |-> size, dims |-> qq.dims \cap c.fwd, tile |-> <<0, 0, 0>>]
TileReq(s, c, t) ==
  [kind |-> "tile", m |-> <<s>>, host |-> c.host, srs |-> "", fmt |-> "", exact |-> TRUE,
   bbox |-> <<0, 0, 0, 0>>, size |-> <<0, 0>>, dims |-> {}, tile |-> t]
Unknown4 == <<0, 0, 0, 0>>
Unknown2 == <<0, 0>>

\* source/wms.py _get_map after the negotiation / _get_transformed: the set of things that can happen
\* (one element on the lattice; a reprojected query that only partly overlaps the coverage may end with an
\* empty sub-image, which the model cannot compute)
ExtentOutcomes(u, fmt, neg, qq) ==
  LET h == u.m[1]  c == Src[h]  q2 == [qq EXCEPT !.srs = neg.srs] IN
  IF ~HasCov(h) \/ CovContains(h, qq)
  THEN {[out |-> "ok", sent |-> <<MapReq(u, c, neg.srs, fmt, qq, IF qq.exact /\ neg.mode # "transform" THEN qq.bbox ELSE Unknown4,
                                         IF qq.exact /\ neg.mode # "transform" THEN qq.size ELSE Unknown2)>>]}
  ELSE IF qq.exact /\ neg.mode # "transform"
       THEN LET sq == SubQuery(qq.bbox, qq.size, c.cov.bbox) IN
            IF sq.size[1] = 0 \/ sq.size[2] = 0 THEN {[out |-> "blank:size", sent |-> <<>>]}
            ELSE {[out |-> "ok", sent |-> <<MapReq(u, c, neg.srs, fmt, qq, sq.bbox, sq.size)>>]}
       ELSE {[out |-> "ok", sent |-> <<MapReq(u, c, neg.srs, fmt, qq, Unknown4, Unknown2)>>],
             [out |-> "blank:size", sent |-> <<>>]}

\* TiledSource.get_map from get_affected_tiles on; g = the source grid
TileNum(g, qq) == Min(BW(qq.bbox) * g.ts[2], BH(qq.bbox) * g.ts[1])    \* res = TileNum / TileDen
TileDen(g)     == g.ts[1] * g.ts[2]
RECURSIVE ClosestLevel(_, _, _, _)
ClosestLevel(g, qq, i, tr) ==          \* grid.closest_level without threshold_res, stretch_factor 1.15; 1-based
  IF i > Len(g.res) THEN Len(g.res)
  ELSE IF tr # 0 /\ g.res[i] * TileDen(g) < TileNum(g, qq) THEN tr
  ELSE ClosestLevel(g, qq, i + 1, IF g.res[i] * 100 * TileDen(g) <= 115 * TileNum(g, qq) THEN i ELSE tr)
OnStretchBoundary(g, qq) == \E i \in 1 .. Len(g.res) : g.res[i] * 100 * TileDen(g) = 115 * TileNum(g, qq)

GridSize(g, lv) == <<Max(CeilDiv(BW(g.bbox) \div g.res[lv], g.ts[1]), 1), Max(CeilDiv(BH(g.bbox) \div g.res[lv], g.ts[2]), 1)>>
\* grid.tile for the point (x10, y10)/10 (the bbox corner moved inwards by 1/10 pixel)
TileX(g, lv, x10) == (x10 - 10 * g.bbox[1]) \div (10 * g.res[lv] * g.ts[1])
TileY(g, lv, y10) == IF g.ul THEN (10 * g.bbox[4] - y10) \div (10 * g.res[lv] * g.ts[2])
                     ELSE (y10 - 10 * g.bbox[2]) \div (10 * g.res[lv] * g.ts[2])

TileOutcome(s, qq) ==
  LET c == Src[s]  g == c.grid IN
  IF ~Meets(g.bbox, qq.bbox) THEN [out |-> "error:NoTiles", sent |-> <<>>]
  ELSE IF TileNum(g, qq) > g.res[1] * 4 * TileDen(g) THEN [out |-> "error:NoTiles", sent |-> <<>>]
  ELSE LET lv == ClosestLevel(g, qq, 1, 0)
           d  == g.res[lv]
           x0 == TileX(g, lv, 10 * qq.bbox[1] + d)   x1 == TileX(g, lv, 10 * qq.bbox[3] - d)
           y0 == TileY(g, lv, 10 * qq.bbox[2] + d)   y1 == TileY(g, lv, 10 * qq.bbox[4] - d)
           gs == GridSize(g, lv)
       IN IF x0 # x1 \/ y0 # y1 THEN [out |-> "error:InvalidSourceQuery", sent |-> <<>>]
          \* _create_tile_list yields None for a tile outside the grid; TileURLTemplate.substitute(None) raises
          ELSE IF x0 < 0 \/ y0 < 0 \/ x0 >= gs[1] \/ y0 >= gs[2] THEN [out |-> "error:TypeError", sent |-> <<>>]
          ELSE [out |-> "ok", sent |-> <<TileReq(s, c, <<x0, y0, lv - 1>>)>>]

---------------------------------------------------------------------------
NoCase == [kind |-> "none", l |-> <<>>, s |-> "", q |-> NoQuery]
Init == pc = "idle" /\ q = NoQuery /\ todo = <<>> /\ cur = NoUnit /\ sent = <<>> /\ outs = <<>> /\ case = NoCase

\* a GetMap request for the layers l arrives at the WMS service
MapRequest(l, qq) ==
  /\ pc = "idle"
  /\ pc' = "filter" /\ q' = qq /\ todo' = l
  /\ case' = [kind |-> "map", l |-> l, s |-> "", q |-> qq]
  /\ UNCHANGED <<cur, sent, outs>>

\* WMSServer.map: layers whose merged resolution range excludes the query are dropped, the forwarded
\* parameters of the remaining layers are added to the query's dimensions
FilterLayers ==
  /\ pc = "filter"
  /\ LET srcs == RenderList(todo, q) IN
       /\ todo' = srcs
       /\ q' = [q EXCEPT !.dims = FwdDims(srcs, q)]
  /\ pc' = "combine"
  /\ UNCHANGED <<cur, sent, outs, case>>

\* LayerRenderer.render: combined_layers
Combine ==
  /\ pc = "combine"
  /\ todo' = CombinedLayers(todo, q)
  /\ outs' = IF CombineCrashes(todo, q) THEN <<"error:AttributeError">> ELSE outs
  /\ pc' = "next"
  /\ UNCHANGED <<q, cur, sent, case>>

\* somebody (a tile manager, a seeder) calls get_map of one source
Call(s, qq) ==
  /\ pc = "idle"
  /\ q' = qq /\ todo' = <<Unit1(s)>> /\ pc' = "next"
  /\ case' = [kind |-> "call", l |-> <<>>, s |-> s, q |-> qq]
  /\ UNCHANGED <<cur, sent, outs>>

\* LayerRenderer._render_layer: get_map of the next unit
StartUnit ==
  /\ pc = "next" /\ todo # <<>>
  /\ cur' = [NoUnit EXCEPT !.m = Head(todo).m, !.gate = Head(todo).gate]
  /\ todo' = Tail(todo)
  /\ pc' = IF Src[Head(todo).m[1]].kind = "tile" THEN "tilecheck" ELSE "res"
  /\ UNCHANGED <<q, sent, outs, case>>

Finish(out) == /\ outs' = Append(outs, out) /\ cur' = NoUnit /\ pc' = "next" /\ UNCHANGED case

\* TiledSource.get_map: tile size and SRS of the query must be those of the source grid
TileCheck ==
  /\ pc = "tilecheck"
  /\ LET g == Src[cur.m[1]].grid IN
       IF q.size # g.ts \/ Cls(q.srs) # Cls(g.srs)
       THEN Finish("error:InvalidSourceQuery") /\ UNCHANGED <<q, todo, sent>>
       ELSE pc' = "res" /\ UNCHANGED <<q, todo, cur, sent, outs, case>>

\* get_map: `if self.res_range and not self.res_range.contains(...)`: raise BlankImage
ResGate ==
  /\ pc = "res"
  /\ LET h == cur.m[1] IN
       IF cur.gate /\ HasRange(h) /\ ~ResOK(h, q)
       THEN Finish("blank:res") /\ UNCHANGED <<q, todo, sent>>
       ELSE pc' = "cov" /\ UNCHANGED <<q, todo, cur, sent, outs, case>>

\* get_map: `if self.coverage and not self.coverage.intersects(...)`: raise BlankImage
CovGate ==
  /\ pc = "cov"
  /\ LET h == cur.m[1] IN
       IF HasCov(h) /\ ~CovMeets(h, q)
       THEN Finish("blank:cov") /\ UNCHANGED <<q, todo, sent>>
       ELSE pc' = (IF Src[h].kind = "tile" THEN "tile" ELSE "negotiate") /\ UNCHANGED <<q, todo, cur, sent, outs, case>>

\* _get_map: format and SRS; an equal SRS with another code is written back into the (shared) query
Negotiate ==
  /\ pc = "negotiate"
  /\ LET c == Src[cur.m[1]]  neg == NegSrs(c, q) IN
       /\ cur' = [cur EXCEPT !.fmt = NegFormat(c, q), !.mode = neg.mode, !.srs = neg.srs]
       /\ q' = IF WritesSharedQuery /\ neg.mode = "direct" THEN [q EXCEPT !.srs = neg.srs] ELSE q
  /\ pc' = "extent"
  /\ UNCHANGED <<todo, sent, outs, case>>

\* _get_map / _get_transformed: whole query, sub-query limited to the extent, or nothing
Extent ==
  /\ pc = "extent"
  /\ \E r \in ExtentOutcomes(cur, cur.fmt, [mode |-> cur.mode, srs |-> cur.srs], q) :
       /\ sent' = sent \o r.sent
       /\ Finish(r.out)
  /\ UNCHANGED <<q, todo>>

\* TiledSource.get_map: locate the one tile and fetch it
TileGet ==
  /\ pc = "tile"
  /\ LET r == TileOutcome(cur.m[1], q) IN
       /\ sent' = sent \o r.sent
       /\ Finish(r.out)
  /\ UNCHANGED <<q, todo>>

Done ==
  /\ pc = "next" /\ todo = <<>>
  /\ pc' = "done"
  /\ UNCHANGED <<q, todo, cur, sent, outs, case>>

\* (the cases are given as sequences of sets)
DoMapRequest == pc = "idle" /\ \E i \in DOMAIN MapCases : \E mc \in MapCases[i] : MapRequest(mc[1], mc[2])
DoCall       == pc = "idle" /\ \E i \in DOMAIN CallCases : \E cc \in CallCases[i] : Call(cc[1], cc[2])

Next == DoMapRequest \/ DoCall \/ FilterLayers \/ Combine \/ StartUnit \/ TileCheck \/ ResGate \/ CovGate
        \/ Negotiate \/ Extent \/ TileGet \/ Done

Spec == Init /\ [][Next]_vars

---------------------------------------------------------------------------
\* The property (stated on the emitted requests, independently of the procedure above).

Members(r) == Range(r.m)

\* (1) the SRS code of a request is one of the configured codes of every source it is sent for
SrsSupported ==
  \A i \in 1 .. Len(sent) : sent[i].kind = "map" =>
     \A s \in Members(sent[i]) : Src[s].srs # <<>> => sent[i].srs \in Range(Src[s].srs)

\* (2) so is the format
FormatSupported ==
  \A i \in 1 .. Len(sent) : sent[i].kind = "map" =>
     \A s \in Members(sent[i]) : Src[s].fmts # <<>> => sent[i].fmt \in Range(Src[s].fmts)

\* (3) the bbox lies inside the coverage extent (lattice requests; reprojected ones are judged by the oracle)
BBoxInsideExtent ==
  \A i \in 1 .. Len(sent) : (sent[i].kind = "map" /\ sent[i].exact /\ sent[i].bbox # Unknown4) =>
     \A s \in Members(sent[i]) : HasCov(s) => Inside(Src[s].cov.bbox, sent[i].bbox)

\* (4) only parameters the source is configured to forward
OnlyForwardedDims ==
  \A i \in 1 .. Len(sent) : \A s \in Members(sent[i]) :
     IF Src[s].kind = "wms" THEN sent[i].dims \subseteq Src[s].fwd ELSE sent[i].dims = {}

\* (5) a tile request addresses a tile of the source grid
TileInGrid ==
  \A i \in 1 .. Len(sent) : sent[i].kind = "tile" =>
     LET g == Src[sent[i].m[1]].grid  t == sent[i].tile IN
       /\ t[3] \in 0 .. Len(g.res) - 1
       /\ t[1] \in 0 .. GridSize(g, t[3] + 1)[1] - 1
       /\ t[2] \in 0 .. GridSize(g, t[3] + 1)[2] - 1

\* (6) no contact when the coverage is disjoint from the query, (7) or the resolution range excludes it.
\* At the lower end of the range the documentation calls max_res exclusive, the code includes it: a query
\* exactly at max_res may be answered either way, anything strictly outside must not reach the source.
StrictlyOutOfRange(s, qq) ==
  IF qq.exact
  THEN LET w == BW(qq.bbox)  h == BH(qq.bbox) IN
       \/ Src[s].minres # 0 /\ (w > Src[s].minres * qq.size[1] \/ h > Src[s].minres * qq.size[2])
       \/ Src[s].maxres # 0 /\ (w < Src[s].maxres * qq.size[1] \/ h < Src[s].maxres * qq.size[2])
  ELSE HasRange(s) /\ qq.rel[s].res = "out"
Disjoint(s, qq) == HasCov(s) /\ ~CovMeets(s, qq)

NoContactWhenDisjoint ==
  \A i \in 1 .. Len(sent) : \A s \in Members(sent[i]) : ~Disjoint(s, case.q)
NoContactOutOfRange ==
  \A i \in 1 .. Len(sent) : \A s \in Members(sent[i]) : ~StrictlyOutOfRange(s, case.q)

TypeOK ==
  /\ pc \in {"idle", "filter", "combine", "next", "tilecheck", "res", "cov", "negotiate", "extent", "tile", "done"}
  /\ case.kind \in {"none", "map", "call"}
  /\ \A i \in 1 .. Len(sent) : sent[i].kind \in {"map", "tile"}

\* the model's exact geometry is only meaningful when the SRS involved are equal
ExactIsExact ==
  (q # NoQuery /\ q.exact /\ pc \in {"cov", "negotiate", "extent", "tile"}) =>
     LET h == cur.m[1] IN
       /\ Src[h].lattice
       /\ HasCov(h) => Cls(Src[h].cov.srs) = Cls(q.srs)
       /\ Src[h].kind = "tile" => ~OnStretchBoundary(Src[h].grid, q)
       /\ (pc = "extent" /\ cur.mode = "transform") => ~HasCov(h)

---------------------------------------------------------------------------
\* The same procedure as a function of the case: the table executed on the real code.
UnitOutcomes(u, qq) ==      \* set of [out, sent, q]
  LET h == u.m[1]  c == Src[h] IN
  IF c.kind = "tile"
  THEN IF qq.size # c.grid.ts \/ Cls(qq.srs) # Cls(c.grid.srs) THEN {[out |-> "error:InvalidSourceQuery", sent |-> <<>>, q |-> qq]}
       ELSE IF HasRange(h) /\ ~ResOK(h, qq) THEN {[out |-> "blank:res", sent |-> <<>>, q |-> qq]}
       ELSE IF HasCov(h) /\ ~CovMeets(h, qq) THEN {[out |-> "blank:cov", sent |-> <<>>, q |-> qq]}
       ELSE LET r == TileOutcome(h, qq) IN {[out |-> r.out, sent |-> r.sent, q |-> qq]}
  ELSE IF u.gate /\ HasRange(h) /\ ~ResOK(h, qq) THEN {[out |-> "blank:res", sent |-> <<>>, q |-> qq]}
       ELSE IF HasCov(h) /\ ~CovMeets(h, qq) THEN {[out |-> "blank:cov", sent |-> <<>>, q |-> qq]}
       ELSE LET neg == NegSrs(c, qq)
                q2  == IF neg.mode = "direct" THEN [qq EXCEPT !.srs = neg.srs] ELSE qq
            IN {[out |-> r.out, sent |-> r.sent, q |-> IF WritesSharedQuery THEN q2 ELSE qq] : r \in ExtentOutcomes(u, NegFormat(c, qq), neg, q2)}

RECURSIVE RunUnits(_, _)
RunUnits(us, qq) ==
  IF us = <<>> THEN {[sent |-> <<>>, outs |-> <<>>]}
  ELSE UNION {{[sent |-> r.sent \o t.sent, outs |-> <<r.out>> \o t.outs] : t \in RunUnits(Tail(us), r.q)}
              : r \in UnitOutcomes(Head(us), qq)}

UnitMembers(us) == [i \in 1 .. Len(us) |-> us[i].m]
PlanMap(l, qq) ==
  LET srcs == RenderList(l, qq)
      q1   == [qq EXCEPT !.dims = FwdDims(srcs, qq)]
      us   == CombinedLayers(srcs, q1)
  IN [units |-> UnitMembers(us),
      results |-> IF CombineCrashes(srcs, q1) THEN {[sent |-> <<>>, outs |-> <<"error:AttributeError">>]} ELSE RunUnits(us, q1)]
PlanCall(s, qq) == [units |-> <<<<s>>>>, results |-> RunUnits(<<Unit1(s)>>, qq)]

\* ties the function to the actions: whenever a case is finished, what was sent is one of the planned results
PlanOK ==
  pc = "done" =>
    [sent |-> sent, outs |-> outs] \in
       (IF case.kind = "map" THEN PlanMap(case.l, case.q) ELSE PlanCall(case.s, case.q)).results
=============================================================================
