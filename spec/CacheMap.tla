------------------------------ MODULE CacheMap ------------------------------
(***************************************************************************)
(* Abstract tile store (C05): every cache backend must behave like a map   *)
(* from tile address (x, y, level, dimension values) to bytes.             *)
(*                                                                         *)
(* Actions are the public operations of mapproxy.cache.base.TileCacheBase: *)
(*   store_tile, store_tiles, remove_tile, remove_tiles, load_tile,        *)
(*   load_tiles,                                                           *)
(*   is_cached.  `reply` is what the caller observes (bytes per requested  *)
(* address for loads, a boolean for is_cached; the return flags of store   *)
(* calls are not part of the property).                                    *)
(***************************************************************************)
EXTENDS Naturals, Sequences, FiniteSets

CONSTANTS Addr,      \* set of tile addresses (opaque here; backends give them coordinates)
          Bytes,     \* set of tile contents
          MaxBulk    \* longest bulk operation explored by the model checker

None == "none"

VARIABLES store,     \* [Addr -> Bytes \cup {None}]
          reply      \* observation of the last operation

cmvars == <<store, reply>>

SeqsUpTo(S, n) == UNION {[1 .. k -> S] : k \in 1 .. n}
\* a bulk load names every address at most once (tile collections are keyed by coordinate)
DistinctSeqsUpTo(S, n) == {q \in SeqsUpTo(S, n) : \A i, j \in 1 .. Len(q) : i # j => q[i] # q[j]}

TypeOK == store \in [Addr -> Bytes \cup {None}]

NoReply == [op |-> "init", args |-> <<>>, val |-> <<>>]
Rep(op, args, val) == [op |-> op, args |-> args, val |-> val]
YesNo(b) == IF b THEN "yes" ELSE "no"

Init == store = [a \in Addr |-> None] /\ reply = NoReply

\* apply a sequence of <<address, bytes>> pairs in order (the last store to an address wins)
RECURSIVE ApplyAll(_, _)
ApplyAll(st, ps) == IF ps = <<>> THEN st
                    ELSE ApplyAll([st EXCEPT ![ps[1][1]] = ps[1][2]], Tail(ps))

Store(a, b)    == store' = [store EXCEPT ![a] = b] /\ reply' = Rep("store", <<a>>, <<>>)
StoreBulk(ps)  == store' = ApplyAll(store, ps) /\ reply' = Rep("store_bulk", [i \in 1 .. Len(ps) |-> ps[i][1]], <<>>)
Remove(a)      == store' = [store EXCEPT ![a] = None] /\ reply' = Rep("remove", <<a>>, <<>>)
RemoveBulk(as) == /\ store' = [a \in Addr |-> IF \E i \in 1 .. Len(as) : as[i] = a THEN None ELSE store[a]]
                  /\ reply' = Rep("remove_bulk", as, <<>>)
Load(a)        == reply' = Rep("load", <<a>>, <<store[a]>>) /\ UNCHANGED store
LoadBulk(as)   == reply' = Rep("load_bulk", as, [i \in 1 .. Len(as) |-> store[as[i]]]) /\ UNCHANGED store
IsCached(a)    == reply' = Rep("is_cached", <<a>>, <<YesNo(store[a] # None)>>) /\ UNCHANGED store

Next ==
  \/ \E a \in Addr, b \in Bytes : Store(a, b)
  \/ \E ps \in SeqsUpTo(Addr \X Bytes, MaxBulk) : StoreBulk(ps)
  \/ \E a \in Addr : Remove(a) \/ Load(a) \/ IsCached(a)
  \/ \E as \in DistinctSeqsUpTo(Addr, MaxBulk) : LoadBulk(as) \/ RemoveBulk(as)

Spec == Init /\ [][Next]_cmvars

\* what a caller may observe, stated on the observation alone
ReplyOK ==
  /\ reply.op \in {"load", "load_bulk"} => \A i \in 1 .. Len(reply.args) : reply.val[i] = store[reply.args[i]]
  /\ reply.op = "is_cached" => reply.val[1] = YesNo(store[reply.args[1]] # None)
=============================================================================
