------------------------------ MODULE SeedPool ------------------------------
(***************************************************************************)
(* The worker pool of the seeder (mapproxy.seed.seeder.TileWorkerPool +    *)
(* TileSeedWorker + mapproxy.seed.util.exp_backoff): the walker hands      *)
(* lists of tiles to a bounded queue, `size` workers take them out and     *)
(* create the tiles; stop() sends one None sentinel per living worker and  *)
(* joins them.                                                             *)
(*                                                                         *)
(* Producer (TileWorkerPool.process / stop, called by the walker):         *)
(*   Put        tiles_queue.put(tiles, timeout=5) succeeds                 *)
(*   PutFull    ... raises Full: if no worker is alive -> SeedInterrupted, *)
(*              otherwise try again                                        *)
(*   AllHanded  the walk is over: stop() counts the living workers         *)
(*   PutNone    put(None, timeout=1) succeeds: one sentinel less to send   *)
(*   NoneFull   ... raises Full: count the living workers again            *)
(*   Join       join the workers one after the other                       *)
(* Worker (TileSeedWorker.work_loop):                                      *)
(*   Get        tiles_queue.get(): a list of tiles, or None -> exit        *)
(*   Work       exp_backoff(load_tile_coords): done; or, for a list whose  *)
(*              upstream keeps failing (Bad), BackoffError after the last  *)
(*              retry: THE WORKER EXITS, the list is not created           *)
(*              (a list whose tile lock is held by another process - Lock- *)
(*              Timeout - is tried again until the lock is free, however   *)
(*              long that takes: it is created like any other list)        *)
(***************************************************************************)
EXTENDS Naturals, Sequences, FiniteSets, TLC

CONSTANTS Worker, Items, Bad, Size         \* Items: sequence of work items handed by the walker; Bad \subseteq Range(Items)

Range(q) == {q[i] : i \in 1 .. Len(q)}
STOP == "stop"                             \* the None sentinel

VARIABLES queue, ws, witem, done, lost, ppc, next, alives, ji, raised
vars == <<queue, ws, witem, done, lost, ppc, next, alives, ji, raised>>

WSeq == CHOOSE s \in [1 .. Cardinality(Worker) -> Worker] : \A i, j \in 1 .. Cardinality(Worker) : i # j => s[i] # s[j]
Alive(w) == ws[w] \in {"idle", "working"}
NAlive == Cardinality({w \in Worker : Alive(w)})

Init ==
  /\ queue = <<>> /\ ws = [w \in Worker |-> "idle"] /\ witem = [w \in Worker |-> "none"]
  /\ done = {} /\ lost = {} /\ ppc = "put" /\ next = 1 /\ alives = 0 /\ ji = 1 /\ raised = FALSE

\* ---- producer ----
Put ==
  /\ ppc = "put" /\ next <= Len(Items) /\ Len(queue) < Size
  /\ queue' = Append(queue, Items[next]) /\ next' = next + 1
  /\ UNCHANGED <<ws, witem, done, lost, ppc, alives, ji, raised>>
\* stop() counts the living workers when it is entered and after every failed put of a sentinel (no other thread runs in
\* between: the count belongs to the step before it)
ToStop == /\ alives' = NAlive /\ ji' = 1
          /\ ppc' = IF NAlive = 0 THEN "join" ELSE "sentinels"
PutFull ==
  /\ ppc = "put" /\ next <= Len(Items) /\ Len(queue) >= Size
  /\ IF NAlive = 0 THEN raised' = TRUE /\ ToStop        \* SeedInterrupted; seed_task's finally: stop()
     ELSE UNCHANGED <<raised, ppc, alives, ji>>
  /\ UNCHANGED <<queue, ws, witem, done, lost, next>>
AllHanded ==
  /\ ppc = "put" /\ next > Len(Items)
  /\ ToStop
  /\ UNCHANGED <<queue, ws, witem, done, lost, next, raised>>
PutNone ==
  /\ ppc = "sentinels" /\ alives > 0 /\ Len(queue) < Size
  /\ queue' = Append(queue, STOP) /\ alives' = alives - 1
  /\ ppc' = IF alives = 1 THEN "join" ELSE "sentinels"
  /\ UNCHANGED <<ws, witem, done, lost, next, ji, raised>>
NoneFull ==
  /\ ppc = "sentinels" /\ alives > 0 /\ Len(queue) >= Size
  /\ ToStop
  /\ UNCHANGED <<queue, ws, witem, done, lost, next, raised>>
Join ==
  /\ ppc = "join" /\ ji <= Cardinality(Worker) /\ ~Alive(WSeq[ji])
  /\ ji' = ji + 1 /\ ppc' = IF ji = Cardinality(Worker) THEN "end" ELSE "join"
  /\ UNCHANGED <<queue, ws, witem, done, lost, next, alives, raised>>

\* ---- workers ----
Get(w) ==
  /\ ws[w] = "idle" /\ queue # <<>>
  /\ queue' = Tail(queue)
  /\ IF Head(queue) = STOP THEN ws' = [ws EXCEPT ![w] = "exited"] /\ UNCHANGED witem
     ELSE ws' = [ws EXCEPT ![w] = "working"] /\ witem' = [witem EXCEPT ![w] = Head(queue)]
  /\ UNCHANGED <<done, lost, ppc, next, alives, ji, raised>>
Work(w) ==
  /\ ws[w] = "working"
  /\ IF witem[w] \in Bad
       THEN /\ lost' = lost \cup {witem[w]} /\ ws' = [ws EXCEPT ![w] = "gaveup"] /\ UNCHANGED done
       ELSE /\ done' = done \cup {witem[w]} /\ ws' = [ws EXCEPT ![w] = "idle"] /\ UNCHANGED lost
  /\ witem' = [witem EXCEPT ![w] = "none"]
  /\ UNCHANGED <<queue, ppc, next, alives, ji, raised>>

Producer == Put \/ PutFull \/ AllHanded \/ PutNone \/ NoneFull \/ Join
Next == Producer \/ \E w \in Worker : Get(w) \/ Work(w)
Spec == Init /\ [][Next]_vars
FairSpec == Spec /\ WF_vars(Producer) /\ \A w \in Worker : WF_vars(Get(w) \/ Work(w))

-----------------------------------------------------------------------------
Ended == ppc = "end"
\* nothing is created twice, nothing that was not handed
ExactlyOnce == done \cap lost = {} /\ done \cup lost \subseteq Range(Items)
\* stop() returns only when every worker has finished, nothing is left in work
StopWaits == Ended => \A w \in Worker : ~Alive(w)
\* without failing upstreams everything handed is created when stop() returns
NoLostWork == (Ended /\ Bad = {}) => (done = Range(Items) /\ ~raised)
\* whatever happens: when stop() returns without SeedInterrupted, every handed list was taken by a worker
AllTaken == (Ended /\ ~raised) => done \cup lost = Range(Items)
\* OBSERVATION (expected to fail when Bad # {}): a run that ends without SeedInterrupted has created everything
NoSilentLoss == (Ended /\ ~raised) => lost = {}
NoStuck == Ended \/ ENABLED Next
Termination == <>Ended
=============================================================================
