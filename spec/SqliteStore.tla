---------------------------- MODULE SqliteStore ----------------------------
(***************************************************************************)
(* mapproxy.cache.mbtiles.MBTilesCache / MBTilesLevelCache and             *)
(* mapproxy.cache.geopackage.GeopackageCache / GeopackageLevelCache as     *)
(* they address rows, refined against CacheMap.                            *)
(*                                                                         *)
(*  - rows are keyed (zoom_level, tile_column, tile_row) (unique index);   *)
(*  - the per-level variants keep one database file per level and          *)
(*    dispatch on the level of the tile;                                   *)
(*  - load_tiles sends one query for all requested coordinates and         *)
(*    re-associates the returned rows with the requested tiles through a   *)
(*    dictionary.  KeyWithLevel = FALSE models the dictionary keyed (x, y) *)
(*    of the original code, TRUE the repaired code keyed (x, y, level);    *)
(*  - GroupByLevel = FALSE models the original per-level load_tiles        *)
(*    (level database chosen from the first tile, `if not level` treats    *)
(*    level 0 as "nothing to load"), TRUE the repaired one.                *)
(***************************************************************************)
EXTENDS Naturals, Sequences, FiniteSets

CONSTANTS Coord,         \* set of <<x, y, z>>
          Bytes,
          MaxBulk,
          PerLevel,      \* BOOLEAN: one database file per level
          KeyWithLevel,  \* BOOLEAN
          GroupByLevel   \* BOOLEAN (only meaningful if PerLevel)

None == "none"
Levels == {c[3] : c \in Coord}
File(z) == IF PerLevel THEN z ELSE 0           \* database file that holds level z
Files == {File(z) : z \in Levels}

VARIABLES db,        \* [Files -> set of rows <<z, x, y, data>>]  (unique on z, x, y)
          store,     \* ghost: the abstract map  [Coord -> Bytes \cup {None}]
          reply      \* last observation

vars == <<db, store, reply>>

SeqsUpTo(S, n) == UNION {[1 .. k -> S] : k \in 1 .. n}
\* a bulk load names every address at most once (tile collections are keyed by coordinate)
DistinctSeqsUpTo(S, n) == {q \in SeqsUpTo(S, n) : \A i, j \in 1 .. Len(q) : i # j => q[i] # q[j]}

RowsAt(f, c) == {r \in db[f] : r[1] = c[3] /\ r[2] = c[1] /\ r[3] = c[2]}
Abs(c) == LET rs == RowsAt(File(c[3]), c) IN IF rs = {} THEN None ELSE (CHOOSE r \in rs : TRUE)[4]

NoReply == [op |-> "init", args |-> <<>>, val |-> <<>>]
Rep(op, args, val) == [op |-> op, args |-> args, val |-> val]
YesNo(b) == IF b THEN "yes" ELSE "no"

Init == db = [f \in Files |-> {}] /\ store = [c \in Coord |-> None] /\ reply = NoReply

\* INSERT OR REPLACE INTO tiles (zoom_level, tile_column, tile_row, tile_data)
Insert(d, c, b) == LET f == File(c[3]) IN
  [d EXCEPT ![f] = (@ \ {r \in @ : r[1] = c[3] /\ r[2] = c[1] /\ r[3] = c[2]}) \cup {<<c[3], c[1], c[2], b>>}]

RECURSIVE InsertAll(_, _)
InsertAll(d, ps) == IF ps = <<>> THEN d ELSE InsertAll(Insert(d, ps[1][1], ps[1][2]), Tail(ps))
RECURSIVE ApplyAll(_, _)
ApplyAll(st, ps) == IF ps = <<>> THEN st ELSE ApplyAll([st EXCEPT ![ps[1][1]] = ps[1][2]], Tail(ps))

Store(c, b) == db' = Insert(db, c, b) /\ store' = [store EXCEPT ![c] = b] /\ reply' = Rep("store", <<c>>, <<>>)
\* store_tiles: grouped by (consecutive) level, each group one executemany in that level's file
StoreBulk(ps) == /\ db' = InsertAll(db, ps) /\ store' = ApplyAll(store, ps)
                 /\ reply' = Rep("store_bulk", [i \in 1 .. Len(ps) |-> ps[i][1]], <<>>)
Remove(c) == /\ db' = [db EXCEPT ![File(c[3])] = @ \ RowsAt(File(c[3]), c)]
             /\ store' = [store EXCEPT ![c] = None] /\ reply' = Rep("remove", <<c>>, <<>>)
Load(c) == reply' = Rep("load", <<c>>, <<Abs(c)>>) /\ UNCHANGED <<db, store>>
IsCached(c) == reply' = Rep("is_cached", <<c>>, <<YesNo(Abs(c) # None)>>) /\ UNCHANGED <<db, store>>

\* --- load_tiles on ONE database file f for the requested tiles `idx` (positions in cs) ---
Key(c) == IF KeyWithLevel THEN c ELSE <<c[1], c[2]>>
\* tile_dict[key] = the LAST requested tile with that key
Owner(cs, idx, k) == LET cand == {i \in idx : Key(cs[i]) = k} IN
                     IF cand = {} THEN 0 ELSE CHOOSE i \in cand : \A j \in cand : j <= i
\* rows returned by the query: every row of f whose (x, y, z) is one of the requested coordinates
Returned(f, cs, idx) == {r \in db[f] : \E i \in idx : cs[i] = <<r[2], r[3], r[1]>>}
RowKey(r) == IF KeyWithLevel THEN <<r[2], r[3], r[1]>> ELSE <<r[2], r[3]>>
\* the data position i ends up with: some returned row whose key maps to i (if several rows map to
\* one tile the cursor order decides: nondeterministic here)
FileLoad(f, cs, idx, i) ==
  LET mine == {r \in Returned(f, cs, idx) : Owner(cs, idx, RowKey(r)) = i}
  IN IF mine = {} THEN {None} ELSE {r[4] : r \in mine}

Results(cs) ==
  LET all == 1 .. Len(cs) IN
     IF ~PerLevel
       THEN {rp \in [all -> Bytes \cup {None}] : \A i \in all : rp[i] \in FileLoad(0, cs, all, i)}
       ELSE IF GroupByLevel
         THEN {rp \in [all -> Bytes \cup {None}] :
                   \A i \in all : rp[i] \in FileLoad(cs[i][3], cs, {j \in all : cs[j][3] = cs[i][3]}, i)}
         ELSE LET first == cs[1][3] IN         \* level of the first tile; `if not level: return True`
              IF first = 0 THEN {[i \in all |-> None]}
              ELSE {rp \in [all -> Bytes \cup {None}] : \A i \in all : rp[i] \in FileLoad(first, cs, all, i)}

LoadBulk(cs) ==
  /\ UNCHANGED <<db, store>>
  /\ \E rp \in Results(cs) : reply' = Rep("load_bulk", cs, rp)

Next ==
  \/ \E c \in Coord, b \in Bytes : Store(c, b)
  \/ \E ps \in SeqsUpTo(Coord \X Bytes, MaxBulk) : StoreBulk(ps)
  \/ \E c \in Coord : Remove(c) \/ Load(c) \/ IsCached(c)
  \/ \E cs \in DistinctSeqsUpTo(Coord, MaxBulk) : LoadBulk(cs)

Spec == Init /\ [][Next]_vars

\* ---- refinement of CacheMap ----
CM == INSTANCE CacheMap WITH Addr <- Coord, store <- [c \in Coord |-> Abs(c)], reply <- reply
Refines == CM!Spec

ReplyOK ==
  /\ reply.op \in {"load", "load_bulk"} => \A i \in 1 .. Len(reply.args) : reply.val[i] = store[reply.args[i]]
  /\ reply.op = "is_cached" => reply.val[1] = YesNo(store[reply.args[1]] # None)
AbsOK == \A c \in Coord : Abs(c) = store[c]
UniqueRows == \A f \in Files : \A r1, r2 \in db[f] : (r1[1] = r2[1] /\ r1[2] = r2[2] /\ r1[3] = r2[3]) => r1 = r2
=============================================================================
