------------------------------ MODULE TileAddr ------------------------------
(***************************************************************************)
(* Tile addresses of the tile services vs. what their capabilities say     *)
(* (C02), in the lattice world of Lattice.tla ('local' profile grids).     *)
(*                                                                         *)
(* Capabilities, as the code fills the templates:                          *)
(*   TMS TileMap (tms_tilemap_capabilities.xml): Origin = lower-left       *)
(*     corner of `OriginBox` (the code takes the LAYER EXTENT; the         *)
(*     repaired code takes the grid bbox), TileFormat width/height, one    *)
(*     TileSet per level with units-per-pixel = resolution, order = level  *)
(*   WMTS TileMatrixSet (service/wmts.py TileMatrixSet._tile_matrices):    *)
(*     offered only if the grid can be addressed from the north-west       *)
(*     (supports_access_with_origin('nw')); per level TopLeftCorner =      *)
(*     top-left of tile_bbox(origin_tile(level, 'ul')), ScaleDenominator = *)
(*     res / 0.00028, MatrixWidth/Height = grid size                       *)
(*   WMS-C TileSet (wms111capabilities.xml, TILED=true): BoundingBox,      *)
(*     Resolutions, Width, Height; tiles counted from the lower-left       *)
(*     corner of the BoundingBox, requested as GetMap TILED=true           *)
(* Address mapping (service/tile.py _internal_tile_coord): limit_tile,     *)
(* then flip the row if the request's origin convention differs from the   *)
(* grid's: TMS and KML count rows from the south, WMTS and ?origin=nw from *)
(* the north.                                                              *)
(***************************************************************************)
EXTENDS Lattice

Flavours == {"tms", "tms_nw", "kml", "wmts"}
RowsFromNorth(f) == f \in {"wmts", "tms_nw"}

\* TileServiceGrid.internal_tile_coord: the global profiles (global-mercator / global-geodetic: exact default
\* bbox) hide level 0 from TMS (the only service with use_profiles), sqrt2 grids expose every second level.
\* sf = _skip_first_level, so = _skip_odd_level; both FALSE for 'local' grids (pass a record without them
\* through WithProfile).
WithProfile(g, sf, so) == [ul |-> g.ul, bbox |-> g.bbox, tw |-> g.tw, th |-> g.th, res |-> g.res, sn |-> g.sn, sd |-> g.sd,
                           ms |-> g.ms, thr |-> g.thr, sf |-> sf, so |-> so]
HasProfile(g) == "sf" \in DOMAIN g
SkipFirst(g) == HasProfile(g) /\ g.sf
SkipOdd(g) == HasProfile(g) /\ g.so
InternalLevel(g, f, z) ==
  LET z1 == IF f = "tms" /\ SkipFirst(g) THEN z + 1 ELSE z IN
  IF SkipOdd(g) THEN 2 * z1 ELSE z1
\* tile_sets: the public TMS order n stands for this internal level
TmsLevel(g, n) == IF SkipFirst(g) THEN (IF SkipOdd(g) THEN 2 + 2 * n ELSE 1 + n) ELSE (IF SkipOdd(g) THEN 2 * n ELSE n)
TmsOrders(g) == {n \in 0 .. NLevels(g) - 1 : TmsLevel(g, n) \in Levels(g)}

\* internal tile for a public address <<x, y, z>> (NoTile if negative level or outside the matrix)
Internal(g, f, a) ==
  LET t == <<a[1], a[2], InternalLevel(g, f, a[3])>> IN
  IF a[3] < 0 \/ ~LimitTile(g, t) THEN NoTile
  ELSE IF RowsFromNorth(f) # g.ul THEN FlipTile(g, t) ELSE t
Served(g, f, a) == TileBBox(g, Internal(g, f, a))

\* which flavours offer the grid at all
Offered(g, f) == IF f = "wmts" THEN SupportsOrigin(g, TRUE) ELSE TRUE

\* ---- what a standards-following client computes ----
\* TMS 1.0.0: tiles are counted east and north from <Origin>
ClientTMS(origin, g, a) ==
  LET r == Res(g, TmsLevel(g, a[3])) IN          \* units-per-pixel of TileSet order a[3]
  <<origin[1] + a[1] * g.tw * r, origin[2] + a[2] * g.th * r,
    origin[1] + (a[1] + 1) * g.tw * r, origin[2] + (a[2] + 1) * g.th * r>>

\* WMTS: columns east, rows south from TopLeftCorner of the matrix
TopLeft(g, l) == LET t == IF g.ul THEN <<0, 0, l>> ELSE FlipTile(g, <<0, 0, l>>)
                     b == TileBBox(g, t)
                 IN <<b[1], b[4]>>
ClientWMTS(g, a) ==
  LET r == Res(g, a[3])  tl == TopLeft(g, a[3]) IN
  <<tl[1] + a[1] * g.tw * r, tl[2] - (a[2] + 1) * g.th * r,
    tl[1] + (a[1] + 1) * g.tw * r, tl[2] - a[2] * g.th * r>>

Client(g, originBox, f, a) ==
  CASE f = "wmts" -> ClientWMTS(g, a)
    [] f = "tms_nw" -> ClientWMTS(g, a)                  \* same convention as WMTS (no own capabilities)
    [] OTHER -> ClientTMS(<<originBox[1], originBox[2]>>, g, a)

Advertised(g, l) == InGridTiles(g, l)

\* C02: the tile returned for an advertised address covers exactly the rectangle the client computes
CapConsistent(g, originBox, f) ==
  Offered(g, f) => \A l \in Levels(g) : \A a \in Advertised(g, l) : Client(g, originBox, f, a) = Served(g, f, a)

\* for which grids / origin boxes is that true? (characterisation, checked by TLC against CapConsistent)
RowsFillLevel(g, l) == GridSize(g, l)[2] * g.th * Res(g, l) = H(g)
Expect(g, originBox, f) ==
  CASE f \in {"wmts", "tms_nw"} -> TRUE       \* TopLeftCorner is published per level from the real top tile row
    [] OTHER -> /\ originBox[1] = g.bbox[1] /\ originBox[2] = g.bbox[2]
                /\ (~g.ul \/ RowsFill(g))

\* ---- WMS-C (WMS Tiling Client Recommendation) ----
\* The WMS 1.1.1 capabilities (requested with TILED=true) carry one TileSet per tile layer (wms111capabilities.xml):
\* BoundingBox = `box` (the code takes the LAYER EXTENT), Resolutions = the resolutions of tile_sets, Width, Height.
\* A client counts tile (x, y) of resolution number n east and north from the lower-left corner of the BoundingBox
\* and asks for it with a GetMap TILED=true; the server answers only if the rectangle is exactly one tile of the
\* grid (CacheMapLayer._check_tiled), otherwise "not a single tile".
NoRect == <<0, 0, 0, 0>>
WmscAdvertised(g, box, n) ==
  LET r == Res(g, TmsLevel(g, n)) IN
  {<<x, y, n>> : x \in 0 .. CeilDiv(box[3] - box[1], g.tw * r) - 1, y \in 0 .. CeilDiv(box[4] - box[2], g.th * r) - 1}
ServedWMSC(g, box, a) ==
  IF TmsLevel(g, a[3]) \notin Levels(g) THEN NoRect          \* (a resolution the grid does not have)
  ELSE LET c == ClientTMS(<<box[1], box[2]>>, g, a) IN
       IF \E t \in InGridTiles(g, TmsLevel(g, a[3])) : TileBBox(g, t) = c THEN c ELSE NoRect
WmscConsistent(g, box) == \A n \in TmsOrders(g) : \A a \in WmscAdvertised(g, box, n) : ServedWMSC(g, box, a) # NoRect
\* characterisation: the corner of the BoundingBox lies on a tile corner of every level, and the tile matrix of every
\* level reaches the far edges of the BoundingBox (_calc_grids floors a partial last pixel: a level can end a fraction
\* of a pixel before the bbox, and the tile a client computes for that strip is not a tile of the grid)
WmscExpect(g, box) ==
  \A n \in TmsOrders(g) :
    LET l == TmsLevel(g, n)
        r == Res(g, l) IN
    /\ (box[1] - g.bbox[1]) % (g.tw * r) = 0
    /\ (box[1] - g.bbox[1]) \div (g.tw * r) + CeilDiv(box[3] - box[1], g.tw * r) <= GridSize(g, l)[1]
    /\ IF g.ul THEN /\ (g.bbox[4] - box[2]) % (g.th * r) = 0
                    /\ (g.bbox[4] - box[2]) \div (g.th * r) <= GridSize(g, l)[2]
       ELSE /\ (box[2] - g.bbox[2]) % (g.th * r) = 0
            /\ (box[2] - g.bbox[2]) \div (g.th * r) + CeilDiv(box[4] - box[2], g.th * r) <= GridSize(g, l)[2]

\* same ground tile through different conventions: a south-counted and a north-counted address of the same
\* level denote the same tile iff their rows mirror each other
CrossService(g, l) ==
  \A a \in Advertised(g, l) :
     Internal(g, "tms", a) = Internal(g, "wmts", <<a[1], GridSize(g, l)[2] - 1 - a[2], l>>)
=============================================================================
