------------------------------- MODULE Reseed -------------------------------
(***************************************************************************)
(* mapproxy-seed called again and again (cron) with                        *)
(*   --reseed-file F --reseed-interval I --continue --progress-file P      *)
(* and a seed task whose refresh_before is the modification time of F      *)
(* (doc/seed.rst, "seed in the off-hours"; mapproxy/seed/script.py).       *)
(*                                                                         *)
(*   F      modification time of the reseed file (0: no file): the start   *)
(*          of the current re-seeding pass                                 *)
(*   P      the progress file exists: "a pass is under way"                *)
(*   stamp  unit of work (tile) -> time it was seeded last (0: never)      *)
(*   clock  the time; every call takes one tick                            *)
(*                                                                         *)
(* One call: (A) without F, or with F but without P and F older than the   *)
(* interval, a new pass starts - F gets the current time; with F, without  *)
(* P and F younger than the interval the call ends at once ("no need for   *)
(* re-seeding"); with P the interrupted pass is continued and F is left    *)
(* alone.  (B) the seed configuration is loaded - a call may end here      *)
(* (configuration error, --summary).  (C) every unit whose stamp is not    *)
(* newer than F is seeded, in order, until the call is interrupted         *)
(* (--duration) or all are done; the walk writes P when it starts and the  *)
(* script removes it when everything is done.                              *)
(*                                                                         *)
(* The seed configuration may hold further tasks on the same cache (they     *)
(* share its tile manager); a task with a refresh time long ago that comes  *)
(* after the re-seeding task finds every unit seeded and does nothing: the  *)
(* state below is that of the re-seeding task, each task is walked with     *)
(* its own refresh time.                                                    *)
(*                                                                          *)
(* Variant = "asfound": P is written by the walk only, so a call that ends *)
(* in (B) leaves "F new, no P" - which the next call reads as "the last    *)
(* pass was completed".  Variant = "repaired": P is written in (A) when a  *)
(* new pass starts.                                                        *)
(***************************************************************************)
EXTENDS Naturals, Sequences, FiniteSets, TLC

CONSTANTS N, Interval, MaxClock, Variant       \* units 1 .. N

Unit == 1 .. N
VARIABLES F, P, stamp, clock, last, started
vars == <<F, P, stamp, clock, last, started>>
\* started: ghost - a pass was started (F moved) and has not been completed since

NoCall == [op |-> "none", out |-> "none", seeded |-> {}]
Init == F = 0 /\ P = FALSE /\ stamp = [u \in Unit |-> 0] /\ clock = 1 /\ last = NoCall /\ started = FALSE

NoNeed == F # 0 /\ ~P /\ F + Interval > clock
NewPass == F = 0 \/ (~P /\ ~(F + Interval > clock))
F1 == IF NewPass THEN clock ELSE F
P1 == IF NewPass /\ Variant = "repaired" THEN TRUE ELSE P
Todo == {u \in Unit : stamp[u] <= F1}                  \* refresh_before: mtime of F
FirstK(S, k) == {u \in S : Cardinality({w \in S : w < u}) < k}

\* the call ends at once
CallNoNeed ==
  /\ NoNeed
  /\ last' = [op |-> "call", out |-> "noneed", seeded |-> {}]
  /\ clock' = clock + 1 /\ UNCHANGED <<F, P, stamp, started>>
\* the call ends while the configuration is loaded
CallError ==
  /\ ~NoNeed
  /\ F' = F1 /\ P' = P1 /\ started' = (started \/ NewPass)
  /\ last' = [op |-> "call", out |-> "error", seeded |-> {}]
  /\ clock' = clock + 1 /\ UNCHANGED stamp
\* the call is interrupted after k units were seeded (k = 0: right after the walk has started)
CallStop(k) ==
  /\ ~NoNeed /\ k < Cardinality(Todo)
  /\ F' = F1 /\ P' = TRUE /\ started' = TRUE
  /\ stamp' = [u \in Unit |-> IF u \in FirstK(Todo, k) THEN clock + 1 ELSE stamp[u]]
  /\ last' = [op |-> "call", out |-> "interrupted", seeded |-> FirstK(Todo, k)]
  /\ clock' = clock + 1
\* the call runs to the end
CallEnd ==
  /\ ~NoNeed
  /\ F' = F1 /\ P' = FALSE /\ started' = FALSE
  /\ stamp' = [u \in Unit |-> IF u \in Todo THEN clock + 1 ELSE stamp[u]]
  /\ last' = [op |-> "call", out |-> "complete", seeded |-> Todo]
  /\ clock' = clock + 1
\* the reseed file is removed (by hand, to force a new pass; or --reseed-file is used for the first time next to a
\* progress file of earlier runs): the next call starts a new pass, whatever the progress file says
DeleteF ==
  /\ F # 0
  /\ F' = 0 /\ last' = [NoCall EXCEPT !.op = "delete"]
  /\ UNCHANGED <<P, stamp, clock, started>>
Tick(d) == /\ clock' = clock + d /\ last' = [NoCall EXCEPT !.op = "tick"] /\ UNCHANGED <<F, P, stamp, started>>

Next == CallNoNeed \/ CallError \/ CallEnd \/ (\E k \in 0 .. N - 1 : CallStop(k)) \/ (\E d \in {1, Interval} : Tick(d)) \/ DeleteF
Spec == Init /\ [][Next]_vars
Bound == clock <= MaxClock                      \* (state constraint for the model checker)

-----------------------------------------------------------------------------
\* "no need for re-seeding" is said only when the pass that F marks was completed: everything is newer than F
NoNeedOnlyAfterCompletion == [][last'.out = "noneed" => \A u \in Unit : stamp[u] > F]_vars
\* the same, on the state: without a progress file no pass is under way
NoProgressMeansComplete == (F # 0 /\ ~P) => ~started
\* the start of a pass does not move while the pass is under way and known to be (P): tiles seeded earlier in the
\* pass stay up to date
PassStartStable == [][(P /\ F # 0 /\ last'.op = "call") => F' = F]_vars
\* a call that runs to the end leaves everything newer than F and no progress file
CompleteIsComplete == [][last'.out = "complete" => (~P' /\ \A u \in Unit : stamp'[u] > F')]_vars
\* nothing that is newer than the start of the pass is seeded again
NoWastedSeeding == [][last'.op = "call" => \A u \in last'.seeded : stamp[u] <= F']_vars
TypeOK == F <= clock /\ \A u \in Unit : stamp[u] <= clock
=============================================================================
