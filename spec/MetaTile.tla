------------------------------ MODULE MetaTile ------------------------------
(***************************************************************************)
(* Meta tiles of mapproxy.grid.MetaGrid in the lattice world (C04):        *)
(* meta size clamped to the level's grid, main tile, unbuffered and        *)
(* buffered bbox with truncation of the buffer at the grid bbox and the    *)
(* per-side `buffers`, request size, and the crop pattern                  *)
(* (j*tw + buffers[left], i*th + buffers[top]) that                        *)
(* mapproxy.cache.tile.split_meta_tiles / image.tile.TileSplitter use to   *)
(* cut tiles out of the meta image (incl. negative offsets: paste path).   *)
(*                                                                         *)
(* Declarative part: a tile cut out of ANY meta tile shows, at every pixel *)
(* that lies inside the grid extent, the ground cell of that pixel - to    *)
(* within one pixel, exactly when no buffer was cut off - and no pixel     *)
(* more than one pixel inside the extent falls outside the meta image.     *)
(***************************************************************************)
EXTENDS Lattice

\* _meta_size(level): min(meta_size, grid size)
MetaSize(g, ms, l) == <<Min(ms[1], GridSize(g, l)[1]), Min(ms[2], GridSize(g, l)[2])>>

\* main_tile
MainTile(g, ms, t) == LET m == MetaSize(g, ms, t[3]) IN <<(t[1] \div m[1]) * m[1], (t[2] \div m[2]) * m[2], t[3]>>

Merge(a, b) == <<Min(a[1], b[1]), Min(a[2], b[2]), Max(a[3], b[3]), Max(a[4], b[4])>>

\* unbuffered_meta_bbox(main tile)
Unbuffered(g, ms, mt) == LET m == MetaSize(g, ms, mt[3]) IN
  Merge(TileBBox(g, mt), TileBBox(g, <<mt[1] + m[1] - 1, mt[2] + m[2] - 1, mt[3]>>))

\* _buffered_bbox: returns <<bbox, buffers>>; buffers = <<left, bottom, right, top>> in pixels
Buffered(g, b, l, buf) ==
  IF buf = 0 THEN <<b, <<0, 0, 0, 0>>>>
  ELSE
    LET r == Res(g, l)
        minx == b[1] - buf * r   miny == b[2] - buf * r   maxx == b[3] + buf * r   maxy == b[4] + buf * r
        cl == g.bbox[1] > minx   cb == g.bbox[2] > miny   cr == g.bbox[3] < maxx   ct == g.bbox[4] < maxy
        \* int(round(delta / res, 5)): delta >= 0, truncation
        bl == IF cl THEN buf - ((g.bbox[1] - minx) \div r) ELSE buf
        bb == IF cb THEN buf - ((g.bbox[2] - miny) \div r) ELSE buf
        br == IF cr THEN buf - ((maxx - g.bbox[3]) \div r) ELSE buf
        bt == IF ct THEN buf - ((maxy - g.bbox[4]) \div r) ELSE buf
    IN <<<<IF cl THEN g.bbox[1] ELSE minx, IF cb THEN g.bbox[2] ELSE miny,
           IF cr THEN g.bbox[3] ELSE maxx, IF ct THEN g.bbox[4] ELSE maxy>>,
         <<bl, bb, br, bt>>>>

\* _size_from_buffered_bbox: int(round(extent / res)) - at an exact half either neighbour is admitted
RoundDivSet(a, r) == IF (2 * a) % r = 0 /\ (a % r) # 0 THEN {a \div r, a \div r + 1}
                     ELSE {(2 * a + r) \div (2 * r)}

\* _meta_tile_list: rows from the top; out-of-grid positions are NoTile
MetaTiles(g, ms, mt) ==
  LET m == MetaSize(g, ms, mt[3]) IN
  [k \in 1 .. m[1] * m[2] |->
     LET i == (k - 1) \div m[1]  j == (k - 1) % m[1]
         y == IF g.ul THEN mt[2] + i ELSE mt[2] + m[2] - 1 - i
         t == <<mt[1] + j, y, mt[3]>>
     IN IF LimitTile(g, t) THEN t ELSE NoTile]

\* the whole MetaTile object for the meta tile that contains tile t
Meta(g, ms, buf, t) ==
  LET mt == MainTile(g, ms, t)
      m == MetaSize(g, ms, t[3])
      bb == Buffered(g, Unbuffered(g, ms, mt), t[3], buf)
      bbox == bb[1]
      bufs == bb[2]
  IN [main |-> mt, msize |-> m, bbox |-> bbox, buffers |-> bufs,
      sizes |-> {<<w, h>> : w \in RoundDivSet(bbox[3] - bbox[1], Res(g, t[3])), h \in RoundDivSet(bbox[4] - bbox[2], Res(g, t[3]))},
      tiles |-> MetaTiles(g, ms, mt),
      \* _tiles_pattern: crop origin of the k-th position
      crop |-> [k \in 1 .. m[1] * m[2] |->
                  <<((k - 1) % m[1]) * g.tw + bufs[1], ((k - 1) \div m[1]) * g.th + bufs[4]>>]]

-----------------------------------------------------------------------------
(* Declarative statement on the transcription                              *)

Truncated(M, buf) == M.buffers # <<buf, buf, buf, buf>>

\* position error (in lattice units) of the content cut out for the k-th tile of meta tile M: the crop origin
\* addresses ground point (bbox.minx + ox*res, bbox.maxy - oy*res); the tile's own top-left corner is (x0, y1)
ErrX(g, M, k) == (M.bbox[1] + M.crop[k][1] * Res(g, M.main[3])) - TileBBox(g, M.tiles[k])[1]
ErrY(g, M, k) == (M.bbox[4] - M.crop[k][2] * Res(g, M.main[3])) - TileBBox(g, M.tiles[k])[4]

\* tile pixel (pi, pj) (from the top-left) of the k-th tile lies in the meta image of size sz?
InImage(g, M, k, sz, pi, pj) ==
  /\ 0 <= M.crop[k][1] + pi /\ M.crop[k][1] + pi < sz[1]
  /\ 0 <= M.crop[k][2] + pj /\ M.crop[k][2] + pj < sz[2]
\* that pixel's ground cell lies more than one pixel inside the grid extent
DeepInside(g, t, pi, pj) ==
  LET r == Res(g, t[3])  b == TileBBox(g, t)
      x0 == b[1] + pi * r   y1 == b[4] - pj * r
  IN /\ x0 - r >= g.bbox[1] /\ x0 + 2 * r <= g.bbox[3]
     /\ y1 + r <= g.bbox[4] /\ y1 - 2 * r >= g.bbox[2]

MetaOK(g, ms, buf, t) ==
  LET M == Meta(g, ms, buf, t)
      r == Res(g, t[3])
  IN /\ t \in {M.tiles[k] : k \in 1 .. Len(M.tiles)}                      \* the meta tile contains the tile
     /\ \A k \in 1 .. Len(M.tiles) : M.tiles[k] # NoTile =>
          /\ Abs(ErrX(g, M, k)) < r /\ Abs(ErrY(g, M, k)) < r              \* within one pixel ...
          /\ ~Truncated(M, buf) => ErrX(g, M, k) = 0 /\ ErrY(g, M, k) = 0   \* ... exact when no buffer was cut
          /\ \A sz \in M.sizes : \A pi \in 0 .. g.tw - 1, pj \in 0 .. g.th - 1 :
                DeepInside(g, M.tiles[k], pi, pj) => InImage(g, M, k, sz, pi, pj)
     /\ M.bbox[1] < M.bbox[3] /\ M.bbox[2] < M.bbox[4]
=============================================================================
