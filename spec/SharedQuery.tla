---------------------------- MODULE SharedQuery ----------------------------
(***************************************************************************)
(* C17 under concurrency: the sources of one cache (TileCreator.           *)
(* _query_sources) and the layers of one map request are asked             *)
(* concurrently with ONE MapQuery object.  WMSSource._get_map picks the    *)
(* spelling of the SRS that the source supports (EPSG:3857 / EPSG:900913   *)
(* are equal as SRS objects, different as codes) and - in the code as      *)
(* found - writes it into the query it was given:                          *)
(*                                                                         *)
(*   Negotiate(s)   if query.srs.srs_code # supported: query.srs = ...     *)
(*   Send(s)        client.retrieve(query): the request is built from the  *)
(*                  query as it is NOW                                     *)
(*                                                                         *)
(* Guard = "shared": the code as found (the assignment goes to the shared  *)
(* object); Guard = "copy": the source works on a query of its own.        *)
(***************************************************************************)
EXTENDS Naturals, FiniteSets, TLC

CONSTANTS Source, Supported, ReqCode, Guard       \* Supported: [Source -> code]

VARIABLES shared, own, pc, sent
vars == <<shared, own, pc, sent>>

Init == /\ shared = ReqCode /\ own = [s \in Source |-> ReqCode]
        /\ pc = [s \in Source |-> "negotiate"] /\ sent = [s \in Source |-> "none"]

Cur(s) == IF Guard = "shared" THEN shared ELSE own[s]

Negotiate(s) ==
  /\ pc[s] = "negotiate"
  /\ IF Cur(s) # Supported[s]
       THEN IF Guard = "shared" THEN shared' = Supported[s] /\ UNCHANGED own
            ELSE own' = [own EXCEPT ![s] = Supported[s]] /\ UNCHANGED shared
       ELSE UNCHANGED <<shared, own>>
  /\ pc' = [pc EXCEPT ![s] = "send"] /\ UNCHANGED sent

Send(s) ==
  /\ pc[s] = "send"
  /\ sent' = [sent EXCEPT ![s] = Cur(s)]
  /\ pc' = [pc EXCEPT ![s] = "done"] /\ UNCHANGED <<shared, own>>

Next == \E s \in Source : Negotiate(s) \/ Send(s)
Spec == Init /\ [][Next]_vars

\* every upstream request uses a code of the source's configured list
SentSupported == \A s \in Source : sent[s] \in {"none", Supported[s]}
AllDone == \A s \in Source : pc[s] = "done"
NoStuck == AllDone \/ ENABLED Next
=============================================================================
