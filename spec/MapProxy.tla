------------------------------ MODULE MapProxy ------------------------------
(***************************************************************************)
(* Composition: a MapProxy instance serving one cached layer on a lattice  *)
(* grid, as a state machine over its externally observable state:          *)
(*                                                                         *)
(*   cache    the set of tiles stored in the cache                         *)
(*   fetched  the upstream requests issued for the last client request      *)
(*                                                                         *)
(* Actions are whole client requests (sequential composition of the        *)
(* modules checked on their own: TileAddr for public->internal addresses,  *)
(* Lattice for affected tiles and level choice, MetaTile for the upstream  *)
(* request of a meta tile, GeoRef for the NoTiles conditions, TileCreate   *)
(* for "fetch only what is missing, store the whole meta tile"):           *)
(*                                                                         *)
(*   TileReq(f, a)   tile request through flavour f for public address a   *)
(*   MapReq(q)       WMS GetMap <<x0, y0, x1, y1, w, h>> inside the extent  *)
(*   CleanupLevel(l) cleanup task "remove all" for one level               *)
(*                                                                         *)
(* The invariants are the cross-cutting statements that single modules     *)
(* cannot state: every stored address lies in the grid (C16), the cache is *)
(* a union of whole meta tiles (C04/C08), every upstream request is the    *)
(* request of exactly one meta tile (C04/C17) and no meta tile is fetched  *)
(* while all its tiles are cached (C08), refused requests change nothing   *)
(* (C16).  Executions of a real MapProxyApp under mixed workloads are      *)
(* validated against this module (Trace_MapProxy).                         *)
(***************************************************************************)
EXTENDS TileAddr, MetaTile, GeoRef

CONSTANTS G,          \* the grid (record, see Lattice)
          MS,         \* meta size <<mx, my>>
          Buf,        \* meta buffer in pixels
          Reqs,       \* set of map requests offered to the model checker
          Addrs       \* set of public tile addresses <<x, y, z>> offered to the model checker

VARIABLES cache, fetched, last
mvars == <<cache, fetched, last>>

AllTiles == UNION {InGridTiles(G, l) : l \in Levels(G)}
MInit == cache = {} /\ fetched = <<>> /\ last = [op |-> "init", ok |-> TRUE, new |-> 0]

\* the meta tile (as upstream request) that holds tile t, and its in-grid tiles
\* (tables: constant definitions are evaluated once by TLC)
MetaTab == [t \in AllTiles |-> Meta(G, MS, Buf, t)]
MetaOf(t) == MetaTab[t]
MetaTilesTab == [t \in AllTiles |-> {MetaTab[t].tiles[k] : k \in 1 .. Len(MetaTab[t].tiles)} \ {NoTile}]
MetaTilesOf(t) == MetaTilesTab[t]
UpReqTab == [t \in AllTiles |-> [l |-> t[3], bbox |-> MetaTab[t].bbox, main |-> MetaTab[t].main]]
UpReq(t) == UpReqTab[t]

\* make sure the tiles ts are cached: for each meta tile with a missing tile one upstream request, in the order
\* of first occurrence in the sequence ts; all tiles of that meta tile are stored
RECURSIVE Ensure(_, _, _)
Ensure(ts, c, f) ==
  IF ts = <<>> THEN <<c, f>>
  ELSE LET t == Head(ts) IN
       IF t = NoTile \/ MetaTilesOf(t) \subseteq c THEN Ensure(Tail(ts), c, f)
       ELSE Ensure(Tail(ts), c \cup MetaTilesOf(t), Append(f, UpReq(t)))

TileReq(f, a) ==
  LET t == Internal(G, f, a) IN
  IF ~Offered(G, f) \/ t = NoTile
    THEN /\ last' = [op |-> "tile", ok |-> FALSE, new |-> 0] /\ fetched' = <<>> /\ UNCHANGED cache
    ELSE LET r == Ensure(<<t>>, cache, <<>>) IN
         /\ cache' = r[1] /\ fetched' = r[2]
         /\ last' = [op |-> "tile", ok |-> TRUE, new |-> Len(r[2])]

\* map request contained in the grid bbox: level = closest_level, tiles = affected tiles (row-major from the top)
MapReqAt(q, l) ==
  LET a == Affected(G, <<q[1], q[2], q[3], q[4]>>, l)
      r == Ensure(a.tiles, cache, <<>>)
  IN /\ cache' = r[1] /\ fetched' = r[2]
     /\ last' = [op |-> "map", ok |-> TRUE, new |-> Len(r[2])]
MapReq(q) ==
  /\ Contained(G.bbox, q)
  /\ IF NoTiles(G, q)
       THEN last' = [op |-> "map", ok |-> FALSE, new |-> 0] /\ fetched' = <<>> /\ UNCHANGED cache
       ELSE \E l \in ExpectedLevels(G, q) : MapReqAt(q, l)

CleanupLevel(l) ==
  /\ cache' = {t \in cache : t[3] # l} /\ fetched' = <<>>
  /\ last' = [op |-> "cleanup", ok |-> TRUE, new |-> 0]

MNext ==
  \/ \E f \in Flavours, a \in Addrs : TileReq(f, a)
  \/ \E q \in Reqs : MapReq(q)
  \/ \E l \in Levels(G) : CleanupLevel(l)
MSpec == MInit /\ [][MNext]_mvars

-----------------------------------------------------------------------------
StoredInsideGrid == cache \subseteq AllTiles
\* the cache is a union of whole meta tiles
MetaClosed == \A t \in cache : MetaTilesOf(t) \subseteq cache
\* every upstream request is the request of one meta tile of the grid
FetchesAreMetaTiles == \A i \in 1 .. Len(fetched) :
    \E t \in AllTiles : fetched[i] = UpReq(t)
\* a request that was refused changed nothing; a request never fetches a meta tile whose tiles are all cached
RefusedNoEffect == [][last'.ok = FALSE => (cache' = cache /\ fetched' = <<>>)]_mvars
FetchOnlyMissing == [][\A i \in 1 .. Len(fetched') :
                          \E t \in AllTiles : fetched'[i] = UpReq(t) /\ ~(MetaTilesOf(t) \subseteq cache)]_mvars
\* within one request no meta tile is fetched twice
NoDoubleFetch == \A i, j \in 1 .. Len(fetched) : i # j => fetched[i] # fetched[j]
=============================================================================
