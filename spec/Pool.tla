-------------------------------- MODULE Pool --------------------------------
(***************************************************************************)
(* mapproxy.util.async_.ThreadPool: imap / map / starmap / starcall        *)
(* -> _single_call | map_each (sequential branch for pool size < 2, else   *)
(* task queue + worker threads + result queue + re-sequencing consumer).   *)
(* One action per Queue operation (the only shared state of the threads),  *)
(* per item call in the caller's thread, and per thread start.             *)
(*                                                                         *)
(*   caller ("consumer")                                                   *)
(*     imap/starmap:  single item?  -> _single_call        Dispatch,       *)
(*                                                          SingleCall     *)
(*     map_each:  pool_size < 2: for ..: yield func(..arg)  SeqCall        *)
(*       _init_pool()                    (workers created)  Dispatch       *)
(*       for i..: task_queue.put((i, func, arg))            CPut           *)
(*       _get_results #1 / _fetch_results:                                 *)
(*         while not task_queue.empty()                     CEmptyT        *)
(*               or not result_queue.empty():               CEmptyR        *)
(*           r = result_queue.get()            (blocking)   CGet           *)
(*             raise mode and r is exc_info: shutdown(force=True); raise   *)
(*             else re-sequence through `results` / next_result, yield     *)
(*       task_queue.join()                     (blocking)   CJoin          *)
(*       _get_results #2 (same loop)                                       *)
(*       shutdown(): pool_size x task_queue.put(None)       CPutNone       *)
(*     shutdown(force=True) = _consume_queue(task_queue),                  *)
(*       _consume_queue(result_queue): while not q.empty(): FEmptyT/R      *)
(*          q.get(block=False) (may raise Empty)            FGetT/R        *)
(*          q.task_done()                                   FDoneT/R       *)
(*       then the sentinels (CPutNone), then the exception is raised.      *)
(*   worker w (ThreadWorker.run)                                           *)
(*     thread start                                         WStart         *)
(*     task = task_queue.get()   (blocking; runs func)      WGetTask       *)
(*                               sentinel                   WGetNone       *)
(*     result_queue.put((i, result))                        WPut           *)
(*     task_queue.task_done()                               WTaskDone      *)
(*     after the sentinel: task_done(); break               WExit          *)
(*                                                                         *)
(* Workers are interchangeable: the model keeps how many of them are at    *)
(* each program point that holds no item (wn) and, per item, whether a     *)
(* worker holds it before its put / before its task_done (hold); this is   *)
(* the quotient of the per-thread model under renaming of workers.         *)
(*                                                                         *)
(* The result of item i is determined by i: a value if i \notin fail, the  *)
(* exc_info of its own exception otherwise; queues carry item indices.     *)
(*                                                                         *)
(* Two decisions of the code are parameters (TRUE = what the property      *)
(* needs, FALSE = as written in the pinned tree):                          *)
(*   SeqRaises    sequential branch re-raises in raise mode (FALSE: yields *)
(*                the exc_info tuple as if it were a result)               *)
(*   StarByCount  starmap/starcall take the single-call shortcut when      *)
(*                there is ONE ITEM (FALSE: when the first argument tuple  *)
(*                has one element, whatever the number of items)           *)
(***************************************************************************)
EXTENDS Integers, Sequences, FiniteSets, TLC

CONSTANTS MinN, MaxN,   \* a call has MinN .. MaxN items
          Sizes,        \* set of pool sizes
          Entries,      \* subset of {"imap", "star1", "star2"}: imap/map, starmap/starcall with 1-/2-ary tuples
          Modes,        \* subset of BOOLEAN: TRUE = raise mode, FALSE = result objects
          SeqRaises, StarByCount

None == -1
MaxSize == CHOOSE s \in Sizes : \A t \in Sizes : t <= s
WLoc == {"start", "idle", "gotNone", "exited"}      \* worker program points at which no item is held
Items(k) == 0 .. k - 1

\* which failing sets are explored for a call of k items (overridable by model-checking instances)
FailSets(k, rm) == SUBSET Items(k)

VARIABLES
  n, fail, raiseMode, size,   \* the call
  entry,        \* entry point until dispatched, then the path taken: "single" | "seq" | "pool"
  cpc,          \* consumer program counter
  ci,           \* consumer loop counter (tasks put / sequential index / sentinels put)
  phase,        \* 1, 2: first / second _get_results loop
  culprit,      \* item whose exception is being raised (force shutdown in progress)
  buf,          \* keys of the re-sequencing dictionary `results`
  nextR,        \* next_result
  out,          \* what the caller received so far: sequence of <<kind, item>>
  raised,       \* item whose exception reached the caller, or None
  taskQ, unfinished,          \* task_queue contents and its unfinished_tasks counter
  resultQ,                    \* result_queue contents (item indices)
  wn,           \* [WLoc -> Nat]: number of workers not started yet / blocked in or before task_queue.get() /
                \*   holding the sentinel before task_done / exited
  hold          \* [item -> "-" | "put" | "taskDone"]: a worker ran the item and is before result_queue.put /
                \*   before task_queue.task_done

call  == <<n, fail, raiseMode, size, entry>>
cvars == <<cpc, ci, phase, culprit, buf, nextR, out, raised>>
qvars == <<taskQ, unfinished, resultQ>>
wvars == <<wn, hold>>
vars  == <<call, cvars, qvars, wvars>>

Kind(i) == IF i \in fail THEN "exc" ELSE "val"
Res(i)  == <<Kind(i), i>>

CPcs == {"call", "single", "seq", "put", "emptyT", "emptyR", "get", "join", "putNone",
         "fEmptyT", "fGetT", "fDoneT", "fEmptyR", "fGetR", "fDoneR", "done"}

TypeOK ==
  /\ n \in 0 .. MaxN /\ fail \subseteq Items(n) /\ raiseMode \in BOOLEAN /\ size \in Sizes
  /\ entry \in {"imap", "star1", "star2", "single", "seq", "pool"}
  /\ cpc \in CPcs /\ ci \in 0 .. (MaxN + MaxSize) /\ phase \in 0 .. 2
  /\ culprit \in Items(n) \cup {None} /\ raised \in Items(n) \cup {None}
  /\ buf \subseteq Items(n) /\ nextR \in 0 .. n
  /\ out \in Seq({"val", "exc"} \X Items(n))
  /\ taskQ \in Seq(Items(n) \cup {None}) /\ resultQ \in Seq(Items(n))
  /\ unfinished \in 0 .. (MaxN + MaxSize)
  /\ wn \in [WLoc -> 0 .. MaxSize] /\ hold \in [Items(n) -> {"-", "put", "taskDone"}]

Init ==
  /\ n \in MinN .. MaxN /\ raiseMode \in Modes /\ size \in Sizes /\ entry \in Entries
  /\ (entry # "imap" => n >= 1)               \* starmap(f, []) is an IndexError on args[0]: outside the model
  /\ fail \in FailSets(n, raiseMode)
  /\ cpc = "call" /\ ci = 0 /\ phase = 0 /\ culprit = None /\ buf = {} /\ nextR = 0 /\ out = <<>> /\ raised = None
  /\ taskQ = <<>> /\ unfinished = 0 /\ resultQ = <<>>
  /\ wn = [l \in WLoc |-> 0] /\ hold = [i \in Items(n) |-> "-"]

-----------------------------------------------------------------------------
(* caller *)

SingleShortcut ==
  CASE entry = "imap"  -> n = 1                                   \* len(args[0]) == 1: args[0] is the item list
    [] entry = "star1" -> IF StarByCount THEN n = 1 ELSE TRUE     \* len(args[0]) == 1: args[0] is the FIRST TUPLE
    [] entry = "star2" -> IF StarByCount THEN n = 1 ELSE FALSE
    [] OTHER -> FALSE

Dispatch ==
  /\ cpc = "call"
  /\ IF SingleShortcut
       THEN /\ entry' = "single" /\ cpc' = "single"
            /\ UNCHANGED <<phase, wn>>
       ELSE IF size < 2
         THEN /\ entry' = "seq" /\ cpc' = (IF n = 0 THEN "done" ELSE "seq")
              /\ UNCHANGED <<phase, wn>>
         ELSE /\ entry' = "pool" /\ cpc' = (IF n = 0 THEN "emptyT" ELSE "put")
              /\ phase' = 1
              /\ wn' = [wn EXCEPT !["start"] = size]          \* _init_pool: pool_size threads created
  /\ UNCHANGED <<n, fail, raiseMode, size, ci, culprit, buf, nextR, out, raised, qvars, hold>>

SingleCall ==     \* _single_call: only item 0 is ever looked at
  /\ cpc = "single"
  /\ IF raiseMode /\ 0 \in fail
       THEN raised' = 0 /\ out' = out
       ELSE out' = <<Res(0)>> /\ raised' = raised
  /\ cpc' = "done"
  /\ UNCHANGED <<call, ci, phase, culprit, buf, nextR, qvars, wvars>>

SeqCall ==        \* one iteration of the pool_size < 2 loop
  /\ cpc = "seq"
  /\ IF raiseMode /\ ci \in fail /\ SeqRaises
       THEN /\ raised' = ci /\ cpc' = "done" /\ UNCHANGED <<out, ci>>
       ELSE /\ out' = Append(out, Res(ci))          \* raise mode, ~SeqRaises: <<"exc", i>> handed out as a value
            /\ ci' = ci + 1
            /\ cpc' = (IF ci + 1 = n THEN "done" ELSE "seq")
            /\ raised' = raised
  /\ UNCHANGED <<call, phase, culprit, buf, nextR, qvars, wvars>>

CPut ==
  /\ cpc = "put"
  /\ taskQ' = Append(taskQ, ci) /\ unfinished' = unfinished + 1
  /\ ci' = ci + 1
  /\ cpc' = (IF ci + 1 = n THEN "emptyT" ELSE "put")
  /\ UNCHANGED <<call, phase, culprit, buf, nextR, out, raised, resultQ, wvars>>

CEmptyT ==        \* `not self.task_queue.empty()` - a read of its own, the answer may be stale at the next step
  /\ cpc = "emptyT"
  /\ cpc' = (IF taskQ # <<>> THEN "get" ELSE "emptyR")
  /\ UNCHANGED <<call, ci, phase, culprit, buf, nextR, out, raised, qvars, wvars>>

CEmptyR ==
  /\ cpc = "emptyR"
  /\ IF resultQ # <<>>
       THEN cpc' = "get" /\ ci' = ci
       ELSE IF phase = 1 THEN cpc' = "join" /\ ci' = ci
            ELSE cpc' = "putNone" /\ ci' = 0               \* shutdown()
  /\ UNCHANGED <<call, phase, culprit, buf, nextR, out, raised, qvars, wvars>>

\* first index >= k+1 that is not buffered
NextGap(k) == CHOOSE m \in (k + 1) .. n : m \notin buf /\ \A j \in (k + 1) .. (m - 1) : j \in buf

CGet ==           \* result_queue.get() + exception test + _get_results re-sequencing up to the next Queue call
  /\ cpc = "get" /\ resultQ # <<>>
  /\ LET i == Head(resultQ) IN
     /\ resultQ' = Tail(resultQ)
     /\ IF raiseMode /\ i \in fail
          THEN /\ culprit' = i /\ cpc' = "fEmptyT"
               /\ UNCHANGED <<buf, nextR, out>>
          ELSE /\ cpc' = "emptyT" /\ culprit' = culprit
               /\ IF i = nextR
                    THEN LET m == NextGap(i) IN
                         /\ out' = out \o [k \in 1 .. (m - i) |-> Res(i + k - 1)]
                         /\ nextR' = m
                         /\ buf' = buf \ (i .. m)
                    ELSE /\ buf' = buf \cup {i} /\ UNCHANGED <<nextR, out>>
  /\ UNCHANGED <<call, ci, phase, raised, taskQ, unfinished, wvars>>

CJoin ==
  /\ cpc = "join" /\ unfinished = 0
  /\ phase' = 2 /\ cpc' = "emptyT"
  /\ UNCHANGED <<call, ci, culprit, buf, nextR, out, raised, qvars, wvars>>

CPutNone ==       \* shutdown: one sentinel per worker; after the last one the generator ends or raises
  /\ cpc = "putNone"
  /\ taskQ' = Append(taskQ, None) /\ unfinished' = unfinished + 1
  /\ ci' = ci + 1
  /\ IF ci + 1 = size
       THEN cpc' = "done" /\ raised' = culprit
       ELSE cpc' = cpc /\ raised' = raised
  /\ UNCHANGED <<call, phase, culprit, buf, nextR, out, resultQ, wvars>>

FEmptyT ==
  /\ cpc = "fEmptyT"
  /\ cpc' = (IF taskQ # <<>> THEN "fGetT" ELSE "fEmptyR")
  /\ UNCHANGED <<call, ci, phase, culprit, buf, nextR, out, raised, qvars, wvars>>

FGetTOk ==
  /\ cpc = "fGetT" /\ taskQ # <<>>
  /\ taskQ' = Tail(taskQ) /\ cpc' = "fDoneT"
  /\ UNCHANGED <<call, ci, phase, culprit, buf, nextR, out, raised, unfinished, resultQ, wvars>>

FGetTEmpty ==     \* a worker took the task between empty() and get(block=False): Queue.Empty, ignored
  /\ cpc = "fGetT" /\ taskQ = <<>>
  /\ cpc' = "fEmptyT"
  /\ UNCHANGED <<call, ci, phase, culprit, buf, nextR, out, raised, qvars, wvars>>

FDoneT ==
  /\ cpc = "fDoneT"
  /\ unfinished' = unfinished - 1 /\ cpc' = "fEmptyT"
  /\ UNCHANGED <<call, ci, phase, culprit, buf, nextR, out, raised, taskQ, resultQ, wvars>>

FEmptyR ==
  /\ cpc = "fEmptyR"
  /\ IF resultQ # <<>> THEN cpc' = "fGetR" /\ ci' = ci
                       ELSE cpc' = "putNone" /\ ci' = 0
  /\ UNCHANGED <<call, phase, culprit, buf, nextR, out, raised, qvars, wvars>>

FGetR ==          \* the caller is the only reader of result_queue: never Empty here
  /\ cpc = "fGetR" /\ resultQ # <<>>
  /\ resultQ' = Tail(resultQ) /\ cpc' = "fDoneR"
  /\ UNCHANGED <<call, ci, phase, culprit, buf, nextR, out, raised, taskQ, unfinished, wvars>>

FDoneR ==
  /\ cpc = "fDoneR"
  /\ cpc' = "fEmptyR"
  /\ UNCHANGED <<call, ci, phase, culprit, buf, nextR, out, raised, qvars, wvars>>

Consumer == \/ Dispatch \/ SingleCall \/ SeqCall \/ CPut \/ CEmptyT \/ CEmptyR \/ CGet \/ CJoin \/ CPutNone
            \/ FEmptyT \/ FGetTOk \/ FGetTEmpty \/ FDoneT \/ FEmptyR \/ FGetR \/ FDoneR

-----------------------------------------------------------------------------
(* workers *)

WStart ==
  /\ wn["start"] > 0
  /\ wn' = [wn EXCEPT !["start"] = @ - 1, !["idle"] = @ + 1]
  /\ UNCHANGED <<call, cvars, qvars, hold>>

WGetTask ==       \* task_queue.get(); func(..args) runs inside this step (it shares nothing)
  /\ wn["idle"] > 0 /\ taskQ # <<>> /\ Head(taskQ) # None
  /\ hold' = [hold EXCEPT ![Head(taskQ)] = "put"]
  /\ taskQ' = Tail(taskQ)
  /\ wn' = [wn EXCEPT !["idle"] = @ - 1]
  /\ UNCHANGED <<call, cvars, unfinished, resultQ>>

WGetNone ==
  /\ wn["idle"] > 0 /\ taskQ # <<>> /\ Head(taskQ) = None
  /\ taskQ' = Tail(taskQ)
  /\ wn' = [wn EXCEPT !["idle"] = @ - 1, !["gotNone"] = @ + 1]
  /\ UNCHANGED <<call, cvars, unfinished, resultQ, hold>>

WPut(i) ==        \* the worker that ran item i: result_queue.put((i, result))
  /\ i \in Items(n) /\ hold[i] = "put"
  /\ resultQ' = Append(resultQ, i)
  /\ hold' = [hold EXCEPT ![i] = "taskDone"]
  /\ UNCHANGED <<call, cvars, taskQ, unfinished, wn>>

WTaskDone(i) ==
  /\ i \in Items(n) /\ hold[i] = "taskDone"
  /\ unfinished' = unfinished - 1
  /\ hold' = [hold EXCEPT ![i] = "-"]
  /\ wn' = [wn EXCEPT !["idle"] = @ + 1]
  /\ UNCHANGED <<call, cvars, taskQ, resultQ>>

WExit ==
  /\ wn["gotNone"] > 0
  /\ unfinished' = unfinished - 1
  /\ wn' = [wn EXCEPT !["gotNone"] = @ - 1, !["exited"] = @ + 1]
  /\ UNCHANGED <<call, cvars, taskQ, resultQ, hold>>

WorkerStep == WStart \/ WGetTask \/ WGetNone \/ WExit \/ \E i \in Items(MaxN) : WPut(i) \/ WTaskDone(i)

Next == Consumer \/ WorkerStep

Spec     == Init /\ [][Next]_vars
FairSpec == /\ Spec /\ WF_vars(Consumer)
            /\ WF_vars(WStart) /\ WF_vars(WGetTask \/ WGetNone) /\ WF_vars(WExit)
            /\ \A i \in Items(MaxN) : WF_vars(WPut(i)) /\ WF_vars(WTaskDone(i))

-----------------------------------------------------------------------------
(* the property *)

Done == cpc = "done"

\* everything handed to the caller is the result of the item at that position; in raise mode an
\* exception is never handed out as a value
OrderedPrefix ==
  /\ Len(out) <= n
  /\ \A p \in 1 .. Len(out) : out[p] = Res(p - 1) /\ (raiseMode => out[p][1] = "val")

\* at the end: one result per input, or (raise mode with failing items) the exception of a failing item
DoneComplete ==
  Done => IF raiseMode /\ fail # {}
            THEN raised \in fail
            ELSE raised = None /\ Len(out) = n

\* the same two statements outside the behaviours that the as-written variants are known to get wrong (these
\* coincide with the plain ones when SeqRaises and StarByCount are TRUE)
KnownSeq  == ~SeqRaises /\ entry = "seq" /\ raiseMode
KnownStar == ~StarByCount /\ entry = "single" /\ n > 1
OrderedPrefixX == KnownSeq \/ OrderedPrefix
DoneCompleteX  == KnownSeq \/ KnownStar \/ DoneComplete

RaisedSound == raised # None => Done /\ raiseMode /\ raised \in fail

ConsumerCanMove == /\ ~Done
                   /\ cpc = "get" => resultQ # <<>>
                   /\ cpc = "join" => unfinished = 0
WorkerCanMove == \/ wn["start"] > 0 \/ wn["gotNone"] > 0
                 \/ \E i \in Items(n) : hold[i] # "-"
                 \/ wn["idle"] > 0 /\ taskQ # <<>>
Quiescent == ~ConsumerCanMove /\ ~WorkerCanMove

\* the call cannot get stuck: while it is not finished, some thread can move
StuckFree == ~Done => ~Quiescent
\* (not part of the property, model hygiene) when nothing can move, no worker thread is left behind
NoLeak == Quiescent => wn["exited"] = (IF entry = "pool" THEN size ELSE 0)

Terminates == <>Done

\* reductions for the larger model-checking instances (sound: the dropped interleavings differ only in the
\* position of steps that read and write nothing shared and that no property mentions)
\*  - thread start commutes with everything: let all workers start before the first task is queued
StartFirst == \/ entry # "pool" \/ wn["start"] = 0 \/ n = 0
              \/ (cpc = "put" /\ ci = 0)
\*  - in result-object mode no step looks at `fail`: explore none / each single item / all failing
FewFailSets(k, rm) == IF rm THEN SUBSET Items(k)
                      ELSE {{}, Items(k)} \cup {{i} : i \in Items(k)}

\* sanity of the model: the queue counter is what Queue would compute
CounterOK == /\ unfinished >= Len(taskQ)
             /\ wn["start"] + wn["idle"] + wn["gotNone"] + wn["exited"] + Cardinality({i \in Items(n) : hold[i] # "-"})
                  = (IF entry = "pool" THEN size ELSE 0)
=============================================================================
