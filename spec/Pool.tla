-------------------------------- MODULE Pool --------------------------------
(***************************************************************************)
(* mapproxy.util.async_.ThreadPool: imap / map / starmap / starcall        *)
(* -> _single_call | map_each (sequential branch for pool size < 2, else   *)
(* task queue + worker threads + result queue + re-sequencing consumer).   *)
(* One action per Queue operation (the only shared state of the threads),  *)
(* per item call in the caller's thread, and per thread start.             *)
(*                                                                         *)
(*   caller ("consumer")                                                   *)
(*     imap/starmap:  single item?  -> _single_call        Dispatch,       *)
(*                                                          SingleCall     *)
(*     map_each:  pool_size < 2: for ..: yield func(..arg)  SeqCall        *)
(*       _init_pool()                    (workers created)  Dispatch       *)
(*       for i..: task_queue.put((i, func, arg))            CPut           *)
(*       _get_results #1 / _fetch_results:                                 *)
(*         while not task_queue.empty()                     CEmptyT        *)
(*               or not result_queue.empty():               CEmptyR        *)
(*           r = result_queue.get()            (blocking)   CGet           *)
(*             raise mode and r is exc_info: shutdown(force=True); raise   *)
(*             else re-sequence through `results` / next_result, yield     *)
(*       task_queue.join()                     (blocking)   CJoin          *)
(*       _get_results #2 (same loop)                                       *)
(*       shutdown(): pool_size x task_queue.put(None)       CPutNone       *)
(*     shutdown(force=True) = _consume_queue(task_queue),                  *)
(*       _consume_queue(result_queue): while not q.empty(): FEmptyT/R      *)
(*          q.get(block=False) (may raise Empty)            FGetT/R        *)
(*          q.task_done()                                   FDoneT/R       *)
(*       then the sentinels (CPutNone), then the exception is raised.      *)
(*   worker w (ThreadWorker.run)                                           *)
(*     thread start                                         WStart         *)
(*     task = task_queue.get()   (blocking; runs func)      WGetTask       *)
(*                               sentinel                   WGetNone       *)
(*     result_queue.put((i, result))                        WPut           *)
(*     task_queue.task_done()                               WTaskDone      *)
(*     after the sentinel: task_done(); break               WExit          *)
(*                                                                         *)
(* Workers are interchangeable: the model keeps how many of them are at    *)
(* each program point that holds no item (wn) and, per item, whether a     *)
(* worker holds it before its put / before its task_done (hold); this is   *)
(* the quotient of the per-thread model under renaming of workers.         *)
(*                                                                         *)
(* The result of item i is determined by i: a value if i \notin fail, the  *)
(* exc_info of its own exception otherwise; queues carry item indices.     *)
(*                                                                         *)
(* Two decisions of the code are parameters (TRUE = what the property      *)
(* needs, FALSE = as written in the pinned tree):                          *)
(*   SeqRaises    sequential branch re-raises in raise mode (FALSE: yields *)
(*                the exc_info tuple as if it were a result)               *)
(*   StarByCount  starmap/starcall take the single-call shortcut when      *)
(*                there is ONE ITEM (FALSE: when the first argument tuple  *)
(*                has one element, whatever the number of items)           *)
(*                                                                         *)
(* Several calls on ONE ThreadPool object (MaxCalls > 1): a call that has  *)
(* ended - completed or aborted by an exception - may be followed by       *)
(* another one (NewCall).  Items keep a pool-wide identity: the items of   *)
(* the current call are base .. base + n - 1, the index the code works     *)
(* with (task tuple, key of `results`, next_result) is Key(item).  What a  *)
(* call leaves behind is kept: workers that have not exited, sentinels,    *)
(* the item a worker still holds (it will put its result), results in the  *)
(* result queue.  `results` and next_result are locals of map_each and     *)
(* start empty.                                                            *)
(*   FreshQueues  map_each creates its two queues for every call and the   *)
(*                workers of the call work on these (TRUE: nothing of an   *)
(*                earlier call can reach a later one; FALSE: the queues    *)
(*                of the pool object, as written in the pinned tree - a    *)
(*                result that arrives late is taken for the result of the  *)
(*                item with the same index of the next call)               *)
(***************************************************************************)
EXTENDS Integers, Sequences, FiniteSets, TLC

CONSTANTS MinN, MaxN,   \* a call has MinN .. MaxN items
          Sizes,        \* set of pool sizes
          Entries,      \* subset of {"imap", "star1", "star2"}: imap/map, starmap/starcall with 1-/2-ary tuples
          Modes,        \* subset of BOOLEAN: TRUE = raise mode, FALSE = result objects
          SeqRaises, StarByCount,
          MaxCalls,     \* number of calls on one pool object
          FreshQueues

None == -1
MaxSize == CHOOSE s \in Sizes : \A t \in Sizes : t <= s
WLoc == {"start", "idle", "gotNone", "exited"}      \* worker program points at which no item is held
Items(k) == 0 .. k - 1
Ids == 0 .. MaxCalls * MaxN - 1            \* pool-wide item identities

\* which failing sets are explored for a call of k items (overridable by model-checking instances)
FailSets(k, rm) == SUBSET Items(k)

VARIABLES
  n, fail, raiseMode, size,   \* the call (fail: failing items of all calls so far)
  base, calls,  \* first item of the current call, number of calls so far
  threads,      \* worker threads that share the current queues
  entry,        \* entry point until dispatched, then the path taken: "single" | "seq" | "pool"
  cpc,          \* consumer program counter
  ci,           \* consumer loop counter (tasks put / sequential index / sentinels put)
  phase,        \* 1, 2: first / second _get_results loop
  culprit,      \* item whose exception is being raised (force shutdown in progress)
  buf,          \* keys of the re-sequencing dictionary `results`
  nextR,        \* next_result
  out,          \* what the caller received so far: sequence of <<kind, item>>
  raised,       \* item whose exception reached the caller, or None
  taskQ, unfinished,          \* task_queue contents and its unfinished_tasks counter
  resultQ,                    \* result_queue contents (item indices)
  wn,           \* [WLoc -> Nat]: number of workers not started yet / blocked in or before task_queue.get() /
                \*   holding the sentinel before task_done / exited
  hold          \* [item -> "-" | "put" | "taskDone"]: a worker ran the item and is before result_queue.put /
                \*   before task_queue.task_done

call  == <<n, fail, raiseMode, size, entry, base, calls>>
cvars == <<cpc, ci, phase, culprit, buf, nextR, out, raised>>
qvars == <<taskQ, unfinished, resultQ>>
wvars == <<wn, hold, threads>>
vars  == <<call, cvars, qvars, wvars>>

Cur == base .. base + n - 1                  \* the items of the current call
Key(i) == IF i >= base THEN i - base ELSE i  \* (two calls: the earlier call started at 0)
Kind(i) == IF i \in fail THEN "exc" ELSE "val"
Res(i)  == <<Kind(i), i>>

CPcs == {"call", "single", "seq", "put", "emptyT", "emptyR", "get", "join", "putNone",
         "fEmptyT", "fGetT", "fDoneT", "fEmptyR", "fGetR", "fDoneR", "done"}

TypeOK ==
  /\ n \in 0 .. MaxN /\ fail \subseteq Ids /\ raiseMode \in BOOLEAN /\ size \in Sizes
  /\ base \in 0 .. MaxN /\ calls \in 1 .. MaxCalls /\ threads \in 0 .. MaxCalls * MaxSize
  /\ entry \in {"imap", "star1", "star2", "single", "seq", "pool"}
  /\ cpc \in CPcs /\ ci \in 0 .. (MaxN + MaxSize) /\ phase \in 0 .. 2
  /\ culprit \in Ids \cup {None} /\ raised \in Ids \cup {None}
  /\ buf \subseteq Ids /\ nextR \in 0 .. n
  /\ out \in Seq({"val", "exc"} \X Ids)
  /\ taskQ \in Seq(Ids \cup {None}) /\ resultQ \in Seq(Ids)
  /\ unfinished \in 0 .. MaxCalls * (MaxN + MaxSize)
  /\ wn \in [WLoc -> 0 .. MaxCalls * MaxSize] /\ hold \in [Ids -> {"-", "put", "taskDone"}]

Init ==
  /\ n \in MinN .. MaxN /\ raiseMode \in Modes /\ size \in Sizes /\ entry \in Entries
  /\ (entry # "imap" => n >= 1)               \* starmap(f, []) is an IndexError on args[0]: outside the model
  /\ fail \in FailSets(n, raiseMode)
  /\ cpc = "call" /\ ci = 0 /\ phase = 0 /\ culprit = None /\ buf = {} /\ nextR = 0 /\ out = <<>> /\ raised = None
  /\ taskQ = <<>> /\ unfinished = 0 /\ resultQ = <<>>
  /\ wn = [l \in WLoc |-> 0] /\ hold = [i \in Ids |-> "-"]
  /\ base = 0 /\ calls = 1 /\ threads = 0

-----------------------------------------------------------------------------
(* caller *)

SingleShortcut ==
  CASE entry = "imap"  -> n = 1                                   \* len(args[0]) == 1: args[0] is the item list
    [] entry = "star1" -> IF StarByCount THEN n = 1 ELSE TRUE     \* len(args[0]) == 1: args[0] is the FIRST TUPLE
    [] entry = "star2" -> IF StarByCount THEN n = 1 ELSE FALSE
    [] OTHER -> FALSE

Dispatch ==
  /\ cpc = "call"
  /\ IF SingleShortcut
       THEN /\ entry' = "single" /\ cpc' = "single"
            /\ UNCHANGED <<phase, wvars, qvars>>
       ELSE IF size < 2
         THEN /\ entry' = "seq" /\ cpc' = (IF n = 0 THEN "done" ELSE "seq")
              /\ UNCHANGED <<phase, wvars, qvars>>
         ELSE /\ entry' = "pool" /\ cpc' = (IF n = 0 THEN "emptyT" ELSE "put")
              /\ phase' = 1
              /\ IF FreshQueues
                   \* new queues, and the new workers work on these: whatever still works on the queues of an
                   \* earlier call shares nothing with this call any more and leaves the model
                   THEN /\ taskQ' = <<>> /\ resultQ' = <<>> /\ unfinished' = 0
                        /\ wn' = [l \in WLoc |-> IF l = "start" THEN size ELSE 0]
                        /\ hold' = [i \in Ids |-> "-"] /\ threads' = size
                   ELSE /\ wn' = [wn EXCEPT !["start"] = @ + size]          \* _init_pool: pool_size threads created
                        /\ threads' = threads + size
                        /\ UNCHANGED <<qvars, hold>>
  /\ UNCHANGED <<n, fail, raiseMode, size, base, calls, ci, culprit, buf, nextR, out, raised>>

SingleCall ==     \* _single_call: only the first item is ever looked at
  /\ cpc = "single"
  /\ IF raiseMode /\ base \in fail
       THEN raised' = base /\ out' = out
       ELSE out' = <<Res(base)>> /\ raised' = raised
  /\ cpc' = "done"
  /\ UNCHANGED <<call, ci, phase, culprit, buf, nextR, qvars, wvars>>

SeqCall ==        \* one iteration of the pool_size < 2 loop
  /\ cpc = "seq"
  /\ IF raiseMode /\ (base + ci) \in fail /\ SeqRaises
       THEN /\ raised' = base + ci /\ cpc' = "done" /\ UNCHANGED <<out, ci>>
       ELSE /\ out' = Append(out, Res(base + ci))          \* raise mode, ~SeqRaises: <<"exc", i>> handed out as a value
            /\ ci' = ci + 1
            /\ cpc' = (IF ci + 1 = n THEN "done" ELSE "seq")
            /\ raised' = raised
  /\ UNCHANGED <<call, phase, culprit, buf, nextR, qvars, wvars>>

CPut ==
  /\ cpc = "put"
  /\ taskQ' = Append(taskQ, base + ci) /\ unfinished' = unfinished + 1
  /\ ci' = ci + 1
  /\ cpc' = (IF ci + 1 = n THEN "emptyT" ELSE "put")
  /\ UNCHANGED <<call, phase, culprit, buf, nextR, out, raised, resultQ, wvars>>

CEmptyT ==        \* `not self.task_queue.empty()` - a read of its own, the answer may be stale at the next step
  /\ cpc = "emptyT"
  /\ cpc' = (IF taskQ # <<>> THEN "get" ELSE "emptyR")
  /\ UNCHANGED <<call, ci, phase, culprit, buf, nextR, out, raised, qvars, wvars>>

CEmptyR ==
  /\ cpc = "emptyR"
  /\ IF resultQ # <<>>
       THEN cpc' = "get" /\ ci' = ci
       ELSE IF phase = 1 THEN cpc' = "join" /\ ci' = ci
            ELSE cpc' = "putNone" /\ ci' = 0               \* shutdown()
  /\ UNCHANGED <<call, phase, culprit, buf, nextR, out, raised, qvars, wvars>>

\* `results` is a dictionary: at most one buffered result per key, a later one replaces an earlier one
BufKeys == {Key(x) : x \in buf}
BufAt(k) == CHOOSE x \in buf : Key(x) = k
\* first key >= k+1 that is not buffered
NextGap(k) == CHOOSE m \in (k + 1) .. (MaxN + 1) : m \notin BufKeys /\ \A j \in (k + 1) .. (m - 1) : j \in BufKeys

CGet ==           \* result_queue.get() + exception test + _get_results re-sequencing up to the next Queue call
  /\ cpc = "get" /\ resultQ # <<>>
  /\ LET e == Head(resultQ)
         i == Key(e) IN
     /\ resultQ' = Tail(resultQ)
     /\ IF raiseMode /\ e \in fail
          THEN /\ culprit' = e /\ cpc' = "fEmptyT"
               /\ UNCHANGED <<buf, nextR, out>>
          ELSE /\ cpc' = "emptyT" /\ culprit' = culprit
               /\ IF i = nextR
                    THEN LET m == NextGap(i) IN
                         /\ out' = out \o [k \in 1 .. (m - i) |-> IF k = 1 THEN Res(e) ELSE Res(BufAt(i + k - 1))]
                         /\ nextR' = m
                         /\ buf' = {x \in buf : Key(x) \notin i .. m}
                    ELSE /\ buf' = {x \in buf : Key(x) # i} \cup {e} /\ UNCHANGED <<nextR, out>>
  /\ UNCHANGED <<call, ci, phase, raised, taskQ, unfinished, wvars>>

CJoin ==
  /\ cpc = "join" /\ unfinished = 0
  /\ phase' = 2 /\ cpc' = "emptyT"
  /\ UNCHANGED <<call, ci, culprit, buf, nextR, out, raised, qvars, wvars>>

CPutNone ==       \* shutdown: one sentinel per worker; after the last one the generator ends or raises
  /\ cpc = "putNone"
  /\ taskQ' = Append(taskQ, None) /\ unfinished' = unfinished + 1
  /\ ci' = ci + 1
  /\ IF ci + 1 = size
       THEN cpc' = "done" /\ raised' = culprit
       ELSE cpc' = cpc /\ raised' = raised
  /\ UNCHANGED <<call, phase, culprit, buf, nextR, out, resultQ, wvars>>

FEmptyT ==
  /\ cpc = "fEmptyT"
  /\ cpc' = (IF taskQ # <<>> THEN "fGetT" ELSE "fEmptyR")
  /\ UNCHANGED <<call, ci, phase, culprit, buf, nextR, out, raised, qvars, wvars>>

FGetTOk ==
  /\ cpc = "fGetT" /\ taskQ # <<>>
  /\ taskQ' = Tail(taskQ) /\ cpc' = "fDoneT"
  /\ UNCHANGED <<call, ci, phase, culprit, buf, nextR, out, raised, unfinished, resultQ, wvars>>

FGetTEmpty ==     \* a worker took the task between empty() and get(block=False): Queue.Empty, ignored
  /\ cpc = "fGetT" /\ taskQ = <<>>
  /\ cpc' = "fEmptyT"
  /\ UNCHANGED <<call, ci, phase, culprit, buf, nextR, out, raised, qvars, wvars>>

FDoneT ==
  /\ cpc = "fDoneT"
  /\ unfinished' = unfinished - 1 /\ cpc' = "fEmptyT"
  /\ UNCHANGED <<call, ci, phase, culprit, buf, nextR, out, raised, taskQ, resultQ, wvars>>

FEmptyR ==
  /\ cpc = "fEmptyR"
  /\ IF resultQ # <<>> THEN cpc' = "fGetR" /\ ci' = ci
                       ELSE cpc' = "putNone" /\ ci' = 0
  /\ UNCHANGED <<call, phase, culprit, buf, nextR, out, raised, qvars, wvars>>

FGetR ==          \* the caller is the only reader of result_queue: never Empty here
  /\ cpc = "fGetR" /\ resultQ # <<>>
  /\ resultQ' = Tail(resultQ) /\ cpc' = "fDoneR"
  /\ UNCHANGED <<call, ci, phase, culprit, buf, nextR, out, raised, taskQ, unfinished, wvars>>

FDoneR ==
  /\ cpc = "fDoneR"
  /\ cpc' = "fEmptyR"
  /\ UNCHANGED <<call, ci, phase, culprit, buf, nextR, out, raised, qvars, wvars>>

Consumer == \/ Dispatch \/ SingleCall \/ SeqCall \/ CPut \/ CEmptyT \/ CEmptyR \/ CGet \/ CJoin \/ CPutNone
            \/ FEmptyT \/ FGetTOk \/ FGetTEmpty \/ FDoneT \/ FEmptyR \/ FGetR \/ FDoneR

-----------------------------------------------------------------------------
(* workers *)

WStart ==
  /\ wn["start"] > 0
  /\ wn' = [wn EXCEPT !["start"] = @ - 1, !["idle"] = @ + 1]
  /\ UNCHANGED <<call, cvars, qvars, hold, threads>>

WGetTask ==       \* task_queue.get(); func(..args) runs inside this step (it shares nothing)
  /\ wn["idle"] > 0 /\ taskQ # <<>> /\ Head(taskQ) # None
  /\ hold' = [hold EXCEPT ![Head(taskQ)] = "put"]
  /\ taskQ' = Tail(taskQ)
  /\ wn' = [wn EXCEPT !["idle"] = @ - 1]
  /\ UNCHANGED <<call, cvars, unfinished, resultQ, threads>>

WGetNone ==
  /\ wn["idle"] > 0 /\ taskQ # <<>> /\ Head(taskQ) = None
  /\ taskQ' = Tail(taskQ)
  /\ wn' = [wn EXCEPT !["idle"] = @ - 1, !["gotNone"] = @ + 1]
  /\ UNCHANGED <<call, cvars, unfinished, resultQ, hold, threads>>

WPut(i) ==        \* the worker that ran item i: result_queue.put((i, result))
  /\ i \in Ids /\ hold[i] = "put"
  /\ resultQ' = Append(resultQ, i)
  /\ hold' = [hold EXCEPT ![i] = "taskDone"]
  /\ UNCHANGED <<call, cvars, taskQ, unfinished, wn, threads>>

WTaskDone(i) ==
  /\ i \in Ids /\ hold[i] = "taskDone"
  /\ unfinished' = unfinished - 1
  /\ hold' = [hold EXCEPT ![i] = "-"]
  /\ wn' = [wn EXCEPT !["idle"] = @ + 1]
  /\ UNCHANGED <<call, cvars, taskQ, resultQ, threads>>

WExit ==
  /\ wn["gotNone"] > 0
  /\ unfinished' = unfinished - 1
  /\ wn' = [wn EXCEPT !["gotNone"] = @ - 1, !["exited"] = @ + 1]
  /\ UNCHANGED <<call, cvars, taskQ, resultQ, hold, threads>>

WorkerStep == WStart \/ WGetTask \/ WGetNone \/ WExit \/ \E i \in Ids : WPut(i) \/ WTaskDone(i)

\* the next call on the same pool object
NewCallWith(n2, f2, rm2, e2) ==
  /\ cpc = "done" /\ calls < MaxCalls
  /\ n2 \in MinN .. MaxN /\ rm2 \in Modes /\ e2 \in Entries /\ (e2 # "imap" => n2 >= 1)
  /\ f2 \in FailSets(n2, rm2)
  /\ calls' = calls + 1 /\ base' = base + n
  /\ n' = n2 /\ raiseMode' = rm2 /\ entry' = e2 /\ size' = size
  /\ fail' = fail \cup {base + n + i : i \in f2}
  /\ cpc' = "call" /\ ci' = 0 /\ phase' = 0 /\ culprit' = None /\ buf' = {} /\ nextR' = 0 /\ out' = <<>> /\ raised' = None
  /\ UNCHANGED <<qvars, wvars>>
NewCall == \E n2 \in MinN .. MaxN, rm2 \in Modes, e2 \in Entries : \E f2 \in FailSets(n2, rm2) : NewCallWith(n2, f2, rm2, e2)

Next == Consumer \/ WorkerStep \/ NewCall

Spec     == Init /\ [][Next]_vars
FairSpec == /\ Spec /\ WF_vars(Consumer)
            /\ WF_vars(WStart) /\ WF_vars(WGetTask \/ WGetNone) /\ WF_vars(WExit)
            /\ \A i \in Ids : WF_vars(WPut(i)) /\ WF_vars(WTaskDone(i))

-----------------------------------------------------------------------------
(* the property *)

Done == cpc = "done"

\* everything handed to the caller is the result of the item at that position; in raise mode an
\* exception is never handed out as a value
OrderedPrefix ==
  /\ Len(out) <= n
  /\ \A p \in 1 .. Len(out) : out[p] = Res(base + p - 1) /\ (raiseMode => out[p][1] = "val")

\* at the end: one result per input, or (raise mode with failing items) the exception of a failing item
DoneComplete ==
  Done => IF raiseMode /\ fail \cap Cur # {}
            THEN raised \in fail \cap Cur
            ELSE raised = None /\ Len(out) = n

\* the same two statements outside the behaviours that the as-written variants are known to get wrong (these
\* coincide with the plain ones when SeqRaises and StarByCount are TRUE)
KnownSeq  == ~SeqRaises /\ entry = "seq" /\ raiseMode
KnownStar == ~StarByCount /\ entry = "single" /\ n > 1
OrderedPrefixX == KnownSeq \/ OrderedPrefix
DoneCompleteX  == KnownSeq \/ KnownStar \/ DoneComplete

RaisedSound == raised # None => Done /\ raiseMode /\ raised \in fail \cap Cur

ConsumerCanMove == /\ ~Done
                   /\ cpc = "get" => resultQ # <<>>
                   /\ cpc = "join" => unfinished = 0
WorkerCanMove == \/ wn["start"] > 0 \/ wn["gotNone"] > 0
                 \/ \E i \in Ids : hold[i] # "-"
                 \/ wn["idle"] > 0 /\ taskQ # <<>>
Quiescent == ~ConsumerCanMove /\ ~WorkerCanMove

\* the call cannot get stuck: while it is not finished, some thread can move
StuckFree == ~Done => ~Quiescent
\* (not part of the property, model hygiene) when nothing can move, no worker thread is left behind
NoLeak == Quiescent => wn["exited"] = threads

Terminates == <>Done

\* reductions for the larger model-checking instances (sound: the dropped interleavings differ only in the
\* position of steps that read and write nothing shared and that no property mentions)
\*  - thread start commutes with everything: let all workers start before the first task is queued
StartFirst == \/ entry # "pool" \/ wn["start"] = 0 \/ n = 0
              \/ (cpc = "put" /\ ci = 0)
\*  - in result-object mode no step looks at `fail`: explore none / each single item / all failing
FewFailSets(k, rm) == IF rm THEN SUBSET Items(k)
                      ELSE {{}, Items(k)} \cup {{i} : i \in Items(k)}

\* sanity of the model: the queue counter is what Queue would compute
CounterOK == /\ unfinished >= Len(taskQ)
             /\ wn["start"] + wn["idle"] + wn["gotNone"] + wn["exited"] + Cardinality({i \in Ids : hold[i] # "-"})
                  = threads
=============================================================================
