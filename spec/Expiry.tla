------------------------------- MODULE Expiry -------------------------------
(***************************************************************************)
(* C13 - expiry rules decide precisely which tiles are refreshed.          *)
(*                                                                         *)
(* A model of mapproxy.cache.tile.TileManager.load_tile_coords with a      *)
(* refresh rule, of the same rule used by a seed task                      *)
(* (mapproxy.seed.seeder.seed_task / TileWalker / TileSeedWorker) and of   *)
(* the environment that drives them (clock, threshold file, upstream).     *)
(*                                                                         *)
(*   TileManager.is_cached(tile)            -> IsCachedTM                  *)
(*      cached = cache.is_cached(tile)                                     *)
(*      max_mtime = expire_timestamp()      -> ExpireTimestamp             *)
(*      load_tile_metadata(tile)                                           *)
(*      stale = int(tile.timestamp) <= max_mtime   -> IsStaleEntry         *)
(*   expire_timestamp():  _refresh_before (cache configuration, evaluated  *)
(*      on every call: seed.config.before_timestamp_from_options) and      *)
(*      _expire_timestamp (set by seed_task from the task's                *)
(*      refresh_before, evaluated once when the seed configuration is      *)
(*      read).  ExpirePrecedence says which one wins when both are set:    *)
(*      "serving" is the original code, "task" the repaired code.          *)
(*   _load_tile_coords: cache.load_tiles; uncached = tiles that are not    *)
(*      is_cached; creator.create_tiles(uncached)     -> LoadTileCoords    *)
(*   TileCreator._create_single_tile  (no meta grid)  -> CreateSingleTile  *)
(*      re-check under the lock, _query_sources, on SourceError serve the  *)
(*      stale tile if there is one, else re-raise                          *)
(*   TileCreator._create_meta_tile    (meta grid)     -> CreateMetaTile    *)
(*      re-check all tiles of the meta tile, _query_sources (errors        *)
(*      propagate), store_tiles of ALL tiles of the meta tile              *)
(*   seed_task: walk units (tiles / meta tiles) in grid order, the walker  *)
(*      asks is_cached(main tile), the worker calls load_tile_coords with  *)
(*      retries (exp_backoff; recorded as one failed request) and dies     *)
(*      when the retries are used up                  -> SeedWalk          *)
(*                                                                         *)
(* Time is counted in ticks of half a second so that fractional mtimes     *)
(* and the truncation to whole seconds are visible: Sec(x) = x \div 2.     *)
(* A tile version is the number of successful upstream requests up to and  *)
(* including the one that produced it (the fake upstream paints it).       *)
(***************************************************************************)
EXTENDS Integers, Sequences, FiniteSets, TLC

CONSTANTS Tiles,             \* set of tile names
          Order,             \* the tiles in grid (= seed walk) order, a sequence
          MetaOf,            \* [Tiles -> meta tile id], used when Path = "meta"
          Path,              \* "single" (no meta grid) | "meta"
          MaxClock,          \* clock bound (ticks)
          StoreTrunc,        \* TRUE: the backend stores whole seconds only (sqlite datetime)
          Rules,             \* serving rules explored by SetThreshold
          SeedRules,         \* rules explored by SeedRefresh
          ExpirePrecedence,  \* "serving" | "task"  (see above)
          Backdating         \* the environment may set back the time stamp of single tiles (Backdate below)

VARIABLES cache,     \* [Tiles -> [m : tick, v : version]]   Absent = not cached
          rule,      \* refresh_before of the cache configuration
          fileM,     \* mtime (ticks) of the file named by an mtime rule
          up,        \* upstream answers
          clock,     \* now (ticks)
          log,       \* upstream log: sequence of [u : tile or meta tile id, ok : BOOLEAN]
          reply,     \* observation of the last action
          steps      \* number of actions so far (lets the model checker bound the history length exactly)

vars == <<cache, rule, fileM, up, clock, log, reply, steps>>

Absent  == [m |-> -1, v |-> 0]
NoRule  == [kind |-> "none", arg |-> 0]
NoReply == [op |-> "other", tiles |-> <<>>, kind |-> "ok", served |-> <<>>, srule |-> NoRule]

Sec(x) == x \div 2
StoreTime == IF StoreTrunc THEN 2 * Sec(clock) ELSE clock
Range(s) == {s[i] : i \in 1 .. Len(s)}

RECURSIVE NOk(_)
NOk(l) == IF l = <<>> THEN 0 ELSE NOk(SubSeq(l, 1, Len(l) - 1)) + (IF l[Len(l)].ok THEN 1 ELSE 0)

Unit(t) == IF Path = "single" THEN t ELSE MetaOf[t]
UnitTiles(u) == {t \in Tiles : Unit(t) = u}

\* ---- thresholds ---------------------------------------------------------------------------
\* before_timestamp_from_options: time -> whole second; relative -> mktime(now.timetuple()) - delta
\* (fraction stripped); mtime -> os.path.getmtime (fraction kept)
Thr(r) == CASE r.kind = "time" -> 2 * r.arg
            [] r.kind = "age"  -> 2 * (Sec(clock) - r.arg)
            [] r.kind = "file" -> fileM
            [] OTHER           -> 0

NoExp == [on |-> FALSE, thr |-> 0]
Exp(r) == [on |-> TRUE, thr |-> Thr(r)]

\* TileManager.expire_timestamp: r = _refresh_before, exp = _expire_timestamp
ExpireTimestamp(r, exp) ==
  IF ExpirePrecedence = "serving"
    THEN IF r.kind # "none" THEN Exp(r) ELSE exp
    ELSE IF exp.on THEN exp ELSE IF r.kind # "none" THEN Exp(r) ELSE NoExp

IsStaleEntry(e, et) == et.on /\ 2 * Sec(e.m) <= et.thr        \* int(tile.timestamp) <= max_mtime
IsCachedTM(c, t, et) == c[t] # Absent /\ ~IsStaleEntry(c[t], et)

\* ---- tile creation ------------------------------------------------------------------------
\* st = [c : cache, l : log, err : BOOLEAN]   (err: a SourceError left load_tile_coords)
CreateSingleTile(st, t, et) ==
  IF IsCachedTM(st.c, t, et) THEN st                              \* re-check under the lock
  ELSE IF up
    THEN LET l2 == Append(st.l, [u |-> t, ok |-> TRUE]) IN
         [st EXCEPT !.c = [st.c EXCEPT ![t] = [m |-> StoreTime, v |-> NOk(l2)]], !.l = l2]
    ELSE [st EXCEPT !.l = Append(st.l, [u |-> t, ok |-> FALSE]),
                    !.err = (st.c[t] = Absent)]                   \* is_stale -> serve the old tile

RECURSIVE SingleTiles(_, _, _)
SingleTiles(st, ts, et) ==
  IF ts = <<>> \/ st.err THEN st
  ELSE SingleTiles(CreateSingleTile(st, Head(ts), et), Tail(ts), et)

CreateMetaTile(st, u, et) ==
  IF \A t \in UnitTiles(u) : IsCachedTM(st.c, t, et) THEN st      \* re-check under the lock
  ELSE IF up
    THEN LET l2 == Append(st.l, [u |-> u, ok |-> TRUE]) IN
         [st EXCEPT !.c = [t \in Tiles |-> IF Unit(t) = u THEN [m |-> StoreTime, v |-> NOk(l2)] ELSE st.c[t]],
                    !.l = l2]
    ELSE [st EXCEPT !.l = Append(st.l, [u |-> u, ok |-> FALSE]), !.err = TRUE]

RECURSIVE MetaTiles(_, _, _)
MetaTiles(st, us, et) ==
  IF us = <<>> \/ st.err THEN st
  ELSE MetaTiles(CreateMetaTile(st, Head(us), et), Tail(us), et)

RECURSIVE Dedupe(_)
Dedupe(s) == IF s = <<>> THEN <<>>
             ELSE LET d == Dedupe(SubSeq(s, 1, Len(s) - 1)) IN
                  IF s[Len(s)] \in Range(d) THEN d ELSE Append(d, s[Len(s)])

LoadTileCoords(c, l, S, et) ==
  LET uncached == SelectSeq(S, LAMBDA t : ~IsCachedTM(c, t, et))
      st0 == [c |-> c, l |-> l, err |-> FALSE]
  IN IF Path = "single" THEN SingleTiles(st0, uncached, et)
     ELSE MetaTiles(st0, Dedupe([i \in 1 .. Len(uncached) |-> MetaOf[uncached[i]]]), et)

\* ---- actions ------------------------------------------------------------------------------
Request(S) ==
  LET et == ExpireTimestamp(rule, NoExp)
      r  == LoadTileCoords(cache, log, S, et)
  IN /\ cache' = r.c /\ log' = r.l
     /\ reply' = [op |-> "request", tiles |-> S, kind |-> IF r.err THEN "error" ELSE "ok",
                  served |-> IF r.err THEN <<>> ELSE [i \in 1 .. Len(S) |-> r.c[S[i]].v], srule |-> NoRule]
     /\ steps' = steps + 1 /\ UNCHANGED <<rule, fileM, up, clock>>

\* named by outcome so that TLC's coverage shows that every outcome is exercised (the guards are the
\* closed forms of the outcomes of Request; OutcomeOK below checks that they are)
AllCached(S) == \A i \in 1 .. Len(S) : IsCachedTM(cache, S[i], ExpireTimestamp(rule, NoExp))
Raises(S) == /\ ~up /\ ~AllCached(S)
             /\ Path = "single" => \E i \in 1 .. Len(S) : cache[S[i]] = Absent
RequestHit(S)         == AllCached(S) /\ Request(S)
RequestFetch(S)       == ~AllCached(S) /\ up /\ Request(S)
RequestStaleServed(S) == ~AllCached(S) /\ ~up /\ ~Raises(S) /\ Request(S)
RequestError(S)       == Raises(S) /\ Request(S)

SeedUnits == IF Path = "single" THEN Order ELSE Dedupe([i \in 1 .. Len(Order) |-> MetaOf[Order[i]]])
Main(u) == IF Path = "single" THEN u
           ELSE Order[CHOOSE i \in 1 .. Len(Order) : /\ MetaOf[Order[i]] = u
                                                      /\ \A j \in 1 .. i - 1 : MetaOf[Order[j]] # u]

\* The walker asks is_cached(main tile of the unit); the worker runs load_tile_coords(<<main>>).  A SourceError
\* that leaves load_tile_coords is retried (exp_backoff, counted as one failed request) until the only worker
\* gives up (dead: later units are queued but never processed); on the single-tile path a failed refresh of a
\* tile that is still cached does not raise (the stale tile is "served"), so it costs one request and the walk
\* goes on.  Units are disjoint and the clock stands still, so walking them in sequence is exact.
RECURSIVE SeedWalk(_, _, _)
SeedWalk(st, us, et) ==
  IF us = <<>> THEN st
  ELSE LET m == Main(Head(us)) IN
       IF st.dead \/ IsCachedTM(st.c, m, et) THEN SeedWalk(st, Tail(us), et)
       ELSE LET r == LoadTileCoords(st.c, st.l, <<m>>, et) IN
            SeedWalk([c |-> r.c, l |-> r.l, dead |-> r.err], Tail(us), et)

SeedRefresh(sr) ==
  LET et == ExpireTimestamp(rule, Exp(sr))
      r  == SeedWalk([c |-> cache, l |-> log, dead |-> FALSE], SeedUnits, et)
  IN /\ cache' = r.c /\ log' = r.l
     /\ reply' = [op |-> "seed", tiles |-> <<>>, kind |-> IF r.dead THEN "error" ELSE "ok", served |-> <<>>,
                  srule |-> sr]
     /\ steps' = steps + 1 /\ UNCHANGED <<rule, fileM, up, clock>>

SeedNeeded(sr) == \E i \in 1 .. Len(SeedUnits) :
                     ~IsCachedTM(cache, Main(SeedUnits[i]), ExpireTimestamp(rule, Exp(sr)))
SeedNoop(sr)  == ~SeedNeeded(sr) /\ SeedRefresh(sr)
SeedFetch(sr) == SeedNeeded(sr) /\ up /\ SeedRefresh(sr)
SeedFail(sr)  == SeedNeeded(sr) /\ ~up /\ SeedRefresh(sr)

Env == reply' = NoReply /\ steps' = steps + 1        \* actions of the environment
Tick(d) == /\ clock + d <= MaxClock /\ clock' = clock + d /\ Env
           /\ UNCHANGED <<cache, rule, fileM, up, log>>
TouchThresholdFile == fileM' = clock /\ Env /\ UNCHANGED <<cache, rule, up, clock, log>>
Configure(r)    == rule' = r /\ Env /\ UNCHANGED <<cache, fileM, up, clock, log>>
SetThreshold(r) == r # rule /\ Configure(r)
UpstreamFail    == up /\ up' = FALSE /\ Env /\ UNCHANGED <<cache, rule, fileM, clock, log>>
UpstreamRecover == ~up /\ up' = TRUE /\ Env /\ UNCHANGED <<cache, rule, fileM, clock, log>>
\* a tile is deleted behind the back of the tile manager (cleanup, TileManager.remove_tile_coords)
RemoveTile(t)   == /\ cache[t] # Absent /\ cache' = [cache EXCEPT ![t] = Absent] /\ Env
                   /\ UNCHANGED <<rule, fileM, up, clock, log>>

\* the time stamp of one tile is set back behind the back of the tile manager (a tile restored from a backup, written
\* earlier through another path, `touch -d`): the tiles of a meta tile need not be of one age.  (File caches: the
\* harness cannot set single time stamps in the sqlite backends.)
Backdate(t)     == /\ Backdating /\ ~StoreTrunc /\ cache[t] # Absent /\ cache[t].m > 1
                   /\ cache' = [cache EXCEPT ![t].m = 1] /\ Env
                   /\ UNCHANGED <<rule, fileM, up, clock, log>>

SeqsOf(S) == {q \in UNION {[1 .. k -> S] : k \in 1 .. Cardinality(S)} : \A i, j \in 1 .. Len(q) : i # j => q[i] # q[j]}

\* the threshold file was written half a second after the epoch (a fractional mtime), now is second 1
Init == /\ cache = [t \in Tiles |-> Absent] /\ rule = NoRule /\ fileM = 1 /\ up = TRUE /\ clock = 2
        /\ log = <<>> /\ reply = NoReply /\ steps = 0

Next ==
  \/ \E S \in SeqsOf(Tiles) : RequestHit(S) \/ RequestFetch(S) \/ RequestStaleServed(S) \/ RequestError(S)
  \/ \E sr \in SeedRules : SeedNoop(sr) \/ SeedFetch(sr) \/ SeedFail(sr)
  \/ \E d \in {1, 2} : Tick(d)
  \/ TouchThresholdFile
  \/ \E r \in Rules : SetThreshold(r)
  \/ UpstreamFail \/ UpstreamRecover
  \/ \E t \in Tiles : RemoveTile(t) \/ Backdate(t)

Spec == Init /\ [][Next]_vars

\* ---- the property -------------------------------------------------------------------------
TypeOK ==
  /\ \A t \in Tiles : cache[t] = Absent \/ (cache[t].m \in 0 .. clock /\ cache[t].v \in 1 .. NOk(log))
  /\ rule.kind \in {"none", "time", "age", "file"} /\ rule.arg \in Nat
  /\ fileM \in 0 .. clock /\ up \in BOOLEAN /\ clock \in Nat /\ steps \in Nat
  /\ \A i \in 1 .. Len(log) : log[i].ok \in BOOLEAN

\* tiles of one meta tile are written together
UnitUniform == Path = "meta" => \A t1, t2 \in Tiles :
                  (MetaOf[t1] = MetaOf[t2] /\ cache[t1] # Absent /\ cache[t2] # Absent) => cache[t1] = cache[t2]

\* ... as a property of the steps (holds also where single time stamps are set back afterwards)
WrittenTogether ==
  [][Path = "meta" => \A i \in Len(log) + 1 .. Len(log') : log'[i].ok =>
        \A t1, t2 \in UnitTiles(log'[i].u) : cache'[t1] = cache'[t2]]_vars

\* the action names tell the outcome
OutcomeOK ==
  /\ reply'.op = "request" =>
        /\ AllCached(reply'.tiles) <=> log' = log
        /\ Raises(reply'.tiles) <=> reply'.kind = "error"
  /\ reply'.op = "seed" => (SeedNeeded(reply'.srule) <=> log' # log)

\* the one-second granularity of the statement: strictly earlier / strictly later seconds are decided,
\* the threshold's own second is free
StrictlyOld(t, thr) == cache[t] # Absent /\ Sec(cache[t].m) < Sec(thr)
StrictlyNew(t, thr) == cache[t] # Absent /\ Sec(cache[t].m) > Sec(thr)

NewIdx == (Len(log) + 1) .. Len(log')
CountU(u) == Cardinality({i \in NewIdx : log'[i].u = u})
LogGrows == Len(log') >= Len(log) /\ SubSeq(log', 1, Len(log)) = log

\* refreshed by exactly one successful upstream request of this action, stored with the current time,
\* the stored version is the new one
RefreshedOnce(t) ==
  /\ CountU(Unit(t)) = 1
  /\ \E i \in NewIdx : log'[i].u = Unit(t) /\ log'[i].ok /\ cache'[t].v = NOk(SubSeq(log', 1, i))
  /\ cache'[t].m = StoreTime
  /\ cache'[t].v > cache[t].v

ReqTiles == Range(reply'.tiles)

\* (a) written strictly before the threshold second -> fetched again exactly once, stored and served
ServeStaleRefetched ==
  (reply'.op = "request" /\ rule.kind # "none" /\ up) =>
     \A k \in 1 .. Len(reply'.tiles) : LET t == reply'.tiles[k] IN
        StrictlyOld(t, Thr(rule)) => /\ RefreshedOnce(t)
                                     /\ reply'.kind = "ok" /\ reply'.served[k] = cache'[t].v

\* (b) written strictly after the threshold second -> served from the cache, no upstream request:
\*     every upstream request of a Request action is owed to a requested tile that is missing or not
\*     strictly new; whatever was not re-fetched is unchanged and served as cached
NeedsFetch(t, r) == cache[t] = Absent \/ (r.kind # "none" /\ ~StrictlyNew(t, Thr(r)))
ServeFreshNoUpstream ==
  reply'.op = "request" =>
     /\ \A i \in NewIdx : \E t \in ReqTiles : Unit(t) = log'[i].u /\ NeedsFetch(t, rule)
     /\ \A t \in Tiles : CountU(Unit(t)) = 0 => cache'[t] = cache[t]
     /\ (\A t \in ReqTiles : ~NeedsFetch(t, rule)) =>
            /\ log' = log /\ cache' = cache /\ reply'.kind = "ok"
            /\ \A k \in 1 .. Len(reply'.tiles) : reply'.served[k] = cache[reply'.tiles[k]].v

\* (c) a refresh that fails does not destroy the old tile
ByTheCode == reply'.op \in {"request", "seed"}        \* (not an action of the environment)
FailedRefreshKeepsOld ==
  /\ LogGrows
  /\ ByTheCode => \A t \in Tiles : cache[t] # Absent => cache'[t] # Absent
  /\ ByTheCode => \A t \in Tiles : cache'[t] # cache[t] => \E i \in NewIdx : log'[i].u = Unit(t) /\ log'[i].ok
  /\ (ByTheCode /\ ~up) => cache' = cache /\ \A i \in NewIdx : ~log'[i].ok
  /\ (reply'.op = "request" /\ ~up /\ Path = "single" /\ \A t \in ReqTiles : cache[t] # Absent) =>
        /\ reply'.kind = "ok"
        /\ \A k \in 1 .. Len(reply'.tiles) : reply'.served[k] = cache[reply'.tiles[k]].v
  /\ (reply'.op = "request" /\ ~up /\ Path = "meta" /\ rule.kind # "none"
        /\ \E t \in ReqTiles : StrictlyOld(t, Thr(rule))) => reply'.kind = "error"

\* (d) the same rule through a seed task (threshold fixed when the task is configured = at its start here)
SeedStaleRefetched ==
  (reply'.op = "seed" /\ up) =>
     \A t \in Tiles : StrictlyOld(t, Thr(reply'.srule)) => RefreshedOnce(t)

SeedFreshNoUpstream ==
  reply'.op = "seed" =>
     /\ \A i \in NewIdx : \E t \in UnitTiles(log'[i].u) : NeedsFetch(t, reply'.srule) \/ NeedsFetch(t, rule)
     /\ \A t \in Tiles : CountU(Unit(t)) = 0 => cache'[t] = cache[t]
     /\ up => \A t \in Tiles : CountU(Unit(t)) <= 1

PropServeStale == [][ServeStaleRefetched]_vars
PropServeFresh == [][ServeFreshNoUpstream]_vars
PropFailKeeps  == [][FailedRefreshKeepsOld]_vars
PropSeedStale  == [][SeedStaleRefetched]_vars
PropSeedFresh  == [][SeedFreshNoUpstream]_vars
PropOutcome    == [][OutcomeOK]_vars
=============================================================================
