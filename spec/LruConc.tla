------------------------------ MODULE LruConc ------------------------------
(***************************************************************************)
(* Concurrent requests on the project cache of MultiMapProxy: the LRU      *)
(* dictionary (mapproxy.util.collections.LRU: a dict `values` and a deque  *)
(* `last_used`) as proj_app() uses it - look-ups without a lock, creation  *)
(* and storing under _app_init_lock - at the granularity of the single     *)
(* dict / deque operations (each of them is atomic under the interpreter   *)
(* lock, sequences of them are not):                                       *)
(*                                                                         *)
(*   get(k):   k in values ?  ->  values[k]  ->  last_used.remove(k)       *)
(*             (ValueError ignored)  ->  last_used.appendleft(k)           *)
(*   set(k):   k in values ? -> remove(k) -> appendleft(k) -> values[k]=v  *)
(*             while len(values) > size:  k2 = last_used.pop(); del        *)
(*             values[k2]                                                  *)
(*                                                                         *)
(* Every thread serves one request for its project: get; on a miss take    *)
(* the lock, get again, create and set, release.  Guard = "none" is the    *)
(* code as found, Guard = "lock" the repair (every access of the           *)
(* dictionary is one critical section).                                    *)
(***************************************************************************)
EXTENDS Naturals, Sequences, FiniteSets, TLC

CONSTANTS Thread, Wants, Size, Guard, InitKeys      \* Wants: [Thread -> key]; InitKeys: sequence (most recent first)

VARIABLES values, lastUsed, pc, mutex, popped, err
vars == <<values, lastUsed, pc, mutex, popped, err>>

Range(q) == {q[i] : i \in 1 .. Len(q)}
RemoveFirst(q, k) ==
  IF k \notin Range(q) THEN q
  ELSE LET i == CHOOSE i \in 1 .. Len(q) : q[i] = k /\ \A j \in 1 .. i - 1 : q[j] # k
       IN SubSeq(q, 1, i - 1) \o SubSeq(q, i + 1, Len(q))
NoOne == "none"

Init ==
  /\ values = Range(InitKeys) /\ lastUsed = InitKeys
  /\ pc = [t \in Thread |-> "g_contains"] /\ mutex = NoOne
  /\ popped = [t \in Thread |-> "none"] /\ err = [t \in Thread |-> "none"]

K(t) == Wants[t]
Goto(t, l) == pc' = [pc EXCEPT ![t] = l]
\* an exception leaves the `with _app_init_lock` block: the lock is released
Fail(t, what) == err' = [err EXCEPT ![t] = what] /\ Goto(t, "failed") /\ mutex' = IF mutex = t THEN NoOne ELSE mutex
Locked(t) == pc[t] \in {"l_contains", "l_read", "l_remove", "l_append", "l2_read", "l2_remove", "l2_append", "s_contains", "s_remove", "s_append", "s_store",
                        "s_check", "s_pop", "s_del", "unlock"}

\* ---- get (outside the lock: prefix g_, under the lock: prefix l_) ----
GContains(t) ==
  /\ pc[t] \in {"g_contains", "l_contains"}
  /\ IF K(t) \in values THEN Goto(t, IF pc[t] = "g_contains" THEN "g_read" ELSE "l_read")
     ELSE Goto(t, IF pc[t] = "g_contains" THEN "lock" ELSE "s_contains")
  /\ UNCHANGED <<values, lastUsed, mutex, popped, err>>
After(l) == CASE l = "g_read" -> "g_remove" [] l = "l_read" -> "l_remove" [] l = "l2_read" -> "l2_remove"
              [] l = "g_remove" -> "g_append" [] l = "l_remove" -> "l_append" [] l = "l2_remove" -> "l2_append"
              [] l = "g_append" -> "done"
              \* found under the lock: the code as found looks the entry up once more (`self.apps[proj_name]`)
              [] l = "l_append" -> (IF Guard = "none" THEN "l2_read" ELSE "unlock")
              [] l = "l2_append" -> "unlock"
GRead(t) ==
  /\ pc[t] \in {"g_read", "l_read", "l2_read"}
  /\ IF K(t) \in values THEN Goto(t, After(pc[t])) /\ UNCHANGED <<err, mutex>>
     ELSE Fail(t, "KeyError in get")
  /\ UNCHANGED <<values, lastUsed, popped>>
GRemove(t) ==
  /\ pc[t] \in {"g_remove", "l_remove", "l2_remove"}
  /\ lastUsed' = RemoveFirst(lastUsed, K(t))
  /\ Goto(t, After(pc[t]))
  /\ UNCHANGED <<values, mutex, popped, err>>
GAppend(t) ==
  /\ pc[t] \in {"g_append", "l_append", "l2_append"}
  /\ lastUsed' = <<K(t)>> \o lastUsed
  /\ Goto(t, After(pc[t]))
  /\ UNCHANGED <<values, mutex, popped, err>>

Lock(t) ==
  /\ pc[t] = "lock" /\ mutex = NoOne
  /\ mutex' = t /\ Goto(t, "l_contains")
  /\ UNCHANGED <<values, lastUsed, popped, err>>
Unlock(t) ==
  /\ pc[t] = "unlock"
  /\ mutex' = NoOne /\ Goto(t, "done")
  /\ UNCHANGED <<values, lastUsed, popped, err>>

\* ---- set (always under the lock) ----
SContains(t) ==
  /\ pc[t] = "s_contains"
  /\ Goto(t, IF K(t) \in values THEN "s_remove" ELSE "s_append")
  /\ UNCHANGED <<values, lastUsed, mutex, popped, err>>
SRemove(t) ==
  /\ pc[t] = "s_remove"
  /\ lastUsed' = RemoveFirst(lastUsed, K(t)) /\ Goto(t, "s_append")
  /\ UNCHANGED <<values, mutex, popped, err>>
SAppend(t) ==
  /\ pc[t] = "s_append"
  /\ lastUsed' = <<K(t)>> \o lastUsed /\ Goto(t, "s_store")
  /\ UNCHANGED <<values, mutex, popped, err>>
SStore(t) ==
  /\ pc[t] = "s_store"
  /\ values' = values \cup {K(t)} /\ Goto(t, "s_check")
  /\ UNCHANGED <<lastUsed, mutex, popped, err>>
SCheck(t) ==
  /\ pc[t] = "s_check"
  /\ Goto(t, IF Cardinality(values) > Size THEN "s_pop" ELSE "unlock")
  /\ UNCHANGED <<values, lastUsed, mutex, popped, err>>
SPop(t) ==
  /\ pc[t] = "s_pop"
  /\ IF lastUsed = <<>> THEN Fail(t, "IndexError: pop from an empty deque") /\ UNCHANGED <<lastUsed, popped>>
     ELSE /\ popped' = [popped EXCEPT ![t] = lastUsed[Len(lastUsed)]]
          /\ lastUsed' = SubSeq(lastUsed, 1, Len(lastUsed) - 1)
          /\ Goto(t, "s_del") /\ UNCHANGED <<err, mutex>>
  /\ UNCHANGED values
SDel(t) ==
  /\ pc[t] = "s_del"
  /\ IF popped[t] \in values THEN values' = values \ {popped[t]} /\ Goto(t, "s_check") /\ UNCHANGED <<err, mutex>>
     ELSE Fail(t, "KeyError in eviction") /\ UNCHANGED values
  /\ UNCHANGED <<lastUsed, popped>>

DictOp(t) == GContains(t) \/ GRead(t) \/ GRemove(t) \/ GAppend(t)
             \/ SContains(t) \/ SRemove(t) \/ SAppend(t) \/ SStore(t) \/ SCheck(t) \/ SPop(t) \/ SDel(t)
LockOp(t) == Lock(t) \/ Unlock(t)

\* the repair: a second, short lock around every access of the dictionary - no other thread operates on the dictionary
\* while a thread is between the first and the last operation of one get / set
InAccess(t) == pc[t] \in {"g_read", "g_remove", "g_append", "l_read", "l_remove", "l_append", "l2_read", "l2_remove", "l2_append",
                          "s_remove", "s_append", "s_store", "s_check", "s_pop", "s_del"}
Free(t) == Guard = "lock" => \A u \in Thread \ {t} : ~InAccess(u)
Micro(t) == (DictOp(t) /\ Free(t)) \/ LockOp(t)
Next == \E t \in Thread : Micro(t)
Spec == Init /\ [][Next]_vars
FairSpec == Spec /\ \A t \in Thread : WF_vars(Micro(t))

-----------------------------------------------------------------------------
NoError == \A t \in Thread : err[t] = "none"
AllDone == \A t \in Thread : pc[t] \in {"done", "failed"}
\* when nobody is inside an access the two structures agree and the bound holds
Quiet == \A t \in Thread : ~InAccess(t) /\ pc[t] # "failed"
Consistent == Quiet => /\ Range(lastUsed) = values
                       /\ \A i, j \in 1 .. Len(lastUsed) : lastUsed[i] = lastUsed[j] => i = j
                       /\ Cardinality(values) <= Size
MutexOK == \A t \in Thread : Locked(t) => mutex = t
NoStuck == AllDone \/ ENABLED Next
Termination == <>AllDone
=============================================================================
