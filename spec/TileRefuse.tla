----------------------------- MODULE TileRefuse -----------------------------
(***************************************************************************)
(* C16 - invalid or oversized requests are refused before they cost        *)
(* anything.                                                               *)
(*                                                                         *)
(* A model of what MapProxy does with one tile or map request, as seen at  *)
(* its boundaries: HTTP request in, upstream requests out, cache writes,   *)
(* HTTP response out.  The decision procedure is transcribed from          *)
(*   request/tile.py, request/wmts.py   (lexical form of the address)      *)
(*   service/tile.py  TileServer.map, TileLayer.render,                    *)
(*                    _internal_tile_coord, checked_dimensions,            *)
(*                    TileServiceGrid.internal_tile_coord                  *)
(*   service/wmts.py  WMTSServer.tile / check_request, kml.py KMLServer.map*)
(*   grid.py          TileGrid.limit_tile, flip_tile_coord, MetaGrid       *)
(*                    (main_tile, _meta_size, _create_tile_list)           *)
(*   service/wms.py   check_map_request (max_output_pixels, `>`),          *)
(*                    LayerRenderer (layers rendered one after the other)  *)
(*   layer.py         CacheMapLayer.get_map/_image (max_tile_limit, `>=`)  *)
(*   cache/tile.py    load_tile_coords, _create_single_tile,               *)
(*                    _create_meta_tile (fetch the block, store all of it) *)
(* in the order in which the code takes the decisions.                     *)
(*                                                                         *)
(* Address components are tokens: an integer, a 30-digit number ("huge"),  *)
(* its negative, or a non-numeric word; each service flavour lexes them    *)
(* the way its regular expression / int() call does.                       *)
(***************************************************************************)
EXTENDS Integers, Sequences, FiniteSets, TLC

CONSTANTS
  GridSizes,          \* GridSizes[l+1] = <<columns, rows>> of internal level l of the layer's grid
  Res,                \* Res[l+1] = lattice units per pixel at level l  (<<>>: geometry not modelled)
  TileSize,           \* <<tw, th>> pixels
  BBox,               \* grid bbox in lattice units <<minx, miny, maxx, maxy>>
  GridOrigin,         \* "ll" | "ul"
  SkipFirst,          \* TileServiceGrid._skip_first_level (global profiles hide level 0 in TMS)
  SkipOdd,            \* TileServiceGrid._skip_odd_level (sqrt2 grids)
  WmtsOffered,        \* grid.supports_access_with_origin('nw'): otherwise the layer is unknown to WMTS
  LayerFormat,        \* "png"
  DimValues,          \* values offered for the layer's dimension "time" ({} = layer has no dimension)
  DimDefault,
  CovBox,             \* source coverage in lattice units, <<>> = none
  Meta,               \* <<mw, mh>> meta tile size
  TileLimit,          \* max_tile_limit (0 = off)
  PixelLimit,         \* max_output_pixels (0 = off)
  CoarseLevels,       \* number of levels of the second WMS layer "coarse" (a prefix of the grid), 0 = no such layer
  PrecheckAllLayers,  \* FALSE: the code as it is (each layer decides when it is rendered)
  Flavours, ZToks, XToks, YToks, Fmts, DimToks,   \* request universe explored by the model checker
  VaryAt,             \* <<x, y>> token pairs at which format / dimension / lexical junk is varied
  MapLayerSeqs, MapLevels, MapOffs, MapSizes,
  MaxReq              \* requests per behaviour explored by the model checker

VARIABLES
  cached,   \* set of stored tile addresses <<layer, x, y, z, dim>>
  pend,     \* the request being processed
  ups,      \* upstream requests made for the current / last request (meta blocks <<layer, bx, by, z, dim>>)
  wrs,      \* cache writes made for the current / last request
  reply,    \* the last response
  nreq

vars == <<cached, pend, ups, wrs, reply, nreq>>

---------------------------------------------------------------------------
\* tokens
I(v)    == [k |-> "int", v |-> v]
HUGE    == [k |-> "huge", v |-> 0]
NEGHUGE == [k |-> "neghuge", v |-> 0]
WORD    == [k |-> "word", v |-> 0]
IsNum(c)   == c.k # "word"
Neg(c)     == c.k = "neghuge" \/ (c.k = "int" /\ c.v < 0)
GeN(c, n)  == c.k = "huge" \/ (c.k = "int" /\ c.v >= n)
Inc(c)     == IF c.k = "int" THEN I(c.v + 1) ELSE c
Dbl(c)     == IF c.k = "int" THEN I(c.v * 2) ELSE c

None   == <<>>
NoDim  == "-"
Min(a, b) == IF a < b THEN a ELSE b
Max(a, b) == IF a > b THEN a ELSE b
CeilDiv(a, b) == (a + b - 1) \div b

Levels == Len(GridSizes)
NLevels(lay) == IF lay = "coarse" THEN CoarseLevels ELSE Levels
InGrid(c) == /\ c[3] \in 0 .. Levels - 1
             /\ c[1] \in 0 .. GridSizes[c[3] + 1][1] - 1
             /\ c[2] \in 0 .. GridSizes[c[3] + 1][2] - 1

---------------------------------------------------------------------------
\* grid.py limit_tile
LimitTile(x, y, z) ==
  IF Neg(z) \/ GeN(z, Levels) THEN None
  ELSE LET g == GridSizes[z.v + 1] IN
       IF Neg(x) \/ Neg(y) \/ GeN(x, g[1]) \/ GeN(y, g[2]) THEN None
       ELSE <<x.v, y.v, z.v>>

\* service/tile.py TileServiceGrid.internal_tile_coord
InternalTileCoord(x, y, z, useProfiles) ==
  IF Neg(z) THEN None
  ELSE LET z1 == IF useProfiles /\ SkipFirst THEN Inc(z) ELSE z
           z2 == IF SkipOdd THEN Dbl(z1) ELSE z1
       IN LimitTile(x, y, z2)

FlipY(c) == <<c[1], GridSizes[c[3] + 1][2] - 1 - c[2], c[3]>>

\* the request origin each flavour ends up with (TMSRequest never reads ?origin=, KML forces sw,
\* /tiles reads it, WMTS is nw)
ReqOrigin(f) == CASE f \in {"tms", "tms_nw", "kml", "tiles_sw"} -> "sw"
                  [] f \in {"tiles_nw", "wmts_kvp", "wmts_rest"} -> "nw"
                  [] OTHER -> "none"
UseProfiles(f) == f \in {"tms", "tms_nw"}
IsWmts(f) == f \in {"wmts_kvp", "wmts_rest"}

\* TileLayer._internal_tile_coord
LayerTileCoord(f, x, y, z) ==
  LET c == InternalTileCoord(x, y, z, UseProfiles(f)) IN
  IF c = None THEN None
  ELSE IF (ReqOrigin(f) = "nw" /\ GridOrigin = "ll") \/ (ReqOrigin(f) = "sw" /\ GridOrigin = "ul")
       THEN FlipY(c) ELSE c

\* lexical form: regular expressions of the path services, int() of the KVP service
LexOK(f, x, y, z, d) ==
  CASE f = "wmts_kvp"  -> IsNum(x) /\ IsNum(y) /\ IsNum(z)
    [] f = "wmts_rest" -> IsNum(x) /\ IsNum(y) /\ IsNum(z) /\ ~Neg(z) /\ (DimValues # {} => d # "")
    [] OTHER           -> IsNum(x) /\ IsNum(y) /\ IsNum(z)

\* source coverage: the tile's box meets the coverage box in more than an edge
TileBox(c) ==
  LET sx == Res[c[3] + 1] * TileSize[1]
      sy == Res[c[3] + 1] * TileSize[2]
      x0 == BBox[1] + c[1] * sx
      y0 == IF GridOrigin = "ul" THEN BBox[4] - (c[2] + 1) * sy ELSE BBox[2] + c[2] * sy
  IN <<x0, y0, x0 + sx, y0 + sy>>
Covered(c) == \/ CovBox = <<>>
              \/ LET b == TileBox(c) IN b[1] < CovBox[3] /\ b[3] > CovBox[1] /\ b[2] < CovBox[4] /\ b[4] > CovBox[2]

Status(f, reason) == IF IsWmts(f) THEN (IF reason \in {"InvalidRequest", "InternalError"} THEN 500 ELSE 400) ELSE 404

Err(f, reason) == [cls |-> "error", status |-> Status(f, reason), reason |-> reason, addr |-> None, dim |-> NoDim]

\* WMTSServer.tile / TileServer.map / KMLServer.map -> TileLayer.render, decisions in code order
TileDecision(f, z, x, y, fmt, d) ==
  IF ~LexOK(f, x, y, z, d) THEN Err(f, IF f = "wmts_kvp" THEN "InternalError" ELSE "InvalidRequest")
  ELSE IF IsWmts(f) /\ ~WmtsOffered THEN Err(f, "UnknownLayer")
  ELSE IF fmt # LayerFormat THEN Err(f, "InvalidFormat")
  ELSE LET c == LayerTileCoord(f, x, y, z) IN
    IF c = None THEN Err(f, "TileOutOfRange")
    ELSE LET dv == IF DimValues = {} THEN NoDim
                   ELSE IF d \in DimValues THEN d
                   ELSE IF d \in {"", "default"} THEN DimDefault ELSE "invalid"
         IN IF dv = "invalid" THEN Err(f, "InvalidDimension")
            ELSE IF ~Covered(c) THEN [cls |-> "empty", status |-> 200, reason |-> "-", addr |-> c, dim |-> dv]
            ELSE [cls |-> "tile", status |-> 200, reason |-> "-", addr |-> c, dim |-> dv]

---------------------------------------------------------------------------
\* meta tiles (grid.py MetaGrid._meta_size, main_tile, _create_tile_list)
MetaSize(z) == <<Min(Meta[1], GridSizes[z + 1][1]), Min(Meta[2], GridSizes[z + 1][2])>>
BlockOf(a) == LET m == MetaSize(a[4]) IN <<a[1], (a[2] \div m[1]) * m[1], (a[3] \div m[2]) * m[2], a[4], a[5]>>
BlockTiles(b) == LET m == MetaSize(b[4])
                     g == GridSizes[b[4] + 1]
                 IN {<<b[1], x, y, b[4], b[5]>> : x \in b[2] .. Min(b[2] + m[1], g[1]) - 1,
                                                  y \in b[3] .. Min(b[3] + m[2], g[2]) - 1}

---------------------------------------------------------------------------
\* map requests: pixel rectangle (px, py, pw, ph) at the resolution of level L, offsets counted from the
\* lower left corner of the grid bbox
MapClip(L, px, py, pw, ph) ==
  LET r == Res[L + 1]
      W == BBox[3] - BBox[1]
      H == BBox[4] - BBox[2]
      ux0 == Max(px * r, 0)   ux1 == Min((px + pw) * r, W)
      uy0 == Max(py * r, 0)   uy1 == Min((py + ph) * r, H)
  IN IF ux0 >= ux1 \/ uy0 >= uy1 THEN None ELSE <<ux0, uy0, ux1, uy1>>

\* grid.get_affected_tiles on the clipped box for one layer: <<x0, y0, x1, y1, level>>
Affected(lay, L, clip) ==
  LET lvl == Min(L, NLevels(lay) - 1)
      sx == Res[lvl + 1] * TileSize[1]
      sy == Res[lvl + 1] * TileSize[2]
      H == BBox[4] - BBox[2]
      x0 == clip[1] \div sx
      x1 == CeilDiv(clip[3], sx) - 1
      y0 == IF GridOrigin = "ul" THEN (H - clip[4]) \div sy ELSE clip[2] \div sy
      y1 == IF GridOrigin = "ul" THEN CeilDiv(H - clip[2], sy) - 1 ELSE CeilDiv(clip[4], sy) - 1
  IN <<x0, y0, x1, y1, lvl>>
NumTiles(a) == (a[3] - a[1] + 1) * (a[4] - a[2] + 1)
\* layer.py:455  `if self.max_tile_limit and num_tiles >= self.max_tile_limit`
LayerRefuses(lay, L, clip) == TileLimit > 0 /\ NumTiles(Affected(lay, L, clip)) >= TileLimit
LayerTiles(lay, L, clip) == LET a == Affected(lay, L, clip) IN
  {<<lay, x, y, a[5], NoDim>> : x \in a[1] .. a[3], y \in a[2] .. a[4]}

MapErr(reason) == [cls |-> "error", status |-> 500, reason |-> reason, addr |-> None, dim |-> NoDim]
MapOut(cls)    == [cls |-> cls, status |-> 200, reason |-> "-", addr |-> None, dim |-> NoDim]

Range(s) == {s[i] : i \in 1 .. Len(s)}
\* decided before anything is rendered: wms.py:268 `size[0] * size[1] > max_output_pixels`, blank outside the extent,
\* and - only in the repaired variant - the tile limit of every layer
MapEntryDecision(ls, L, px, py, pw, ph) ==
  IF PixelLimit > 0 /\ pw * ph > PixelLimit THEN MapErr("ImageTooLarge")
  ELSE LET clip == MapClip(L, px, py, pw, ph) IN
    IF clip = None THEN MapOut("blank")
    ELSE IF PrecheckAllLayers /\ \E lay \in Range(ls) : LayerRefuses(lay, L, clip) THEN MapErr("TooManyTiles")
    ELSE MapOut("map")

---------------------------------------------------------------------------
NoReq == [kind |-> "none"]
TileReq(f, z, x, y, fmt, d) == [kind |-> "tile", f |-> f, z |-> z, x |-> x, y |-> y, fmt |-> fmt, d |-> d]
MapReq(ls, L, px, py, pw, ph) == [kind |-> "map", ls |-> ls, L |-> L, px |-> px, py |-> py, pw |-> pw, ph |-> ph]

Idle == [req |-> NoReq, out |-> MapOut("none"), need |-> {}, tostore |-> {}, queue |-> <<>>]
NoReply == [req |-> NoReq, cls |-> "none", status |-> 0, reason |-> "-"]

Init == cached = {} /\ pend = Idle /\ ups = {} /\ wrs = {} /\ reply = NoReply /\ nreq = 0

Fresh == pend = Idle /\ reply = NoReply

\* a request arrives; everything that is decided before the first cache access is decided here
TileRequest(f, z, x, y, fmt, d) ==
  /\ Fresh /\ nreq < MaxReq
  /\ LET out == TileDecision(f, z, x, y, fmt, d)
         a   == <<"fine", out.addr[1], out.addr[2], out.addr[3], out.dim>>
     IN pend' = [req |-> TileReq(f, z, x, y, fmt, d), out |-> out, queue |-> <<>>, tostore |-> {},
                 need |-> IF out.cls = "tile" /\ a \notin cached THEN {BlockOf(a)} ELSE {}]
  /\ ups' = {} /\ wrs' = {} /\ nreq' = nreq + 1
  /\ UNCHANGED <<cached, reply>>

MapRequest(ls, L, px, py, pw, ph) ==
  /\ Fresh /\ nreq < MaxReq
  /\ LET out == MapEntryDecision(ls, L, px, py, pw, ph)
     IN pend' = [req |-> MapReq(ls, L, px, py, pw, ph), out |-> out, need |-> {}, tostore |-> {},
                 queue |-> IF out.cls = "map" THEN ls ELSE <<>>]
  /\ ups' = {} /\ wrs' = {} /\ nreq' = nreq + 1
  /\ UNCHANGED <<cached, reply>>

\* LayerRenderer: the next layer of the request is rendered (CacheMapLayer._image): it refuses, or
\* it needs the meta blocks of its uncached tiles
RenderLayer ==
  /\ pend.req.kind = "map" /\ pend.queue # <<>> /\ pend.need = {} /\ pend.tostore = {}
  /\ LET lay  == Head(pend.queue)
         r    == pend.req
         clip == MapClip(r.L, r.px, r.py, r.pw, r.ph)
     IN IF LayerRefuses(lay, r.L, clip)
        THEN pend' = [pend EXCEPT !.out = MapErr("TooManyTiles"), !.queue = <<>>]
        ELSE pend' = [pend EXCEPT !.queue = Tail(@),
                                  !.need = {BlockOf(t) : t \in LayerTiles(lay, r.L, clip) \ cached}]
  /\ UNCHANGED <<cached, ups, wrs, reply, nreq>>

\* one upstream request for a meta block; all tiles of the block that lie in the grid will be stored.
\* Blocks are created one after the other (concurrent_tile_creators = 1): the next block is requested when the
\* tiles of the previous one have been stored.
Fetch(b) ==
  /\ b \in pend.need /\ pend.tostore = {}
  /\ ups' = ups \cup {b}
  /\ pend' = [pend EXCEPT !.need = @ \ {b}, !.tostore = BlockTiles(b)]
  /\ UNCHANGED <<cached, wrs, reply, nreq>>

\* the tiles of a block are stored in the order of MetaGrid._meta_tile_list: row by row starting with the
\* northernmost row, west to east
Before(a, b) == IF a[3] # b[3] THEN (IF GridOrigin = "ul" THEN a[3] < b[3] ELSE a[3] > b[3]) ELSE a[2] < b[2]
Store(a) ==
  /\ a \in pend.tostore /\ \A b \in pend.tostore \ {a} : Before(a, b)
  /\ cached' = cached \cup {a}
  /\ wrs' = wrs \cup {a}
  /\ pend' = [pend EXCEPT !.tostore = @ \ {a}]
  /\ UNCHANGED <<ups, reply, nreq>>

Respond ==
  /\ pend.req.kind # "none" /\ pend.need = {} /\ pend.tostore = {} /\ pend.queue = <<>>
  /\ reply' = [req |-> pend.req, cls |-> pend.out.cls, status |-> pend.out.status, reason |-> pend.out.reason]
  /\ pend' = Idle
  /\ UNCHANGED <<cached, ups, wrs, nreq>>

\* the response has been looked at; forget it (keeps the model's state space a function of the cache)
Forget ==
  /\ pend = Idle /\ reply # NoReply
  /\ reply' = NoReply /\ ups' = {} /\ wrs' = {}
  /\ UNCHANGED <<cached, pend, nreq>>

\* the request universe of the model checker: the full window of plain integer addresses in the layer's format,
\* and everything else (other formats, dimension values, huge / negative-huge / non-numeric tokens) at the
\* positions listed in VaryAt
PlainTok(c) == c.k = "int" /\ c.v > -1000000 /\ c.v < 1000000
TileUniverse ==
  {q \in [f : Flavours, z : ZToks, x : XToks, y : YToks, fmt : Fmts, d : DimToks] :
      /\ (q.fmt # LayerFormat \/ q.d # "" \/ ~PlainTok(q.x) \/ ~PlainTok(q.y) \/ ~PlainTok(q.z)) => <<q.x, q.y>> \in VaryAt
      /\ q.d # "" => IsWmts(q.f)}

\* (the guards are repeated in front of the quantifiers so that TLC does not enumerate the universe in states
\* in which no request can arrive)
DoTileRequest == Fresh /\ nreq < MaxReq /\ \E q \in TileUniverse : TileRequest(q.f, q.z, q.x, q.y, q.fmt, q.d)
DoMapRequest  == Fresh /\ nreq < MaxReq /\ \E ls \in MapLayerSeqs, L \in MapLevels, px \in MapOffs, py \in MapOffs,
                                              pw \in MapSizes, ph \in MapSizes : MapRequest(ls, L, px, py, pw, ph)
DoFetch == \E b \in pend.need : Fetch(b)
DoStore == \E a \in pend.tostore : Store(a)

Next == DoTileRequest \/ DoMapRequest \/ RenderLayer \/ DoFetch \/ DoStore \/ Respond \/ Forget

Spec == Init /\ [][Next]_vars

---------------------------------------------------------------------------
\* The property, stated independently of the decision procedure above.

Refused == {"error", "empty", "blank"}

\* (1) a refused request has cost nothing - neither when it is answered nor at any moment before
RejectedHasNoEffects ==
  /\ reply.cls \in Refused => ups = {} /\ wrs = {}
  /\ pend.out.cls \in Refused => ups = {} /\ wrs = {} /\ pend.need = {} /\ pend.tostore = {}

\* (2) whatever is fetched or stored is a tile of the grid (of its layer's prefix of the grid)
AddrInGrid(a) == InGrid(<<a[2], a[3], a[4]>>) /\ a[4] < NLevels(a[1])
StoredInsideGrid ==
  /\ \A a \in cached \cup wrs \cup pend.tostore : AddrInGrid(a)
  /\ \A b \in ups \cup pend.need : AddrInGrid(b)

\* (3) what each service advertises: TMS tile sets (service/tile.py tile_sets), WMTS tile matrices
\* (one per grid level), KML / tiles: the levels the sub-tile links walk through
PublicLevels(f) ==
  LET start == IF UseProfiles(f) /\ SkipFirst THEN (IF SkipOdd THEN 2 ELSE 1) ELSE 0
      step  == IF SkipOdd THEN 2 ELSE 1
  IN [pz \in 0 .. ((Levels - 1 - start) \div step) |-> start + pz * step]
Advertised(f, z, x, y) ==
  /\ z.k = "int" /\ x.k = "int" /\ y.k = "int"
  /\ Levels > (IF UseProfiles(f) /\ SkipFirst THEN (IF SkipOdd THEN 2 ELSE 1) ELSE 0)
  /\ z.v \in DOMAIN PublicLevels(f)
  /\ LET g == GridSizes[PublicLevels(f)[z.v] + 1] IN x.v \in 0 .. g[1] - 1 /\ y.v \in 0 .. g[2] - 1
  /\ IsWmts(f) => WmtsOffered

OfferedDim(f, d) == DimValues = {} \/ ~IsWmts(f) \/ d \in DimValues \cup {"", "default"}

OverLimit(r) ==
  \/ PixelLimit > 0 /\ r.pw * r.ph > PixelLimit
  \/ LET clip == MapClip(r.L, r.px, r.py, r.pw, r.ph) IN
       clip # None /\ \E lay \in Range(r.ls) : LayerRefuses(lay, r.L, clip)

Outcome(req, cls) ==
  /\ (req.kind = "tile" /\ ~Advertised(req.f, req.z, req.x, req.y)) => cls \in Refused
  /\ (req.kind = "tile" /\ (req.fmt # LayerFormat \/ ~OfferedDim(req.f, req.d))) => cls = "error"
  /\ (req.kind = "map" /\ OverLimit(req)) => cls = "error"

InvalidIsRefused == Outcome(reply.req, reply.cls) /\ (pend.req.kind = "tile" => Outcome(pend.req, pend.out.cls))

\* and the converse for tiles, so that "refuse everything" is not a model of the property
ValidIsServed ==
  (reply.req.kind = "tile" /\ Advertised(reply.req.f, reply.req.z, reply.req.x, reply.req.y)
     /\ reply.req.fmt = LayerFormat /\ OfferedDim(reply.req.f, reply.req.d)
     /\ (reply.req.f = "wmts_rest" /\ DimValues # {} => reply.req.d # ""))
  => reply.cls \in {"tile", "empty"}

TypeOK ==
  /\ \A a \in cached : Len(a) = 5
  /\ reply.cls \in {"none", "tile", "empty", "blank", "map", "error"}
  /\ nreq \in 0 .. MaxReq

\* ---------------------------------------------------------------------------
\* What one request does when it arrives with cache content `c`, as a function: the table of cases that
\* is executed on the real application.  ExpectedOK ties the function to the actions above.
RECURSIVE FetchAll(_, _, _)
FetchAll(q, c, r) ==
  IF q = <<>> THEN [ups |-> {}, wrs |-> {}, refused |-> FALSE]
  ELSE LET clip == MapClip(r.L, r.px, r.py, r.pw, r.ph)
           lay == Head(q)
       IN IF LayerRefuses(lay, r.L, clip) THEN [ups |-> {}, wrs |-> {}, refused |-> TRUE]
          ELSE LET bl == {BlockOf(t) : t \in LayerTiles(lay, r.L, clip) \ c}
                   st == UNION {BlockTiles(b) : b \in bl}
                   rest == FetchAll(Tail(q), c \cup st, r)
               IN [ups |-> bl \cup rest.ups, wrs |-> st \cup rest.wrs, refused |-> rest.refused]

Exp(out, u, w) == [cls |-> out.cls, status |-> out.status, reason |-> out.reason, ups |-> u, wrs |-> w]
Expected(r, c) ==
  IF r.kind = "tile"
  THEN LET out == TileDecision(r.f, r.z, r.x, r.y, r.fmt, r.d)
           a   == <<"fine", out.addr[1], out.addr[2], out.addr[3], out.dim>>
       IN IF out.cls = "tile" /\ a \notin c THEN Exp(out, {BlockOf(a)}, BlockTiles(BlockOf(a))) ELSE Exp(out, {}, {})
  ELSE LET out == MapEntryDecision(r.ls, r.L, r.px, r.py, r.pw, r.ph) IN
       IF out.cls # "map" THEN Exp(out, {}, {})
       ELSE LET fa == FetchAll(r.ls, c, r) IN
            Exp(IF fa.refused THEN MapErr("TooManyTiles") ELSE out, fa.ups, fa.wrs)

ExpectedOK ==
  (nreq = 1 /\ reply.req.kind # "none") =>
     LET e == Expected(reply.req, {}) IN
       e.cls = reply.cls /\ e.status = reply.status /\ e.reason = reply.reason /\ e.ups = ups /\ e.wrs = wrs

AllRequests ==
  {TileReq(q.f, q.z, q.x, q.y, q.fmt, q.d) : q \in TileUniverse} \cup
  {MapReq(ls, L, px, py, pw, ph) : ls \in MapLayerSeqs, L \in MapLevels, px \in MapOffs, py \in MapOffs,
                                   pw \in MapSizes, ph \in MapSizes}
CaseTable == {[req |-> r, exp |-> Expected(r, {})] : r \in AllRequests}
=============================================================================
