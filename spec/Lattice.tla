------------------------------ MODULE Lattice ------------------------------
(***************************************************************************)
(* Tile grid arithmetic of mapproxy.grid.TileGrid in an exact integer      *)
(* "lattice world" (C03; shared by C01, C02, C04, C11, C16).               *)
(*                                                                         *)
(* A grid g is a record                                                    *)
(*   [ul |-> BOOLEAN,              origin 'ul' (rows counted from the top) *)
(*    bbox |-> <<x0, y0, x1, y1>>, in lattice units u                      *)
(*    tw, th |-> tile size in pixels,                                      *)
(*    res |-> <<r_0, ..., r_n-1>>, u per pixel, descending, multiples of   *)
(*                                 10 so that 1/10 pixel is on the lattice *)
(*    sn, sd |-> stretch factor sn/sd,  ms |-> max shrink factor,          *)
(*    thr |-> threshold resolutions (ascending sequence, may be <<>>)]     *)
(* Levels are numbered 0 .. n-1 as in the code (sequence index - 1).       *)
(*                                                                         *)
(* The first part TRANSCRIBES the code (operational); the second part      *)
(* states C03 DECLARATIVELY; TLC checks that the transcription meets the   *)
(* declarative statement for every grid of the catalogue and every point,  *)
(* rectangle and resolution of a window on the sub-pixel lattice.          *)
(***************************************************************************)
EXTENDS Integers, Sequences, FiniteSets, TLC

Max(a, b) == IF a > b THEN a ELSE b
Min(a, b) == IF a < b THEN a ELSE b
Abs(x) == IF x < 0 THEN -x ELSE x
FloorDiv(a, b) == a \div b                      \* b > 0; TLC's \div rounds towards minus infinity
CeilDiv(a, b) == -((-a) \div b)

NLevels(g) == Len(g.res)
Levels(g) == 0 .. NLevels(g) - 1
Res(g, l) == g.res[l + 1]
W(g) == g.bbox[3] - g.bbox[1]
H(g) == g.bbox[4] - g.bbox[2]

-----------------------------------------------------------------------------
(* Operational transcription                                               *)

\* _calc_grids:  max(ceil(width // res / tile_size), 1)
GridSize(g, l) == <<Max(CeilDiv(FloorDiv(W(g), Res(g, l)), g.tw), 1),
                    Max(CeilDiv(FloorDiv(H(g), Res(g, l)), g.th), 1)>>

\* tile_bbox
TileBBox(g, t) ==
  LET x == t[1]  y == t[2]  r == Res(g, t[3])
      x0 == g.bbox[1] + x * r * g.tw
  IN IF g.ul
       THEN LET y1 == g.bbox[4] - y * r * g.th IN <<x0, y1 - r * g.th, x0 + r * g.tw, y1>>
       ELSE LET y0 == g.bbox[2] + y * r * g.th IN <<x0, y0, x0 + r * g.tw, y0 + r * g.th>>

\* tile(x, y, level): floor of the offset from the origin corner
TileAt(g, px, py, l) ==
  LET r == Res(g, l) IN
  <<FloorDiv(px - g.bbox[1], r * g.tw),
    IF g.ul THEN FloorDiv(g.bbox[4] - py, r * g.th) ELSE FloorDiv(py - g.bbox[2], r * g.th),
    l>>

FlipTile(g, t) == <<t[1], GridSize(g, t[3])[2] - 1 - t[2], t[3]>>

\* supports_access_with_origin(other origin): on every level the tile rows fill the bbox exactly
RowsFill(g) == \A l \in Levels(g) : GridSize(g, l)[2] * g.th * Res(g, l) = H(g)
SupportsOrigin(g, wantUL) == (wantUL = g.ul) \/ RowsFill(g)

LimitTile(g, t) == /\ t[3] \in Levels(g)
                   /\ t[1] >= 0 /\ t[2] >= 0 /\ t[1] < GridSize(g, t[3])[1] /\ t[2] < GridSize(g, t[3])[2]

InGridTiles(g, l) == {<<x, y, l>> : x \in 0 .. GridSize(g, l)[1] - 1, y \in 0 .. GridSize(g, l)[2] - 1}

\* get_affected_level_tiles: corner tiles of the rectangle shrunk by 1/10 pixel, rows from the top,
\* out-of-grid positions become "none".  Result: <<tile bbox, <<nx, ny>>, row-major sequence>>
NoTile == <<-1, -1, -1>>
Affected(g, b, l) ==
  LET d == Res(g, l) \div 10
      c0 == TileAt(g, b[1] + d, b[2] + d, l)
      c1 == TileAt(g, b[3] - d, b[4] - d, l)
      xa == c0[1]  xb == c1[1]
      \* ll: ys = y1 downto y0;  ul: rows from tile(top) = c1 row to tile(bottom) = c0 row, ascending
      nx == xb - xa + 1
      ny == IF g.ul THEN c0[2] - c1[2] + 1 ELSE c1[2] - c0[2] + 1
      RowY(j) == IF g.ul THEN c1[2] + (j - 1) ELSE c1[2] - (j - 1)      \* j = 1 .. ny, top row first
      Cell(k) == LET j == (k - 1) \div nx + 1   i == (k - 1) % nx
                     t == <<xa + i, RowY(j), l>>
                 IN IF LimitTile(g, t) THEN t ELSE NoTile
      tl == <<xa, RowY(1), l>>           \* top-left and bottom-right tiles span the covered bbox
      br == <<xb, RowY(ny), l>>
  IN [nx |-> nx, ny |-> ny,
      tiles |-> IF nx >= 1 /\ ny >= 1 THEN [k \in 1 .. nx * ny |-> Cell(k)] ELSE <<>>,
      bbox |-> IF nx >= 1 /\ ny >= 1
                 THEN <<TileBBox(g, tl)[1], TileBBox(g, br)[2], TileBBox(g, br)[3], TileBBox(g, tl)[4]>>
                 ELSE <<0, 0, 0, 0>>]

\* closest_level(res): res given as a fraction rn/rd (u per pixel); full transcription of the loop.
\* Comparisons a <= b*s become integer cross-multiplications.  Returns the SET of admissible levels:
\* where a comparison is an exact tie (l_res = res*stretch, res = l_res, res = threshold) both outcomes of
\* the floating-point comparison are admitted.
LeqS(g, lres, rn, rd) == lres * rd * g.sd <= rn * g.sn          \* l_res <= res * stretch
TieS(g, lres, rn, rd) == lres * rd * g.sd = rn * g.sn

RECURSIVE CLLoop(_, _, _, _, _, _, _, _)
\* state of the loop: level index i (0-based), prev_l_res, current threshold thr (0 = none), remaining
\* thresholds (sequence, popped from the end), threshold_result tr (-1 = none); strict/lenient tie handling
\* is encoded by `tie` \in {0, 1}: how exact ties of the stretch comparison are resolved
CLLoop(g, rn, rd, i, prev, thr, rest, acc) ==
  \* acc = <<threshold_result, tie>>
  IF i = NLevels(g) THEN NLevels(g) - 1
  ELSE
    LET lres == Res(g, i)
        tr == acc[1]
        tie == acc[2]
        hit == thr # 0 /\ prev > thr /\ thr >= lres
        thr2 == IF hit THEN (IF Len(rest) > 0 THEN rest[Len(rest)] ELSE 0) ELSE thr
        rest2 == IF hit /\ Len(rest) > 0 THEN SubSeq(rest, 1, Len(rest) - 1) ELSE rest
    IN IF hit /\ rn > thr * rd THEN i - 1
       ELSE IF hit /\ rn >= lres * rd THEN i
       ELSE IF tr # -1 /\ lres * rd < rn THEN tr
       ELSE LET within == IF TieS(g, lres, rn, rd) THEN tie = 1 ELSE LeqS(g, lres, rn, rd)
                tr2 == IF within THEN i ELSE tr
            IN CLLoop(g, rn, rd, i + 1, lres, thr2, rest2, <<tr2, tie>>)

\* initial threshold handling: pop the largest; skip thresholds above the first resolution
RECURSIVE SkipThr(_, _, _)
SkipThr(first, thr, rest) == IF thr > first /\ Len(rest) > 0
                               THEN SkipThr(first, rest[Len(rest)], SubSeq(rest, 1, Len(rest) - 1))
                               ELSE <<thr, rest>>
ClosestLevelWith(g, rn, rd, tie) ==
  LET n == Len(g.thr)
      start == IF n = 0 THEN <<0, <<>>>> ELSE SkipThr(Res(g, 0), g.thr[n], SubSeq(g.thr, 1, n - 1))
  IN CLLoop(g, rn, rd, 0, Res(g, 0), start[1], start[2], <<-1, tie>>)
ClosestLevels(g, rn, rd) == {ClosestLevelWith(g, rn, rd, 0), ClosestLevelWith(g, rn, rd, 1)}

\* get_affected_bbox_and_level: NoTiles if the rectangle does not intersect the grid bbox (touching counts as
\* intersecting in bbox_intersects? no: strict) or the resolution is coarser than res[0]*max_shrink
Intersects(a, b) == a[1] < b[3] /\ a[3] > b[1] /\ a[2] < b[4] /\ a[4] > b[2]
\* the level for a request rectangle b answered with resolution rn/rd (the smaller of the two axis resolutions):
\* NoLevel when the rectangle does not meet the grid or the resolution is coarser than max_shrink times the resolution
\* of the FIRST level ("this factor only applies for the first level"); otherwise closest_level
NoLevel == -1
TooCoarse(g, rn, rd) == rn > Res(g, 0) * g.ms * rd
ShrinkTie(g, rn, rd) == rn = Res(g, 0) * g.ms * rd
BBoxLevelWith(g, b, rn, rd, tie) ==
  IF ~Intersects(g.bbox, b) \/ TooCoarse(g, rn, rd) THEN NoLevel ELSE ClosestLevelWith(g, rn, rd, tie)
BBoxLevels(g, b, rn, rd) == {BBoxLevelWith(g, b, rn, rd, 0), BBoxLevelWith(g, b, rn, rd, 1)}
\* declaratively: a request that meets the grid and is not coarser than max_shrink times the first level gets a level
BBoxLevelOK(g, b, rn, rd) ==
  (Intersects(g.bbox, b) /\ rn <= Res(g, 0) * g.ms * rd) <=> (NoLevel \notin BBoxLevels(g, b, rn, rd))

-----------------------------------------------------------------------------
(* Declarative statement of C03                                            *)

InClosed(px, py, b) == b[1] <= px /\ px <= b[3] /\ b[2] <= py /\ py <= b[4]
InteriorMeets(a, b) == Max(a[1], b[1]) < Min(a[3], b[3]) /\ Max(a[2], b[2]) < Min(a[4], b[4])
Shrink(b, d) == <<b[1] + d, b[2] + d, b[3] - d, b[4] - d>>
\* intersection of positive area with the rectangle shrunk by d (a degenerate shrunk rectangle meets nothing)
MeetsShrunk(a, b, d) == LET s == Shrink(b, d) IN s[1] < s[3] /\ s[2] < s[4] /\ InteriorMeets(a, s)

\* (i) the tile found for a point contains the point
PointInItsTile(g, px, py, l) == InClosed(px, py, TileBBox(g, TileAt(g, px, py, l)))

\* (ii) neighbours share edges exactly; the tiles of a level cover the grid bbox except a strip narrower than
\*      one pixel of that level at the far edges (and start exactly at the origin corner)
NeighboursShareEdges(g, l) ==
  \A t \in InGridTiles(g, l) :
     /\ TileBBox(g, <<t[1] + 1, t[2], l>>)[1] = TileBBox(g, t)[3]
     /\ TileBBox(g, <<t[1] + 1, t[2], l>>)[2] = TileBBox(g, t)[2]
     /\ IF g.ul THEN TileBBox(g, <<t[1], t[2] + 1, l>>)[4] = TileBBox(g, t)[2]
               ELSE TileBBox(g, <<t[1], t[2] + 1, l>>)[2] = TileBBox(g, t)[4]
CoversBBox(g, l) ==
  LET gs == GridSize(g, l)  r == Res(g, l) IN
  /\ gs[1] * g.tw * r > W(g) - r
  /\ gs[2] * g.th * r > H(g) - r
  /\ TileBBox(g, <<0, 0, l>>)[1] = g.bbox[1]
  /\ IF g.ul THEN TileBBox(g, <<0, 0, l>>)[4] = g.bbox[4] ELSE TileBBox(g, <<0, 0, l>>)[2] = g.bbox[2]
\* no tile of the level lies completely outside the bbox (the grid is not larger than needed by a whole tile)
NoSuperfluousTiles(g, l) ==
  LET gs == GridSize(g, l)  r == Res(g, l) IN
  /\ (gs[1] - 1) * g.tw * r < W(g) \/ gs[1] = 1
  /\ (gs[2] - 1) * g.th * r < H(g) \/ gs[2] = 1

\* (iii) flipping is an involution and preserves the ground rectangle whenever the other origin is offered
FlipInvolution(g, l) == \A t \in InGridTiles(g, l) : FlipTile(g, FlipTile(g, t)) = t
FlipPreservesBBox(g, l) ==
  SupportsOrigin(g, ~g.ul) =>
     \A t \in InGridTiles(g, l) :
        TileBBox([g EXCEPT !.ul = ~g.ul], FlipTile(g, t)) = TileBBox(g, t)

\* (iv) tiles for a rectangle: row-major from the top; every in-grid tile that meets the rectangle shrunk by
\*      1/10 pixel is listed; no listed tile merely touches the rectangle
AffectedOK(g, b, l) ==
  LET a == Affected(g, b, l)
      d == Res(g, l) \div 10
      listed == {a.tiles[k] : k \in 1 .. Len(a.tiles)} \ {NoTile}
  IN /\ \A t \in InGridTiles(g, l) : MeetsShrunk(TileBBox(g, t), b, d) => t \in listed
     /\ \A t \in listed : LimitTile(g, t) /\ InteriorMeets(TileBBox(g, t), b)
     /\ \A k \in 1 .. Len(a.tiles) :                     \* row-major, rows from the top (north) downwards
          LET j == (k - 1) \div a.nx   i == (k - 1) % a.nx IN
          a.tiles[k] # NoTile =>
             /\ (k > 1 /\ i > 0 /\ a.tiles[k - 1] # NoTile) =>
                    TileBBox(g, a.tiles[k])[1] = TileBBox(g, a.tiles[k - 1])[3]
             /\ (j > 0 /\ a.tiles[k - a.nx] # NoTile) =>
                    TileBBox(g, a.tiles[k])[4] = TileBBox(g, a.tiles[k - a.nx])[2]
     /\ (a.nx >= 1 /\ a.ny >= 1) => \A t \in listed : LET tb == TileBBox(g, t) IN
            a.bbox[1] <= tb[1] /\ tb[3] <= a.bbox[3] /\ a.bbox[2] <= tb[2] /\ tb[4] <= a.bbox[4]

\* (v) level for a requested resolution rn/rd: the finest level among those with res <= l_res <= res*stretch;
\*     otherwise the coarsest level finer than res; otherwise the last level.  (Without threshold list.)
DeclLevels(g, rn, rd) ==
  LET above == {l \in Levels(g) : Res(g, l) * rd >= rn /\ Res(g, l) * rd * g.sd <= rn * g.sn}
      below == {l \in Levels(g) : Res(g, l) * rd < rn}
      \* exact ties of the stretch comparison may go either way
      aboveStrict == {l \in above : Res(g, l) * rd * g.sd < rn * g.sn}
      pick(S) == IF S # {} THEN CHOOSE l \in S : \A m \in S : m <= l               \* finest = largest index
                 ELSE IF below # {} THEN CHOOSE l \in below : \A m \in below : l <= m
                 ELSE NLevels(g) - 1
  IN {pick(above), pick(aboveStrict)}
ClosestLevelOK(g, rn, rd) == g.thr = <<>> => ClosestLevels(g, rn, rd) = DeclLevels(g, rn, rd)
=============================================================================
