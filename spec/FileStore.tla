------------------------------ MODULE FileStore ------------------------------
(***************************************************************************)
(* mapproxy.cache.file.FileCache + mapproxy.cache.path: tile locations of  *)
(* the six directory layouts as integer digit groups, the dimension        *)
(* sub-directory, and the single-colour link handling (regular file,       *)
(* symlink or hardlink to single_color_tiles/<rgb>), refined against       *)
(* CacheMap through a ghost copy of the abstract map.                      *)
(***************************************************************************)
EXTENDS Naturals, Sequences, FiniteSets, TLC

CONSTANTS Coord,      \* set of <<x, y, z, d>>   d: dimension-directory id (0 = no dimensions)
          Bytes,      \* tile contents; Colour(b) # 0 marks a single-colour image
          Layout,     \* "tc", "mp", "tms", "reverse_tms", "quadkey", "arcgis"
          LinkMode,   \* "none", "symlink", "hardlink"
          MaxBulk

None == "none"
Colour(b) == IF b = "s1" THEN 1 ELSE IF b = "s2" THEN 2 ELSE 0

RECURSIVE QuadKey(_, _, _)
QuadKey(x, y, i) ==   \* digits for bit i-1 .. 0, most significant first
  IF i = 0 THEN <<>>
  ELSE LET mask == 2 ^ (i - 1)
           dx == IF (x \div mask) % 2 = 1 THEN 1 ELSE 0
           dy == IF (y \div mask) % 2 = 1 THEN 2 ELSE 0
       IN <<dx + dy>> \o QuadKey(x, y, i - 1)

\* tile_location_<layout>(tile, cache_dir, ext, dimensions): path components below cache_dir
Loc(c) ==
  LET x == c[1]  y == c[2]  z == c[3]  d == c[4] IN
  CASE Layout = "tc"  -> <<d, z, x \div 1000000, (x \div 1000) % 1000, x % 1000,
                              y \div 1000000, (y \div 1000) % 1000, y % 1000>>
    [] Layout = "mp"  -> <<d, z, x \div 10000, x % 10000, y \div 10000, y % 10000>>
    [] Layout = "tms" -> <<d, z, x, y>>
    [] Layout = "reverse_tms" -> <<d, y, x, z>>
    [] Layout = "quadkey" -> <<d>> \o QuadKey(x, y, z)
    [] Layout = "arcgis"  -> <<d, z, y, x>>

SCLoc(col) == <<99, col>>      \* single_color_tiles/<rgb>  (dimension ids are < 99)
Colours == {Colour(b) : b \in Bytes} \ {0}
Path == {Loc(c) : c \in Coord} \cup {SCLoc(col) : col \in Colours}

\* C05 (1): the location function is injective (quadkey: for x, y < 2^z, i.e. tiles inside the grid)
Injective == \A a, b \in Coord : a # b => Loc(a) # Loc(b)
DimIdsSmall == \A a \in Coord : a[4] < 99
NoClashWithLinks == \A a \in Coord, col \in Colours : Loc(a) # SCLoc(col)

VARIABLES dir,      \* [Path -> <<"no", 0>> | <<"ino", id>> | <<"sym", colour>>]   directory entries
          inode,    \* [1..MaxIno -> Bytes \cup {None}]  file contents
          nextIno,
          store, reply

vars == <<dir, inode, nextIno, store, reply>>
MaxIno == 40

NoReply == [op |-> "init", args |-> <<>>, val |-> <<>>]
Rep(op, args, val) == [op |-> op, args |-> args, val |-> val]
YesNo(b) == IF b THEN "yes" ELSE "no"
SeqsUpTo(S, n) == UNION {[1 .. k -> S] : k \in 1 .. n}
DistinctSeqsUpTo(S, n) == {q \in SeqsUpTo(S, n) : \A i, j \in 1 .. Len(q) : i # j => q[i] # q[j]}

Absent == <<"no", 0>>
IsLink(D, p) == D[p][1] = "sym"
Target(D, p) == IF IsLink(D, p) THEN SCLoc(D[p][2]) ELSE p
Exists(D, p) == D[Target(D, p)][1] = "ino"                              \* os.path.exists follows links
Read(D, I, p) == IF Exists(D, p) THEN I[D[Target(D, p)][2]] ELSE None
Abs(c) == Read(dir, inode, Loc(c))

Init ==
  /\ dir = [p \in Path |-> Absent] /\ inode = [i \in 1 .. MaxIno |-> None] /\ nextIno = 1
  /\ store = [c \in Coord |-> None] /\ reply = NoReply

\* state threaded through a (bulk) store: <<dir, inode, nextIno>>
\* _store: unlink a symlink first; write_atomic = new inode + rename over the entry
PlainStore(S, p, b) ==
  LET D == IF IsLink(S[1], p) THEN [S[1] EXCEPT ![p] = Absent] ELSE S[1]
  IN <<[D EXCEPT ![p] = <<"ino", S[3]>>], [S[2] EXCEPT ![S[3]] = b], S[3] + 1>>

\* _store_single_color_tile
LinkStore(S, p, b) ==
  LET real == SCLoc(Colour(b))
      S1 == IF Exists(S[1], real) THEN S ELSE PlainStore(S, real, b)
      D1 == IF Exists(S1[1], p) \/ IsLink(S1[1], p) THEN [S1[1] EXCEPT ![p] = Absent] ELSE S1[1]
      D2 == IF LinkMode = "hardlink" THEN [D1 EXCEPT ![p] = D1[real]] ELSE [D1 EXCEPT ![p] = <<"sym", Colour(b)>>]
  IN <<D2, S1[2], S1[3]>>

StoreOne(S, c, b) == IF LinkMode # "none" /\ Colour(b) # 0 THEN LinkStore(S, Loc(c), b) ELSE PlainStore(S, Loc(c), b)

RECURSIVE StoreAll(_, _)
StoreAll(S, ps) == IF ps = <<>> THEN S ELSE StoreAll(StoreOne(S, ps[1][1], ps[1][2]), Tail(ps))
RECURSIVE ApplyAll(_, _)
ApplyAll(st, ps) == IF ps = <<>> THEN st ELSE ApplyAll([st EXCEPT ![ps[1][1]] = ps[1][2]], Tail(ps))

Commit(S) == dir' = S[1] /\ inode' = S[2] /\ nextIno' = S[3]

Store(c, b) == /\ nextIno + 2 <= MaxIno
               /\ Commit(StoreOne(<<dir, inode, nextIno>>, c, b))
               /\ store' = [store EXCEPT ![c] = b] /\ reply' = Rep("store", <<c>>, <<>>)
StoreBulk(ps) == /\ nextIno + 2 * Len(ps) <= MaxIno
                 /\ Commit(StoreAll(<<dir, inode, nextIno>>, ps))
                 /\ store' = ApplyAll(store, ps)
                 /\ reply' = Rep("store_bulk", [i \in 1 .. Len(ps) |-> ps[i][1]], <<>>)
Remove(c) == /\ dir' = [dir EXCEPT ![Loc(c)] = Absent] /\ UNCHANGED <<inode, nextIno>>
             /\ store' = [store EXCEPT ![c] = None] /\ reply' = Rep("remove", <<c>>, <<>>)
Load(c) == reply' = Rep("load", <<c>>, <<Abs(c)>>) /\ UNCHANGED <<dir, inode, nextIno, store>>
LoadBulk(cs) == /\ reply' = Rep("load_bulk", cs, [i \in 1 .. Len(cs) |-> Abs(cs[i])])
                /\ UNCHANGED <<dir, inode, nextIno, store>>
IsCached(c) == /\ reply' = Rep("is_cached", <<c>>, <<YesNo(Exists(dir, Loc(c)))>>)
               /\ UNCHANGED <<dir, inode, nextIno, store>>

Next ==
  \/ \E c \in Coord, b \in Bytes : Store(c, b)
  \/ \E ps \in SeqsUpTo(Coord \X Bytes, MaxBulk) : StoreBulk(ps)
  \/ \E c \in Coord : Remove(c) \/ Load(c) \/ IsCached(c)
  \/ \E cs \in DistinctSeqsUpTo(Coord, MaxBulk) : LoadBulk(cs)

Spec == Init /\ [][Next]_vars

AbsOK == \A c \in Coord : Abs(c) = store[c]
ReplyOK ==
  /\ reply.op \in {"load", "load_bulk"} => \A i \in 1 .. Len(reply.args) : reply.val[i] = store[reply.args[i]]
  /\ reply.op = "is_cached" => reply.val[1] = YesNo(store[reply.args[1]] # None)
\* the shared single-colour file always holds an image of its own colour
LinkTargetsOK == \A col \in Colours : dir[SCLoc(col)][1] = "ino" => Colour(inode[dir[SCLoc(col)][2]]) = col
=============================================================================
