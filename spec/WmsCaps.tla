------------------------------ MODULE WmsCaps ------------------------------
(***************************************************************************)
(* The WMS capabilities documents mean what they say: every combination of *)
(* a layer, a map format and a reference system that the capabilities of a *)
(* protocol version list is answered with a picture of that format and     *)
(* size; what the configuration enables is listed in every version; and a  *)
(* value that is not listed is answered with a service exception.          *)
(* (mapproxy/service/wms.py, mapproxy/request/wms, the capabilities        *)
(* templates; the counterpart of TileAddr.tla / C02 for the WMS.)          *)
(*                                                                         *)
(* The sets come from the real documents (harness/wmscaps.py parses the    *)
(* capabilities of each version) and from the configuration; one request   *)
(* is one action, its outcome class is a function of membership.           *)
(***************************************************************************)
EXTENDS Naturals, FiniteSets, Sequences, TLC

CONSTANTS Ver,        \* protocol versions
          Adv,        \* [Ver -> [fmt, srs, lay, qlay : sets of names]] as listed in the capabilities of that version
                      \* (qlay: the layers marked queryable)
          Conf,       \* [fmt, srs, lay : sets] what the configuration enables (names as of version 1.1.1)
          Alias,      \* [Ver -> [name -> name]] spelling of a configured format in that version (1.0.0: PNG for image/png;
                      \* formats that WMS 1.0.0 has no element for - image/GeoTIFF - are not in the domain)
          Mime        \* [name -> content type of the picture]

VARIABLE last
vars == <<last>>
Init == last = [op |-> "none"]

AllFmt == UNION {Adv[v].fmt : v \in Ver}
AllSrs == UNION {Adv[v].srs : v \in Ver}
AllLay == UNION {Adv[v].lay : v \in Ver}

MapOutcome(v, f, s, l) ==
  IF l \notin Adv[v].lay THEN "exception"
  ELSE IF f \notin Adv[v].fmt THEN "exception"
  ELSE IF s \notin Adv[v].srs THEN "exception"
  ELSE "image"

GetMap(v, f, s, l) ==
  last' = [op |-> "map", v |-> v, f |-> f, s |-> s, l |-> l, ql |-> "-", out |-> MapOutcome(v, f, s, l),
           ct |-> IF MapOutcome(v, f, s, l) = "image" THEN Mime[f] ELSE "-"]

\* GetFeatureInfo for the layers `l` with QUERY_LAYERS `ql` (listed format and reference system): a layer that is not
\* listed - as LAYERS or as QUERY_LAYERS - or not marked queryable is refused with a service exception
InfoOutcome(v, l, ql) ==
  IF l \notin Adv[v].lay \/ ql \notin Adv[v].lay THEN "exception"
  ELSE IF ql \notin Adv[v].qlay THEN "exception"
  ELSE "info"
GetInfo(v, l, ql) ==
  last' = [op |-> "info", v |-> v, f |-> "-", s |-> "-", l |-> l, ql |-> ql, out |-> InfoOutcome(v, l, ql), ct |-> "-"]

Next == \/ \E v \in Ver, l \in AllLay \cup {"nolayer"}, ql \in AllLay \cup {"nolayer"} : GetInfo(v, l, ql)
        \/ \E v \in Ver, f \in AllFmt \cup {"image/unknown"}, s \in AllSrs \cup {"EPSG:9999"}, l \in AllLay \cup {"nolayer"} : GetMap(v, f, s, l)
Spec == Init /\ [][Next]_vars

\* what the configuration enables is listed by every version (in the spelling of that version)
ConfiguredIsAdvertised ==
  \A v \in Ver : /\ {Alias[v][f] : f \in Conf.fmt \cap DOMAIN Alias[v]} \subseteq Adv[v].fmt
                 /\ Conf.srs \subseteq Adv[v].srs
                 /\ Conf.lay \subseteq Adv[v].lay
\* nothing is listed that the configuration does not enable
AdvertisedIsConfigured ==
  \A v \in Ver : /\ Adv[v].fmt \subseteq {Alias[v][f] : f \in Conf.fmt \cap DOMAIN Alias[v]}
                 /\ Adv[v].srs \subseteq Conf.srs
                 /\ Adv[v].lay \subseteq Conf.lay
\* every listed combination is answered with a picture
AdvertisedIsServed ==
  [][\A v \in Ver : (last'.op = "map" /\ last'.f \in Adv[last'.v].fmt /\ last'.s \in Adv[last'.v].srs /\ last'.l \in Adv[last'.v].lay)
        => last'.out = "image"]_vars
\* every layer that the capabilities mark queryable answers GetFeatureInfo
QueryableIsServed ==
  [][(last'.op = "info" /\ last'.l \in Adv[last'.v].lay /\ last'.ql \in Adv[last'.v].qlay) => last'.out = "info"]_vars
=============================================================================
