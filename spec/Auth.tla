------------------------------- MODULE Auth -------------------------------
(***************************************************************************)
(* C10 - authorization is enforced: denied layers stay dark, limited areas *)
(* are clipped.                                                            *)
(*                                                                         *)
(* A model of what MapProxy does with ONE request under ONE result of the  *)
(* `mapproxy.authorize` callback, transcribed from                         *)
(*   service/wms.py   WMSServer.map (layer collection incl. the pruning    *)
(*                    below opaque layers), featureinfo, capabilities,     *)
(*                    authorized_layers, filter_actual_layers,             *)
(*                    authorized_capability_layers, FilteredRootLayer      *)
(*   layer.py         LimitedLayer (coverage attribute, get_info gate)     *)
(*   image/merge.py   LayerMerger.merge (per-layer clip, request clip)     *)
(*   image/mask.py    mask_image (abstracted: exact outside the one-pixel  *)
(*                    band around the geometry's boundary)                 *)
(*   service/tile.py  TileServer.authorize_tile_layer,                     *)
(*                    authorized_tile_layers, TileLayer.render (contains / *)
(*                    intersects / empty response)                         *)
(*   service/wmts.py  authorize_tile_layer(featureinfo), featureinfo gate  *)
(*   service/kml.py   authorize_tile_layer                                 *)
(* in the order in which the code takes its decisions (one action per      *)
(* decision).  Geometry lives on an integer lattice: a limited_to area is  *)
(* a set of cells of an irregular rectilinear grid (so polygons with       *)
(* holes, several parts, parts touching in a corner are all expressible),  *)
(* coordinates are doubled so that pixel centres are integers, distances   *)
(* are compared squared.  Every pixel is classified exactly as             *)
(*   "out"  - centre more than one pixel outside the area,                 *)
(*   "in"   - centre more than one pixel inside,                           *)
(*   "band" - within one pixel of the boundary (both results allowed).     *)
(* Upstreams paint flat colours, so the content of a pixel is the name of  *)
(* the layer seen there, or "dark" (transparent / background colour).      *)
(*                                                                         *)
(* Oblique extension (trace validation only): when the tile grid / request *)
(* SRS and the SRS of the limited_to geometry are related by a             *)
(* transformation that bends straight lines (polar stereographic grid,     *)
(* EPSG:4326 areas) the area is not a set of lattice cells.  An entry of   *)
(* the geometry table is then a "raster" record made for ONE request:      *)
(*   cls   the class of every pixel centre of the request box, rows top    *)
(*         down: 0 "out", 1 "band", 2 "in" (same definition as above,      *)
(*         distances in grid SRS units, computed by the harness from the   *)
(*         finely densified, point-wise projected outline of the area;     *)
(*         "band" also when within 0.02 pixel of the one-pixel threshold)  *)
(*   pt    the class of the feature-info query point of the request        *)
(*         ("in" | "out" | "edge")                                         *)
(*   grid  "yes": the area certainly meets the extent of the tile grid as  *)
(*         the code tests it, "maybe" otherwise                            *)
(* Class / PointClass / Contains / Intersects* / GeomMeets are routed      *)
(* through ClassAt, PointClassAt, CoversTile, MissesTile, EntersTile,      *)
(* GeomMeets, which read a raster entry where there is one.  The tile      *)
(* decisions of TileLayer.render on a raster entry are derived from the    *)
(* pixel classes (all "in": served as is or masked without effect; all     *)
(* "out": empty response, or - the code tests the lon/lat ENVELOPE of the  *)
(* tile, which is larger than the tile - rendered and masked completely,   *)
(* so an upstream request for the permitted layer may be seen).            *)
(*                                                                         *)
(* SRS extent (same-SRS worlds): when the WMS service declares an extent   *)
(* for the request SRS (`services: wms: bbox_srs` -> WMSServer.srs_extents;*)
(* constant Ext) WMSServer.map answers a GetMap whose BBOX does not meet   *)
(* the extent with a blank image BEFORE any layer is collected and before  *)
(* the authorization callback is asked (action OutsideExtent), and reduces *)
(* a BBOX that reaches beyond the extent to the part inside:               *)
(* image.bbox_position_in_image gives the pixel rectangle (offsets         *)
(* truncated with int(), Sub), the sub-query (intersection box, size of    *)
(* that rectangle) is rendered, authorized, clipped per layer and request  *)
(* wide and merged as usual, and SubImageSource pastes the result into a   *)
(* transparent image of the requested size.  The sub-query has its own     *)
(* resolution: a pixel of the pasted rectangle shows the ground up to one  *)
(* output pixel towards +x / -y of its nominal place, and the limited_to   *)
(* masks are drawn in that geometry (SubClass: the class of the sub-pixel  *)
(* centre, computed in integers with a slack of one lattice unit).  The    *)
(* variant exact = TRUE is the reference without that displacement (masks  *)
(* at the nominal pixel centres); it satisfies the property, the code as   *)
(* found (exact = FALSE) does not satisfy ClippedOutside.  GetFeatureInfo  *)
(* does not look at the SRS extent at all.                                 *)
(***************************************************************************)
EXTENDS Integers, Sequences, FiniteSets, TLC

CONSTANTS
  Kinds,      \* [layer name -> "wmsT" | "wmsO" | "cache" | "cachej"]; "g" is in the domain iff the group has own sources
  Root,       \* names directly below the unnamed root layer, bottom to top, e.g. <<"a", "g">>
  Group,      \* names of the members of the group layer "g", bottom to top (<<>>: there is no group)
  GeomTab,    \* [geometry id -> [xs, ys, cells]]   (doubled lattice coordinates, see WellFormed)
              \* trace validation: the table of the event; entries may also be raster records [cls, pt, grid]
  GridBox,    \* <<x0, y0, x1, y1>> of the tile grid, origin upper left  (lattice units)
  GridRes,    \* <<units per pixel at level 0, level 1, ...>>
  TileSize,   \* <<tw, th>> pixels
  CombineChoices,     \* {FALSE}: the code as found (tile services: the layer's limited_to, ELSE the request's)
                      \* {TRUE} : candidate repair (both are applied);  BOOLEAN: either (trace validation)
  Ext,        \* <<x0, y0, x1, y1>>: the extent the WMS service declares for the request SRS (lattice units), <<>>: none
  ExactChoices,       \* {FALSE}: the code as found (the sub-image of a request reaching beyond Ext is displaced)
                      \* {TRUE} : reference (masks at the nominal pixel centres);  BOOLEAN: either (trace validation)
  \* the universe explored by the model checker (unused by the trace specification)
  Requests, AuthKinds, PermOpts, LimIds, GlobIds, EntryNames

VARIABLES
  req,     \* the request
  cb,      \* the result of the authorization callback
  pc,
  actual,  \* wms: the names of the layers to draw, in order (GetMap: with repetitions) / the keys of the odict of query layers
  authz,   \* wms: what authorized_layers returned: [all |-> PERMIT_ALL_LAYERS?, lims |-> [name -> geometry id | "none"]]
  cov,     \* the request-wide / tile coverage: set of geometry ids ({} = none)
  out,     \* the response (and the upstream requests made for it)
  path,    \* names of the actions taken (history, for the coverage guard of the harness)
  geo,     \* the geometry table in force (never changes; = GeomTab when model checking, the event's table in traces)
  combine, \* the variant of authorize_tile_layer in force (never changes)
  exact    \* the variant of the sub-image geometry in force (never changes)

vars == <<req, cb, pc, actual, authz, cov, out, path, geo, combine, exact>>

---------------------------------------------------------------------------
Range(s) == {s[i] : i \in DOMAIN s}
Max(a, b) == IF a > b THEN a ELSE b
Min(a, b) == IF a < b THEN a ELSE b
NONE == "none"

GroupThis == "g" \in DOMAIN Kinds
HasGroup == Group # <<>>
Leaves == DOMAIN Kinds \ {"g"}
WmsNames == DOMAIN Kinds \cup (IF HasGroup THEN {"g"} ELSE {})
TileLayers == {n \in DOMAIN Kinds : Kinds[n] \in {"cache", "cachej"}}
Code(v) == CASE v = "dark" -> 1 [] v = "a" -> 2 [] v = "b" -> 4 [] v = "c" -> 8 [] v = "g" -> 16
Values == {"dark", "a", "b", "c", "g"}
Mask(S) == (IF "dark" \in S THEN 1 ELSE 0) + (IF "a" \in S THEN 2 ELSE 0) + (IF "b" \in S THEN 4 ELSE 0)
           + (IF "c" \in S THEN 8 ELSE 0) + (IF "g" \in S THEN 16 ELSE 0)
Has(mask, v) == (mask \div Code(v)) % 2 = 1

---------------------------------------------------------------------------
\* geometry: cells of an irregular grid; the outermost ring of cells is never a member, every request lies
\* well inside the ring
Cells(g) == (1 .. Len(g.xs) - 1) \X (1 .. Len(g.ys) - 1)
Rect(g, c) == <<g.xs[c[1]], g.ys[c[2]], g.xs[c[1] + 1], g.ys[c[2] + 1]>>
WellFormed(g) ==
  /\ Len(g.xs) >= 3 /\ Len(g.ys) >= 3
  /\ \A i \in 1 .. Len(g.xs) - 1 : g.xs[i] < g.xs[i + 1]
  /\ \A j \in 1 .. Len(g.ys) - 1 : g.ys[j] < g.ys[j + 1]
  /\ g.cells \subseteq Cells(g)
  /\ \A c \in g.cells : c[1] \notin {1, Len(g.xs) - 1} /\ c[2] \notin {1, Len(g.ys) - 1}
ASSUME \A id \in DOMAIN GeomTab : WellFormed(GeomTab[id])

\* raster entries (oblique worlds): classes per pixel of the one request the entry was made for
IsRaster(g) == "cls" \in DOMAIN g
WellFormedRaster(g) ==
  /\ DOMAIN g = {"cls", "pt", "grid"}
  /\ \A j \in 1 .. Len(g.cls) : Len(g.cls[j]) = Len(g.cls[1]) /\ \A i \in 1 .. Len(g.cls[j]) : g.cls[j][i] \in {0, 1, 2}
  /\ g.pt \in {"in", "out", "edge"} /\ g.grid \in {"yes", "maybe"}
ClsName(c) == IF c = 0 THEN "out" ELSE IF c = 2 THEN "in" ELSE "band"
RasterAll(g, c) == Len(g.cls) > 0 /\ \A j \in 1 .. Len(g.cls) : \A i \in 1 .. Len(g.cls[j]) : g.cls[j][i] = c
RasterSome(g, c) == \E j \in 1 .. Len(g.cls) : \E i \in 1 .. Len(g.cls[j]) : g.cls[j][i] = c

Gap(lo, hi, v) == IF v < lo THEN lo - v ELSE IF v > hi THEN v - hi ELSE 0
D2(p, r) == LET dx == Gap(r[1], r[3], p[1])
                dy == Gap(r[2], r[4], p[2]) IN dx * dx + dy * dy
\* is p farther than sqrt(d2) from the area / from the complement of the area?
FarOutside(g, p, d2) == \A c \in g.cells : D2(p, Rect(g, c)) > d2
FarInside(g, p, d2)  == \A c \in Cells(g) \ g.cells : D2(p, Rect(g, c)) > d2

Class(id, p, one2) ==
  LET g == geo[id] IN
  IF FarOutside(g, p, one2) THEN "out" ELSE IF FarInside(g, p, one2) THEN "in" ELSE "band"
PointClass(id, p) ==
  LET g == geo[id] IN
  IF FarOutside(g, p, 0) THEN "out" ELSE IF FarInside(g, p, 0) THEN "in" ELSE "edge"

Overlap(a, b) == Max(0, Min(a[3], b[3]) - Max(a[1], b[1])) * Max(0, Min(a[4], b[4]) - Max(a[2], b[2]))
Touches(a, b) == a[1] <= b[3] /\ b[1] <= a[3] /\ a[2] <= b[4] /\ b[2] <= a[4]
Contains(id, r) == LET g == geo[id] IN \A c \in Cells(g) \ g.cells : Overlap(Rect(g, c), r) = 0
IntersectsOpen(id, r) == LET g == geo[id] IN \E c \in g.cells : Overlap(Rect(g, c), r) > 0
IntersectsClosed(id, r) == LET g == geo[id] IN \E c \in g.cells : Touches(Rect(g, c), r)

\* request geometry: box = <<x0, y0, rx, ry, w, h>> in lattice units (x0, y0: lower left corner; rx, ry: units per pixel)
TileBox(t) ==
  LET res == GridRes[t[1] + 1]
      sx == res * TileSize[1]
      sy == res * TileSize[2]
  IN <<GridBox[1] + t[2] * sx, GridBox[4] - (t[3] + 1) * sy, res, res, TileSize[1], TileSize[2]>>
IsTileReq(f) == f \in {"tms", "kml", "wmts.kvp", "wmts.rest", "wmts.fi.kvp", "wmts.fi.rest", "tms.layer", "kml.doc"}
BoxOf(r) == IF IsTileReq(r.f) THEN TileBox(r.tile) ELSE r.box
Centre(b, i, j) == <<2 * b[1] + (2 * i + 1) * b[3], 2 * (b[2] + b[6] * b[4]) - (2 * j + 1) * b[4]>>
Corner(b, i, j) == <<2 * b[1] + 2 * i * b[3], 2 * (b[2] + b[6] * b[4]) - 2 * j * b[4]>>
One2(b) == LET m == 2 * Max(b[3], b[4]) IN m * m
BoxRect(b) == <<2 * b[1], 2 * b[2], 2 * (b[1] + b[5] * b[3]), 2 * (b[2] + b[6] * b[4])>>
GridRect == <<2 * GridBox[1], 2 * GridBox[2], 2 * GridBox[3], 2 * GridBox[4]>>

\* the extent of the request SRS (WMSServer.srs_extents[params.srs]) against the box b of a GetMap request
\* (MapExtent.contains -> grid.bbox_contains, MapExtent.intersection -> grid.bbox_intersects: touching is not meeting)
HasExt == Ext # <<>>
BoxX1(b) == b[1] + b[5] * b[3]
BoxY1(b) == b[2] + b[6] * b[4]
ExtContains(b) == Ext[1] <= b[1] /\ Ext[2] <= b[2] /\ BoxX1(b) <= Ext[3] /\ BoxY1(b) <= Ext[4]
ExtMeets(b) == Ext[1] < BoxX1(b) /\ Ext[3] > b[1] /\ Ext[2] < BoxY1(b) /\ Ext[4] > b[2]
Blank(r) == r.f = "wms.map" /\ HasExt /\ ~ExtMeets(r.box)
Clipped(r) == r.f = "wms.map" /\ HasExt /\ ExtMeets(r.box) /\ ~ExtContains(r.box)
\* image.bbox_position_in_image(params.bbox, params.size, limited_extent.bbox): the pixel rectangle columns l .. r-1, rows
\* t .. bt-1 (0-based, rows top down; int() of the exact quotient: all operands are non-negative integers here) and the
\* box x0, y0, x1, y1 of the sub-query
Sub(b) ==
  [l  |-> IF Ext[1] > b[1] THEN (Ext[1] - b[1]) \div b[3] ELSE 0,
   r  |-> IF Ext[3] < BoxX1(b) THEN (Ext[3] - b[1]) \div b[3] ELSE b[5],
   t  |-> IF Ext[4] < BoxY1(b) THEN (BoxY1(b) - Ext[4]) \div b[4] ELSE 0,
   bt |-> IF Ext[2] > b[2] THEN (BoxY1(b) - Ext[2]) \div b[4] ELSE b[6],
   x0 |-> Max(Ext[1], b[1]), y0 |-> Max(Ext[2], b[2]), x1 |-> Min(Ext[3], BoxX1(b)), y1 |-> Min(Ext[4], BoxY1(b))]
InPaste(s, i, j) == s.l <= i /\ i < s.r /\ s.t <= j /\ j < s.bt
\* a request whose part inside the extent is thinner than one pixel row / column gets a sub-query of size 0 (the code
\* answers 500 Internal Server Error): not modelled, the harness does not make such requests
SubOK(r) == Clipped(r) => LET s == Sub(r.box) IN s.r > s.l /\ s.bt > s.t
\* the centre of the pixel of the sub-query that is pasted at (i, j), doubled lattice coordinates rounded to integers: the
\* true centre is less than 2 (doubled) units away;  SubOne: one pixel of the sub-query (the larger side, rounded up) + 2
SubPoint(s, i, j) == <<2 * s.x0 + ((2 * (i - s.l) + 1) * (s.x1 - s.x0)) \div (s.r - s.l),
                       2 * s.y1 - ((2 * (j - s.t) + 1) * (s.y1 - s.y0)) \div (s.bt - s.t)>>
CeilDiv(a, b) == (a + b - 1) \div b
SubOne(s) == Max(CeilDiv(2 * (s.x1 - s.x0), s.r - s.l), CeilDiv(2 * (s.y1 - s.y0), s.bt - s.t)) + 2
\* "out" / "in": the true centre is certainly more than one sub-query pixel outside / inside the area
SubClass(id, s, i, j) ==
  LET g == geo[id]
      p == SubPoint(s, i, j)
      t == SubOne(s)
  IN IF FarOutside(g, p, t * t) THEN "out" ELSE IF FarInside(g, p, t * t) THEN "in" ELSE "band"
SubClassSet(ids, s, i, j) ==
  IF ids = {} THEN "in"
  ELSE LET cl == [id \in ids |-> SubClass(id, s, i, j)] IN
       IF \E id \in ids : cl[id] = "out" THEN "out"
       ELSE IF \A id \in ids : cl[id] = "in" THEN "in" ELSE "band"
\* the centre of output pixel (i, j) is more than one pixel inside the SRS extent
WellInExt(b, i, j) ==
  LET c == Centre(b, i, j)
      m == 2 * Max(b[3], b[4])
  IN c[1] - 2 * Ext[1] > m /\ 2 * Ext[3] - c[1] > m /\ c[2] - 2 * Ext[2] > m /\ 2 * Ext[4] - c[2] > m

\* class of the centre of pixel (i, j) (0-based, rows top down) of the request box b with respect to area id
ClassAt(id, b, i, j) ==
  IF IsRaster(geo[id]) THEN ClsName(geo[id].cls[j + 1][i + 1]) ELSE Class(id, Centre(b, i, j), One2(b))
ClassSetAt(ids, b, i, j) ==
  IF ids = {} THEN "in"
  ELSE LET cl == [id \in ids |-> ClassAt(id, b, i, j)] IN
       IF \E id \in ids : cl[id] = "out" THEN "out"
       ELSE IF \A id \in ids : cl[id] = "in" THEN "in" ELSE "band"
\* class of the feature-info query point p of the request
PointClassAt(id, p) == IF IsRaster(geo[id]) THEN geo[id].pt ELSE PointClass(id, p)
\* the decisions of TileLayer.render about the tile rectangle r (= the request box of a tile request)
CoversTile(id, r) == IF IsRaster(geo[id]) THEN RasterAll(geo[id], 2) ELSE Contains(id, r)
MissesTile(id, r) == IF IsRaster(geo[id]) THEN RasterAll(geo[id], 0) ELSE ~IntersectsClosed(id, r)
EntersTile(id, r) == IF IsRaster(geo[id]) THEN RasterSome(geo[id], 2) ELSE IntersectsOpen(id, r)

---------------------------------------------------------------------------
\* the callback result:  [authorized, layers : [subset of names -> [map, featureinfo, tile : BOOLEAN, lim : id | "none"]],
\*                        glob : id | "none"]
HasEntry(n) == cb.authorized = "partial" /\ n \in DOMAIN cb.layers
Entry(n) == cb.layers[n]

NoOut == [status |-> 0, ups_must |-> {}, ups_may |-> {}, px |-> <<>>, info_must |-> {}, info_may |-> {},
          list_must |-> {}, list_may |-> {}]
Error(st) == [NoOut EXCEPT !.status = st]

\* ---------------------------------------------------------------------------------------------------------
\* WMS GetMap / GetFeatureInfo
\* WMSLayer / WMSGroupLayer .map_layers_for_query, .info_layers_for_query (every leaf has map and info layers)
LayersFor(n) == IF n = "g" THEN (IF GroupThis THEN <<"g">> ELSE Group) ELSE <<n>>
\* WMSLayer.is_opaque: any(map layer is_opaque); WMSSource.is_opaque is True for `transparent: false` sources without
\* coverage; cache layers never are.  WMSGroupLayer.is_opaque asks the members only (not its own sources).
IsOpaque(n) == IF n = "g" THEN \E m \in Range(Group) : Kinds[m] = "wmsO" ELSE Kinds[n] = "wmsO"
OdictSet(s, k) == IF k \in Range(s) THEN s ELSE Append(s, k)
RECURSIVE AddAll(_, _)
AddAll(s, ks) == IF ks = <<>> THEN s ELSE AddAll(OdictSet(s, Head(ks)), Tail(ks))
\* GetMap draws the layers in the order of LAYERS, a layer that is named twice (by itself and through the group) twice;
\* GetFeatureInfo collects the query layers in a dictionary keyed by the name (each once, at its first position)
RECURSIVE Collect(_, _, _)
Collect(acc, ls, prune) ==
  IF ls = <<>> THEN acc
  ELSE LET n == Head(ls)
           base == IF prune /\ IsOpaque(n) THEN <<>> ELSE acc
       IN Collect(IF prune THEN base \o LayersFor(n) ELSE AddAll(base, LayersFor(n)), Tail(ls), prune)

\* wms.py:93-103 (map): the BBOX does not meet the extent of the request SRS: a blank image, nothing else happens
\* (no layer is collected, the authorization callback is not asked, no upstream request)
OutsideExtent ==
  /\ UNCHANGED <<geo, combine, exact>> /\ path' = Append(path, "OutsideExtent")
  /\ pc = "start" /\ Blank(req)
  /\ out' = [NoOut EXCEPT !.status = 200, !.px = [j \in 1 .. req.box[6] |-> [i \in 1 .. req.box[5] |-> Mask({"dark"})]]]
  /\ pc' = "done"
  /\ UNCHANGED <<req, cb, actual, authz, cov>>

\* wms.py:107-117 (map) / :212-219 (featureinfo)
CollectLayers ==
  /\ UNCHANGED <<geo, combine, exact>> /\ path' = Append(path, "CollectLayers")
  /\ pc = "start" /\ req.f \in {"wms.map", "wms.fi"} /\ ~Blank(req)
  /\ actual' = Collect(<<>>, req.ls, req.f = "wms.map")
  /\ pc' = "authorize"
  /\ UNCHANGED <<req, cb, authz, cov, out>>

\* WMSServer.authorized_layers(feature, ...)
Flag(f) == CASE f \in {"wms.map", "wms.caps"} -> "map"
             [] f \in {"wms.fi", "wmts.fi.kvp", "wmts.fi.rest"} -> "featureinfo"
             [] OTHER -> "tile"
CallAuthorize ==
  /\ UNCHANGED <<geo, combine, exact>> /\ path' = Append(path, "CallAuthorize")
  /\ pc = "authorize" /\ req.f \in {"wms.map", "wms.fi"}
  /\ IF cb.authorized = "unauthenticated"
       THEN /\ out' = Error(401) /\ pc' = "done" /\ UNCHANGED <<authz, cov>>
     ELSE IF cb.authorized = "full"
       THEN /\ authz' = [all |-> TRUE, lims |-> <<>>] /\ cov' = {} /\ pc' = "filter" /\ UNCHANGED out
     ELSE /\ authz' = [all |-> FALSE,
                       lims |-> IF cb.authorized = "partial"
                                  THEN [n \in {m \in DOMAIN cb.layers : cb.layers[m][Flag(req.f)]} |-> cb.layers[n].lim]
                                  ELSE <<>>]
          /\ cov' = IF cb.glob = NONE THEN {} ELSE {cb.glob}
          /\ pc' = "filter" /\ UNCHANGED out
  /\ UNCHANGED <<req, cb, actual>>

\* WMSServer.filter_actual_layers: explicitly requested and not authorized -> 403, implicitly (member of a requested
\* group) -> dropped; authorized with limited_to -> wrapped in LimitedLayer (kept in authz.lims)
FilterActualLayers ==
  /\ UNCHANGED <<geo, combine, exact>> /\ path' = Append(path, "FilterActualLayers")
  /\ pc = "filter"
  /\ IF authz.all THEN /\ pc' = "render" /\ UNCHANGED <<actual, out>>
     ELSE IF \E n \in Range(actual) : n \notin DOMAIN authz.lims /\ n \in req.expl
       THEN /\ out' = Error(403) /\ pc' = "done" /\ UNCHANGED actual
     ELSE /\ actual' = SelectSeq(actual, LAMBDA n : n \in DOMAIN authz.lims)
          /\ pc' = "render" /\ UNCHANGED out
  /\ UNCHANGED <<req, cb, authz, cov>>

LimOf(n) == IF authz.all \/ authz.lims[n] = NONE THEN {} ELSE {authz.lims[n]}

\* LayerRenderer.render + LayerMerger.merge: every remaining layer is fetched (LimitedLayer does not restrict the
\* upstream request), clipped to its own coverage, composited bottom to top, the result clipped to the request coverage.
\* A request reduced to the part inside the SRS extent is rendered and masked as the sub-query (code as found: the masks
\* are drawn in the geometry of the sub-query, see SubClass) and pasted: outside the pasted rectangle nothing is shown
PixelAllowed(b, i, j) ==
  LET sub == Clipped(req) /\ ~exact
      s == Sub(b)
      cls(ids) == IF sub THEN SubClassSet(ids, s, i, j) ELSE ClassSetAt(ids, b, i, j)
      cl == [k \in DOMAIN actual |-> cls(LimOf(actual[k]))]
      shown == {actual[k] : k \in {k \in DOMAIN actual : cl[k] # "out" /\ \A m \in DOMAIN actual : m > k => cl[m] # "in"}}
      under == IF \A k \in DOMAIN actual : cl[k] # "in" THEN {"dark"} ELSE {}
      gc == cls(cov)
  IN IF gc = "out" THEN {"dark"} ELSE IF gc = "band" THEN shown \cup under \cup {"dark"} ELSE shown \cup under

RenderAndMerge ==
  /\ UNCHANGED <<geo, combine, exact>> /\ path' = Append(path, "RenderAndMerge")
  /\ pc = "render" /\ req.f = "wms.map"
  /\ LET b == req.box IN
     out' = [NoOut EXCEPT !.status = 200, !.ups_must = Range(actual), !.ups_may = Range(actual),
                          !.px = [j \in 1 .. b[6] |-> [i \in 1 .. b[5] |->
                                    IF Clipped(req) /\ ~InPaste(Sub(b), i - 1, j - 1) THEN Mask({"dark"})
                                    ELSE Mask(PixelAllowed(b, i - 1, j - 1))]]]
  /\ pc' = "done"
  /\ UNCHANGED <<req, cb, actual, authz, cov>>

\* wms.py:226-238 + LimitedLayer.get_info: the query point is the upper left corner of pixel (I, J);
\* GeomCoverage.contains(point) is true in the interior only; exactly on the boundary both answers are accepted
InfoGate ==
  /\ UNCHANGED <<geo, combine, exact>> /\ path' = Append(path, "InfoGate")
  /\ pc = "render" /\ req.f = "wms.fi"
  /\ LET pt == Corner(req.box, req.pos[1], req.pos[2])
         gcl == IF cov = {} THEN "in" ELSE PointClassAt(CHOOSE id \in cov : TRUE, pt)
         lcl(n) == IF LimOf(n) = {} THEN "in" ELSE PointClassAt(CHOOSE id \in LimOf(n) : TRUE, pt)
         must == {n \in Range(actual) : gcl = "in" /\ lcl(n) = "in"}
         may  == {n \in Range(actual) : gcl # "out" /\ lcl(n) # "out"}
     IN out' = [NoOut EXCEPT !.status = 200, !.info_must = must, !.info_may = may, !.ups_must = must, !.ups_may = may]
  /\ pc' = "done"
  /\ UNCHANGED <<req, cb, actual, authz, cov>>

\* ---------------------------------------------------------------------------------------------------------
\* WMS GetCapabilities: authorized_capability_layers + FilteredRootLayer (the unnamed root is not filtered)
Extent(n) == IF n = "g"
               THEN (IF \E m \in Range(Group) \cup (IF GroupThis THEN {"g"} ELSE {}) : Kinds[m] \in {"cache", "cachej"}
                       THEN "grid" ELSE "world")
               ELSE IF Kinds[n] \in {"cache", "cachej"} THEN "grid" ELSE "world"
\* FilteredRootLayer.layer_permitted: "yes" / "no" / "maybe" (the geometry only touches the extent)
GeomMeets(id, n) == IF id = NONE \/ Extent(n) = "world" THEN "yes"
                    ELSE IF IsRaster(geo[id]) THEN geo[id].grid
                    ELSE IF IntersectsOpen(id, GridRect) THEN "yes"
                    ELSE IF IntersectsClosed(id, GridRect) THEN "maybe" ELSE "no"
LayerPermitted(n) ==
  IF ~(HasEntry(n) /\ Entry(n).map) THEN "no"
  ELSE LET a == GeomMeets(Entry(n).lim, n)
           b == GeomMeets(cb.glob, n)
       IN IF a = "no" \/ b = "no" THEN "no" ELSE IF a = "maybe" \/ b = "maybe" THEN "maybe" ELSE "yes"
Listed(n, lvl) ==    \* lvl = "must": certainly listed, "may": possibly listed
  LET ok(m) == IF lvl = "must" THEN LayerPermitted(m) = "yes" ELSE LayerPermitted(m) # "no" IN
  IF n = "g" THEN ok("g") /\ (GroupThis \/ \E m \in Range(Group) : ok(m))
  ELSE IF n \in Range(Group) THEN ok("g") /\ (GroupThis \/ \E m \in Range(Group) : ok(m)) /\ ok(n)
  ELSE ok(n)

WmsCapabilities ==
  /\ UNCHANGED <<geo, combine, exact>> /\ path' = Append(path, "WmsCapabilities")
  /\ pc = "start" /\ req.f = "wms.caps"
  /\ out' = IF cb.authorized = "unauthenticated" THEN Error(401)
            ELSE IF cb.authorized = "full" THEN [NoOut EXCEPT !.status = 200, !.list_must = WmsNames, !.list_may = WmsNames]
            ELSE IF cb.authorized = "partial"
              THEN [NoOut EXCEPT !.status = 200, !.list_must = {n \in WmsNames : Listed(n, "must")},
                                 !.list_may = {n \in WmsNames : Listed(n, "may")}]
            ELSE Error(403)
  /\ pc' = "done"
  /\ UNCHANGED <<req, cb, actual, authz, cov>>

\* ---------------------------------------------------------------------------------------------------------
\* tile services: TileServer / KMLServer / WMTSServer .authorize_tile_layer
TileAuthorize ==
  /\ UNCHANGED <<geo, combine, exact>> /\ path' = Append(path, "TileAuthorize")
  /\ pc = "start" /\ IsTileReq(req.f)
  /\ LET key == Flag(req.f) IN
     IF cb.authorized = "unauthenticated" THEN /\ out' = Error(401) /\ pc' = "done" /\ UNCHANGED cov
     ELSE IF cb.authorized = "full" THEN /\ cov' = {} /\ pc' = "tile" /\ UNCHANGED out
     ELSE IF HasEntry(req.lay) /\ Entry(req.lay)[key]
       THEN /\ cov' = LET l == IF Entry(req.lay).lim = NONE THEN {} ELSE {Entry(req.lay).lim}
                          g == IF cb.glob = NONE THEN {} ELSE {cb.glob}
                      IN IF combine THEN l \cup g ELSE IF l # {} THEN l ELSE g
            /\ pc' = "tile" /\ UNCHANGED out
     ELSE /\ out' = Error(403) /\ pc' = "done" /\ UNCHANGED cov
  /\ UNCHANGED <<req, cb, actual, authz>>

\* TileLayer.render: coverage.contains(tile_bbox) -> as is; .intersects -> masked; else empty_response (no upstream).
\* Both tests are made in the SRS of the coverage: with a raster entry (oblique world) the code tests the lon/lat envelope
\* of the tile, so a tile the area misses may still be rendered and masked completely (upstream request, all pixels dark)
TileRender ==
  /\ UNCHANGED <<geo, combine, exact>> /\ path' = Append(path, "TileRender")
  /\ pc = "tile" /\ req.f \in {"tms", "kml", "wmts.kvp", "wmts.rest"}
  /\ LET b == TileBox(req.tile)
         r == BoxRect(b)
         n == req.lay
         all(v) == [j \in 1 .. b[6] |-> [i \in 1 .. b[5] |-> Mask({v})]]
         masked == [j \in 1 .. b[6] |-> [i \in 1 .. b[5] |->
                     LET c == ClassSetAt(cov, b, i - 1, j - 1)
                     IN Mask(IF c = "out" THEN {"dark"} ELSE IF c = "in" THEN {n} ELSE {n, "dark"})]]
         envelope == \E id \in cov : IsRaster(geo[id])
     IN out' =
        IF \A id \in cov : CoversTile(id, r)
          THEN [NoOut EXCEPT !.status = 200, !.ups_must = {n}, !.ups_may = {n}, !.px = all(n)]
        ELSE IF Cardinality(cov) = 1 /\ MissesTile(CHOOSE id \in cov : TRUE, r)
          THEN [NoOut EXCEPT !.status = 200, !.ups_may = IF envelope THEN {n} ELSE {}, !.px = all("dark")]
        ELSE IF Cardinality(cov) = 1 /\ EntersTile(CHOOSE id \in cov : TRUE, r)
          THEN [NoOut EXCEPT !.status = 200, !.ups_must = {n}, !.ups_may = {n}, !.px = masked]
        ELSE \* the area only touches the tile, or (repaired variant) two areas whose intersection is not modelled:
             \* masked or empty, the pixels say which
             [NoOut EXCEPT !.status = 200, !.ups_may = {n}, !.px = masked]
  /\ pc' = "done"
  /\ UNCHANGED <<req, cb, actual, authz, cov>>

\* WMTSServer.featureinfo: wmts.py:133-140
TileInfoGate ==
  /\ UNCHANGED <<geo, combine, exact>> /\ path' = Append(path, "TileInfoGate")
  /\ pc = "tile" /\ req.f \in {"wmts.fi.kvp", "wmts.fi.rest"}
  /\ LET pt == Corner(TileBox(req.tile), req.pos[1], req.pos[2])
         cls == {PointClassAt(id, pt) : id \in cov}
         must == IF cls \subseteq {"in"} THEN {req.lay} ELSE {}
         may  == IF "out" \in cls THEN {} ELSE {req.lay}
     IN out' = [NoOut EXCEPT !.status = 200, !.info_must = must, !.info_may = may, !.ups_must = must, !.ups_may = may]
  /\ pc' = "done"
  /\ UNCHANGED <<req, cb, actual, authz, cov>>

\* KMLServer.kml (super overlay document), TileServer.tms_capabilities for one layer: authorization only
TileDocument ==
  /\ UNCHANGED <<geo, combine, exact>> /\ path' = Append(path, "TileDocument")
  /\ pc = "tile" /\ req.f \in {"kml.doc", "tms.layer"}
  /\ out' = [NoOut EXCEPT !.status = 200, !.list_must = {req.lay}, !.list_may = {req.lay}]
  /\ pc' = "done"
  /\ UNCHANGED <<req, cb, actual, authz, cov>>

\* TileServer / WMTSServer .authorized_tile_layers
TileCapabilities ==
  /\ UNCHANGED <<geo, combine, exact>> /\ path' = Append(path, "TileCapabilities")
  /\ pc = "start" /\ req.f \in {"tms.caps", "wmts.caps"}
  /\ out' = IF cb.authorized = "unauthenticated" THEN Error(401)
            ELSE IF cb.authorized = "full" THEN [NoOut EXCEPT !.status = 200, !.list_must = TileLayers, !.list_may = TileLayers]
            ELSE IF cb.authorized = "none" THEN Error(403)
            ELSE LET s == {n \in TileLayers : HasEntry(n) /\ Entry(n).tile} IN
                 [NoOut EXCEPT !.status = 200, !.list_must = s, !.list_may = s]
  /\ pc' = "done"
  /\ UNCHANGED <<req, cb, actual, authz, cov>>

---------------------------------------------------------------------------
Next == OutsideExtent \/ CollectLayers \/ CallAuthorize \/ FilterActualLayers \/ RenderAndMerge \/ InfoGate \/ WmsCapabilities
        \/ TileAuthorize \/ TileRender \/ TileInfoGate \/ TileDocument \/ TileCapabilities

PermRecs == {[map |-> p.map, featureinfo |-> p.featureinfo, tile |-> p.tile, lim |-> l] : p \in PermOpts, l \in LimIds}
LayerTables == UNION {[S -> PermRecs] : S \in SUBSET EntryNames}
CBs == {[authorized |-> a, layers |-> <<>>, glob |-> g] : a \in AuthKinds \ {"partial"}, g \in {NONE}}
       \cup (IF "partial" \in AuthKinds
               THEN {[authorized |-> "partial", layers |-> t, glob |-> g] : t \in LayerTables, g \in GlobIds}
               ELSE {})

Init ==
  /\ req \in Requests /\ cb \in CBs
  /\ pc = "start" /\ actual = <<>> /\ authz = [all |-> FALSE, lims |-> <<>>] /\ cov = {} /\ out = NoOut /\ path = <<>>
  /\ geo = GeomTab /\ combine \in CombineChoices /\ exact \in ExactChoices

Spec == Init /\ [][Next]_vars

---------------------------------------------------------------------------
\* THE PROPERTY, stated on the request, the callback result and the response only
Done == pc = "done"
\* is layer n allowed for the feature of this request?
Permitted(n) == cb.authorized = "full" \/ (HasEntry(n) /\ Entry(n)[Flag(req.f)])
\* the areas the callback limits layer n / the whole request to
AreasOf(n) == IF cb.authorized # "partial" THEN {}
              ELSE (IF HasEntry(n) /\ Entry(n).lim # NONE THEN {Entry(n).lim} ELSE {})
                   \cup (IF cb.glob # NONE THEN {cb.glob} ELSE {})
PxRows == DOMAIN out.px
PxCols == IF out.px = <<>> THEN {} ELSE DOMAIN out.px[1]
Seen(o) == {v \in Values \ {"dark"} : \E j \in DOMAIN o.px : \E i \in DOMAIN o.px[j] : Has(o.px[j][i], v)}

\* a denied layer: no pixel, no feature info, no upstream request, not listed
DeniedStaysDarkOn(o) ==
  o.status = 200 =>
    \A n \in WmsNames : ~Permitted(n) => n \notin Seen(o) \cup o.ups_may \cup o.info_may \cup o.list_may
DeniedStaysDark == Done => DeniedStaysDarkOn(out)

\* no content more than one pixel outside an area the layer / the request is limited to
ClippedOutsideOn(o) ==
  o.status = 200 /\ o.px # <<>> =>
    LET b == BoxOf(req) IN
    \A j \in DOMAIN o.px : \A i \in DOMAIN o.px[j] : \A n \in Values \ {"dark"} :
       Has(o.px[j][i], n) => \A id \in AreasOf(n) : ClassAt(id, b, i - 1, j - 1) # "out"
ClippedOutside == Done => ClippedOutsideOn(out)

\* content well inside is kept: where the unrestricted rendering of the same request shows layer v, v is permitted and
\* the pixel lies more than one pixel inside every area v is limited to, the response shows v.  A WMS service with an
\* extent for the request SRS renders nothing outside that extent: content is demanded more than one pixel inside it only
RefTop == IF req.f = "wms.map"
            THEN LET s == Collect(<<>>, req.ls, TRUE) IN IF s = <<>> THEN "dark" ELSE s[Len(s)]
            ELSE req.lay
ContentInsideOn(o) ==
  o.status = 200 /\ o.px # <<>> /\ RefTop # "dark" /\ Permitted(RefTop) =>
    LET b == BoxOf(req) IN
    \A j \in DOMAIN o.px : \A i \in DOMAIN o.px[j] :
       (/\ (req.f = "wms.map" /\ HasExt) => WellInExt(b, i - 1, j - 1)
        /\ \A id \in AreasOf(RefTop) : ClassAt(id, b, i - 1, j - 1) = "in") => o.px[j][i] = Mask({RefTop})
ContentInside == Done => ContentInsideOn(out)

\* feature info only for permitted layers and query points inside (or exactly on the edge of) every applicable area
InfoGateOn(o) ==
  o.status = 200 /\ req.f \in {"wms.fi", "wmts.fi.kvp", "wmts.fi.rest"} =>
    LET pt == Corner(BoxOf(req), req.pos[1], req.pos[2]) IN
    \A n \in o.info_may : Permitted(n) /\ \A id \in AreasOf(n) : PointClassAt(id, pt) # "out"
InfoGateOK == Done => InfoGateOn(out)

\* unauthenticated -> 401, otherwise a response is produced (a GetMap that does not meet the SRS extent is answered with a
\* blank image whatever the callback would say: it is not asked)
StatusOK == Done => /\ out.status \in {200, 401, 403}
                    /\ IF Blank(req) THEN out.status = 200 /\ Seen(out) = {} /\ out.ups_may = {}
                       ELSE (out.status = 401) <=> (cb.authorized = "unauthenticated")
                    /\ out.ups_must \subseteq out.ups_may /\ out.info_must \subseteq out.info_may
                    /\ out.list_must \subseteq out.list_may

TypeOK == /\ pc \in {"start", "authorize", "filter", "render", "tile", "done"}
          /\ Range(actual) \subseteq WmsNames
          /\ \A id \in DOMAIN geo : IF IsRaster(geo[id]) THEN WellFormedRaster(geo[id]) ELSE WellFormed(geo[id])
          /\ HasExt => Len(Ext) = 4 /\ Ext[1] < Ext[3] /\ Ext[2] < Ext[4] /\ \A id \in DOMAIN geo : ~IsRaster(geo[id])
          /\ SubOK(req)
NoStuck == ~Done => ENABLED Next

\* observation (not part of C10): an allowed layer that the unrestricted request would NOT show because it lies below
\* an opaque layer is also missing when that opaque layer is denied or clipped (pruning precedes authorization)
PrunedBelowDenied ==
  /\ Done /\ req.f = "wms.map" /\ out.status = 200
  /\ \E n \in Range(Collect(<<>>, req.ls, FALSE)) \ Range(Collect(<<>>, req.ls, TRUE)) :
        /\ Permitted(n)
        /\ \E t \in Range(Collect(<<>>, req.ls, TRUE)) : ~Permitted(t) \/ AreasOf(t) # {}

\* one line per terminal state: the table (request, callback result) -> response   (spec -> code conformance)
PropertyOn(o) == DeniedStaysDarkOn(o) /\ ClippedOutsideOn(o) /\ ContentInsideOn(o) /\ InfoGateOn(o)
Emit == Done => PrintT(<<"case", req, cb, out, PrunedBelowDenied, PropertyOn(out), path>>)
=============================================================================
