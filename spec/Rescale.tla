------------------------------ MODULE Rescale ------------------------------
(***************************************************************************)
(* Tiles made from other levels: `upscale_tiles` / `downscale_tiles` /     *)
(* `cache_rescaled_tiles` (mapproxy.cache.tile.TileManager.load_tile_coords,*)
(* _load_tile_coords, _scaled_tile).                                        *)
(*                                                                         *)
(* World: a factor-2 quadtree of levels 0 .. MaxLevel (level z has 2^z x   *)
(* 2^z tiles).  A cell is a tile of the finest level; the picture of a     *)
(* tile is a function from the cells it covers to the ORIGIN of what is    *)
(* shown there: the original tile (put into the cache by somebody, or      *)
(* fetched from upstream) whose picture was scaled into that place, or     *)
(* Blank.  The upstream delivers tiles of the levels in SrcLevels only     *)
(* (min_res / max_res of the source); K is `rescale_tiles`: > 0 downscale  *)
(* (make a tile from the next finer levels), < 0 upscale (from the coarser *)
(* ones), 0 none.                                                          *)
(*                                                                         *)
(* One request (load_tile_coords of tiles of one level) is one action; the *)
(* recursive algorithm of the code is transcribed as recursive operators   *)
(* that thread the state of the request:                                   *)
(*   store    the cache backend                                            *)
(*   memo     `rescaled_tiles` (tile -> picture, MISSING marker included)  *)
(*   loads    how often the backend was asked to load each tile            *)
(*   fetched  tiles requested from upstream                                *)
(*   wrote    rescaled tiles stored (cache_rescaled_tiles)                 *)
(*   err      an IndexError left the request (as found: the stop level is  *)
(*            clamped to grid.levels, one beyond the last level)           *)
(***************************************************************************)
EXTENDS Integers, Sequences, FiniteSets, TLC

CONSTANTS MaxLevel, K, SrcLevels, CacheRescaled, StopClamp, Universe, Requests
\* Universe: tiles the environment puts / removes;  Requests: set of tile sequences (one level each) that are requested

Level == 0 .. MaxLevel
RECURSIVE Pow2(_)
Pow2(n) == IF n = 0 THEN 1 ELSE 2 * Pow2(n - 1)
Span(z) == Pow2(MaxLevel - z)                      \* cells per tile and axis
Tile == UNION {{<<z, x, y>> : x \in 0 .. Pow2(z) - 1, y \in 0 .. Pow2(z) - 1} : z \in Level}
Cell == (0 .. Pow2(MaxLevel) - 1) \X (0 .. Pow2(MaxLevel) - 1)
TileAt(c, z) == <<z, c[1] \div Span(z), c[2] \div Span(z)>>
CellsTab == [t \in Tile |-> {c \in Cell : TileAt(c, t[1]) = t}]
CellsOf(t) == CellsTab[t]
\* the cells of a tile, row by row (the order in which pictures are written down in replies and traces)
CellSeq(t) == LET n == Span(t[1]) IN [k \in 1 .. n * n |-> <<t[2] * n + ((k - 1) % n), t[3] * n + ((k - 1) \div n)>>]

Blank == <<-1, -1, -1, -1>>
OriginOf(t, by) == <<t[1], t[2], t[3], by>>        \* by: 0 put into the cache, 1 fetched from upstream
Absent == [none |-> TRUE, px |-> <<>>]             \* no tile / the RESCALE_TILE_MISSING marker / None
NotMemo == [none |-> FALSE, px |-> <<>>]
Orig(t, by) == [none |-> FALSE, px |-> [c \in CellsOf(t) |-> OriginOf(t, by)]]
Px(pic, c) == IF pic.none THEN Blank ELSE pic.px[c]

Parent(t) == <<t[1] - 1, t[2] \div 2, t[3] \div 2>>
Children(t) == <<<<t[1] + 1, 2 * t[2], 2 * t[3]>>, <<t[1] + 1, 2 * t[2] + 1, 2 * t[3]>>,
                 <<t[1] + 1, 2 * t[2], 2 * t[3] + 1>>, <<t[1] + 1, 2 * t[2] + 1, 2 * t[3] + 1>>>>
Affected(t, src) == IF src > t[1] THEN Children(t) ELSE <<Parent(t)>>

Clamp == IF StopClamp = "levels" THEN MaxLevel + 1 ELSE MaxLevel
Stop(z) == LET s == z + K IN IF s < 0 THEN 0 ELSE IF s > Clamp THEN Clamp ELSE s

VARIABLES store, reply
vars == <<store, reply>>

NoReply == [op |-> "none", tiles |-> <<>>, err |-> FALSE, pics |-> <<>>, loads |-> <<>>, fetched |-> {}, wrote |-> {}]

-----------------------------------------------------------------------------
\* the algorithm
Res(st, t) == IF st.memo[t] # NotMemo THEN st.memo[t] ELSE st.store[t]

RECURSIVE ResolveSeq(_, _, _), Scaled(_, _, _)

\* one tile of _load_tile_coords(tiles, rescale_till_zoom = stop, rescaled_tiles = memo)
ResolveOne(st, t, stop) ==
  IF st.err \/ st.memo[t] # NotMemo THEN st                                  \* source taken from rescaled_tiles: not loaded
  ELSE LET st1 == [st EXCEPT !.loads[t] = @ + 1] IN                          \* cache.load_tiles
       IF st.store[t] # Absent THEN st1
       ELSE IF t[1] \in SrcLevels
              THEN [st1 EXCEPT !.store[t] = Orig(t, 1), !.fetched = @ \cup {t}]   \* creator.create_tiles: fetched and stored
       ELSE IF K = 0 THEN st1
       ELSE Scaled(st1, t, stop)                                             \* `not created_tiles and self.rescale_tiles`

ResolveSeq(st, ts, stop) == IF ts = <<>> THEN st ELSE ResolveSeq(ResolveOne(st, Head(ts), stop), Tail(ts), stop)

Mosaic(t, aff, parts) ==
  [none |-> FALSE,
   px |-> [c \in CellsOf(t) |-> LET i == CHOOSE i \in 1 .. Len(aff) : c \in CellsOf(aff[i]) IN Px(parts[i], c)]]

\* _scaled_tile(tile, stop_zoom, rescaled_tiles)
Scaled(st, t, stop) ==
  LET st1 == [st EXCEPT !.memo[t] = Absent] IN                               \* tile.source = RESCALE_TILE_MISSING
  IF t[1] = stop THEN st1
  ELSE LET src == IF stop > t[1] THEN t[1] + 1 ELSE t[1] - 1 IN
       IF src > MaxLevel THEN [st1 EXCEPT !.err = TRUE]                      \* grid.resolutions[src_level]: IndexError
       ELSE LET aff == Affected(t, src)
                st2 == ResolveSeq(st1, aff, stop)
                parts == [i \in 1 .. Len(aff) |-> Res(st2, aff[i])]
            IN IF st2.err THEN st2
               ELSE IF \A i \in 1 .. Len(aff) : parts[i].none THEN st2       \* tile_collection.blank: stays MISSING
               ELSE LET pic == Mosaic(t, aff, parts) IN
                    [st2 EXCEPT !.memo[t] = pic,
                                !.store[t] = IF CacheRescaled THEN pic ELSE @,
                                !.wrote = IF CacheRescaled THEN @ \cup {t} ELSE @]

St0 == [store |-> store, memo |-> [t \in Tile |-> NotMemo], loads |-> [t \in Tile |-> 0], fetched |-> {}, wrote |-> {},
        err |-> FALSE]
PicSeq(pic, t) == IF pic.none THEN <<>> ELSE [k \in 1 .. Len(CellSeq(t)) |-> pic.px[CellSeq(t)[k]]]
Loaded(st) == {t \in Tile : st.loads[t] > 0}

Request(S) ==
  LET st == ResolveSeq(St0, S, Stop(S[1][1])) IN
  /\ store' = st.store
  /\ reply' = [op |-> "request", tiles |-> S, err |-> st.err,
               pics |-> IF st.err THEN <<>> ELSE [i \in 1 .. Len(S) |-> PicSeq(Res(st, S[i]), S[i])],
               loads |-> [t \in Loaded(st) |-> st.loads[t]], fetched |-> st.fetched, wrote |-> st.wrote]

\* the environment: somebody (the seeder, an earlier configuration) puts an original tile into the cache or removes one
Put(t) == /\ store[t] = Absent
          /\ store' = [store EXCEPT ![t] = Orig(t, 0)]
          /\ reply' = [NoReply EXCEPT !.op = "put", !.tiles = <<t>>]
Remove(t) == /\ store[t] # Absent
             /\ store' = [store EXCEPT ![t] = Absent]
             /\ reply' = [NoReply EXCEPT !.op = "remove", !.tiles = <<t>>]

Init == store = [t \in Tile |-> Absent] /\ reply = NoReply
Next == (\E t \in Universe : Put(t) \/ Remove(t)) \/ (\E S \in Requests : Request(S))
Spec == Init /\ [][Next]_vars

\* all caches filled with originals of the Universe at once (exhaustive runs start from every such cache)
InitAny == /\ \E U \in SUBSET Universe : store = [t \in Tile |-> IF t \in U THEN Orig(t, 0) ELSE Absent]
           /\ reply = NoReply
SpecAny == InitAny /\ [][\E S \in Requests : Request(S)]_vars

-----------------------------------------------------------------------------
\* what the documentation promises, stated without the algorithm
Dir == IF K > 0 THEN 1 ELSE -1
AbsK == IF K > 0 THEN K ELSE -K
\* levels that may supply the picture of a tile of level z: z, then the next |K| levels in the direction of K
RangeOf(z) == {z2 \in Level : \E d \in 0 .. AbsK : z2 = z + d * Dir}
Avail(s, t) == s[t] # Absent \/ t[1] \in SrcLevels
Supply(s, t, c) == IF s[t] # Absent THEN s[t].px[c] ELSE OriginOf(t, 1)
\* "always returning the best available data": the nearest level of the range that has the place
Expected(s, c, z) ==
  LET cand == {z2 \in RangeOf(z) : Avail(s, TileAt(c, z2))} IN
  IF cand = {} THEN Blank
  ELSE LET zb == CHOOSE z2 \in cand : \A z3 \in cand : (z2 - z) * Dir <= (z3 - z) * Dir IN Supply(s, TileAt(c, zb), c)

IsRequest == reply'.op = "request"
ReqLevel == reply'.tiles[1][1]
PicOf(i) == LET t == reply'.tiles[i] p == reply'.pics[i] IN
            [c \in CellsOf(t) |-> IF p = <<>> THEN Blank
                                  ELSE p[CHOOSE k \in 1 .. Len(CellSeq(t)) : CellSeq(t)[k] = c]]

NoError == [][IsRequest => ~reply'.err]_vars
BestAvailable ==
  [][(IsRequest /\ ~reply'.err) =>
       \A i \in 1 .. Len(reply'.tiles) : \A c \in CellsOf(reply'.tiles[i]) : PicOf(i)[c] = Expected(store, c, ReqLevel)]_vars
\* upstream is asked only for tiles it delivers, that were not cached, and whose picture ends up in the answer
NoWastedFetch ==
  [][(IsRequest /\ ~reply'.err) =>
       \A t \in reply'.fetched :
          /\ t[1] \in SrcLevels /\ store[t] = Absent /\ t[1] \in RangeOf(ReqLevel)
          /\ \E i \in 1 .. Len(reply'.tiles) : \E c \in CellsOf(reply'.tiles[i]) \cap CellsOf(t) : PicOf(i)[c] = OriginOf(t, 1)]_vars
\* the cache changes only by fetched originals and (if configured) by rescaled tiles, which show what was answered;
\* nothing is overwritten or removed, no empty picture is stored
StoreDiscipline ==
  [][IsRequest =>
       \A t \in Tile :
          store'[t] # store[t] =>
             /\ store[t] = Absent
             /\ \/ t \in reply'.fetched /\ store'[t] = Orig(t, 1)
                \/ /\ CacheRescaled /\ t \in reply'.wrote /\ t[1] \notin SrcLevels
                   /\ ~store'[t].none /\ \E c \in CellsOf(t) : store'[t].px[c] # Blank
                   /\ \A c \in CellsOf(t) : store'[t].px[c] \in {Blank, Expected(store, c, t[1])}]_vars
WroteOnlyIfConfigured == [][(IsRequest /\ ~CacheRescaled) => reply'.wrote = {}]_vars
\* a tile that is cached is loaded once and answered as it is
CachedServedAsIs ==
  [][(IsRequest /\ ~reply'.err) =>
       \A i \in 1 .. Len(reply'.tiles) : store[reply'.tiles[i]] # Absent =>
           reply'.pics[i] = PicSeq(store[reply'.tiles[i]], reply'.tiles[i])]_vars
\* cost: nothing outside the range is touched; the number of loads is bounded by the tree below / above the request
TouchesOnlyRange ==
  [][(IsRequest /\ ~reply'.err) => \A t \in DOMAIN reply'.loads : t[1] \in RangeOf(ReqLevel)]_vars

\* OBSERVATION (fails with cache_rescaled_tiles and |K| >= 2): a rescaled tile that is stored shows the best data
\* available within ITS OWN range - in the code it was cut to the range of the request that made it
StoredWithinOwnRange ==
  [][IsRequest =>
       \A t \in reply'.wrote : \A c \in CellsOf(t) : store'[t].px[c] = Expected(store, c, t[1])]_vars

TypeOK == /\ \A t \in Tile : store[t] = Absent \/ (~store[t].none /\ DOMAIN store[t].px = CellsOf(t))
=============================================================================
