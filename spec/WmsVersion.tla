----------------------------- MODULE WmsVersion -----------------------------
(***************************************************************************)
(* WMS version negotiation (OGC WMS 1.3.0, 6.2.4; mapproxy/request/wms:    *)
(* wms_request, negotiate_version) with a configured list of versions      *)
(* (services.wms.versions).                                                *)
(*                                                                         *)
(* Versions are numbered 1 .. MaxV in ascending order (1.0.0 = 1, an       *)
(* unknown version between 1.1.1 and 1.3.0 = 4, ...); 0 stands for "no     *)
(* VERSION parameter".  `vers` is the list the server negotiates with:     *)
(* initially the configured versions, ascending.                           *)
(*                                                                         *)
(*   a request without version           -> the highest supported version  *)
(*   a supported version                 -> that version                   *)
(*   lower than all supported            -> the lowest supported           *)
(*   otherwise                           -> the highest supported version  *)
(*                                          below the requested one        *)
(*                                                                         *)
(* Variant = "asfound": negotiate_version pops the candidates off the list *)
(* it was given - the list of the server - so a request for a version      *)
(* between two supported ones shortens what the server supports for every  *)
(* later request (an empty list stands for "all versions MapProxy knows"). *)
(***************************************************************************)
EXTENDS Naturals, Sequences, FiniteSets, TLC

CONSTANTS Configured, Known, MaxV, Variant     \* Configured \subseteq Known \subseteq 1 .. MaxV

VARIABLES vers, last
vars == <<vers, last>>

RECURSIVE SortedSeq(_)
SortedSeq(S) == IF S = {} THEN <<>> ELSE LET m == CHOOSE x \in S : \A y \in S : x <= y IN <<m>> \o SortedSeq(S \ {m})
Range(q) == {q[i] : i \in 1 .. Len(q)}
Max(S) == CHOOSE x \in S : \A y \in S : y <= x
Min(S) == CHOOSE x \in S : \A y \in S : x <= y

Init == vers = SortedSeq(Configured) /\ last = [req |-> 0, ans |-> 0]

\* the negotiation rule for a set of supported versions
Negotiated(v, S) == IF v = 0 THEN Max(S) ELSE IF v \in S THEN v ELSE IF v < Min(S) THEN Min(S) ELSE Max({x \in S : x < v})

\* what the code computes, and what it leaves of the list
Eff(q) == IF q = <<>> THEN Known ELSE Range(q)               \* an empty list: "all versions MapProxy knows"
Error == MaxV + 1                                            \* the request ends in an internal error
Answer(v) == IF vers = <<>> /\ v = 0 THEN Error             \* max() of an empty list
             ELSE Negotiated(v, Eff(vers))
\* negotiate_version pops until it finds a version that is not higher than the requested one - only when the version is
\* not supported and lies inside the range of the supported ones
Popped(v) ==
  IF v = 0 \/ v \in Range(vers) \/ vers = <<>> \/ v < vers[1] \/ v > vers[Len(vers)] THEN vers
  ELSE SelectSeq(vers, LAMBDA x : x < Negotiated(v, Range(vers)))

Request(v) ==
  /\ last' = [req |-> v, ans |-> Answer(v)]
  /\ vers' = IF Variant = "asfound" THEN Popped(v) ELSE vers

Next == \E v \in 0 .. MaxV : Request(v)
Spec == Init /\ [][Next]_vars

-----------------------------------------------------------------------------
\* the answer depends on the request and the configuration only, never on earlier requests
Stateless == [][last'.ans = Negotiated(last'.req, Configured)]_vars
ConfigurationKept == Range(vers) = Configured
OnlyConfiguredVersions == last.ans = 0 \/ last.ans \in Configured
=============================================================================
